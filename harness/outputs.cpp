// C20 / C16 conformance harness: executes scripted runs on the real TeamCityTestOutput or JUnitTestOutput,
// driven by the real TestRegistry::runAllTests through a TestResult whose virtual callbacks are probed
// (marker, then the real TestResult code).  Everything the reporter writes goes through the
// PlatformSpecificFPuts / FOpen / FClose seams and is captured byte for byte.
// Output: one ndjson "capture" line per callback (op, arguments as hex strings, bytes written to stdout
// during the call, files written during the call).  The bytes are decoded by independent decoders in
// python (tools/teamcity_decode.py, tools/junit_project.py); this program never judges.
// Usage: outputs <teamcity|junit> <script.tsv> <capture.ndjson>
// Script lines (TSV: op, a, b, c, n, k; strings hex encoded):
//   start (a=package, k=run-ignored 0|1, n=run options: colour + 2 * verbosity 0..2; a NEW reporter object)
//   group a=name | test a=name b=file n=line k=n|i | skip (same; name starts with z)
//   print a=text | fail a=file c=message n=line | endtest | endgroup | end (runs everything since start / restart) | reset
//   restart (k=run-ignored): a further run (new registry, new result) served by the SAME reporter object
//   setpkg a=package (JUnit: setPackageName) | fname a=group (JUnit: the public createFileName, answer logged)
//     - both wherever no group is open: between start/restart and end they are executed at that place of the run (in front of
//       the registry's next group-start / tests-ended callback), after `end' they are executed at once.
#include "vh.h"
#include "CppUTest/TestHarness.h"
#include "CppUTest/TestRegistry.h"
#include "CppUTest/TestOutput.h"
#include "CppUTest/TestResult.h"
#include "CppUTest/TestFilter.h"
#include "CppUTest/TeamCityTestOutput.h"
#include "CppUTest/JUnitTestOutput.h"
#include "CppUTest/PlatformSpecificFunctions.h"

// ---------------------------------------------------------------- capture of the platform seams
struct IoEvent { int kind; int file; std::string data; };   // kind: 0 stdout puts, 1 open(name), 2 puts(file), 3 close(file)
static std::vector<IoEvent> g_io;
static int g_nfiles = 0;
static char g_handles[4096];   // addresses serve as file handles

static void cap_fputs(const char* s, PlatformSpecificFile f)
{
    IoEvent e;
    if (f == PlatformSpecificStdOut) { e.kind = 0; e.file = -1; }
    else { e.kind = 2; e.file = (int) ((char*) f - g_handles); }
    e.data = s ? s : "";
    g_io.push_back(e);
}
static PlatformSpecificFile cap_fopen(const char* name, const char*)
{
    IoEvent e; e.kind = 1; e.file = g_nfiles; e.data = name ? name : "";
    g_io.push_back(e);
    return (PlatformSpecificFile) (g_handles + (g_nfiles++ % 4096));
}
static void cap_fclose(PlatformSpecificFile f)
{
    IoEvent e; e.kind = 3; e.file = (int) ((char*) f - g_handles);
    g_io.push_back(e);
}
static void cap_flush() {}

// ---------------------------------------------------------------- probe in front of the real TestResult
struct Marker { std::string json; size_t io; };
static std::vector<Marker> g_marks;

static std::string H(const SimpleString& s) { return "\"" + vh_hex(std::string(s.asCharString())) + "\""; }
static std::string H(const std::string& s) { return "\"" + vh_hex(s) + "\""; }
static std::string g_pkg;     // package name given to the JUnit reporter for this run
static int g_opts = 0;        // run options given to the reporter: colour + 2 * verbosity
static void mark(const std::string& j) { Marker m; m.json = j; m.io = g_io.size(); g_marks.push_back(m); }

// calls on the reporter object itself, made while no group is open
struct MidOp { int kind; std::string a; };     // kind 0 setPackageName(a), 1 createFileName(a)
static TestOutput* g_output = NULL;            // the reporter object: lives from `start' to the next `start' / `reset'
static JUnitTestOutput* g_junit = NULL;        // the same object when it is a JUnit reporter
static void exec_mid(const MidOp& op)
{
    if (op.kind == 0) {
        mark("\"op\":\"setpkg\",\"pkg\":" + H(op.a));
        g_junit->setPackageName(op.a.c_str());
        g_pkg = op.a;
    } else {
        SimpleString r = g_junit->createFileName(op.a.c_str());
        mark("\"op\":\"fname\",\"g\":" + H(op.a) + ",\"fname\":" + H(r));
    }
}

class ProbeResult : public TestResult
{
public:
    bool runIgnored, again;
    const std::vector<std::vector<MidOp> >* mids;   // mids[k]: calls on the reporter in front of the k-th group start; last entry: in front of tests-ended
    size_t groupsSeen;
    explicit ProbeResult(TestOutput& o) : TestResult(o), runIgnored(false), again(false), mids(NULL), groupsSeen(0) {}
    void midOps(bool rest)
    {
        if (!mids) return;
        for (size_t k = groupsSeen; k < mids->size() && (rest || k == groupsSeen); k++)
            for (size_t i = 0; i < (*mids)[k].size(); i++) exec_mid((*mids)[k][i]);
    }
    void testsStarted() CPPUTEST_OVERRIDE
    {
        char b[64]; snprintf(b, sizeof b, ",\"color\":%s,\"verb\":%d", (g_opts & 1) ? "true" : "false", g_opts >> 1);
        if (again) mark(std::string("\"op\":\"restart\",\"ri\":") + (runIgnored ? "true" : "false"));
        else mark(std::string("\"op\":\"start\",\"ri\":") + (runIgnored ? "true" : "false") + ",\"pkg\":" + H(g_pkg) + b);
        TestResult::testsStarted();
    }
    void testsEnded() CPPUTEST_OVERRIDE { midOps(true); mark("\"op\":\"end\""); TestResult::testsEnded(); }
    void currentGroupStarted(UtestShell* t) CPPUTEST_OVERRIDE
    {
        midOps(false); groupsSeen++;
        mark("\"op\":\"group\",\"g\":" + H(t->getGroup())); TestResult::currentGroupStarted(t);
    }
    void currentGroupEnded(UtestShell* t) CPPUTEST_OVERRIDE { mark("\"op\":\"endgroup\""); TestResult::currentGroupEnded(t); }
    void currentTestStarted(UtestShell* t) CPPUTEST_OVERRIDE;
    void currentTestEnded(UtestShell* t) CPPUTEST_OVERRIDE { mark("\"op\":\"endtest\""); TestResult::currentTestEnded(t); }
    void countFilteredOut() CPPUTEST_OVERRIDE { mark("\"op\":\"skip\""); TestResult::countFilteredOut(); }
    void addFailure(const TestFailure& f) CPPUTEST_OVERRIDE
    {
        char b[64]; snprintf(b, sizeof b, ",\"line\":%lu", (unsigned long) f.getFailureLineNumber());
        mark("\"op\":\"fail\",\"file\":" + H(f.getFileName()) + b + ",\"msg\":" + H(f.getMessage()));
        TestResult::addFailure(f);
    }
    void print(const char* text) CPPUTEST_OVERRIDE { mark("\"op\":\"print\",\"txt\":" + H(std::string(text))); TestResult::print(text); }
};

// ---------------------------------------------------------------- scripted tests
struct Action { int kind; std::string a, c; size_t n; };   // kind 0 print(a), 1 fail(file a, line n, message c)
struct Script { std::string group, name, file; size_t line; bool ignoredKind; std::vector<Action> acts; };

class ScriptTest : public Utest
{
    const Script* s_; UtestShell* shell_;
public:
    ScriptTest(const Script* s, UtestShell* shell) : s_(s), shell_(shell) {}
    void testBody() CPPUTEST_OVERRIDE
    {
        for (size_t i = 0; i < s_->acts.size(); i++) {
            const Action& a = s_->acts[i];
            if (a.kind == 0) shell_->print(a.a.c_str(), "", 0);
            else shell_->addFailure(TestFailure(shell_, a.a.c_str(), a.n, SimpleString(a.c.c_str())));
        }
    }
};
// UtestShell::print composes "\n<file>:<line> <text>"; the probe logs the text that reaches TestResult::print

class ScriptShell : public UtestShell
{
public:
    Script s;
    explicit ScriptShell(const Script& sc) : UtestShell(), s(sc)
    { setGroupName(s.group.c_str()); setTestName(s.name.c_str()); setFileName(s.file.c_str()); setLineNumber(s.line); }
    Utest* createTest() CPPUTEST_OVERRIDE { return new ScriptTest(&s, this); }
};
class IgnScriptShell : public IgnoredUtestShell
{
public:
    Script s;
    explicit IgnScriptShell(const Script& sc) : IgnoredUtestShell(), s(sc)
    { setGroupName(s.group.c_str()); setTestName(s.name.c_str()); setFileName(s.file.c_str()); setLineNumber(s.line); }
    Utest* createTest() CPPUTEST_OVERRIDE { return new ScriptTest(&s, this); }
};

void ProbeResult::currentTestStarted(UtestShell* t)
{
    char b[64]; snprintf(b, sizeof b, ",\"line\":%lu", (unsigned long) t->getLineNumber());
    // the kind is what the test IS (IGNORE_TEST or TEST), read from the scripted object, not from willRun()
    bool ign = dynamic_cast<IgnScriptShell*>(t) != NULL;
    mark("\"op\":\"test\",\"n\":" + H(t->getName()) + ",\"file\":" + H(t->getFile()) + b + ",\"kind\":\"" + (ign ? "i" : "n") + "\"");
    TestResult::currentTestStarted(t);
}

// ---------------------------------------------------------------- log lines: one per marker, with the bytes written since
static void flush_marks(FILE* out)
{
    for (size_t m = 0; m < g_marks.size(); m++) {
        size_t from = g_marks[m].io, to = (m + 1 < g_marks.size()) ? g_marks[m + 1].io : g_io.size();
        std::string so;
        std::vector<int> order; std::map<int, std::string> name, data; std::map<int, bool> closed;
        for (size_t i = from; i < to; i++) {
            const IoEvent& e = g_io[i];
            if (e.kind == 0) so += e.data;
            else if (e.kind == 1) { order.push_back(e.file); name[e.file] = e.data; data[e.file] = ""; closed[e.file] = false; }
            else if (e.kind == 2) { if (!data.count(e.file)) { order.push_back(e.file); name[e.file] = "?unopened"; closed[e.file] = false; } data[e.file] += e.data; }
            else { if (!data.count(e.file)) { order.push_back(e.file); name[e.file] = "?unopened"; data[e.file] = ""; } closed[e.file] = true; }
        }
        fprintf(out, "{%s,\"stdout\":\"%s\",\"files\":[", g_marks[m].json.c_str(), vh_hex(so).c_str());
        for (size_t i = 0; i < order.size(); i++)
            fprintf(out, "%s{\"name\":\"%s\",\"data\":\"%s\",\"closed\":%s}", i ? "," : "", vh_hex(name[order[i]]).c_str(),
                    vh_hex(data[order[i]]).c_str(), closed[order[i]] ? "true" : "false");
        fprintf(out, "]}\n");
    }
    fflush(out);
    g_io.clear(); g_marks.clear();
}

// ---------------------------------------------------------------- the reporter object and one run served by it
static void drop_reporter() { delete g_output; g_output = NULL; g_junit = NULL; }
static void new_reporter(bool junit, const std::string& pkg, int opts)
{
    drop_reporter();
    g_nfiles = 0; g_pkg = pkg; g_opts = opts;
    if (junit) { g_junit = new JUnitTestOutput; g_junit->setPackageName(pkg.c_str()); g_output = g_junit; }
    else g_output = new TeamCityTestOutput;
    if (opts & 1) g_output->color();
    int verb = opts >> 1;
    if (verb > 0) g_output->verbose(verb == 1 ? TestOutput::level_verbose : TestOutput::level_veryVerbose);
}

static void run_execution(bool again, bool runIgnored, std::vector<Script>& scripts, const std::vector<std::vector<MidOp> >& mids, FILE* out)
{
    TestRegistry reg;
    TestFilter notZ("z");
    notZ.invertMatching();
    reg.setNameFilters(&notZ);
    if (runIgnored) reg.setRunIgnored();
    std::vector<UtestShell*> shells;
    for (size_t i = 0; i < scripts.size(); i++)
        shells.push_back(scripts[i].ignoredKind ? (UtestShell*) new IgnScriptShell(scripts[i]) : (UtestShell*) new ScriptShell(scripts[i]));
    for (size_t i = shells.size(); i-- > 0;) reg.addTest(shells[i]);     // addTest prepends
    {
        ProbeResult result(*g_output);
        result.runIgnored = runIgnored;
        result.again = again;
        result.mids = &mids;
        reg.runAllTests(result);
    }
    for (size_t i = 0; i < shells.size(); i++) delete shells[i];
    flush_marks(out);
}

int main(int argc, char** argv)
{
    if (argc < 4) return 2;
    bool junit = std::string(argv[1]) == "junit";
    FILE* in = fopen(argv[2], "r");
    FILE* out = fopen(argv[3], "w");
    if (!in || !out) return 2;
    vh_install(out);
    PlatformSpecificFPuts = cap_fputs;
    PlatformSpecificFOpen = cap_fopen;
    PlatformSpecificFClose = cap_fclose;
    PlatformSpecificFlush = cap_flush;

    std::vector<Script> scripts;
    std::vector<std::vector<MidOp> > mids(1);
    std::string group; bool runIgnored = false; bool started = false, again = false, inGroup = false;
    std::string line;
#define HERR(w) { fprintf(out, "{\"op\":\"harness-error\",\"what\":\"" w "\"}\n"); break; }
    while (vh_readline(in, line)) {
        if (line.empty()) continue;
        std::vector<std::string> f = vh_split(line);
        while (f.size() < 6) f.push_back("");
        const std::string& op = f[0];
        std::string a = vh_unhex(f[1]), b = vh_unhex(f[2]), c = vh_unhex(f[3]);
        size_t n = (size_t) atol(f[4].c_str());
        if (op == "reset") { fprintf(out, "{\"op\":\"reset\"}\n"); scripts.clear(); started = false; drop_reporter(); g_io.clear(); g_marks.clear(); continue; }
        if (op == "start" || op == "restart") {
            if (started) HERR("start inside a run")
            again = op == "restart";
            if (again && !g_output) HERR("restart without a reporter")
            if (!again) new_reporter(junit, a, (int) n);
            scripts.clear(); mids.assign(1, std::vector<MidOp>());
            runIgnored = f[5] == "1"; started = true; inGroup = false;
        }
        else if (op == "setpkg" || op == "fname") {
            if (!g_junit) HERR("setpkg / fname without a JUnit reporter")
            if (inGroup) HERR("setpkg / fname inside a group")
            MidOp m; m.kind = op == "fname"; m.a = a;
            if (started) mids.back().push_back(m);
            else { exec_mid(m); flush_marks(out); }
        }
        else if (!started) HERR("call before start")
        else if (op == "group") { if (inGroup) HERR("group inside a group") group = a; inGroup = true; mids.push_back(std::vector<MidOp>()); }
        else if (op == "test" || op == "skip") { Script s; s.group = group; s.name = a; s.file = b; s.line = n; s.ignoredKind = f[5] == "i"; scripts.push_back(s); }
        else if (op == "print" || op == "fail") {
            if (scripts.empty()) HERR("action outside a test")
            Action x; x.kind = op == "fail"; x.a = a; x.c = c; x.n = n; scripts.back().acts.push_back(x);
        }
        else if (op == "endtest") {}
        else if (op == "endgroup") inGroup = false;
        else if (op == "end") { run_execution(again, runIgnored, scripts, mids, out); started = false; }
        else HERR("unknown op")
    }
    fflush(out);
    fclose(out);
    _exit(0);
}
