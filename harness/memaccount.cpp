// Extra (not a listed property): MemoryAccountant conformance harness. One script line = one call; after each call the
// totals, the three per-size answers for every probed size and the parsed report rows are logged.
#include "vh.h"
#include "CppUTest/TestHarness.h"
#include "CppUTest/TestMemoryAllocator.h"

int main(int argc, char** argv)
{
    if (argc < 3) return 2;
    FILE* in = fopen(argv[1], "r"); FILE* out = fopen(argv[2], "w");
    if (!in || !out) return 2;
    vh_install(out);
    MemoryAccountant* acc = new MemoryAccountant;
    std::string line;
    const int NPROBE = 14; size_t probes[NPROBE] = {0, 1, 2, 3, 4, 5, 7, 8, 9, 15, 16, 17, 64, 100};
    while (vh_readline(in, line)) {
        if (line.empty()) continue;
        std::vector<std::string> f = vh_split(line);
        if (f[0] == "reset") { delete acc; acc = new MemoryAccountant; fprintf(out, "{\"op\":\"reset\"}\n"); continue; }
        size_t sz = f.size() > 1 ? (size_t) atol(f[1].c_str()) : 0;
        std::string cs = "[]";
        if (f[0] == "cache") {
            std::vector<std::string> parts = vh_split(f.size() > 2 ? f[2] : "", ',');
            size_t arr[32]; size_t n = 0; cs = "[";
            for (size_t i = 0; i < parts.size() && n < 32; i++) if (!parts[i].empty()) { arr[n] = (size_t) atol(parts[i].c_str()); cs += (n ? "," : "") + parts[i]; n++; }
            cs += "]";
            acc->useCacheSizes(arr, n);
        } else if (f[0] == "alloc") acc->alloc(sz);
        else if (f[0] == "dealloc") acc->dealloc(sz);
        else if (f[0] == "clear") acc->clear();
        else { fprintf(out, "{\"op\":\"harness-error\",\"what\":\"unknown op\"}\n"); break; }
        fprintf(out, "{\"op\":%s,\"sz\":%lu,\"cs\":%s,\"ta\":%lu,\"td\":%lu,\"probe\":[", vh_jstr(f[0]).c_str(), (unsigned long) sz, cs.c_str(),
                (unsigned long) acc->totalAllocations(), (unsigned long) acc->totalDeallocations());
        for (int i = 0; i < NPROBE; i++)
            fprintf(out, "%s{\"sz\":%lu,\"a\":%lu,\"d\":%lu,\"max\":%lu}", i ? "," : "", (unsigned long) probes[i], (unsigned long) acc->totalAllocationsOfSize(probes[i]),
                    (unsigned long) acc->totalDeallocationsOfSize(probes[i]), (unsigned long) acc->maximumAllocationAtATimeOfSize(probes[i]));
        fprintf(out, "],\"rows\":[");
        std::string rep = acc->report().asCharString();
        // rows: "<size or other>               %5d            %5d             %5d\n" after the header line
        size_t p = rep.find("at one time\n"); bool first = true; bool bad = false;
        if (p != std::string::npos) {
            p += strlen("at one time\n");
            while (p < rep.size()) {
                size_t e = rep.find('\n', p); if (e == std::string::npos) break;
                std::string row = rep.substr(p, e - p); p = e + 1;
                if (row.find("Thank you") != std::string::npos) break;
                char name[32]; long a, d, m;
                if (sscanf(row.c_str(), "%31s %ld %ld %ld", name, &a, &d, &m) != 4) { bad = true; break; }
                long size = strcmp(name, "other") == 0 ? 0 : atol(name);
                fprintf(out, "%s{\"size\":%ld,\"a\":%ld,\"d\":%ld,\"max\":%ld}", first ? "" : ",", size, a, d, m); first = false;
            }
        } else if (rep.find("has not noticed any allocations") == std::string::npos) bad = true;
        fprintf(out, "]%s}\n", bad ? ",\"repbad\":\"report\"" : "");
    }
    fflush(out); fclose(out); _exit(0);
}
