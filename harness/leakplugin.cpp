// C07 conformance harness: runs scripted test programs through the real TestRegistry / UtestShell / Utest lifecycle
// with the real MemoryLeakWarningPlugin installed (private detector made the global one, so the real operator
// new[] / cpputest_malloc / delete[] / free used by the scripted tests are tracked by it), and logs one ndjson line
// per script line.  Script (TSV): begin | end | final | reset | <op> <phase> <arg> <arg2> <bk> <fam>   with op in alloc,
// free, realloc (arg = old id, arg2 = id of the result), rfail (a realloc that fails: out of memory), expect, ignore, fail
// and phase in s (setup), b (body), t (teardown), o (between tests).  `end o <id> 0 <bk>`: id # 0 = the test output
// keeps a tracked copy (block id) of a leak failure it is given.
// Placement: the current new[] / malloc allocators of the library are arena allocators: bk = 0 lets the real malloc
// choose the address, bk = k > 0 puts the block at an address of the k-th designated bucket of the detector's hash
// table (address % MEMORY_LEAK_HASH_TABLE_SIZE), so that the scripts decide which blocks share a chain and in which
// order.  fam: 0 = operator new[] / delete[], 1 = cpputest_malloc / realloc / free.  The calls themselves are the real
// global ones.
// Usage: leakplugin <script.tsv> <log.ndjson>
#include "vh.h"
#include <new>
#include "CppUTest/TestHarness.h"
#include "CppUTest/TestRegistry.h"
#include "CppUTest/TestOutput.h"
#include "CppUTest/TestResult.h"
#include "CppUTest/TestPlugin.h"
#include "CppUTest/MemoryLeakDetector.h"
#include "CppUTest/MemoryLeakWarningPlugin.h"
#include "CppUTest/TestMemoryAllocator.h"
#include "CppUTest/TestHarness_c.h"
#include "CppUTest/PlatformSpecificFunctions.h"
#undef new
#undef malloc
#undef free

static void ON() { MemoryLeakWarningPlugin::turnOnDefaultNotThreadSafeNewDeleteOverloads(); }
static void OFF() { MemoryLeakWarningPlugin::turnOffNewDeleteOverloads(); }

// ---- everything below is preallocated: nothing may allocate through operator new while a run is in progress
enum OpKind { K_BEGIN, K_END, K_FINAL, K_ALLOC, K_FREE, K_EXPECT, K_IGNORE, K_FAIL, K_REALLOC, K_RFAIL };
struct Line {
    OpKind kind; char ph; int arg; int arg2; int bk; int fam;
    int res;          // realloc / rfail: 1 = a block came back, 2 = NULL
    int kept;         // end: tracked copies of leak failures allocated by the output
    // results
    bool ran; long chk, all; long failures;
    int leakfail; long own; long stated; bool trunc; bool parsed;
    int nlisted; int listed[64];
    char raw[200];
};
static const int MAXL = 400000;     // (long runs: tens of thousands of tests in one execution)
static Line* lines;          // lines of the current execution
static int nlines;
struct Blk { void* p; unsigned num; bool isMalloc; bool live; size_t size; };
static const int MAXB = 400000;
static Blk* blks;            // indexed by script id
static MemoryLeakDetector* det;
static MemoryLeakWarningPlugin* plugin;
static TestResult* result_;


// ---- placement: an arena of slots; inside a slot every bucket of the detector's table can be hit at an 8-aligned offset
static const int NSLOT = 8192;
static const size_t SLOT = 1024;
static char* arena;
static int* freeSlots;
static int nfree;
static char* g_next = NULL;          // address the next underlying allocation / re-allocation must return (NULL: real malloc)
static bool g_realloc_fails = false; // the next underlying re-allocation is out of memory
static size_t g_copy = 0;            // bytes of the old block a moving re-allocation carries over
static void* (*real_realloc)(void*, size_t);
static const int NBUCKETS = 6;
static const size_t bucketOfChoice[NBUCKETS + 1] = { 0, 0, 1, MEMORY_LEAK_HASH_TABLE_SIZE - 1, 36, 2, MEMORY_LEAK_HASH_TABLE_SIZE - 2 };

static bool in_arena(const void* p) { return (const char*) p >= arena && (const char*) p < arena + (size_t) NSLOT * SLOT; }
static void slot_release(const void* p) { if (in_arena(p) && nfree < NSLOT) freeSlots[nfree++] = (int) (((const char*) p - arena) / SLOT); }
static char* place(int bk)
{
    if (bk <= 0 || bk > NBUCKETS || nfree == 0) return NULL;
    char* base = arena + (size_t) freeSlots[--nfree] * SLOT;
    size_t prime = MEMORY_LEAK_HASH_TABLE_SIZE;
    for (size_t off = 0; off < 8 * prime; off += 8)
        if (((size_t) (base + off)) % prime == bucketOfChoice[bk]) return base + off;
    abort();
}
static void unplace() { if (g_next) { slot_release(g_next); g_next = NULL; } }

class ArenaAllocator : public TestMemoryAllocator
{
public:
    ArenaAllocator(const char* n, const char* an, const char* fn) : TestMemoryAllocator(n, an, fn) {}
    char* alloc_memory(size_t size, const char*, size_t) CPPUTEST_OVERRIDE
    {
        if (g_next) { char* r = g_next; g_next = NULL; return r; }
        return (char*) malloc(size);
    }
    void free_memory(char* m, size_t, const char*, size_t) CPPUTEST_OVERRIDE { if (in_arena(m)) slot_release(m); else free(m); }
    char* allocMemoryLeakNode(size_t size) CPPUTEST_OVERRIDE { return (char*) malloc(size); }
    void freeMemoryLeakNode(char* m) CPPUTEST_OVERRIDE { free(m); }
};
static ArenaAllocator* arenaNewArray;
static ArenaAllocator* arenaMalloc;

static void* arena_realloc(void* old, size_t size)
{
    if (g_realloc_fails) { g_realloc_fails = false; return NULL; }
    if (!g_next && !in_arena(old)) return real_realloc(old, size);
    char* r = g_next ? g_next : (char*) malloc(size);
    g_next = NULL;
    if (old) {
        memcpy(r, old, g_copy < size ? g_copy : size);
        if (in_arena(old)) slot_release(old); else free(old);
    }
    return r;
}

struct FailRec { bool leak; char text[4200]; };
static FailRec fails[8];
static int nfails;

static int maxid = 0;
static int cur_end = -1;     // script line of the `end` of the running test

// a fresh tracked block for script id `id`, through the real global operator new[] / cpputest_malloc
static void tracked_alloc(int id, int bk, bool isMalloc, const char* file)
{
    Blk& b = blks[id];
    if (id > maxid) maxid = id;
    b.isMalloc = isMalloc;
    b.num = det->getCurrentAllocationNumber();
    b.size = 1 + (size_t) (id % 7);
    g_next = place(bk);
    b.p = isMalloc ? cpputest_malloc_location(b.size, "prog.c", (size_t) id) : ::operator new[](b.size, file, (size_t) id);
    unplace();
    memset(b.p, 'a' + id % 26, b.size);
    b.live = true;
}

class RecOutput : public StringBufferTestOutput
{
public:
    // progress dots and the summary are no part of the projection; a run of tens of thousands of tests must not pay for a text
    // that is copied every time it grows
    void printBuffer(const char*) CPPUTEST_OVERRIDE {}
    void printFailure(const TestFailure& f) CPPUTEST_OVERRIDE
    {
        bool leak = false;
        if (nfails < 8) {
            SimpleString msg = f.getMessage();      // (string buffers do not go through the detector)
            const char* m = msg.asCharString();
            strncpy(fails[nfails].text, m, sizeof fails[nfails].text - 1); fails[nfails].text[sizeof fails[nfails].text - 1] = 0;
            leak = fails[nfails].leak = strstr(m, "own check failed") == NULL;     // every failure that is not the scripted one comes from the plugin
        }
        nfails++;
        // an output that keeps what it is given (as the JUnit output keeps a copy of every failure): a tracked block
        // allocated while the leak failure is being reported
        if (leak && cur_end >= 0 && lines[cur_end].arg > 0 && lines[cur_end].kept == 0) {
            tracked_alloc(lines[cur_end].arg, lines[cur_end].bk, false, "output.cpp");
            lines[cur_end].kept++;
        }
    }
};

static int id_of_num(unsigned num)
{
    // (allocation numbers are unique; the youngest blocks first: in a long run a report names recent blocks as a rule)
    for (int i = maxid < MAXB ? maxid : MAXB - 1; i >= 0; i--) if (blks[i].p && blks[i].num == num) return i;
    return -1;
}

// parse a leak report: the allocation numbers listed (mapped back to script ids), the stated total
static void parse_report(const char* text, Line& L)
{
    L.nlisted = 0; L.stated = -1; L.trunc = false; L.parsed = true;
    // the detector appends to its message buffer (only the pre-test action clears it): the report proper is the last one in the text
    const char* p = NULL; const char* none = NULL;
    for (const char* h = text; (h = strstr(h, "Memory leak(s) found")) != NULL; h += 10) p = h;
    for (const char* h = text; (h = strstr(h, "No memory leaks were detected")) != NULL; h += 10) none = h;
    if (text[0] == 0 || (none && (!p || none > p))) { L.stated = 0; return; }
    if (!p) { L.parsed = false; strncpy(L.raw, text, sizeof L.raw - 1); return; }
    text = p;
    while ((p = strstr(p, "Alloc num (")) != NULL) {
        unsigned num = 0; unsigned long size = 0; int n = 0;
        // (an entry cut off by the end of the detector's text buffer is not an entry)
        if (sscanf(p, "Alloc num (%u) Leak size: %lu Allocated at%n", &num, &size, &n) == 2 && n > 0) { if (L.nlisted < 64) L.listed[L.nlisted++] = id_of_num(num); }
        p += 10;
    }
    const char* f = NULL; const char* q = text;
    while ((q = strstr(q, "Total number of leaks: ")) != NULL) { f = q; q += 10; }
    if (!f) { L.parsed = false; strncpy(L.raw, text, sizeof L.raw - 1); return; }
    L.stated = atol(f + strlen("Total number of leaks: "));
    L.trunc = strstr(text, "Too many memory leaks to report") != NULL;
}

static void exec_op(Line& L)
{
    L.ran = true;
    switch (L.kind) {
    case K_ALLOC:
        tracked_alloc(L.arg, L.bk, L.fam == 1, "prog.cpp");
        break;
    case K_REALLOC:
    case K_RFAIL: {
        Blk& b = blks[L.arg];
        size_t size = 1 + (size_t) (L.arg2 % 7);
        unsigned num = det->getCurrentAllocationNumber();
        g_realloc_fails = (L.kind == K_RFAIL);
        if (L.kind == K_REALLOC) g_next = place(L.bk);
        g_copy = b.size;
        void* r = cpputest_realloc_location(b.p, L.kind == K_RFAIL ? b.size + 100 : size, "prog.c", (size_t) (L.kind == K_RFAIL ? L.arg : L.arg2));
        g_realloc_fails = false;
        unplace();
        L.res = r ? 1 : 2;
        if (r) {
            int nid = L.kind == K_REALLOC ? L.arg2 : L.arg;      // (a block coming back from `rfail` is for the validation to reject)
            if (nid > maxid) maxid = nid;
            b.live = false;
            Blk& nb = blks[nid];
            nb.p = r; nb.num = num; nb.isMalloc = true; nb.size = size; nb.live = true;
            memset(nb.p, 'a' + nid % 26, size);
        }
        break; }
    case K_FREE: {
        Blk& b = blks[L.arg];
        if (b.isMalloc) cpputest_free_location(b.p, "prog.c", 1); else ::operator delete[](b.p);
        b.live = false;
        break; }
    case K_EXPECT: plugin->expectLeaksInTest((size_t) L.arg); break;
    case K_IGNORE: plugin->ignoreAllLeaksInTest(); break;
    default: break;
    }
    L.chk = (long) det->totalMemoryLeaks(mem_leak_period_checking);
    L.all = (long) det->totalMemoryLeaks(mem_leak_period_all);
    if (L.kind == K_FAIL) FAIL("own check failed");
}

// the lines [from, to) that belong to phase ph
static void run_phase(int from, int to, char ph)
{
    for (int i = from; i < to; i++) if (lines[i].ph == ph && lines[i].kind >= K_ALLOC) exec_op(lines[i]);
}

class ScriptShell;
class ScriptTest : public Utest
{
public:
    int from, to;
    ScriptTest(int f, int t) : from(f), to(t) {}
    void setup() CPPUTEST_OVERRIDE { run_phase(from, to, 's'); }
    void testBody() CPPUTEST_OVERRIDE { run_phase(from, to, 'b'); }
    void teardown() CPPUTEST_OVERRIDE { run_phase(from, to, 't'); }
};
class ScriptShell : public UtestShell
{
public:
    int begin, end;      // script lines of begin / end
    ScriptShell(int b, int e) : UtestShell("Prog", "test", "prog.cpp", 1), begin(b), end(e) {}
    Utest* createTest() CPPUTEST_OVERRIDE { return new ScriptTest(begin + 1, end); }
};

// installed FIRST, so its post action runs before the leak plugin's: reports a failure straight into the result (as MockSupportPlugin
// or IEEE754ExceptionsPlugin do) when the end line of the test says so (arg2 = 1)
class OtherPlugin : public TestPlugin
{
public:
    OtherPlugin() : TestPlugin("other") {}
    void postTestAction(UtestShell& t, TestResult& r) CPPUTEST_OVERRIDE;
};

// installed last, so its pre action runs before the leak plugin's and its post action after it
class ProbePlugin : public TestPlugin
{
public:
    int nextOutside;     // first line not yet consumed
    ProbePlugin() : TestPlugin("probe"), nextOutside(0) {}
    void preTestAction(UtestShell& t, TestResult& r) CPPUTEST_OVERRIDE
    {
        ScriptShell& s = (ScriptShell&) t;
        for (int i = nextOutside; i < s.begin; i++) if (lines[i].kind >= K_ALLOC) exec_op(lines[i]);   // operations between tests
        lines[s.begin].ran = true; lines[s.begin].failures = (long) r.getFailureCount();
        nfails = 0;
        cur_end = s.end;
    }
    void postTestAction(UtestShell& t, TestResult& r) CPPUTEST_OVERRIDE
    {
        ScriptShell& s = (ScriptShell&) t;
        Line& L = lines[s.end];
        L.ran = true; L.failures = (long) r.getFailureCount();
        L.leakfail = 0; L.own = 0; L.nlisted = 0; L.stated = -1; L.parsed = true; L.trunc = false;
        for (int i = 0; i < nfails && i < 8; i++) {
            if (fails[i].leak) { L.leakfail++; parse_report(fails[i].text, L); } else L.own++;
        }
        if (nfails > 8) L.own += nfails - 8;
        nextOutside = s.end + 1;
        cur_end = -1;
    }
};

void OtherPlugin::postTestAction(UtestShell& t, TestResult& r)
{
    ScriptShell& s = (ScriptShell&) t;
    if (lines[s.end].arg2 == 1) r.addFailure(TestFailure(&t, "own check failed (reported by another plugin's post action)"));
}

static void emit(FILE* out, const Line& L)
{
    static const char* names[] = {"begin", "end", "final", "alloc", "free", "expect", "ignore", "fail", "realloc", "rfail"};
    static const char* results[] = {"", "moved", "null"};
    fprintf(out, "{\"op\":\"%s\",\"ph\":\"%c\",\"arg\":%d,\"arg2\":%d,\"bk\":%d,\"fam\":%d,\"res\":\"%s\",\"ran\":%s", names[L.kind], L.ph, L.arg, L.arg2, L.bk,
            L.fam, results[L.res], L.ran ? "true" : "false");
    if (L.kind >= K_ALLOC) fprintf(out, ",\"chk\":%ld,\"all\":%ld", L.chk, L.all);
    if (L.kind == K_BEGIN) fprintf(out, ",\"failures\":%ld", L.failures);
    if (L.kind == K_END || L.kind == K_FINAL) {
        if (!L.parsed) fprintf(out, ",\"repbad\":%s", vh_jstr(L.raw).c_str());
        if (L.kind == K_END) fprintf(out, ",\"leakfail\":%d,\"own\":%ld,\"failures\":%ld,\"kept\":%d", L.leakfail, L.own, L.failures, L.kept);
        fprintf(out, ",\"stated\":%ld,\"trunc\":%s,\"listed\":[", L.stated, L.trunc ? "true" : "false");
        for (int i = 0; i < L.nlisted; i++) fprintf(out, "%s%d", i ? "," : "", L.listed[i]);
        fprintf(out, "]");
    }
    fprintf(out, "}\n");
}

static void run_execution(FILE* out)
{
    // fresh detector, plugin, registry, result for every execution
    for (int i = 0; i <= maxid && i < MAXB; i++) { blks[i].p = NULL; blks[i].live = false; }
    maxid = 0;
    nfree = 0;
    for (int i = NSLOT; i-- > 0;) freeSlots[nfree++] = i;
    g_next = NULL; g_realloc_fails = false; cur_end = -1;
    MemoryLeakFailure* reporter = MemoryLeakWarningPlugin::getGlobalFailureReporter();
    det = new MemoryLeakDetector(reporter);
    MemoryLeakWarningPlugin::setGlobalDetector(det, reporter);
    plugin = new MemoryLeakWarningPlugin("MemoryLeakPlugin", det);     // (never deleted: getFirstPlugin() must stay valid)
    ProbePlugin* probe = new ProbePlugin;
    TestRegistry* reg = new TestRegistry;
    RecOutput* output = new RecOutput;
    result_ = new TestResult(*output);
    std::vector<ScriptShell*> shells;
    int open = -1; bool bad = false;
    for (int i = 0; i < nlines; i++) {
        if (lines[i].kind == K_BEGIN) { if (open >= 0) bad = true; open = i; }
        else if (lines[i].kind == K_END) { if (open < 0) bad = true; else shells.push_back(new ScriptShell(open, i)); open = -1; }
        else if (lines[i].kind == K_FINAL && open >= 0) bad = true;
        else if (lines[i].kind >= K_ALLOC && ((open >= 0) != (lines[i].ph != 'o'))) bad = true;
    }
    if (bad || open >= 0) { fprintf(out, "{\"op\":\"harness-error\",\"what\":\"malformed program\"}\n"); return; }
    for (size_t i = shells.size(); i-- > 0;) reg->addTest(shells[i]);      // addTest prepends
    reg->installPlugin(new OtherPlugin);
    reg->installPlugin(plugin);
    reg->installPlugin(probe);
    TestRegistry* savedReg = TestRegistry::getCurrentRegistry();
    reg->setCurrentRegistry(reg);

    setCurrentNewArrayAllocator(arenaNewArray);
    setCurrentMallocAllocator(arenaMalloc);
    PlatformSpecificRealloc = arena_realloc;
    ON();
    reg->runAllTests(*result_);
    // what follows the last test: operations between tests, final report
    for (int i = probe->nextOutside; i < nlines; i++) {
        Line& L = lines[i];
        if (L.kind >= K_ALLOC) exec_op(L);
        else if (L.kind == K_FINAL) { L.ran = true; parse_report(plugin->FinalReport(0), L); }
    }
    OFF();
    PlatformSpecificRealloc = real_realloc;
    setCurrentNewArrayAllocatorToDefault();
    setCurrentMallocAllocatorToDefault();
    reg->setCurrentRegistry(savedReg);
    for (int i = 0; i < nlines; i++) emit(out, lines[i]);
    // blocks still outstanding belong to the old detector; they are simply abandoned
    MemoryLeakWarningPlugin::setGlobalDetector(NULL, NULL);
}

int main(int argc, char** argv)
{
    MemoryLeakWarningPlugin::getGlobalDetector();      // creates the global reporter
    OFF();
    if (argc < 3) return 2;
    FILE* in = fopen(argv[1], "r");
    FILE* out = fopen(argv[2], "w");
    if (!in || !out) return 2;
    vh_install(out);
    lines = (Line*) calloc(MAXL, sizeof(Line));
    blks = (Blk*) calloc(MAXB, sizeof(Blk));
    freeSlots = (int*) calloc(NSLOT, sizeof(int));
    arena = (char*) malloc((size_t) NSLOT * SLOT + 64);
    arena = (char*) (((size_t) arena + 63) & ~(size_t) 63);
    real_realloc = PlatformSpecificRealloc;
    arenaNewArray = new ArenaAllocator("Arena New [] Allocator", "new []", "delete []");
    arenaMalloc = new ArenaAllocator("Arena Malloc Allocator", "malloc", "free");
    nlines = 0;
    std::string line;
    bool any = false;
    for (;;) {
        bool got = vh_readline(in, line);
        if (got && line.empty()) continue;
        std::vector<std::string> f;
        if (got) f = vh_split(line);
        if (!got || f[0] == "reset") {
            if (any || nlines) run_execution(out);
            nlines = 0; any = false;
            if (!got) break;
            fprintf(out, "{\"op\":\"reset\"}\n");
            continue;
        }
        any = true;
        while (f.size() < 6) f.push_back("");
        if (nlines >= MAXL) { fprintf(out, "{\"op\":\"harness-error\",\"what\":\"program too long\"}\n"); break; }
        Line& L = lines[nlines];
        memset(&L, 0, sizeof L);
        L.ph = f[1].empty() ? 'o' : f[1][0]; L.arg = atoi(f[2].c_str()); L.parsed = true;
        L.arg2 = atoi(f[3].c_str()); L.bk = atoi(f[4].c_str()); L.fam = atoi(f[5].c_str());
        if (f[0] == "begin") L.kind = K_BEGIN; else if (f[0] == "end") L.kind = K_END; else if (f[0] == "final") L.kind = K_FINAL;
        else if (f[0] == "alloc") L.kind = K_ALLOC; else if (f[0] == "free") L.kind = K_FREE; else if (f[0] == "expect") L.kind = K_EXPECT;
        else if (f[0] == "ignore") L.kind = K_IGNORE; else if (f[0] == "fail") L.kind = K_FAIL;
        else if (f[0] == "realloc") L.kind = K_REALLOC; else if (f[0] == "rfail") L.kind = K_RFAIL;
        else { fprintf(out, "{\"op\":\"harness-error\",\"what\":\"unknown op\"}\n"); break; }
        if ((L.kind == K_ALLOC || L.kind == K_FREE || L.kind == K_REALLOC || L.kind == K_RFAIL || L.kind == K_END) && (L.arg < 0 || L.arg >= MAXB || L.arg2 < 0 || L.arg2 >= MAXB)) { fprintf(out, "{\"op\":\"harness-error\",\"what\":\"bad id\"}\n"); break; }
        nlines++;
    }
    fflush(out);
    fclose(out);
    _exit(0);
}
