// C03 conformance harness: executes scripts of check-macro invocations, each as the body of a test run the way
// TestTestingFixture does it (private registry + private TestResult), and logs one ndjson line per script line with the
// operands that were actually used (re-derived from the machine values) and the cumulative check / failure
// counters of the TestResult.  It never judges.  Usage: checks <script.tsv> <log.ndjson>
// Script line: op \t kind \t variant(plain|text) \t operands...   |  reset
//   int   x y          integers "neg:h:m:l" (sign + three base-2^24 limbs)
//   cmp   type rel x y
//   bool  x
//   fail
//   throws expected|other|none
//   str   x y n        hex bytes | NULL | - (empty)
//   mem   x y n
//   bits  x y mask w
//   ptr   x y          0 (NULL) 1 2
//   dbl   x y t        nan | inf:neg | fin:neg:k:e   (value k*2^(e-1100))
#include "vh.h"
#include <cmath>
#include "CppUTest/TestHarness.h"
#include "CppUTest/TestTestingFixture.h"
#include "CppUTest/TestHarness_c.h"

typedef __int128 i128;
static const int EBIAS = 1100;

struct Dbl { std::string c; bool neg; long k; int e; double v; };
struct Str { bool null; std::string bytes; char* buf; };

struct Call {
    std::string op, k, v, t, rel, sx;
    i128 x, y, mask;
    int w;
    Dbl dx, dy, dt;
    Str s1, s2;
    size_t n;
    int p1, p2;
    bool bad;            // the script asked for something this harness cannot express
    std::string why;
};
static Call g;

static i128 parse_int(const std::string& s)
{
    std::vector<std::string> f = vh_split(s, ':');
    if (f.size() != 4) { g.bad = true; g.why = "int syntax"; return 0; }
    i128 m = ((i128) atoll(f[1].c_str()) << 48) + ((i128) atoll(f[2].c_str()) << 24) + (i128) atoll(f[3].c_str());
    return atoi(f[0].c_str()) ? -m : m;
}
static std::string json_int(i128 v)
{
    bool neg = v < 0;
    unsigned __int128 m = neg ? (unsigned __int128) (-v) : (unsigned __int128) v;
    char b[128];
    snprintf(b, sizeof b, "{\"neg\":%s,\"m\":[%lu,%lu,%lu]}", neg ? "true" : "false",
             (unsigned long) (m >> 48), (unsigned long) ((m >> 24) & 0xFFFFFF), (unsigned long) (m & 0xFFFFFF));
    return b;
}
static Dbl parse_dbl(const std::string& s)
{
    Dbl d; d.neg = false; d.k = 0; d.e = 0; d.v = 0;
    std::vector<std::string> f = vh_split(s, ':');
    d.c = f[0];
    if (d.c == "nan") d.v = std::nan("");
    else if (d.c == "inf" && f.size() == 2) { d.neg = atoi(f[1].c_str()) != 0; d.v = d.neg ? -INFINITY : INFINITY; }
    else if (d.c == "fin" && f.size() == 4) {
        d.neg = atoi(f[1].c_str()) != 0; d.k = atol(f[2].c_str()); d.e = atoi(f[3].c_str());
        d.v = ldexp((double) d.k, d.k ? d.e - EBIAS : 0);
        if (d.neg) d.v = -d.v;
        if (std::isinf(d.v)) { g.bad = true; g.why = "finite double overflows"; }
    } else { g.bad = true; g.why = "double syntax"; }
    return d;
}
// the operand as it was really passed, decomposed again (k * 2^(e-bias) with the exponent of the script)
static std::string json_dbl(const Dbl& d)
{
    char b[160];
    double v = d.v;
    if (std::isnan(v)) return "{\"c\":\"nan\",\"neg\":false,\"k\":0,\"e\":0}";
    if (std::isinf(v)) { snprintf(b, sizeof b, "{\"c\":\"inf\",\"neg\":%s,\"k\":0,\"e\":0}", v < 0 ? "true" : "false"); return b; }
    bool neg = std::signbit(v);
    double k = (v == 0) ? 0 : ldexp(fabs(v), -(d.e - EBIAS));
    if (k != floor(k) || k >= 2147483648.0) return "\"inexact\"";
    snprintf(b, sizeof b, "{\"c\":\"fin\",\"neg\":%s,\"k\":%ld,\"e\":%d}", neg ? "true" : "false", (long) k, k == 0 ? 0 : d.e);
    return b;
}
static Str parse_str(const std::string& s, bool cstring)
{
    Str r; r.null = (s == "NULL"); r.buf = NULL;
    if (r.null) return r;
    r.bytes = (s == "-") ? std::string() : vh_unhex(s);
    // exact-size heap buffers: AddressSanitizer sees any read beyond the operand
    size_t len = r.bytes.size() + (cstring ? 1 : 0);
    r.buf = (char*) malloc(len ? len : 1);
    memcpy(r.buf, r.bytes.data(), r.bytes.size());
    if (cstring) r.buf[r.bytes.size()] = 0;
    return r;
}
static std::string json_bytes(const Str& s, bool cstring)
{
    if (s.null) return "[-1]";
    std::string o = "[";
    size_t len = cstring ? strlen(s.buf) : s.bytes.size();
    for (size_t i = 0; i < len; i++) { char b[8]; snprintf(b, sizeof b, "%s%d", i ? "," : "", (unsigned char) s.buf[i]); o += b; }
    return o + "]";
}

template <class T> static bool fits(i128 v)
{
    return (i128) (T) v == v && (((T) -1 < 0) || v >= 0);
}

// ------------------------------------------------------------------ the checks
enum class EI : int {};
enum class EU : unsigned long {};
static void thrower(int what) { if (what == 1) throw 42; if (what == 2) throw 4.2; }
static void f1() {}
static void f2() {}
static int obj1, obj2;

#define NEED(T, a) do { if (!fits<T>(a)) { g.bad = true; g.why = "operand outside " #T; return; } } while (0)
#define TXT (g.v == "text")

template <class T> static void check_equal_T()
{
    NEED(T, g.x); NEED(T, g.y);
    T a = (T) g.x, b = (T) g.y;
    if (TXT) CHECK_EQUAL_TEXT(a, b, "txt"); else CHECK_EQUAL(a, b);
}
template <class T> static void compare_T()
{
    NEED(T, g.x); NEED(T, g.y);
    T a = (T) g.x, b = (T) g.y;
    const std::string& r = g.rel;
    if (r == "==") { if (TXT) CHECK_COMPARE_TEXT(a, ==, b, "txt"); else CHECK_COMPARE(a, ==, b); }
    else if (r == "!=") { if (TXT) CHECK_COMPARE_TEXT(a, !=, b, "txt"); else CHECK_COMPARE(a, !=, b); }
    else if (r == "<") { if (TXT) CHECK_COMPARE_TEXT(a, <, b, "txt"); else CHECK_COMPARE(a, <, b); }
    else if (r == ">") { if (TXT) CHECK_COMPARE_TEXT(a, >, b, "txt"); else CHECK_COMPARE(a, >, b); }
    else if (r == "<=") { if (TXT) CHECK_COMPARE_TEXT(a, <=, b, "txt"); else CHECK_COMPARE(a, <=, b); }
    else if (r == ">=") { if (TXT) CHECK_COMPARE_TEXT(a, >=, b, "txt"); else CHECK_COMPARE(a, >=, b); }
    else { g.bad = true; g.why = "relop"; }
}
template <class T> static void bits_T()
{
    NEED(T, g.x); NEED(T, g.y); NEED(T, g.mask);
    T e = (T) g.x, a = (T) g.y, m = (T) g.mask;
    if (g.k == "BITS_EQUAL") { if (TXT) BITS_EQUAL_TEXT(e, a, m, "txt"); else BITS_EQUAL(e, a, m); }
    else if (sizeof(T) <= sizeof(unsigned int)) { if (TXT) CHECK_EQUAL_C_BITS_TEXT(e, a, m, "txt"); else CHECK_EQUAL_C_BITS(e, a, m); }
    else { g.bad = true; g.why = "C bits wider than unsigned int"; }
}

static void body_int()
{
    const std::string& k = g.k; i128 x = g.x, y = g.y;
    if (k == "LONGS_EQUAL") { NEED(long, x); NEED(long, y); if (TXT) LONGS_EQUAL_TEXT((long) x, (long) y, "txt"); else LONGS_EQUAL((long) x, (long) y); }
    else if (k == "UNSIGNED_LONGS_EQUAL") { NEED(unsigned long, x); NEED(unsigned long, y); if (TXT) UNSIGNED_LONGS_EQUAL_TEXT((unsigned long) x, (unsigned long) y, "txt"); else UNSIGNED_LONGS_EQUAL((unsigned long) x, (unsigned long) y); }
    else if (k == "LONGLONGS_EQUAL") { NEED(long long, x); NEED(long long, y); if (TXT) LONGLONGS_EQUAL_TEXT((long long) x, (long long) y, "txt"); else LONGLONGS_EQUAL((long long) x, (long long) y); }
    else if (k == "UNSIGNED_LONGLONGS_EQUAL") { NEED(unsigned long long, x); NEED(unsigned long long, y); if (TXT) UNSIGNED_LONGLONGS_EQUAL_TEXT((unsigned long long) x, (unsigned long long) y, "txt"); else UNSIGNED_LONGLONGS_EQUAL((unsigned long long) x, (unsigned long long) y); }
    else if (k == "SIGNED_BYTES_EQUAL") { NEED(signed char, x); NEED(signed char, y); if (TXT) SIGNED_BYTES_EQUAL_TEXT((signed char) x, (signed char) y, "txt"); else SIGNED_BYTES_EQUAL((signed char) x, (signed char) y); }
    else if (k == "BYTES_EQUAL") { NEED(int, x); NEED(int, y); int a = (int) x, b = (int) y; if (TXT) BYTES_EQUAL_TEXT(a, b, "txt"); else BYTES_EQUAL(a, b); }
    else if (k == "ENUMS_EQUAL_INT") { NEED(int, x); NEED(int, y); EI a = (EI) (int) x, b = (EI) (int) y; if (TXT) ENUMS_EQUAL_INT_TEXT(a, b, "txt"); else ENUMS_EQUAL_INT(a, b); }
    else if (k == "ENUMS_EQUAL_TYPE_ULONG") { NEED(unsigned long, x); NEED(unsigned long, y); EU a = (EU) (unsigned long) x, b = (EU) (unsigned long) y; if (TXT) ENUMS_EQUAL_TYPE_TEXT(unsigned long, a, b, "txt"); else ENUMS_EQUAL_TYPE(unsigned long, a, b); }
    else if (k == "CHECK_EQUAL_ZERO") { NEED(int, y); if (x != 0) { g.bad = true; g.why = "expected must be 0"; return; } int b = (int) y; if (TXT) CHECK_EQUAL_ZERO_TEXT(b, "txt"); else CHECK_EQUAL_ZERO(b); }
    else if (k == "CHECK_EQUAL_int") check_equal_T<int>();
    else if (k == "CHECK_EQUAL_uint") check_equal_T<unsigned int>();
    else if (k == "CHECK_EQUAL_long") check_equal_T<long>();
    else if (k == "CHECK_EQUAL_ulong") check_equal_T<unsigned long>();
    else if (k == "CHECK_EQUAL_llong") check_equal_T<long long>();
    else if (k == "CHECK_EQUAL_ullong") check_equal_T<unsigned long long>();
    else if (k == "CHECK_EQUAL_bool") { if ((x != 0 && x != 1) || (y != 0 && y != 1)) { g.bad = true; g.why = "bool operand"; return; } bool a = x != 0, b = y != 0; if (TXT) CHECK_EQUAL_TEXT(a, b, "txt"); else CHECK_EQUAL(a, b); }
    else if (k == "CHECK_EQUAL_C_INT") { NEED(int, x); NEED(int, y); if (TXT) CHECK_EQUAL_C_INT_TEXT((int) x, (int) y, "txt"); else CHECK_EQUAL_C_INT((int) x, (int) y); }
    else if (k == "CHECK_EQUAL_C_UINT") { NEED(unsigned int, x); NEED(unsigned int, y); if (TXT) CHECK_EQUAL_C_UINT_TEXT((unsigned int) x, (unsigned int) y, "txt"); else CHECK_EQUAL_C_UINT((unsigned int) x, (unsigned int) y); }
    else if (k == "CHECK_EQUAL_C_LONG") { NEED(long, x); NEED(long, y); if (TXT) CHECK_EQUAL_C_LONG_TEXT((long) x, (long) y, "txt"); else CHECK_EQUAL_C_LONG((long) x, (long) y); }
    else if (k == "CHECK_EQUAL_C_ULONG") { NEED(unsigned long, x); NEED(unsigned long, y); if (TXT) CHECK_EQUAL_C_ULONG_TEXT((unsigned long) x, (unsigned long) y, "txt"); else CHECK_EQUAL_C_ULONG((unsigned long) x, (unsigned long) y); }
    else if (k == "CHECK_EQUAL_C_LONGLONG") { NEED(long long, x); NEED(long long, y); if (TXT) CHECK_EQUAL_C_LONGLONG_TEXT((long long) x, (long long) y, "txt"); else CHECK_EQUAL_C_LONGLONG((long long) x, (long long) y); }
    else if (k == "CHECK_EQUAL_C_ULONGLONG") { NEED(unsigned long long, x); NEED(unsigned long long, y); if (TXT) CHECK_EQUAL_C_ULONGLONG_TEXT((unsigned long long) x, (unsigned long long) y, "txt"); else CHECK_EQUAL_C_ULONGLONG((unsigned long long) x, (unsigned long long) y); }
    else if (k == "CHECK_EQUAL_C_CHAR") { NEED(char, x); NEED(char, y); if (TXT) CHECK_EQUAL_C_CHAR_TEXT((char) x, (char) y, "txt"); else CHECK_EQUAL_C_CHAR((char) x, (char) y); }
    else if (k == "CHECK_EQUAL_C_UBYTE") { NEED(unsigned char, x); NEED(unsigned char, y); if (TXT) CHECK_EQUAL_C_UBYTE_TEXT((unsigned char) x, (unsigned char) y, "txt"); else CHECK_EQUAL_C_UBYTE((unsigned char) x, (unsigned char) y); }
    else if (k == "CHECK_EQUAL_C_SBYTE") { NEED(signed char, x); NEED(signed char, y); if (TXT) CHECK_EQUAL_C_SBYTE_TEXT((signed char) x, (signed char) y, "txt"); else CHECK_EQUAL_C_SBYTE((signed char) x, (signed char) y); }
    else if (k == "CHECK_EQUAL_C_BOOL") { NEED(int, x); NEED(int, y); if (TXT) CHECK_EQUAL_C_BOOL_TEXT((int) x, (int) y, "txt"); else CHECK_EQUAL_C_BOOL((int) x, (int) y); }
    else { g.bad = true; g.why = "unknown int kind " + k; }
}

static void body_cmp()
{
    const std::string& t = g.t;
    if (t == "int") compare_T<int>();
    else if (t == "uint") compare_T<unsigned int>();
    else if (t == "long") compare_T<long>();
    else if (t == "ulong") compare_T<unsigned long>();
    else if (t == "llong") compare_T<long long>();
    else if (t == "ullong") compare_T<unsigned long long>();
    else { g.bad = true; g.why = "cmp type " + t; }
}

static void body_bool()
{
    const std::string& k = g.k;
    NEED(int, g.x);
    int c = (int) g.x;
    if (k == "CHECK") { if (TXT) CHECK_TEXT(c, "txt"); else CHECK(c); }
    else if (k == "CHECK_TRUE") { if (TXT) CHECK_TRUE_TEXT(c, "txt"); else CHECK_TRUE(c); }
    else if (k == "CHECK_FALSE") { if (TXT) CHECK_FALSE_TEXT(c, "txt"); else CHECK_FALSE(c); }
    else if (k == "CHECK_C") { if (TXT) CHECK_C_TEXT(c, "txt"); else CHECK_C(c); }
    else { g.bad = true; g.why = "bool kind " + k; }
}

static void body_fail()
{
    const std::string& k = g.k;
    if (k == "FAIL") FAIL("fail");
    else if (k == "FAIL_TEST") FAIL_TEST("fail");
    else if (k == "FAIL_C") FAIL_C();
    else if (k == "FAIL_TEXT_C") FAIL_TEXT_C("fail");
    else { g.bad = true; g.why = "fail kind " + k; }
}

static void body_throws()
{
    int what = g.sx == "expected" ? 1 : g.sx == "other" ? 2 : 0;
    CHECK_THROWS(int, thrower(what));
}

static void body_str()
{
    const std::string& k = g.k;
    const char* e = g.s1.buf; const char* a = g.s2.buf;
    if (k == "STRCMP_EQUAL") { if (TXT) STRCMP_EQUAL_TEXT(e, a, "txt"); else STRCMP_EQUAL(e, a); }
    else if (k == "STRNCMP_EQUAL") { if (TXT) STRNCMP_EQUAL_TEXT(e, a, g.n, "txt"); else STRNCMP_EQUAL(e, a, g.n); }
    else if (k == "STRCMP_NOCASE_EQUAL") { if (TXT) STRCMP_NOCASE_EQUAL_TEXT(e, a, "txt"); else STRCMP_NOCASE_EQUAL(e, a); }
    else if (k == "STRCMP_CONTAINS") { if (TXT) STRCMP_CONTAINS_TEXT(e, a, "txt"); else STRCMP_CONTAINS(e, a); }
    else if (k == "STRCMP_NOCASE_CONTAINS") { if (TXT) STRCMP_NOCASE_CONTAINS_TEXT(e, a, "txt"); else STRCMP_NOCASE_CONTAINS(e, a); }
    else if (k == "CHECK_EQUAL_C_STRING") { if (TXT) CHECK_EQUAL_C_STRING_TEXT(e, a, "txt"); else CHECK_EQUAL_C_STRING(e, a); }
    else if (k == "CHECK_EQUAL_SimpleString") {
        if (!e || !a) { g.bad = true; g.why = "SimpleString from NULL"; return; }
        SimpleString s1(e), s2(a);
        if (TXT) CHECK_EQUAL_TEXT(s1, s2, "txt"); else CHECK_EQUAL(s1, s2);
    }
    else { g.bad = true; g.why = "str kind " + k; }
}

static void body_mem()
{
    const void* e = g.s1.buf; const void* a = g.s2.buf;
    if ((e && g.n > g.s1.bytes.size()) || (a && g.n > g.s2.bytes.size())) { g.bad = true; g.why = "size beyond block"; return; }
    if (g.k == "MEMCMP_EQUAL") { if (TXT) MEMCMP_EQUAL_TEXT(e, a, g.n, "txt"); else MEMCMP_EQUAL(e, a, g.n); }
    else if (g.k == "CHECK_EQUAL_C_MEMCMP") { if (TXT) CHECK_EQUAL_C_MEMCMP_TEXT(e, a, g.n, "txt"); else CHECK_EQUAL_C_MEMCMP(e, a, g.n); }
    else { g.bad = true; g.why = "mem kind " + g.k; }
}

static void body_bits()
{
    if (g.w == 1) bits_T<unsigned char>();
    else if (g.w == 2) bits_T<unsigned short>();
    else if (g.w == 4) bits_T<unsigned int>();
    else if (g.w == 8) bits_T<unsigned long>();
    else { g.bad = true; g.why = "bits width"; }
}

static void body_ptr()
{
    const void* objs[3] = { NULL, &obj1, &obj2 };
    void (*fns[3])() = { NULL, f1, f2 };
    const std::string& k = g.k;
    if (k == "POINTERS_EQUAL") { if (TXT) POINTERS_EQUAL_TEXT(objs[g.p1], objs[g.p2], "txt"); else POINTERS_EQUAL(objs[g.p1], objs[g.p2]); }
    else if (k == "FUNCTIONPOINTERS_EQUAL") { if (TXT) FUNCTIONPOINTERS_EQUAL_TEXT(fns[g.p1], fns[g.p2], "txt"); else FUNCTIONPOINTERS_EQUAL(fns[g.p1], fns[g.p2]); }
    else if (k == "CHECK_EQUAL_C_POINTER") { if (TXT) CHECK_EQUAL_C_POINTER_TEXT(objs[g.p1], objs[g.p2], "txt"); else CHECK_EQUAL_C_POINTER(objs[g.p1], objs[g.p2]); }
    else if (k == "CHECK_EQUAL_ptr") { const void* a = objs[g.p1]; const void* b = objs[g.p2]; if (TXT) CHECK_EQUAL_TEXT(a, b, "txt"); else CHECK_EQUAL(a, b); }
    else { g.bad = true; g.why = "ptr kind " + k; }
}

static void body_dbl()
{
    double x = g.dx.v, y = g.dy.v, t = g.dt.v;
    const std::string& k = g.k;
    if (k == "DOUBLES_EQUAL") { if (TXT) DOUBLES_EQUAL_TEXT(x, y, t, "txt"); else DOUBLES_EQUAL(x, y, t); }
    else if (k == "CHECK_EQUAL_C_REAL") { if (TXT) CHECK_EQUAL_C_REAL_TEXT(x, y, t, "txt"); else CHECK_EQUAL_C_REAL(x, y, t); }
    else if (k == "CHECK_EQUAL_double") { if (TXT) CHECK_EQUAL_TEXT(x, y, "txt"); else CHECK_EQUAL(x, y); }
    else { g.bad = true; g.why = "dbl kind " + k; }
}

static void body()
{
    const std::string& op = g.op;
    if (op == "int") body_int();
    else if (op == "cmp") body_cmp();
    else if (op == "bool") body_bool();
    else if (op == "fail") body_fail();
    else if (op == "throws") body_throws();
    else if (op == "str") body_str();
    else if (op == "mem") body_mem();
    else if (op == "bits") body_bits();
    else if (op == "ptr") body_ptr();
    else if (op == "dbl") body_dbl();
    else { g.bad = true; g.why = "unknown op " + op; }
}

int main(int argc, char** argv)
{
    if (argc < 3) return 2;
    FILE* in = fopen(argv[1], "r");
    FILE* out = fopen(argv[2], "w");
    if (!in || !out) return 2;
    setvbuf(out, NULL, _IOLBF, 0);     // every line reaches the file even if a sanitizer aborts the process
    vh_install(out);
    // The same arrangement as TestTestingFixture (private registry with one ExecFunctionTestShell, private
    // TestResult on a StringBufferTestOutput), built by hand so that the output text can be dropped after every
    // check while the TestResult - and with it the check / failure counters - lives for the whole execution.
    StringBufferTestOutput* output = new StringBufferTestOutput;
    TestResult* result = new TestResult(*output);
    ExecFunctionTestShell* shell = new ExecFunctionTestShell;
    ExecFunctionWithoutParameters* fn = new ExecFunctionWithoutParameters(body);
    shell->testFunction_ = fn;
    TestRegistry* registry = new TestRegistry;
    registry->setCurrentRegistry(registry);
    registry->addTest(shell);
    std::string line;
    while (vh_readline(in, line)) {
        if (line.empty()) continue;
        std::vector<std::string> f = vh_split(line);
        if (f[0] == "reset") {
            delete result; output->flush(); result = new TestResult(*output);
            fprintf(out, "{\"op\":\"reset\"}\n");
            continue;
        }
        while (f.size() < 8) f.push_back("");
        g = Call(); g.bad = false;
        g.op = f[0]; g.k = f[1]; g.v = f[2];
        std::string args;
        if (g.op == "int") { g.x = parse_int(f[3]); g.y = parse_int(f[4]); args = ",\"x\":" + json_int(g.x) + ",\"y\":" + json_int(g.y); }
        else if (g.op == "cmp") { g.t = f[3]; g.rel = f[4]; g.x = parse_int(f[5]); g.y = parse_int(f[6]);
                                  args = ",\"t\":" + vh_jstr(g.t) + ",\"rel\":" + vh_jstr(g.rel) + ",\"x\":" + json_int(g.x) + ",\"y\":" + json_int(g.y); }
        else if (g.op == "bool") { g.x = parse_int(f[3]); args = ",\"x\":" + json_int(g.x); }
        else if (g.op == "fail") { }
        else if (g.op == "throws") { g.sx = f[3]; args = ",\"x\":" + vh_jstr(g.sx); }
        else if (g.op == "str") { g.s1 = parse_str(f[3], true); g.s2 = parse_str(f[4], true); g.n = (size_t) atol(f[5].c_str());
                                  args = ",\"x\":" + json_bytes(g.s1, true) + ",\"y\":" + json_bytes(g.s2, true) + ",\"n\":" + std::to_string(g.n); }
        else if (g.op == "mem") { g.s1 = parse_str(f[3], false); g.s2 = parse_str(f[4], false); g.n = (size_t) atol(f[5].c_str());
                                  args = ",\"x\":" + json_bytes(g.s1, false) + ",\"y\":" + json_bytes(g.s2, false) + ",\"n\":" + std::to_string(g.n); }
        else if (g.op == "bits") { g.x = parse_int(f[3]); g.y = parse_int(f[4]); g.mask = parse_int(f[5]); g.w = atoi(f[6].c_str());
                                   args = ",\"x\":" + json_int(g.x) + ",\"y\":" + json_int(g.y) + ",\"mask\":" + json_int(g.mask) + ",\"w\":" + std::to_string(g.w); }
        else if (g.op == "ptr") { g.p1 = atoi(f[3].c_str()); g.p2 = atoi(f[4].c_str());
                                  if (g.p1 < 0 || g.p1 > 2 || g.p2 < 0 || g.p2 > 2) { g.bad = true; g.why = "ptr index"; }
                                  args = ",\"x\":" + std::to_string(g.p1) + ",\"y\":" + std::to_string(g.p2); }
        else if (g.op == "dbl") { g.dx = parse_dbl(f[3]); g.dy = parse_dbl(f[4]); g.dt = parse_dbl(f[5]);
                                  args = ",\"x\":" + json_dbl(g.dx) + ",\"y\":" + json_dbl(g.dy) + ",\"t\":" + json_dbl(g.dt); }
        else { g.bad = true; g.why = "unknown op"; }
        if (!g.bad) { registry->runAllTests(*result); output->flush(); }
        if (g.s1.buf) free(g.s1.buf);
        if (g.s2.buf) free(g.s2.buf);
        if (g.bad) { fprintf(out, "{\"op\":\"harness-error\",\"what\":%s,\"line\":%s}\n", vh_jstr(g.why).c_str(), vh_jstr(line).c_str()); break; }
        fprintf(out, "{\"op\":%s,\"k\":%s,\"v\":%s%s,\"cc\":%lu,\"fc\":%lu}\n", vh_jstr(g.op).c_str(), vh_jstr(g.k).c_str(), vh_jstr(g.v).c_str(),
                args.c_str(), (unsigned long) result->getCheckCount(), (unsigned long) result->getFailureCount());
    }
    fflush(out);
    fclose(out);
    _exit(0);   // skip static destruction of the fixture machinery
}
