// C01 / C02 / C17 conformance harness: builds a private TestRegistry of scripted tests from a program
// description, runs it through the real CommandLineTestRunner (argv built from the configuration), and logs
// one ndjson event per observable step: output callbacks, plugin actions, statements of the scripted tests,
// printed failures (parsed from the text the real TestOutput prints), the printed summary, the return value.
// Usage: testrun <script.tsv> <log.ndjson>
#include "vh.h"
#include <stdexcept>
#include "CppUTest/TestHarness.h"
#include "CppUTest/TestRegistry.h"
#include "CppUTest/TestOutput.h"
#include "CppUTest/TestPlugin.h"
#include "CppUTest/TestFilter.h"
#include "CppUTest/CommandLineTestRunner.h"
#include "CppUTest/PlatformSpecificFunctions.h"
#include "CppUTest/TestHarness_c.h"

extern "C" int CppUTestVerif_JmpBufIndex(void);
extern "C" int CppUTestVerif_JmpBufCapacity(void);

static FILE* out;
static int jmpBase = 0;
static int relJmp() { return CppUTestVerif_JmpBufIndex() - jmpBase; }

struct PhaseS { std::vector<std::pair<int,int> > sets; std::vector<std::string> evs; };
static int g_rep = 0;   // current repetition (1-based), set by the output callback
static const std::string& evNow(const PhaseS& ph) { size_t i = g_rep < 1 ? 0 : (size_t) g_rep - 1; if (i >= ph.evs.size()) i = ph.evs.size() - 1; return ph.evs[i]; }
struct TestS { std::string g, n; bool ign; PhaseS ph[3]; std::vector<std::pair<std::string, std::string> > after; };
struct FilterS { std::string pat; bool strict, invert; };
struct PluginS { std::string name; bool enabled, err; };
struct Prog {
    int repeat; bool reverse; bool shuffle; long seed; bool runIgnored;
    std::vector<long> draws; bool haveDraws; bool api; std::string list;
    bool early;      // api mode: the options are given to the registry BEFORE the tests are registered
    bool nest;       // every test body first drives a complete run of another registry (as TestTestingFixture does)
    std::vector<FilterS> gf, nf; std::vector<PluginS> plugins; std::vector<TestS> tests;
    Prog() : repeat(1), reverse(false), shuffle(false), seed(1), runIgnored(false), haveDraws(false), api(false), list("none"), early(false), nest(false) {}
};
static Prog* P;
static const char* PHN[3] = {"setup", "body", "teardown"};
static const int NLOC = 40;
static void* targets[NLOC + 1];
static char valueCells[64];
static int curTest = 0;      // 1-based index of the test whose runOneTest is in progress (for marks)
static std::vector<std::string> fileNames;

static std::string chars(const std::string& s)
{
    std::string o = "[";
    for (size_t i = 0; i < s.size(); i++) { if (i) o += ","; o += vh_jstr(std::string(1, s[i])); }
    return o + "]";
}

// A run inside a run: what TestTestingFixture does - a complete run of another registry, with its own result and output, driven from
// inside a test body.  When it returns the outer run is where it was (TestRun.tla: no variable changes).
static int nestedFails = 0;
static void nestedBody() { CHECK_TRUE_LOCATION(nestedFails == 0, "CHECK", "nested", NULLPTR, "Nested.cpp", 3); }
static void nestedRun(int t)
{
    TestRegistry inner;
    ExecFunctionTestShell shell; ExecFunctionWithoutParameters fn(nestedBody);
    shell.setGroupName("Nested"); shell.setTestName("inner"); shell.setFileName("Nested.cpp"); shell.setLineNumber(1);
    shell.testFunction_ = &fn;
    inner.addTest(&shell);
    StringBufferTestOutput o; TestResult r(o);
    nestedFails = t % 2;        // the inner test fails for odd t: a failure of the inner run is the inner run's
    inner.runAllTests(r);
}

static void runPhase(int t, int p)
{
    const PhaseS& ph = P->tests[(size_t) t - 1].ph[p];
    fprintf(out, "{\"op\":\"mark\",\"t\":%d,\"ph\":\"%s\",\"w\":\"pre\"}\n", t, PHN[p]);
    for (size_t i = 0; i < ph.sets.size(); i++) {
        int loc = ph.sets[i].first, val = ph.sets[i].second;
        UT_PTR_SET(targets[loc], (void*) &valueCells[val]);
        fprintf(out, "{\"op\":\"set\",\"t\":%d,\"loc\":%d,\"val\":%d,\"full\":false}\n", t, loc, val);
    }
    // where the check of this phase stands: TestRun!FailPlace (the test itself is at line 1000*t of fileNames[t-1])
    const int place = (t + p + 1) % 4;
    const char* file = place >= 2 ? "Helper.cpp" : fileNames[(size_t) t - 1].c_str();
    size_t line = place == 0 || place == 2 ? (size_t) (1000 * t + 10 * (p + 1)) : place == 1 ? (size_t) (1000 * t - 10 * (p + 1)) : (size_t) (5 + p + 1);
    const std::string& ev = evNow(ph);
    if (P->nest && p == 1) nestedRun(t);
    if (ev == "ok") {
        CHECK_TRUE_LOCATION(true, "CHECK", "scripted", NULLPTR, file, line);
    } else if (ev == "failCpp") {
        CHECK_TRUE_LOCATION(false, "CHECK", "scripted", NULLPTR, file, line);
    } else if (ev == "failC") {
        CHECK_C_LOCATION(0, "scripted", NULLPTR, file, line);
    }
#if defined(__cpp_exceptions)
    else if (ev == "throwStd") { throw std::runtime_error("scripted std exception"); }
    else if (ev == "throwOther") { throw 42; }
#endif
    fprintf(out, "{\"op\":\"mark\",\"t\":%d,\"ph\":\"%s\",\"w\":\"post\"}\n", t, PHN[p]);
}

class ScriptedTest : public Utest
{
public:
    int t;
    explicit ScriptedTest(int tt) : t(tt) {}
    void setup() CPPUTEST_OVERRIDE { runPhase(t, 0); }
    void testBody() CPPUTEST_OVERRIDE { runPhase(t, 1); }
    void teardown() CPPUTEST_OVERRIDE { runPhase(t, 2); }
};
class ScriptedShell : public UtestShell
{
public:
    int t;
    ScriptedShell(int tt, const char* g, const char* n, const char* f, size_t l) : UtestShell(g, n, f, l), t(tt) {}
    Utest* createTest() CPPUTEST_OVERRIDE { return new ScriptedTest(t); }
};
class ScriptedIgnoredShell : public IgnoredUtestShell
{
public:
    int t;
    ScriptedIgnoredShell(int tt, const char* g, const char* n, const char* f, size_t l) : IgnoredUtestShell(g, n, f, l), t(tt) {}
    Utest* createTest() CPPUTEST_OVERRIDE { return new ScriptedTest(t); }
};

static std::map<const UtestShell*, int> idxOf;
static std::map<std::string, int> idxByFormatted;
static TestRegistry* theRegistry;

class RecPlugin : public TestPlugin
{
public:
    std::string nm; bool err;
    RecPlugin(const std::string& n, bool e) : TestPlugin(n.c_str()), nm(n), err(e) {}
    void preTestAction(UtestShell& test, TestResult&) CPPUTEST_OVERRIDE
    { fprintf(out, "{\"op\":\"pre\",\"p\":%s,\"t\":%d}\n", vh_jstr(nm).c_str(), idxOf[&test]); }
    void postTestAction(UtestShell& test, TestResult& result) CPPUTEST_OVERRIDE
    {
        fprintf(out, "{\"op\":\"post\",\"p\":%s,\"t\":%d}\n", vh_jstr(nm).c_str(), idxOf[&test]);
        if (err) result.addFailure(TestFailure(&test, "PLUGINERR reported by plugin"));
    }
};

static std::string g_plainText;      // everything printed outside the captured failure / summary texts (the list modes print here)
class RecOutput : public TestOutput
{
public:
    std::string cap; bool capturing; int repNo; int lastTest;
    RecOutput() : capturing(false), repNo(0), lastTest(0) {}
    void printBuffer(const char* s) CPPUTEST_OVERRIDE { if (capturing) cap += s; else g_plainText += s; }
    void flush() CPPUTEST_OVERRIDE {}
    void printTestsStarted() CPPUTEST_OVERRIDE
    {
        TestOutput::printTestsStarted();
        repNo++; g_rep = repNo;
        fprintf(out, "{\"op\":\"rep\",\"n\":%d,\"order\":[", repNo);
        bool first = true;
        for (UtestShell* t = theRegistry->getFirstTest(); t; t = t->getNext()) { fprintf(out, "%s%d", first ? "" : ",", idxOf[t]); first = false; }
        fprintf(out, "]}\n");
    }
    void printCurrentGroupStarted(const UtestShell& test) CPPUTEST_OVERRIDE
    { TestOutput::printCurrentGroupStarted(test); fprintf(out, "{\"op\":\"groupStart\",\"t\":%d}\n", idxOf[&test]); lastTest = idxOf[&test]; }
    void printCurrentTestStarted(const UtestShell& test) CPPUTEST_OVERRIDE
    { TestOutput::printCurrentTestStarted(test); lastTest = idxOf[&test]; fprintf(out, "{\"op\":\"testStart\",\"t\":%d,\"jmp\":%d}\n", lastTest, relJmp()); }
    void printCurrentTestEnded(const TestResult& r) CPPUTEST_OVERRIDE
    {
        TestOutput::printCurrentTestEnded(r);
        fprintf(out, "{\"op\":\"testEnd\",\"t\":%d,\"jmp\":%d,\"cnt\":{\"tests\":%lu,\"run\":%lu,\"checks\":%lu,\"ignored\":%lu,\"filtered\":%lu,\"failures\":%lu},\"ptr\":[",
                lastTest, relJmp(), (unsigned long) r.getTestCount(), (unsigned long) r.getRunCount(), (unsigned long) r.getCheckCount(),
                (unsigned long) r.getIgnoredCount(), (unsigned long) r.getFilteredOutCount(), (unsigned long) r.getFailureCount());
        for (int l = 1; l <= NLOC; l++) {
            int v = targets[l] ? (int) ((char*) targets[l] - valueCells) : 0;
            fprintf(out, "%s%d", l > 1 ? "," : "", v);
        }
        fprintf(out, "]}\n");
        // plugins installed / removed while the run is going on (between this test and the next one)
        if (lastTest >= 1 && (size_t) lastTest <= P->tests.size()) {
            const TestS& t = P->tests[(size_t) lastTest - 1];
            for (size_t k = 0; k < t.after.size(); k++) {
                if (t.after[k].first == "install") theRegistry->installPlugin(new RecPlugin(t.after[k].second, false));    // (not freed: it may stay in the chain)
                else theRegistry->removePluginByName(t.after[k].second.c_str());
            }
        }
    }
    void printCurrentGroupEnded(const TestResult& r) CPPUTEST_OVERRIDE
    { TestOutput::printCurrentGroupEnded(r); fprintf(out, "{\"op\":\"groupEnd\",\"t\":%d}\n", lastTest); }
    void printFailure(const TestFailure& failure) CPPUTEST_OVERRIDE
    {
        cap.clear(); capturing = true;
        TestOutput::printFailure(failure);       // the real printing code; we parse what it printed
        capturing = false;
        // expected shapes:  "\n<file>:<line>: error: Failure in <TEST(g, n)>\n\t<msg>\n\n"   (failure inside the test file)
        //                   "\n<tfile>:<tline>: error: Failure in <TEST(g, n)>\n<file>:<line>: error:\n\t<msg>\n\n"
        int nloc = 0; std::string file; long line = -1; std::string tname;
        std::string file1; long line1 = -1;      // the first location line (the test's own, when there are two)
        size_t p = 0;
        while ((p = cap.find(": error:", p)) != std::string::npos) {
            size_t ls = cap.rfind('\n', p); ls = (ls == std::string::npos) ? 0 : ls + 1;
            std::string loc = cap.substr(ls, p - ls);
            size_t c = loc.rfind(':');
            if (c != std::string::npos) { file = loc.substr(0, c); line = atol(loc.c_str() + c + 1); nloc++; if (nloc == 1) { file1 = file; line1 = line; } }
            p += 8;
        }
        size_t fi = cap.find(" Failure in ");
        if (fi != std::string::npos) { size_t e = cap.find('\n', fi); tname = cap.substr(fi + 12, e == std::string::npos ? std::string::npos : e - fi - 12); }
        int t = idxByFormatted.count(tname) ? idxByFormatted[tname] : 0;
        std::string msg = failure.getMessage().asCharString();
        std::string kind = "check";
        if (cap.find("Unexpected exception") != std::string::npos) kind = "exception";
        else if (cap.find("Maximum number of function pointers installed!") != std::string::npos) kind = "setlimit";
        else if (cap.find("PLUGINERR") != std::string::npos) kind = "plugin";
        int infile = (t > 0 && file == fileNames[(size_t) t - 1]) ? 1 : 0;
        int first = (t > 0 && file1 == fileNames[(size_t) t - 1] && line1 == 1000L * t) ? 1 : 0;
        if (fi == std::string::npos && nloc == 0)
            fprintf(out, "{\"op\":\"fail\",\"t\":0,\"kind\":\"unparsed\",\"line\":0,\"infile\":0,\"nloc\":0,\"first\":0,\"text\":%s}\n", vh_jstr(cap.substr(0, 200)).c_str());
        else
            fprintf(out, "{\"op\":\"fail\",\"t\":%d,\"kind\":%s,\"line\":%ld,\"infile\":%d,\"nloc\":%d,\"first\":%d}\n", t, vh_jstr(kind).c_str(), line, infile, nloc, first);
    }
    void printTestsEnded(const TestResult& r) CPPUTEST_OVERRIDE
    {
        cap.clear(); capturing = true;
        TestOutput::printTestsEnded(r);
        capturing = false;
        // "\nOK (N tests, N ran, N checks, N ignored, N filtered out, N ms)"  or  "\nErrors (N failures, N tests, ...)" / "Errors (ran nothing, N tests, ..."
        int ok = -1; long fails = 0, tests = -1, ran = -1, checks = -1, ign = -1, filt = -1;
        size_t po = cap.find("OK ("), pe = cap.find("Errors (");
        const char* rest = NULL;
        if (po != std::string::npos && pe == std::string::npos) { ok = 1; rest = cap.c_str() + po + 4; }
        else if (pe != std::string::npos) {
            ok = 0; rest = cap.c_str() + pe + 8;
            if (strncmp(rest, "ran nothing, ", 13) == 0) { fails = 0; rest += 13; }
            else { char* e; fails = strtol(rest, &e, 10); if (strncmp(e, " failures, ", 11) == 0) rest = e + 11; else rest = NULL; }
        }
        bool parsed = rest && sscanf(rest, "%ld tests, %ld ran, %ld checks, %ld ignored, %ld filtered out", &tests, &ran, &checks, &ign, &filt) == 5;
        if (!parsed) { fprintf(out, "{\"op\":\"testsEnded\",\"sumbad\":%s}\n", vh_jstr(cap.substr(0, 200)).c_str()); return; }
        fprintf(out, "{\"op\":\"testsEnded\",\"txt\":{\"ok\":%s,\"tests\":%ld,\"run\":%ld,\"checks\":%ld,\"ignored\":%ld,\"filtered\":%ld,\"failures\":%ld},"
                     "\"res\":{\"ok\":%s,\"tests\":%lu,\"run\":%lu,\"checks\":%lu,\"ignored\":%lu,\"filtered\":%lu,\"failures\":%lu}}\n",
                ok ? "true" : "false", tests, ran, checks, ign, filt, fails, r.isFailure() ? "false" : "true",
                (unsigned long) r.getTestCount(), (unsigned long) r.getRunCount(), (unsigned long) r.getCheckCount(),
                (unsigned long) r.getIgnoredCount(), (unsigned long) r.getFilteredOutCount(), (unsigned long) r.getFailureCount());
    }
};

class RecRunner : public CommandLineTestRunner
{
public:
    RecRunner(int ac, const char* const* av, TestRegistry* r) : CommandLineTestRunner(ac, av, r) {}
protected:
    TestOutput* createConsoleOutput() CPPUTEST_OVERRIDE { return new RecOutput; }
};

// "api" mode: the run is driven through TestRegistry's public API instead of the command line (setGroupFilters / setNameFilters with
// filter objects that LIVE ACROSS RUNS at fixed addresses and are re-assigned, reverseTests, shuffleTests, setRunIgnored, runAllTests),
// the way a program with its own main loop uses the registry; the repeat loop and return value follow CommandLineTestRunner::runAllTests.
static TestFilter* filterPool[2][8];
static const TestFilter* poolFilters(int which, const std::vector<FilterS>& fs)
{
    TestFilter* head = NULL;
    for (size_t i = 0; i < fs.size() && i < 8; i++) {
        if (!filterPool[which][i]) filterPool[which][i] = new TestFilter();
        TestFilter* f = filterPool[which][i];
        *f = TestFilter(fs[i].pat.c_str());
        if (fs[i].strict) f->strictMatching();
        if (fs[i].invert) f->invertMatching();
        head = f->add(head);
    }
    return head;
}
static int runThroughApi(TestRegistry& registry)
{
    registry.setGroupFilters(poolFilters(0, P->gf));
    registry.setNameFilters(poolFilters(1, P->nf));
    if (P->runIgnored && !P->early) registry.setRunIgnored();
    UtestShell::setRethrowExceptions(false);
    SetPointerPlugin pPlugin(DEF_PLUGIN_SET_POINTER);
    registry.installPlugin(&pPlugin);
    RecOutput output;
    size_t failedTests = 0, failedExecutions = 0;
    if (P->reverse) registry.reverseTests();
    for (int r = 0; r < P->repeat; r++) {
        if (P->shuffle) registry.shuffleTests((size_t) P->seed);
        TestResult tr(output);
        registry.runAllTests(tr);
        failedTests += tr.getFailureCount();
        if (tr.isFailure()) failedExecutions++;
    }
    registry.removePluginByName(DEF_PLUGIN_SET_POINTER);
    return (int) (failedTests != 0 ? failedTests : failedExecutions);
}

static size_t drawPos;
static int forcedRand() { long v = drawPos < P->draws.size() ? P->draws[drawPos] : 0; drawPos++; return (int) v; }
static void noSrand(unsigned int) {}

static void emitProg()
{
    fprintf(out, "{\"op\":\"prog\",\"reg\":[");
    for (size_t i = 0; i < P->tests.size(); i++)
    {
        fprintf(out, "%s{\"g\":%s,\"n\":%s,\"ign\":%s,\"after\":[", i ? "," : "", chars(P->tests[i].g).c_str(), chars(P->tests[i].n).c_str(), P->tests[i].ign ? "true" : "false");
        for (size_t k = 0; k < P->tests[i].after.size(); k++)
            fprintf(out, "%s{\"op\":%s,\"name\":%s}", k ? "," : "", vh_jstr(P->tests[i].after[k].first).c_str(), vh_jstr(P->tests[i].after[k].second).c_str());
        fprintf(out, "]}");
    }
    fprintf(out, "],\"script\":[");
    for (size_t i = 0; i < P->tests.size(); i++) {
        fprintf(out, "%s{", i ? "," : "");
        for (int p = 0; p < 3; p++) {
            fprintf(out, "%s\"%s\":{\"sets\":[", p ? "," : "", PHN[p]);
            const PhaseS& ph = P->tests[i].ph[p];
            for (size_t k = 0; k < ph.sets.size(); k++) fprintf(out, "%s{\"loc\":%d,\"val\":%d}", k ? "," : "", ph.sets[k].first, ph.sets[k].second);
            fprintf(out, "],\"ev\":[");
            for (size_t k = 0; k < ph.evs.size(); k++) fprintf(out, "%s%s", k ? "," : "", vh_jstr(ph.evs[k]).c_str());
            fprintf(out, "]}");
        }
        fprintf(out, "}");
    }
    fprintf(out, "],\"cfg\":{\"repeat\":%d,\"reverse\":%s,\"shuffle\":%s,\"runIgnored\":%s,\"gf\":[", P->repeat, P->reverse ? "true" : "false",
            P->shuffle ? "true" : "false", P->runIgnored ? "true" : "false");
    for (size_t i = 0; i < P->gf.size(); i++)
        fprintf(out, "%s{\"pat\":%s,\"strict\":%s,\"invert\":%s}", i ? "," : "", chars(P->gf[i].pat).c_str(), P->gf[i].strict ? "true" : "false", P->gf[i].invert ? "true" : "false");
    fprintf(out, "],\"nf\":[");
    for (size_t i = 0; i < P->nf.size(); i++)
        fprintf(out, "%s{\"pat\":%s,\"strict\":%s,\"invert\":%s}", i ? "," : "", chars(P->nf[i].pat).c_str(), P->nf[i].strict ? "true" : "false", P->nf[i].invert ? "true" : "false");
    fprintf(out, "],\"list\":%s,\"plugins\":[", vh_jstr(P->list).c_str());
    for (size_t i = 0; i < P->plugins.size(); i++)
        fprintf(out, "%s{\"name\":%s,\"enabled\":%s,\"err\":%s}", i ? "," : "", vh_jstr(P->plugins[i].name).c_str(), P->plugins[i].enabled ? "true" : "false", P->plugins[i].err ? "true" : "false");
    fprintf(out, "]},\"cap\":%d,\"maxset\":%d}\n", CppUTestVerif_JmpBufCapacity(), (int) SetPointerPlugin::MAX_SET);
}

static std::vector<std::pair<int,int> > parseSets(const std::string& s)
{
    std::vector<std::pair<int,int> > r;
    if (s == "-" || s.empty()) return r;
    std::vector<std::string> parts = vh_split(s, ',');
    for (size_t i = 0; i < parts.size(); i++) { int a = 0, b = 0; sscanf(parts[i].c_str(), "%d:%d", &a, &b); r.push_back(std::make_pair(a, b)); }
    return r;
}

// The shells of the previous program are kept and used again when the next program registers the same tests (same groups, names,
// ignore flags, and the same run-ignored setting, which sticks to a shell): in a real program the shells are static objects that live
// through every run made in the process, so state cached in them across runs with different filters must not change the selection.
static std::vector<UtestShell*> keptShells;
static std::vector<TestS>* keptTests = NULL;      // owns copies of the strings the kept shells point to
static std::string keptSignature;
static std::string signatureOf(const Prog* p)
{
    std::string s = p->runIgnored ? "R|" : "N|";
    for (size_t i = 0; i < p->tests.size(); i++) s += p->tests[i].g + "\x01" + p->tests[i].n + (p->tests[i].ign ? "\x02" : "\x03");
    return s;
}

static void runProgram()
{
    emitProg();
    TestRegistry registry;
    theRegistry = &registry;
    idxOf.clear(); idxByFormatted.clear();
    std::vector<UtestShell*> shells;
    bool reuse = !P->tests.empty() && signatureOf(P) == keptSignature && keptShells.size() == P->tests.size();
    if (!reuse) {
        for (size_t i = 0; i < keptShells.size(); i++) delete keptShells[i];
        keptShells.clear(); delete keptTests; keptTests = new std::vector<TestS>(P->tests); keptSignature = signatureOf(P);
        fileNames.clear();
        for (size_t i = 0; i < P->tests.size(); i++) { char b[32]; snprintf(b, sizeof b, "T%d.cpp", (int) i + 1); fileNames.push_back(b); }
    }
    for (size_t i = 0; i < P->tests.size(); i++) {
        const TestS& t = (*keptTests)[i];
        UtestShell* s;
        if (reuse) s = keptShells[i];
        else if (t.ign) s = new ScriptedIgnoredShell((int) i + 1, t.g.c_str(), t.n.c_str(), fileNames[i].c_str(), 1000 * (i + 1));
        else s = new ScriptedShell((int) i + 1, t.g.c_str(), t.n.c_str(), fileNames[i].c_str(), 1000 * (i + 1));
        if (!reuse) keptShells.push_back(s);
        shells.push_back(s); idxOf[s] = (int) i + 1;
        idxByFormatted[std::string("TEST(") + t.g + ", " + t.n + ")"] = (int) i + 1;
        idxByFormatted[std::string("IGNORE_TEST(") + t.g + ", " + t.n + ")"] = (int) i + 1;
    }
    if (P->api && P->early && P->runIgnored) registry.setRunIgnored();      // options first, tests afterwards: the order must not matter
    for (size_t i = shells.size(); i > 0; i--) registry.addTest(shells[i - 1]);   // addTest prepends: list order = given order
    std::vector<RecPlugin*> plugins;
    for (size_t i = 0; i < P->plugins.size(); i++) plugins.push_back(new RecPlugin(P->plugins[i].name, P->plugins[i].err));
    for (size_t i = plugins.size(); i > 0; i--) { registry.installPlugin(plugins[i - 1]); if (!P->plugins[i - 1].enabled) plugins[i - 1]->disable(); }

    std::vector<std::string> args; args.push_back("testrun"); args.push_back("-e");
    char b[64];
    if (P->repeat != 1) { snprintf(b, sizeof b, "-r%d", P->repeat); args.push_back(b); }
    if (P->reverse) args.push_back("-b");
    if (P->shuffle) { snprintf(b, sizeof b, "-s%ld", P->seed); args.push_back(b); }
    if (P->runIgnored) args.push_back("-ri");
    if (P->list != "none") args.push_back("-" + P->list);
    for (size_t i = 0; i < P->gf.size(); i++) { args.push_back(std::string("-") + (P->gf[i].invert ? "x" : "") + (P->gf[i].strict ? "s" : "") + "g"); args.push_back(P->gf[i].pat); }
    for (size_t i = 0; i < P->nf.size(); i++) { args.push_back(std::string("-") + (P->nf[i].invert ? "x" : "") + (P->nf[i].strict ? "s" : "") + "n"); args.push_back(P->nf[i].pat); }
    std::vector<const char*> av; for (size_t i = 0; i < args.size(); i++) av.push_back(args[i].c_str());

    int (*savedRand)(void) = PlatformSpecificRand; void (*savedSrand)(unsigned int) = PlatformSpecificSrand;
    if (P->haveDraws) { drawPos = 0; PlatformSpecificRand = forcedRand; PlatformSpecificSrand = noSrand; }
    for (int l = 0; l <= NLOC; l++) targets[l] = NULL;
    jmpBase = CppUTestVerif_JmpBufIndex(); g_rep = 0; g_plainText.clear();
    int rv;
    if (P->api) rv = runThroughApi(registry);
    else {
        RecRunner runner((int) av.size(), &av[0], &registry);
        rv = runner.runAllTestsMain();
    }
    PlatformSpecificRand = savedRand; PlatformSpecificSrand = savedSrand;
    if (P->list != "none") {
        // the list output, tokenised: -lg "g g g", -ln "g.n g.n", -ll "g.n.file.line\n" per test
        fprintf(out, "{\"op\":\"list\",\"mode\":%s,\"items\":[", vh_jstr(P->list).c_str());
        std::vector<std::string> toks; std::string curTok;
        for (size_t i = 0; i <= g_plainText.size(); i++) {
            char c = i < g_plainText.size() ? g_plainText[i] : ' ';
            if (c == ' ' || c == '\n') { if (!curTok.empty()) toks.push_back(curTok); curTok.clear(); } else curTok += c;
        }
        for (size_t i = 0; i < toks.size(); i++) {
            const std::string& t = toks[i];
            if (P->list == "lg") fprintf(out, "%s%s", i ? "," : "", chars(t).c_str());
            else {
                size_t d1 = t.find('.');
                std::string g = t.substr(0, d1), rest = d1 == std::string::npos ? "" : t.substr(d1 + 1);
                if (P->list == "ln") fprintf(out, "%s{\"g\":%s,\"n\":%s}", i ? "," : "", chars(g).c_str(), chars(rest).c_str());
                else {
                    size_t d2 = rest.find('.'); std::string n = rest.substr(0, d2), fl = d2 == std::string::npos ? "" : rest.substr(d2 + 1);
                    size_t d3 = fl.rfind('.'); int tix = 0; sscanf(fl.c_str(), "T%d.cpp", &tix);
                    fprintf(out, "%s{\"g\":%s,\"n\":%s,\"t\":%d,\"line\":%ld}", i ? "," : "", chars(g).c_str(), chars(n).c_str(), tix, d3 == std::string::npos ? -1L : atol(fl.c_str() + d3 + 1));
                }
            }
        }
        fprintf(out, "]}\n");
    }
    fprintf(out, "{\"op\":\"ret\",\"value\":%d,\"jmp\":%d}\n", rv, relJmp());

    for (size_t i = 0; i < plugins.size(); i++) delete plugins[i];
    theRegistry = NULL;
}

int main(int argc, char** argv)
{
    if (argc < 3) return 2;
    FILE* in = fopen(argv[1], "r");
    out = fopen(argv[2], "w");
    if (!in || !out) return 2;
    vh_install(out);
    P = new Prog;
    std::string line;
    while (vh_readline(in, line)) {
        if (line.empty()) continue;
        std::vector<std::string> f = vh_split(line);
        if (f[0] == "reset") { fprintf(out, "{\"op\":\"reset\"}\n"); delete P; P = new Prog; }
        else if (f[0] == "cfg" && f.size() >= 6) {
            P->repeat = atoi(f[1].c_str()); P->reverse = f[2] == "1"; P->shuffle = f[3] != "-"; P->seed = P->shuffle ? atol(f[3].c_str()) : 1;
            P->runIgnored = f[4] == "1";
            P->api = f.size() > 6 && (f[6] == "api" || f[6] == "apiE");
            P->early = f.size() > 6 && f[6] == "apiE";
            P->nest = f.size() > 8 && f[8] == "nest";
            if (f.size() > 7 && !f[7].empty()) P->list = f[7];
            if (f[5] != "-") { P->haveDraws = true; std::vector<std::string> d = vh_split(f[5], ','); for (size_t i = 0; i < d.size(); i++) if (!d[i].empty()) P->draws.push_back(atol(d[i].c_str())); }
        }
        else if ((f[0] == "gf" || f[0] == "nf") && f.size() >= 4) { FilterS x; x.pat = f[1]; x.strict = f[2] == "1"; x.invert = f[3] == "1"; (f[0] == "gf" ? P->gf : P->nf).push_back(x); }
        else if (f[0] == "plugin" && f.size() >= 4) { PluginS x; x.name = f[1]; x.enabled = f[2] == "1"; x.err = f[3] == "1"; P->plugins.push_back(x); }
        else if (f[0] == "test" && f.size() >= 10) {
            TestS t; t.g = f[1]; t.n = f[2]; t.ign = f[3] == "1";
            for (int p = 0; p < 3; p++) { t.ph[p].sets = parseSets(f[4 + 2 * (size_t) p]); t.ph[p].evs = vh_split(f[5 + 2 * (size_t) p], '/'); }
            if (f.size() > 10 && f[10] != "-" && !f[10].empty()) {
                std::vector<std::string> ops = vh_split(f[10], ',');
                for (size_t k = 0; k < ops.size(); k++) { std::vector<std::string> q = vh_split(ops[k], ':'); if (q.size() == 2) t.after.push_back(std::make_pair(q[0], q[1])); }
            }
            P->tests.push_back(t);
        }
        else if (f[0] == "run") runProgram();
        else { fprintf(out, "{\"op\":\"harness-error\",\"what\":%s}\n", vh_jstr("bad line: " + line).c_str()); break; }
    }
    fflush(out); fclose(out);
    _exit(0);
}
