// Extra (not a listed property): TEST_ORDERED registration. One script line = one installation through the real
// TestInstaller / OrderedTestInstaller on a private current registry; logs the registry's list and the ordered chain.
#include "vh.h"
#include "CppUTest/TestHarness.h"
#include "CppUTest/TestRegistry.h"
#include "CppUTestExt/OrderedTest.h"

static std::string names(const std::vector<std::string>& v)
{ std::string o = "["; for (size_t i = 0; i < v.size(); i++) { if (i) o += ","; o += vh_jstr(v[i]); } return o + "]"; }

int main(int argc, char** argv)
{
    if (argc < 3) return 2;
    FILE* in = fopen(argv[1], "r"); FILE* out = fopen(argv[2], "w");
    if (!in || !out) return 2;
    vh_install(out);
    TestRegistry* reg = new TestRegistry;
    reg->setCurrentRegistry(reg);
    OrderedTestShell::setOrderedTestHead(NULLPTR);
    std::vector<std::string*> keep;
    std::string line;
    while (vh_readline(in, line)) {
        if (line.empty()) continue;
        std::vector<std::string> f = vh_split(line);
        if (f[0] == "reset") { reg = new TestRegistry; reg->setCurrentRegistry(reg); OrderedTestShell::setOrderedTestHead(NULLPTR); fprintf(out, "{\"op\":\"reset\"}\n"); continue; }
        std::string* nm = new std::string(f.size() > 1 ? f[1] : "x"); keep.push_back(nm);
        int level = f.size() > 2 ? atoi(f[2].c_str()) : 0;
        if (f[0] == "normal") { UtestShell* s = new UtestShell("G", "x", "f.cpp", 1); TestInstaller inst(*s, "G", nm->c_str(), "f.cpp", 1); }
        else if (f[0] == "ordered") { OrderedTestShell* s = new OrderedTestShell; OrderedTestInstaller inst(*s, "G", nm->c_str(), "f.cpp", 1, level); }
        else { fprintf(out, "{\"op\":\"harness-error\",\"what\":\"unknown op\"}\n"); break; }
        std::vector<std::string> r, c; size_t guard = 0;
        for (UtestShell* t = reg->getFirstTest(); t && guard < 1000; t = t->getNext(), guard++) r.push_back(t->getName().asCharString());
        guard = 0;
        for (OrderedTestShell* t = OrderedTestShell::getOrderedTestHead(); t && guard < 1000; t = t->getNextOrderedTest(), guard++) c.push_back(t->getName().asCharString());
        fprintf(out, "{\"op\":%s,\"name\":%s,\"level\":%d,\"count\":%lu,\"reg\":%s,\"chain\":%s}\n", vh_jstr(f[0]).c_str(), vh_jstr(*nm).c_str(), level,
                (unsigned long) reg->countTests(), names(r).c_str(), names(c).c_str());
    }
    reg->setCurrentRegistry(NULLPTR);
    fflush(out); fclose(out); _exit(0);
}
