// C13 conformance harness: executes scripts of SimpleString calls on the real class with a recording string
// allocator (exact-size malloc blocks, so AddressSanitizer sees every access outside a buffer) and logs one ndjson
// line per script line: the operands really used, the result, the contents of the object pool and the allocator
// events <kind(1 alloc,2 free), id, size> the call caused.  It never judges.
// Usage: simplestr <script.tsv> <log.ndjson>
//   f <fn> <s1> <s2> <s3> <n1> <n2> <n3>        pure call on fresh operands (strings: hex | - | NULL)
//   o <fn> <i> <j> <k> <s1> <s2> <n1> <n2>      call on the pool of objects 1..3
//   reset
// A number field is a decimal number or the name of a size_t value beyond every buffer (SIZE_MAX, SIZE_MAX-1, 2^32, ...):
// the call then receives that size_t value; the log carries the name in "hg" (and 0 as the number).
#include "vh.h"
#include "CppUTest/SimpleString.h"
#include "CppUTest/TestMemoryAllocator.h"

struct Ev { int kind; long id; size_t size; };
static std::vector<Ev> g_ev;
static std::map<char*, long> g_ids;
static long g_next_id = 1;

class RecordingAllocator : public TestMemoryAllocator
{
public:
    RecordingAllocator() : TestMemoryAllocator("recording string allocator", "rec-alloc", "rec-free") {}
    char* alloc_memory(size_t size, const char*, size_t) CPPUTEST_OVERRIDE
    {
        char* p = (char*) malloc(size ? size : 1);
        if (p) memset(p, 0xCD, size);       // a request for ~SIZE_MAX bytes fails: the code under test receives NULL
        long id = g_next_id++;
        g_ids[p] = id;
        Ev e = { 1, id, size }; g_ev.push_back(e);
        return p;
    }
    void free_memory(char* memory, size_t size, const char*, size_t) CPPUTEST_OVERRIDE
    {
        long id = 0;
        std::map<char*, long>::iterator it = g_ids.find(memory);
        if (it != g_ids.end()) { id = it->second; g_ids.erase(it); }
        Ev e = { 2, id, size }; g_ev.push_back(e);
        if (id) free(memory);          // an unknown pointer is reported (id 0), not handed to free()
    }
};

struct Arg {
    bool null; std::string b; char* p; bool block;
    Arg() : null(false), p(NULL), block(false) {}
};
static Arg mk(const std::string& f, bool block)
{
    Arg a; a.block = block;
    if (f == "NULL") { a.null = true; return a; }
    a.b = (f == "-" || f.empty()) ? std::string() : vh_unhex(f);
    size_t n = a.b.size() + (block ? 0 : 1);
    a.p = (char*) malloc(n ? n : 1);
    memcpy(a.p, a.b.data(), a.b.size());
    if (!block) a.p[a.b.size()] = 0;
    return a;
}
static void drop(Arg& a) { if (a.p) free(a.p); a.p = NULL; }
static std::string jbytes(const std::string& s)
{
    std::string o = "[";
    for (size_t i = 0; i < s.size(); i++) { char b[8]; snprintf(b, sizeof b, "%s%d", i ? "," : "", (unsigned char) s[i]); o += b; }
    return o + "]";
}
static std::string jarg(const Arg& a) { return a.null ? "[-1]" : jbytes(a.b); }
static std::string jev()
{
    std::string o = "[";
    for (size_t i = 0; i < g_ev.size(); i++) {
        char b[96]; snprintf(b, sizeof b, "%s[%d,%ld,%lu]", i ? "," : "", g_ev[i].kind, g_ev[i].id, (unsigned long) g_ev[i].size);
        o += b;
    }
    return o + "]";
}
static int sgn(int v) { return v < 0 ? -1 : v > 0 ? 1 : 0; }
static std::string str_of(const SimpleString& s) { return std::string(s.asCharString()); }
static long pos_of(size_t p) { return p == SimpleString::npos ? -1 : (long) p; }

static bool g_bad = false; static std::string g_why;

// a number operand: small value (v) or a named size beyond every buffer (h, z)
struct Num {
    long v; size_t z; std::string h;
    Num() : v(0), z(0) {}
};
static Num num_of(const std::string& f)
{
    static const struct { const char* name; size_t value; } huge[] = {
        { "SIZE_MAX", SIZE_MAX }, { "SIZE_MAX-1", SIZE_MAX - 1 }, { "SIZE_MAX-2", SIZE_MAX - 2 }, { "SIZE_MAX-3", SIZE_MAX - 3 },
        { "SIZE_MAX/2+1", SIZE_MAX / 2 + 1 }, { "SIZE_MAX/2", SIZE_MAX / 2 },
        { "2^32", (size_t) 1 << 32 }, { "2^32-1", ((size_t) 1 << 32) - 1 }, { "2^32+1", ((size_t) 1 << 32) + 1 },
        { "2^31", (size_t) 1 << 31 }, { "2^31+1", ((size_t) 1 << 31) + 1 } };
    Num n;
    bool plain = true;
    for (size_t i = 0; i < f.size(); i++) if (!((f[i] >= '0' && f[i] <= '9') || (i == 0 && f[i] == '-'))) plain = false;
    if (plain) { n.v = atol(f.c_str()); n.z = (size_t) n.v; return n; }
    for (size_t i = 0; i < sizeof huge / sizeof huge[0]; i++)
        if (f == huge[i].name) { n.h = f; n.z = huge[i].value; return n; }
    g_bad = true; g_why = "unknown size name " + f;
    return n;
}
// the calls that may receive a size beyond every buffer (everything else would allocate or touch that many bytes here)
static bool huge_allowed(const std::string& fn, int slot, const std::string& s1)
{
    if (fn == "substr1" || fn == "findfrom" || fn == "strncmp" || fn == "copytobuf") return slot == 1;
    if (fn == "substr2" || fn == "sub") return slot == 1 || slot == 2;
    if (fn == "repeat") return slot == 1 && (s1 == "-" || s1.empty());
    if (fn == "maskedbits") return slot == 3;
    return false;
}
static std::string jhg(const Num* a, int n)
{
    std::string o = "[";
    for (int i = 0; i < n; i++) { if (i) o += ","; o += vh_jstr(a[i].h); }
    return o + "]";
}

// returns the JSON text of the result
static std::string pure(const std::string& fn, Arg& a1, Arg& a2, Arg& a3, const Num* nn)
{
    std::string r;
    long n1 = nn[0].v, n2 = nn[1].v, n3 = nn[2].v;
    size_t z1 = nn[0].z, z2 = nn[1].z, z3 = nn[2].z;
    (void) z2; (void) n3;
    const char* p1 = a1.p; const char* p2 = a2.p; const char* p3 = a3.p;
#define S(x) jbytes(str_of(x))
#define B(x) std::string((x) ? "true" : "false")
#define N(x) std::to_string((long) (x))
    if (fn == "ctor") { SimpleString s(p1); r = S(s); }
    else if (fn == "repeat") { SimpleString s(p1, z1); r = S(s); }
    else if (fn == "copy") { SimpleString a(p1); SimpleString b(a); r = S(b); }
    else if (fn == "plus") { SimpleString a(p1), b(p2); SimpleString c = a + b; r = S(c); }
    else if (fn == "append") { SimpleString a(p1), b(p2); a += b; r = S(a); }
    else if (fn == "appendc") { SimpleString a(p1); a += p2; r = S(a); }
    else if (fn == "eq") { SimpleString a(p1), b(p2); r = B(a == b); }
    else if (fn == "ne") { SimpleString a(p1), b(p2); r = B(a != b); }
    else if (fn == "eqnocase") { SimpleString a(p1), b(p2); r = B(a.equalsNoCase(b)); }
    else if (fn == "contains") { SimpleString a(p1), b(p2); r = B(a.contains(b)); }
    else if (fn == "containsnocase") { SimpleString a(p1), b(p2); r = B(a.containsNoCase(b)); }
    else if (fn == "startswith") { SimpleString a(p1), b(p2); r = B(a.startsWith(b)); }
    else if (fn == "endswith") { SimpleString a(p1), b(p2); r = B(a.endsWith(b)); }
    else if (fn == "count") { SimpleString a(p1), b(p2); r = N(a.count(b)); }
    else if (fn == "find") { SimpleString a(p1); r = N(pos_of(a.find((char) n1))); }
    else if (fn == "findfrom") { SimpleString a(p1); r = N(pos_of(a.findFrom(z1, (char) n2))); }
    else if (fn == "substr1") { SimpleString a(p1); SimpleString s = a.subString(z1); r = S(s); }
    else if (fn == "substr2") { SimpleString a(p1); SimpleString s = a.subString(z1, z2); r = S(s); }
    else if (fn == "subfromtill") { SimpleString a(p1); SimpleString s = a.subStringFromTill((char) n1, (char) n2); r = S(s); }
    else if (fn == "split") {
        SimpleString a(p1), b(p2); SimpleStringCollection col; a.split(b, col);
        r = "[";
        for (size_t i = 0; i < col.size(); i++) { if (i) r += ","; r += S(col[i]); }
        r += "]";
    }
    else if (fn == "replacech") { SimpleString a(p1); a.replace((char) n1, (char) n2); r = S(a); }
    else if (fn == "replacestr") { SimpleString a(p1); a.replace(p2, p3); r = S(a); }
    else if (fn == "lower") { SimpleString a(p1); SimpleString s = a.lowerCase(); r = S(s); }
    else if (fn == "printable") { SimpleString a(p1); SimpleString s = a.printable(); r = S(s); }
    else if (fn == "pad") { SimpleString a(p1), b(p2); SimpleString::padStringsToSameLength(a, b, (char) n1); r = "[" + S(a) + "," + S(b) + "]"; }
    else if (fn == "copytobuf") {
        SimpleString a(p1);
        // a claimed size beyond every buffer: the real buffer holds exactly the string and its terminator
        size_t real = nn[0].h.empty() ? (n1 ? (size_t) n1 : 1) : a1.b.size() + 1;
        char* buf = n2 ? NULL : (char*) malloc(real);
        if (buf) memset(buf, 0xAA, real);
        a.copyToBuffer(buf, z1);
        r = (buf && z1) ? jbytes(std::string(buf)) : "[]";     // an unterminated buffer is read past its end here: ASan reports it
        if (buf) free(buf);
    }
    else if (fn == "at") { SimpleString a(p1); r = N((unsigned char) a.at((size_t) n1)); }
    else if (fn == "size") { SimpleString a(p1); r = N(a.size()); }
    else if (fn == "isempty") { SimpleString a(p1); r = B(a.isEmpty()); }
    else if (fn == "strcmp") r = N(sgn(SimpleString::StrCmp(p1, p2)));
    else if (fn == "strncmp") r = N(sgn(SimpleString::StrNCmp(p1, p2, z1)));
    else if (fn == "strlen") r = N(SimpleString::StrLen(p1));
    else if (fn == "strncpy") {
        char* dst = (char*) malloc(n1 ? (size_t) n1 : 1);
        memset(dst, 0xAA, n1 ? (size_t) n1 : 1);
        char* ret = SimpleString::StrNCpy(dst, p1, (size_t) n1);
        if (ret != dst) { g_bad = true; g_why = "StrNCpy did not return its destination"; }
        r = jbytes(std::string(dst, (size_t) n1));
        free(dst);
    }
    else if (fn == "strstr") { const char* q = SimpleString::StrStr(p1, p2); r = N(q ? (long) (q - p1) : -1); }
    else if (fn == "memcmp") r = N(sgn(SimpleString::MemCmp(p1, p2, (size_t) n1)));
    else if (fn == "atoi") r = N(SimpleString::AtoI(p1));
    else if (fn == "atou") r = N(SimpleString::AtoU(p1));
    else if (fn == "tolower") r = N((unsigned char) SimpleString::ToLower((char) n1));
    else if (fn == "format") { SimpleString s = StringFromFormat("%s", p1); r = S(s); }
    else if (fn == "format2") { SimpleString s = StringFromFormat("%s%s", p1, p2); r = S(s); }
    else if (fn == "dec") { SimpleString s = StringFrom((int) n1); SimpleString t = StringFrom((long) n1); if (!(s == t)) { g_bad = true; g_why = "StringFrom(int) and StringFrom(long) differ"; } r = S(s); }
    else if (fn == "udec") { SimpleString s = StringFrom((unsigned int) n1); SimpleString t = StringFrom((unsigned long) n1); if (!(s == t)) { g_bad = true; g_why = "StringFrom(unsigned) and StringFrom(unsigned long) differ"; } r = S(s); }
    else if (fn == "hex") { SimpleString s = HexStringFrom((unsigned int) n1); r = S(s); }
    else if (fn == "hexschar") { SimpleString s = HexStringFrom((signed char) n1); r = S(s); }
    else if (fn == "brackets") { SimpleString s = BracketsFormattedHexStringFrom((int) n1); r = S(s); }
    else if (fn == "bool") { SimpleString s = StringFrom((bool) (n1 != 0)); r = S(s); }
    else if (fn == "char") { SimpleString s = StringFrom((char) n1); r = S(s); }
    else if (fn == "fromornull") { SimpleString s = StringFromOrNull(p1); r = S(s); }
    else if (fn == "printableornull") { SimpleString s = PrintableStringFromOrNull(p1); r = S(s); }
    else if (fn == "binary") { SimpleString s = StringFromBinary((const unsigned char*) p1, a1.b.size()); r = S(s); }
    else if (fn == "binaryornull") { SimpleString s = StringFromBinaryOrNull((const unsigned char*) p1, a1.b.size()); r = S(s); }
    else if (fn == "binarysize") { SimpleString s = StringFromBinaryWithSize((const unsigned char*) p1, a1.b.size()); r = S(s); }
    else if (fn == "binarysizeornull") { SimpleString s = StringFromBinaryWithSizeOrNull((const unsigned char*) p1, a1.b.size()); r = S(s); }
    else if (fn == "maskedbits") {
        unsigned long v = 0, m = 0;
        for (size_t i = 0; i < a1.b.size(); i++) v |= 1UL << (unsigned char) a1.b[i];
        for (size_t i = 0; i < a2.b.size(); i++) m |= 1UL << (unsigned char) a2.b[i];
        SimpleString s = StringFromMaskedBits(v, m, z3); r = S(s);
    }
    else if (fn == "ordinal") { SimpleString s = StringFromOrdinalNumber((unsigned int) n1); r = S(s); }
    else { g_bad = true; g_why = "unknown fn " + fn; }
    (void) p3;
    return r;
}

static const int NOBJ = 3;
static SimpleString* obj[NOBJ + 1];

static void object_call(const std::string& fn, int i, int j, int k, Arg& a1, Arg& a2, const Num* nn)
{
    long n1 = nn[0].v, n2 = nn[1].v;
    bool okI = i >= 1 && i <= NOBJ, okJ = j >= 1 && j <= NOBJ, okK = k >= 1 && k <= NOBJ;
#define NEEDI if (!okI || !obj[i]) { g_bad = true; g_why = "object i"; return; }
#define NEEDJ if (!okJ || !obj[j]) { g_bad = true; g_why = "object j"; return; }
#define NEEDK if (!okK || !obj[k]) { g_bad = true; g_why = "object k"; return; }
    if (fn == "new") { if (!okI || obj[i]) { g_bad = true; g_why = "slot i"; return; } obj[i] = new SimpleString(a1.p); }
    else if (fn == "del") { NEEDI delete obj[i]; obj[i] = NULL; }
    else if (fn == "assign") { NEEDI NEEDJ *obj[i] = *obj[j]; }
    else if (fn == "append") { NEEDI NEEDJ *obj[i] += *obj[j]; }
    else if (fn == "appendlit") { NEEDI *obj[i] += a1.p; }
    else if (fn == "replacech") { NEEDI obj[i]->replace((char) n1, (char) n2); }
    else if (fn == "replacestr") { NEEDI obj[i]->replace(a1.p, a2.p); }
    else if (fn == "pad") { NEEDI NEEDJ SimpleString::padStringsToSameLength(*obj[i], *obj[j], (char) n1); }
    else if (fn == "sub") { NEEDI NEEDJ *obj[i] = obj[j]->subString(nn[0].z, nn[1].z); }
    else if (fn == "lower") { NEEDI NEEDJ *obj[i] = obj[j]->lowerCase(); }
    else if (fn == "plus") { NEEDI NEEDJ NEEDK *obj[i] = *obj[j] + *obj[k]; }
    else if (fn == "printable") { NEEDI NEEDJ *obj[i] = obj[j]->printable(); }
    else if (fn == "end") { for (int q = 1; q <= NOBJ; q++) { delete obj[q]; obj[q] = NULL; } }
    else { g_bad = true; g_why = "unknown object fn " + fn; }
}

static std::string jvals()
{
    std::string o = "[";
    for (int q = 1; q <= NOBJ; q++) { if (q > 1) o += ","; o += obj[q] ? jbytes(str_of(*obj[q])) : "[-2]"; }
    return o + "]";
}

int main(int argc, char** argv)
{
    if (argc < 3) return 2;
    FILE* in = fopen(argv[1], "r");
    FILE* out = fopen(argv[2], "w");
    if (!in || !out) return 2;
    setvbuf(out, NULL, _IOLBF, 0);
    vh_install(out);
    RecordingAllocator rec;
    SimpleString::setStringAllocator(&rec);
    std::string line;
    while (vh_readline(in, line)) {
        if (line.empty()) continue;
        std::vector<std::string> f = vh_split(line);
        while (f.size() < 10) f.push_back("");
        if (f[0] == "reset") {
            for (int q = 1; q <= NOBJ; q++) { delete obj[q]; obj[q] = NULL; }
            g_ev.clear();
            fprintf(out, "{\"op\":\"reset\"}\n");
            continue;
        }
        g_ev.clear(); g_bad = false;
        if (f[0] == "f") {
            const std::string& fn = f[1];
            bool blk1 = fn == "memcmp" || fn == "binary" || fn == "binaryornull" || fn == "binarysize" || fn == "binarysizeornull" || fn == "maskedbits";
            bool blk2 = fn == "memcmp" || fn == "maskedbits";
            Arg a1 = mk(f[2], blk1), a2 = mk(f[3], blk2), a3 = mk(f[4], false);
            Num nn[3];
            for (int q = 0; q < 3 && !g_bad; q++) {
                nn[q] = num_of(f[5 + q]);
                if (!g_bad && !nn[q].h.empty() && !huge_allowed(fn, q + 1, f[2])) { g_bad = true; g_why = "size beyond every buffer not supported for operand " + std::to_string(q + 1) + " of " + fn; }
            }
            std::string r = g_bad ? std::string() : pure(fn, a1, a2, a3, nn);
            if (!g_bad)
                fprintf(out, "{\"op\":\"f\",\"fn\":%s,\"s1\":%s,\"s2\":%s,\"s3\":%s,\"n1\":%ld,\"n2\":%ld,\"n3\":%ld,\"hg\":%s,\"res\":%s,\"ev\":%s}\n",
                        vh_jstr(fn).c_str(), jarg(a1).c_str(), jarg(a2).c_str(), jarg(a3).c_str(), nn[0].v, nn[1].v, nn[2].v, jhg(nn, 3).c_str(), r.c_str(), jev().c_str());
            drop(a1); drop(a2); drop(a3);
        } else if (f[0] == "o") {
            const std::string& fn = f[1];
            int i = atoi(f[2].c_str()), j = atoi(f[3].c_str()), k = atoi(f[4].c_str());
            Arg a1 = mk(f[5], false), a2 = mk(f[6], false);
            Num nn[2];
            for (int q = 0; q < 2 && !g_bad; q++) {
                nn[q] = num_of(f[7 + q]);
                if (!g_bad && !nn[q].h.empty() && !huge_allowed(fn, q + 1, "")) { g_bad = true; g_why = "size beyond every buffer not supported for object call " + fn; }
            }
            if (!g_bad) object_call(fn, i, j, k, a1, a2, nn);
            if (!g_bad)
                fprintf(out, "{\"op\":\"o\",\"fn\":%s,\"i\":%d,\"j\":%d,\"k\":%d,\"s1\":%s,\"s2\":%s,\"n1\":%ld,\"n2\":%ld,\"hg\":%s,\"vals\":%s,\"ev\":%s}\n",
                        vh_jstr(fn).c_str(), i, j, k, jarg(a1).c_str(), jarg(a2).c_str(), nn[0].v, nn[1].v, jhg(nn, 2).c_str(), jvals().c_str(), jev().c_str());
            drop(a1); drop(a2);
        } else { g_bad = true; g_why = "unknown op " + f[0]; }
        if (g_bad) { fprintf(out, "{\"op\":\"harness-error\",\"what\":%s,\"line\":%s}\n", vh_jstr(g_why).c_str(), vh_jstr(line).c_str()); break; }
    }
    fflush(out);
    fclose(out);
    _exit(0);
}
