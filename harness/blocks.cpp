// C05/C06 conformance harness: drives the real global allocation entry points (operator new/new[] plain, debug,
// nothrow; cpputest_malloc/calloc/realloc/strdup/strndup; operator delete/delete[]; cpputest_free) in front of a
// private MemoryLeakDetector whose underlying allocators are recording arena allocators.  One ndjson line per
// script line.  The harness never judges: it reports what it saw (returned pointer class, misuse callback category,
// bytes seen when the memory was handed back, shadow-copy comparison of all other blocks, red zones of the arena).
// Usage: blocks <script.tsv> <log.ndjson> <cap>        |   blocks --constants
#include "vh.h"
#include <new>
#include "CppUTest/TestHarness.h"
#include "CppUTest/MemoryLeakDetector.h"
#include "CppUTest/MemoryLeakWarningPlugin.h"
#include "CppUTest/TestMemoryAllocator.h"
#include "CppUTest/PlatformSpecificFunctions.h"
#include "CppUTest/TestHarness_c.h"
#undef new
#undef malloc
#undef free
#undef calloc
#undef realloc
#undef strdup
#undef strndup

// ---------------------------------------------------------------- arena = the underlying allocator
static const int NSLOT = 8;
static const size_t RED = 128;
static const unsigned char FILLER = 0xEE;
static size_t CAPB = 4608;
struct Slot { char* mem; bool used; size_t req; };
static Slot slots[NSLOT];
static char* arena_raw;
static size_t stride() { return RED + CAPB + RED; }

static int g_next_slot = -1;        // slot that serves the next underlying request
static bool g_fail_under = false;   // the next underlying request (allocator or platform realloc) returns NULL
static bool g_fail_node = false;    // the next bookkeeping-record request returns NULL
static int g_nreq = 0;              // underlying requests seen in this call
static size_t g_first_req = 0;      // size of the first one
static int g_served = -1;           // slot that served a request in this call
static bool g_wild = false;         // the allocator seam was handed something it never gave out
// bookkeeping records handed out (fixed table: nothing here may allocate while the overloads are switched on)
static void* g_nodes[1024];
static bool node_add(void* n) { for (int i = 0; i < 1024; i++) if (!g_nodes[i]) { g_nodes[i] = n; return true; } return false; }
static bool node_del(void* n) { if (!n) return false; for (int i = 0; i < 1024; i++) if (g_nodes[i] == n) { g_nodes[i] = NULL; return true; } return false; }

// what happened when memory was handed back in this call
static int g_freed_slot = -1;
static const char* g_over = "na";
// the pattern the "program" stored in the block being released, so that free_memory can see whether it was overwritten
static unsigned char g_release_fill = 0;
static size_t g_release_size = 0;
static char* g_release_ptr = NULL;

static int slot_of(const char* p)
{
    if (p < arena_raw) return -1;
    size_t off = (size_t) (p - arena_raw);
    size_t s = off / stride();
    if (s >= (size_t) NSLOT) return -1;
    return (int) s;
}

static void slot_clear(int s) { memset(slots[s].mem - RED, FILLER, stride()); slots[s].used = false; slots[s].req = 0; }

static bool all_filler(const char* p, size_t n)
{
    for (size_t i = 0; i < n; i++) if ((unsigned char) p[i] != FILLER) return false;
    return true;
}

// every byte of the arena that is not part of a block currently handed out still holds the filler
static bool arena_clean()
{
    for (int s = 0; s < NSLOT; s++) {
        if (!all_filler(slots[s].mem - RED, RED)) return false;
        size_t from = slots[s].used ? slots[s].req : 0;
        if (from > CAPB) from = CAPB;
        if (!all_filler(slots[s].mem + from, CAPB - from + RED)) return false;
    }
    return true;
}

static char* arena_serve(size_t size)
{
    g_nreq++;
    if (g_nreq == 1) g_first_req = size;
    if (g_fail_under) { g_fail_under = false; return NULL; }
    if (size > CAPB) return NULL;                        // cannot be satisfied
    int s = g_next_slot;
    if (s < 0 || s >= NSLOT || slots[s].used) return NULL;   // (only if the code asks for more blocks than the call needs)
    g_next_slot = -1;
    slots[s].used = true; slots[s].req = size;
    g_served = s;
    return slots[s].mem;
}

static void arena_return(char* memory)
{
    int s = slot_of(memory);
    if (s < 0 || !slots[s].used || slots[s].mem != memory) { g_wild = true; return; }
    g_freed_slot = s;
    if (memory == g_release_ptr) {
        bool all = true;
        for (size_t i = 0; i < g_release_size; i++) if ((unsigned char) memory[i] == g_release_fill) all = false;
        g_over = all ? "yes" : "no";
    }
    slot_clear(s);
}

class ArenaAllocator : public TestMemoryAllocator
{
public:
    ArenaAllocator(const char* n, const char* an, const char* fn) : TestMemoryAllocator(n, an, fn) {}
    char* alloc_memory(size_t size, const char* file, size_t) CPPUTEST_OVERRIDE
    {
        if (file && strcmp(file, "MemoryLeakNode") == 0) {
            if (g_fail_node) { g_fail_node = false; return NULL; }
            void* n = malloc(size); if (!node_add(n)) g_wild = true; return (char*) n;
        }
        return arena_serve(size);
    }
    void free_memory(char* memory, size_t, const char* file, size_t) CPPUTEST_OVERRIDE
    {
        if (file && strcmp(file, "MemoryLeakNode") == 0) {
            // with type checking off a record that lives inside a block of another family can arrive here: not ours, ignore
            if (node_del(memory)) free(memory);
            return;
        }
        arena_return(memory);
    }
};

// a wrapper in the style of MemoryLeakAllocator / AccountingTestMemoryAllocator: own name, actualAllocator() of the wrapped one
class WrapAllocator : public TestMemoryAllocator
{
    TestMemoryAllocator* orig_;
public:
    explicit WrapAllocator(TestMemoryAllocator* o) : TestMemoryAllocator("Wrapper", "wrap-alloc", "wrap-free"), orig_(o) {}
    char* alloc_memory(size_t size, const char* file, size_t line) CPPUTEST_OVERRIDE { return orig_->alloc_memory(size, file, line); }
    void free_memory(char* m, size_t size, const char* file, size_t line) CPPUTEST_OVERRIDE { orig_->free_memory(m, size, file, line); }
    const char* alloc_name() const CPPUTEST_OVERRIDE { return orig_->alloc_name(); }
    const char* free_name() const CPPUTEST_OVERRIDE { return orig_->free_name(); }
    TestMemoryAllocator* actualAllocator() CPPUTEST_OVERRIDE { return orig_->actualAllocator(); }
};

static void* stub_realloc(void* old, size_t size)
{
    g_nreq++;
    if (g_nreq == 1) g_first_req = size;
    if (g_fail_under) { g_fail_under = false; return NULL; }
    if (size > CAPB) return NULL;
    int so = -1;
    if (old) {
        so = slot_of((char*) old);
        if (so < 0 || !slots[so].used || slots[so].mem != old) { g_wild = true; return NULL; }
    }
    int s = g_next_slot;
    if (s < 0 || s >= NSLOT) return NULL;
    g_next_slot = -1;
    if (s == so) {
        if (size < slots[s].req) memset(slots[s].mem + size, FILLER, slots[s].req - size);
        slots[s].req = size; g_served = s;
        return old;
    }
    if (slots[s].used) return NULL;
    slots[s].used = true; slots[s].req = size; g_served = s;
    if (old) {
        size_t n = slots[so].req < size ? slots[so].req : size;
        memcpy(slots[s].mem, old, n);
        slot_clear(so);
    }
    return slots[s].mem;
}

class RecFailure : public MemoryLeakFailure
{
public:
    char text[256];
    int count;
    RecFailure() : count(0) { text[0] = 0; }
    void fail(char* s) CPPUTEST_OVERRIDE { count++; if (count == 1) { strncpy(text, s, sizeof text - 1); text[sizeof text - 1] = 0; } }
};

// ---------------------------------------------------------------- the program's view of its blocks (shadow)
struct Shadow {
    bool live; char* p; size_t size; std::vector<unsigned char> bytes;   // user bytes followed by the guard bytes as first seen
    char* lastp;
    Shadow() : live(false), p(NULL), size(0), lastp(NULL) {}
};
static Shadow sh[NSLOT];
static size_t G = MemoryLeakDetector::memory_corruption_buffer_size;
static unsigned g_tag = 0;

static unsigned char pat(unsigned tag, size_t i) { return (unsigned char) (1 + (i * 31 + tag * 17) % 199); }

static void adopt(int s, char* p, size_t size, bool fill)
{
    Shadow& b = sh[s];
    b.live = true; b.p = p; b.lastp = p; b.size = size; b.bytes.resize(size + G);
    g_tag++;
    for (size_t i = 0; i < size; i++) { if (fill) p[i] = (char) pat(g_tag, i); b.bytes[i] = (unsigned char) p[i]; }
    for (size_t i = 0; i < G; i++) b.bytes[size + i] = (unsigned char) p[size + i];
}

static bool others_intact(int except1, int except2)
{
    for (int s = 0; s < NSLOT; s++) {
        if (!sh[s].live || s == except1 || s == except2) continue;
        if (sh[s].bytes.size() && memcmp(sh[s].p, &sh[s].bytes[0], sh[s].bytes.size()) != 0) return false;
    }
    return true;
}

static bool parse_sym(const std::string& f, size_t& v, std::string& t, long& e, long& n)
{
    std::vector<std::string> p = vh_split(f, ':');
    if (p.size() != 3) return false;
    t = p[0]; e = atol(p[1].c_str()); n = atol(p[2].c_str());
    if (t == "S") v = (size_t) n;
    else if (t == "T") v = SIZE_MAX - (size_t) n;
    else if (t == "P") v = (((size_t) 1) << e) + (size_t) (int64_t) n;
    else return false;
    return true;
}
static std::string sym_json(const std::string& f)
{
    std::vector<std::string> p = vh_split(f, ':');
    if (p.size() != 3) return "{\"t\":\"-\",\"e\":0,\"n\":0}";
    return "{\"t\":\"" + p[0] + "\",\"e\":" + p[1] + ",\"n\":" + p[2] + "}";
}
static std::string size_sym(size_t v)
{
    char b[64];
    if (v <= 1000000) snprintf(b, sizeof b, "S:0:%lu", (unsigned long) v);
    else if (SIZE_MAX - v <= 1000000) snprintf(b, sizeof b, "T:0:%lu", (unsigned long) (SIZE_MAX - v));
    else snprintf(b, sizeof b, "X:0:0");
    return b;
}

enum Ep { E_NEW, E_NEWDBG, E_NEWNT, E_NEWARR, E_NEWARRDBG, E_NEWARRNT, E_MALLOC, E_DELETE, E_DELETEARR, E_FREE,
          E_DELETESZ, E_DELETENT, E_DELETEDBG, E_DELETEDBGI, E_DELETEARRSZ, E_DELETEARRNT, E_DELETEARRDBG, E_DELETEARRDBGI, E_BAD };
static Ep ep_of(const std::string& s)
{
    static const char* names[] = {"new", "newdbg", "newnt", "newarr", "newarrdbg", "newarrnt", "malloc", "delete", "deletearr", "free",
                                  "deletesz", "deletent", "deletedbg", "deletedbgi", "deletearrsz", "deletearrnt", "deletearrdbg", "deletearrdbgi"};
    for (int i = 0; i < 18; i++) if (s == names[i]) return (Ep) i;
    return E_BAD;
}

// "ts" as 4th argument: the same script through the thread-safe overloads (turnOnThreadSafeNewDeleteOverloads); the specification is the
// same - serialised by a mutex or not, every operator new / delete form has one meaning
static bool g_ts = false;
static int g_period = 0;     // 0 checking, 1 enabled, 2 disabled
static void ON() { if (g_ts) MemoryLeakWarningPlugin::turnOnThreadSafeNewDeleteOverloads(); else MemoryLeakWarningPlugin::turnOnDefaultNotThreadSafeNewDeleteOverloads(); }
static void OFF() { MemoryLeakWarningPlugin::turnOffNewDeleteOverloads(); }

int main(int argc, char** argv)
{
    OFF();
    if (argc >= 2 && strcmp(argv[1], "--constants") == 0) {
        // layout constants of this build, and the guard bytes as the detector writes them (observed on one real block)
        MemoryLeakFailure* rf0 = new RecFailure;
        MemoryLeakDetector* d0 = new MemoryLeakDetector(rf0);
        // (a static buffer as the underlying block: reading the bytes after the user bytes is then safe whatever the code requested)
        class ProbeAllocator : public TestMemoryAllocator {
        public:
            ProbeAllocator() : TestMemoryAllocator("probe", "malloc", "free") {}
            char* alloc_memory(size_t size, const char* file, size_t) CPPUTEST_OVERRIDE {
                static char buf[2][1024]; static int k = 0; (void) size; (void) file; return buf[k++ % 2] + 64; }
            void free_memory(char*, size_t, const char*, size_t) CPPUTEST_OVERRIDE {}
        } plainMalloc;
        char* p = d0->allocMemory(&plainMalloc, 5, "f", 1, true);
        printf("{\"guard\":%lu,\"align\":%lu,\"node\":%lu,\"gb\":[", (unsigned long) G, (unsigned long) sizeof(void*), (unsigned long) sizeof(MemoryLeakDetectorNode));
        for (size_t i = 0; i < G; i++) printf("%s%u", i ? "," : "", (unsigned) (unsigned char) p[5 + i]);
        printf("]}\n");
        fflush(stdout);
        _exit(0);
    }
    if (argc < 4) return 2;
    FILE* in = fopen(argv[1], "r");
    FILE* out = fopen(argv[2], "w");
    CAPB = (size_t) atol(argv[3]);
    g_ts = argc >= 5 && strcmp(argv[4], "ts") == 0;
    if (!in || !out) return 2;
    vh_install(out, false);    // no signal handlers: a crash ends the log at the last completed call (every line is flushed)
    arena_raw = (char*) aligned_alloc(64, ((NSLOT * stride() + 63) / 64) * 64 + 64);
    // slot memory starts RED bytes into its stride; keep it 64-aligned
    if (stride() % 64 != 0) { fprintf(out, "{\"op\":\"harness-error\",\"what\":\"cap must keep slots aligned\"}\n"); fclose(out); return 2; }
    for (int s = 0; s < NSLOT; s++) { slots[s].mem = arena_raw + (size_t) s * stride() + RED; slot_clear(s); }
    PlatformSpecificRealloc = stub_realloc;

    static char foreign[64];
    ArenaAllocator* plain[3]; ArenaAllocator* twin[3]; WrapAllocator* wrap[3]; ArenaAllocator* relabel[3];
    const char* nm[3] = {"Arena New", "Arena New []", "Arena Malloc"};
    const char* an[3] = {"new", "new []", "malloc"};
    const char* fn[3] = {"delete", "delete []", "free"};
    for (int f = 0; f < 3; f++) { plain[f] = new ArenaAllocator(nm[f], an[f], fn[f]); twin[f] = new ArenaAllocator(nm[f], an[f], fn[f]); wrap[f] = new WrapAllocator(plain[f]);
                                  relabel[f] = new ArenaAllocator(nm[f], "obtain", "give back"); }
    RecFailure* rf = new RecFailure;
    MemoryLeakDetector* det = new MemoryLeakDetector(rf);
    MemoryLeakWarningPlugin::setGlobalDetector(det, rf);
    setCurrentNewAllocator(plain[0]); setCurrentNewArrayAllocator(plain[1]); setCurrentMallocAllocator(plain[2]);
    unsigned opno = 0;

    std::string line;
    while (vh_readline(in, line)) {
        if (line.empty()) continue;
        std::vector<std::string> f = vh_split(line);
        while (f.size() < 10) f.push_back("");
        const std::string op = f[0], eps = f[1];
        int s = atoi(f[2].c_str()), s2 = atoi(f[3].c_str());
        const std::string szf = f[4].empty() ? "S:0:0" : f[4], sz2f = f[5].empty() ? "S:0:0" : f[5];
        const std::string fault = f[6].empty() ? "none" : f[6];
        long pos = atol(f[7].c_str()); int val = atoi(f[8].c_str()); const std::string var = f[9];
        if (op == "reset") {
            MemoryLeakWarningPlugin::setGlobalDetector(NULL, NULL);
            delete det; delete rf; rf = new RecFailure; det = new MemoryLeakDetector(rf);
            MemoryLeakWarningPlugin::setGlobalDetector(det, rf);
            setCurrentNewAllocator(plain[0]); setCurrentNewArrayAllocator(plain[1]); setCurrentMallocAllocator(plain[2]);
            for (int i = 0; i < NSLOT; i++) { slot_clear(i); sh[i] = Shadow(); }
            for (int i = 0; i < 1024; i++) if (g_nodes[i]) { free(g_nodes[i]); g_nodes[i] = NULL; }   // records of blocks still tracked by the old detector
            g_wild = false; g_period = 0;
            fprintf(out, "{\"op\":\"reset\"}\n");
            fflush(out);
            continue;
        }
        opno++;
        size_t sz = 0, sz2 = 0; std::string t1, t2; long e1, n1, e2, n2;
        if (!parse_sym(szf, sz, t1, e1, n1) || !parse_sym(sz2f, sz2, t2, e2, n2) || s >= NSLOT || s2 >= NSLOT) {
            fprintf(out, "{\"op\":\"harness-error\",\"what\":\"bad script line\"}\n"); break;
        }
        Ep ep = ep_of(eps);
        rf->count = 0; rf->text[0] = 0;
        det->startChecking();      // clears the detector's message buffer
        if (g_period == 1) det->stopChecking(); else if (g_period == 2) det->disable();      // the period chosen by the last "period" line
        g_nreq = 0; g_first_req = 0; g_served = -1; g_freed_slot = -1; g_over = "na"; g_release_ptr = NULL;
        g_fail_under = (fault == "under"); g_fail_node = (fault == "node"); g_next_slot = -1;
        std::string ret = "void"; long n = -1; bool inside = true, aligned = true;
        int ex1 = -1, ex2 = -1;
        char* p = NULL;

        if (op == "alloc" || op == "calloc" || op == "strdup" || op == "strndup" || op == "realloc") {
            int target = (op == "realloc") ? s2 : s;
            char* oldp = NULL; size_t oldsize = 0; std::vector<unsigned char> oldbytes;
            std::string str;
            size_t want = sz; bool want_known = true;
            if (op == "calloc") { if (__builtin_mul_overflow(sz, sz2, &want)) want_known = false; }
            if (op == "strdup" || op == "strndup") { for (size_t i = 0; i < sz; i++) str += (char) ('a' + (i * 7 + opno) % 26); want_known = false; }
            if (op == "realloc" && s >= 0) {
                oldp = sh[s].live ? sh[s].p : (sh[s].lastp ? sh[s].lastp : slots[s].mem);
                if (sh[s].live) { oldsize = sh[s].size; oldbytes = sh[s].bytes; }
            }
            g_next_slot = target;
            ret = "null";
            ON();
            try {
                if (op == "alloc") {
                    switch (ep) {
                    case E_NEW: p = (char*) ::operator new(sz); break;
                    case E_NEWDBG: p = (char*) ::operator new(sz, "file.cpp", (size_t) 11); break;
                    case E_NEWNT: p = (char*) ::operator new(sz, std::nothrow); break;
                    case E_NEWARR: p = (char*) ::operator new[](sz); break;
                    case E_NEWARRDBG: p = (char*) ::operator new[](sz, "file.cpp", (size_t) 12); break;
                    case E_NEWARRNT: p = (char*) ::operator new[](sz, std::nothrow); break;
                    default: p = (char*) cpputest_malloc_location(sz, "file.c", 13); break;
                    }
                }
                else if (op == "calloc") p = (char*) cpputest_calloc_location(sz, sz2, "file.c", 14);
                else if (op == "strdup") p = cpputest_strdup_location(str.c_str(), "file.c", 15);
                else if (op == "strndup") p = cpputest_strndup_location(str.c_str(), sz2, "file.c", 16);
                else p = (char*) cpputest_realloc_location(oldp, sz, "file.c", 17);
                OFF();
                ret = p ? "ptr" : "null";
            } catch (const std::bad_alloc&) { OFF(); ret = "badalloc"; p = NULL; }
            if (p) {
                int sv = slot_of(p);
                size_t usable_to = 0;
                if (sv >= 0 && slots[sv].used && p >= slots[sv].mem && (size_t) (p - slots[sv].mem) <= slots[sv].req) usable_to = slots[sv].req - (size_t) (p - slots[sv].mem);
                size_t size = want;
                if (op == "strdup" || op == "strndup") {
                    // the copy as found: its length, and whether it is a prefix of the original
                    size_t len = 0; while (len < usable_to && p[len]) len++;
                    bool terminated = len < usable_to;
                    n = (terminated && len <= str.size() && memcmp(p, str.data(), len) == 0) ? (long) len : -2;
                    size = len + 1; want_known = terminated;
                }
                inside = want_known && sv == target && sv >= 0 && slots[sv].used && size <= usable_to;
                aligned = ((size_t) p % 16) == 0;
                if (inside) {
                    if (op == "calloc") { size_t z = 0; while (z < size && p[z] == 0) z++; n = (long) z; }
                    if (op == "realloc") {
                        size_t m = oldsize < size ? oldsize : size, k = 0;
                        while (k < m && (unsigned char) p[k] == oldbytes[k]) k++;
                        n = (long) k;
                    }
                    bool keep = (op == "strdup" || op == "strndup");
                    if (op == "realloc" && s >= 0 && s != target) sh[s].live = false;
                    adopt(target, p, size, !keep);
                }
                else if (op == "realloc" && s >= 0) sh[s].live = false;
                ex1 = target;
            }
        }
        else if (op == "write") {
            // offset pos of the block in slot s: user bytes, then the guard bytes
            if (s < 0 || !sh[s].live || pos < 0 || (size_t) pos >= sh[s].size + G) { fprintf(out, "{\"op\":\"harness-error\",\"what\":\"write outside a live block\"}\n"); break; }
            sh[s].p[pos] = (char) val; sh[s].bytes[(size_t) pos] = (unsigned char) val;
        }
        else if (op == "release") {
            char* addr;
            if (s == -1) addr = NULL;
            else if (s == -2) addr = foreign + 8;
            else {
                char* base = sh[s].live ? sh[s].p : (sh[s].lastp ? sh[s].lastp : slots[s].mem);
                addr = base + pos;
                if (sh[s].live && pos == 0) {
                    // the program's last act on the block: store a known value in every user byte
                    g_release_fill = (opno % 2) ? 0x5A : 0xA5; g_release_size = sh[s].size; g_release_ptr = addr;
                    memset(addr, g_release_fill, sh[s].size);
                    for (size_t i = 0; i < sh[s].size; i++) sh[s].bytes[i] = g_release_fill;
                    ex1 = s;
                }
            }
            ON();
            // every form of operator delete / delete[] the library replaces (the placement forms are the ones the runtime calls when a
            // constructor throws inside the matching new-expression); the size passed to the sized forms is what the program knows
            const size_t known = (s >= 0 && sh[s].live) ? sh[s].size : 1;
            switch (ep) {
            case E_DELETE: ::operator delete(addr); break;
            case E_DELETESZ: ::operator delete(addr, known); break;
            case E_DELETENT: ::operator delete(addr, std::nothrow); break;
            case E_DELETEDBG: ::operator delete(addr, "file.cpp", (size_t) 11); break;
            case E_DELETEDBGI: ::operator delete(addr, "file.cpp", (int) 11); break;
            case E_DELETEARR: ::operator delete[](addr); break;
            case E_DELETEARRSZ: ::operator delete[](addr, known); break;
            case E_DELETEARRNT: ::operator delete[](addr, std::nothrow); break;
            case E_DELETEARRDBG: ::operator delete[](addr, "file.cpp", (size_t) 12); break;
            case E_DELETEARRDBGI: ::operator delete[](addr, "file.cpp", (int) 12); break;
            default: cpputest_free_location(addr, "free.c", 21); break;
            }
            OFF();
            if (g_freed_slot >= 0) sh[g_freed_slot].live = false;
        }
        else if (op == "period") { g_period = var == "disabled" ? 2 : var == "enabled" ? 1 : 0; }
        else if (op == "typecheck") { if (val) det->enableAllocationTypeChecking(); else det->disableAllocationTypeChecking(); }
        else if (op == "setalloc") {
            int fam = eps == "new" ? 0 : eps == "newarr" ? 1 : 2;
            TestMemoryAllocator* a = var == "twin" ? (TestMemoryAllocator*) twin[fam] : var == "wrap" ? (TestMemoryAllocator*) wrap[fam]
                                   : var == "relabel" ? (TestMemoryAllocator*) relabel[fam] : (TestMemoryAllocator*) plain[fam];
            if (fam == 0) setCurrentNewAllocator(a); else if (fam == 1) setCurrentNewArrayAllocator(a); else setCurrentMallocAllocator(a);
        }
        else { fprintf(out, "{\"op\":\"harness-error\",\"what\":\"unknown op\"}\n"); break; }
        g_fail_under = false; g_fail_node = false; g_next_slot = -1;

        std::string rep = "none";
        if (rf->count > 1) rep = "multiple";
        else if (rf->count == 1) {
            if (strncmp(rf->text, "Deallocating non-allocated memory", 33) == 0) rep = "nonallocated";
            else if (strncmp(rf->text, "Allocation/deallocation type mismatch", 37) == 0) rep = "mismatch";
            else if (strncmp(rf->text, "Memory corruption", 17) == 0) rep = "corruption";
            else rep = "other";
        }
        bool intact = others_intact(ex1, ex2);
        bool clean = arena_clean() && !g_wild;
        fprintf(out, "{\"op\":%s,\"ep\":%s,\"s\":%d,\"s2\":%d,\"sz\":%s,\"sz2\":%s,\"fault\":%s,\"pos\":%ld,\"val\":%d,\"var\":%s,"
                     "\"ret\":%s,\"rep\":%s,\"n\":%ld,\"over\":%s,\"live\":%lu,\"intact\":%s,\"clean\":%s,\"inside\":%s,\"aligned\":%s,"
                     "\"under\":%s,\"nreq\":%d",
                vh_jstr(op).c_str(), vh_jstr(eps).c_str(), s, s2, sym_json(szf).c_str(), sym_json(sz2f).c_str(), vh_jstr(fault).c_str(), pos, val, vh_jstr(var).c_str(),
                vh_jstr(ret).c_str(), vh_jstr(rep).c_str(), n, vh_jstr(g_over).c_str(), (unsigned long) det->totalMemoryLeaks(mem_leak_period_all),
                intact ? "true" : "false", clean ? "true" : "false", inside ? "true" : "false", aligned ? "true" : "false",
                vh_jstr(g_nreq ? size_sym(g_first_req) : "-").c_str(), g_nreq);
        if (rep == "other") fprintf(out, ",\"repbad\":%s", vh_jstr(std::string(rf->text).substr(0, 200)).c_str());
        fprintf(out, "}\n");
        fflush(out);
    }
    fflush(out);
    fclose(out);
    _exit(0);
}
