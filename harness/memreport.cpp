// Extra (not a listed property): MemoryReporterPlugin. One script execution = one registry (tests in the given order); each test's
// body allocates / releases through the CURRENT allocators (getCurrentNewAllocator() etc., which the plugin wraps while a test runs);
// a recording formatter logs the events the plugin and its allocators report.  One log line per test.
#include "vh.h"
#include "CppUTest/TestHarness.h"
#include "CppUTest/TestRegistry.h"
#include "CppUTest/TestOutput.h"
#include "CppUTest/TestMemoryAllocator.h"
#include "CppUTest/PlatformSpecificFunctions.h"
#include "CppUTestExt/MemoryReporterPlugin.h"
#include "CppUTestExt/MemoryReportFormatter.h"

// events are kept in a fixed array of plain structs: recording must not allocate (operator new goes through the very
// allocators the plugin wraps while a test runs, which would report - and record - itself without end)
struct EvR { char k[8]; char g[40]; char fam[16]; unsigned long sz; };
struct EvList {
    EvR a[4096]; size_t n;
    void clear() { n = 0; }
    size_t size() const { return n; }
    const EvR& operator[](size_t i) const { return a[i]; }
    void add(const char* k, const char* g, const char* fam, unsigned long sz)
    { if (n >= 4096) return; EvR& e = a[n++]; snprintf(e.k, sizeof e.k, "%s", k); snprintf(e.g, sizeof e.g, "%s", g); snprintf(e.fam, sizeof e.fam, "%s", fam); e.sz = sz; }
};
static EvList evs;
static const char* famOf(TestMemoryAllocator* a)
{ const char* n = a->alloc_name(); return strcmp(n, "new") == 0 ? "new" : strcmp(n, "new []") == 0 ? "newarr" : strcmp(n, "malloc") == 0 ? "malloc" : n; }
class RecFormatter : public MemoryReportFormatter
{
public:
    void report_testgroup_start(TestResult*, UtestShell& t) CPPUTEST_OVERRIDE { evs.add("gs", t.getGroup().asCharString(), "", 0); }
    void report_testgroup_end(TestResult*, UtestShell& t) CPPUTEST_OVERRIDE { evs.add("ge", t.getGroup().asCharString(), "", 0); }
    void report_test_start(TestResult*, UtestShell& t) CPPUTEST_OVERRIDE { evs.add("ts", t.getGroup().asCharString(), "", 0); }
    void report_test_end(TestResult*, UtestShell& t) CPPUTEST_OVERRIDE { evs.add("te", t.getGroup().asCharString(), "", 0); }
    void report_alloc_memory(TestResult*, TestMemoryAllocator* a, size_t size, char*, const char*, size_t) CPPUTEST_OVERRIDE { evs.add("alloc", "", famOf(a), (unsigned long) size); }
    void report_free_memory(TestResult*, TestMemoryAllocator* a, char*, const char*, size_t) CPPUTEST_OVERRIDE { evs.add("free", "", famOf(a), 0); }
};
class RecReporterPlugin : public MemoryReporterPlugin
{
protected:
    MemoryReportFormatter* createMemoryFormatter(const SimpleString&) CPPUTEST_OVERRIDE { return new RecFormatter; }
};
struct OpS { bool alloc; std::string fam; size_t sz; };
struct TestS { std::string g, nextg; std::vector<OpS> ops; };
static std::vector<TestS> tests;
static std::vector<int> order;      // script lines of the execution: -1 = an allocation between tests, else index of the test
static TestMemoryAllocator* cur(const std::string& fam)
{ return fam == "new" ? getCurrentNewAllocator() : fam == "newarr" ? getCurrentNewArrayAllocator() : getCurrentMallocAllocator(); }
static void runOps(const TestS& t)
{
    // no heap use of its own here: everything allocated while the test runs is reported
    static char* heldP[3][64]; static size_t heldN[3][64]; size_t cnt[3] = {0, 0, 0};
    for (size_t i = 0; i < t.ops.size(); i++) {
        const OpS& o = t.ops[i]; int f = o.fam == "new" ? 0 : o.fam == "newarr" ? 1 : 2;
        if (o.alloc) { char* p = cur(o.fam)->alloc_memory(o.sz, "t.cpp", 5); if (cnt[f] < 64) { heldP[f][cnt[f]] = p; heldN[f][cnt[f]] = o.sz; cnt[f]++; } }
        else {
            char* p = NULL; size_t n = 4;
            if (cnt[f] > 0) { cnt[f]--; p = heldP[f][cnt[f]]; n = heldN[f][cnt[f]]; }
            else p = (char*) PlatformSpecificMalloc(4);      // a release of something obtained elsewhere is reported all the same
            cur(o.fam)->free_memory(p, n, "t.cpp", 6);
        }
    }
    for (int f = 0; f < 3; f++) for (size_t i = 0; i < cnt[f]; i++) PlatformSpecificFree(heldP[f][i]);   // untracked clean-up, not through the allocators
}
class OpsTest : public Utest { public: int i; explicit OpsTest(int ii) : i(ii) {} void testBody() CPPUTEST_OVERRIDE { runOps(tests[(size_t) i]); } };
class OpsShell : public UtestShell { public: int i; OpsShell(int ii, const char* g) : UtestShell(g, "t", "t.cpp", 1), i(ii) {} Utest* createTest() CPPUTEST_OVERRIDE { return new OpsTest(i); } };

static std::string opsJson(const TestS& t)
{ std::string o = "["; char b[96]; for (size_t i = 0; i < t.ops.size(); i++) { snprintf(b, sizeof b, "%s{\"k\":\"%s\",\"fam\":\"%s\",\"sz\":%lu}", i ? "," : "", t.ops[i].alloc ? "alloc" : "free", t.ops[i].fam.c_str(), (unsigned long) t.ops[i].sz); o += b; } return o + "]"; }

class LogPlugin : public TestPlugin      // installed first: its post action runs after the reporter's (tail first ... head last)
{
public:
    FILE* out; TestMemoryAllocator *n0, *a0, *m0;
    explicit LogPlugin(FILE* o) : TestPlugin("log"), out(o), n0(getCurrentNewAllocator()), a0(getCurrentNewArrayAllocator()), m0(getCurrentMallocAllocator()) {}
    void preTestAction(UtestShell&, TestResult&) CPPUTEST_OVERRIDE {}
    void postTestAction(UtestShell&, TestResult&) CPPUTEST_OVERRIDE {}
};

static void runExecution(FILE* out)
{
    TestRegistry reg; StringBufferTestOutput output; TestResult result(output);
    std::vector<OpsShell*> shells; std::vector<std::string*> names;
    for (size_t i = 0; i < tests.size(); i++) { names.push_back(new std::string(tests[i].g)); shells.push_back(new OpsShell((int) i, names.back()->c_str())); }
    for (size_t i = shells.size(); i > 0; i--) reg.addTest(shells[i - 1]);
    TestMemoryAllocator *n0 = getCurrentNewAllocator(), *a0 = getCurrentNewArrayAllocator(), *m0 = getCurrentMallocAllocator();
    RecReporterPlugin* plugin = new RecReporterPlugin;
    const char* av[] = {"x", "-pmemoryreport=normal"};
    plugin->parseArguments(2, av, 1);
    // run test by test so that the events of each test can be logged on its own line
    evs.clear();
    for (size_t li = 0; li < order.size(); li++) {
        bool restored;
        if (order[li] < 0) {
            // an allocation between tests: not reported, real allocators current
            size_t before = evs.size();
            char* p = getCurrentNewAllocator()->alloc_memory(3, "o.cpp", 1); getCurrentNewAllocator()->free_memory(p, 3, "o.cpp", 2);
            restored = getCurrentNewAllocator() == n0 && getCurrentNewArrayAllocator() == a0 && getCurrentMallocAllocator() == m0;
            fprintf(out, "{\"op\":\"outside\",\"ev\":[%s],\"restored\":%s}\n", evs.size() == before ? "" : "\"reported\"", restored ? "true" : "false");
            evs.clear();
            continue;
        }
        size_t i = (size_t) order[li];
        plugin->runAllPreTestAction(*shells[i], result);
        runOps(tests[i]);      // the body of the test (createTest would itself allocate through the wrapped allocators)
        plugin->runAllPostTestAction(*shells[i], result);
        restored = getCurrentNewAllocator() == n0 && getCurrentNewArrayAllocator() == a0 && getCurrentMallocAllocator() == m0;
        fprintf(out, "{\"op\":\"test\",\"g\":%s,\"nextg\":%s,\"ops\":%s,\"restored\":%s,\"ev\":[", vh_jstr(tests[i].g).c_str(), vh_jstr(tests[i].nextg).c_str(), opsJson(tests[i]).c_str(), restored ? "true" : "false");
        for (size_t k = 0; k < evs.size(); k++) fprintf(out, "%s{\"k\":%s,\"g\":%s,\"fam\":%s,\"sz\":%lu}", k ? "," : "", vh_jstr(evs[k].k).c_str(), vh_jstr(evs[k].g).c_str(), vh_jstr(evs[k].fam).c_str(), evs[k].sz);
        fprintf(out, "]}\n");
        evs.clear();
    }
    delete plugin;
}

int main(int argc, char** argv)
{
    if (argc < 3) return 2;
    FILE* in = fopen(argv[1], "r"); FILE* out = fopen(argv[2], "w");
    if (!in || !out) return 2;
    vh_install(out);
    std::string line; bool first = true;
    while (vh_readline(in, line)) {
        if (line.empty()) continue;
        std::vector<std::string> f = vh_split(line);
        if (f[0] == "reset") { runExecution(out); tests.clear(); order.clear(); fprintf(out, "{\"op\":\"reset\"}\n"); continue; }
        if (f[0] == "outside") { order.push_back(-1); continue; }
        if (f[0] == "test" && f.size() >= 4) {
            TestS t; t.g = f[1]; t.nextg = f[2] == "-" ? "" : f[2];
            if (f[3] != "-") { std::vector<std::string> ps = vh_split(f[3], ','); for (size_t i = 0; i < ps.size(); i++) { std::vector<std::string> q = vh_split(ps[i], ':'); if (q.size() == 3) { OpS o; o.alloc = q[0] == "alloc"; o.fam = q[1]; o.sz = (size_t) atol(q[2].c_str()); t.ops.push_back(o); } } }
            tests.push_back(t); order.push_back((int) tests.size() - 1);
        } else { fprintf(out, "{\"op\":\"harness-error\",\"what\":\"bad line\"}\n"); break; }
        (void) first;
    }
    runExecution(out);
    fflush(out); fclose(out); _exit(0);
}
