// C04 conformance harness: executes scripts of MemoryLeakDetector calls on a private detector whose
// underlying allocator is an arena that returns the address the script chose, and logs one ndjson
// line per call with the observations (totals for the four period queries, misuse callback, parsed
// report entries).  Usage: leak <script.tsv> <log.ndjson> <P> <separateNodes 0|1>
#include "vh.h"
#include "CppUTest/TestHarness.h"
#include "CppUTest/MemoryLeakDetector.h"
#include "CppUTest/TestMemoryAllocator.h"
#include "CppUTest/PlatformSpecificFunctions.h"

static const int NADDR = 256;
static const size_t SLOT = 2048;
static char* arena;
static int P = 3;
static bool g_base_end = false;
static char* g_next = NULL;      // address the next underlying allocation must return
static int g_under_allocs = 0, g_under_frees = 0;

static char* addr_of(int a)
{
    // a real address whose bucket (address % prime) follows the model's a % P, buckets in increasing order
    size_t prime = MEMORY_LEAK_HASH_TABLE_SIZE;
    // consecutive real buckets (adjacent buckets exercise the cross-bucket iteration), at either end of the table
    size_t target = (g_base_end ? prime - (size_t) P : 0) + (size_t) (a % P);
    char* base = arena + (size_t) a * SLOT;
    for (size_t off = 0; off < 8 * prime + 8; off += 8)
        if (((size_t) (base + off)) % prime == target) return base + off;
    abort();
}

class ArenaAllocator : public TestMemoryAllocator
{
public:
    ArenaAllocator(const char* n, const char* an, const char* fn) : TestMemoryAllocator(n, an, fn) {}
    char* alloc_memory(size_t, const char*, size_t) CPPUTEST_OVERRIDE { g_under_allocs++; char* r = g_next; g_next = NULL; return r; }
    void free_memory(char*, size_t, const char*, size_t) CPPUTEST_OVERRIDE { g_under_frees++; }
    char* allocMemoryLeakNode(size_t size) CPPUTEST_OVERRIDE { return (char*) malloc(size); }
    void freeMemoryLeakNode(char* m) CPPUTEST_OVERRIDE { free(m); }
};

static void* arena_realloc(void* old, size_t size)
{
    char* r = g_next; g_next = NULL;
    if (r && old && r != old) memmove(r, old, size < 64 ? size : 64);
    return r;
}

class RecFailure : public MemoryLeakFailure
{
public:
    std::string last;
    int count;
    RecFailure() : count(0) {}
    void fail(char* s) CPPUTEST_OVERRIDE { count++; last = s; }
};

static MemLeakPeriod period_of(const std::string& q)
{
    if (q == "all") return mem_leak_period_all;
    if (q == "disabled") return mem_leak_period_disabled;
    if (q == "enabled") return mem_leak_period_enabled;
    return mem_leak_period_checking;
}

struct Entry { unsigned seq; unsigned long size; int line; std::string kind; };

// parse the leak report text produced after the last header; returns false if it has no recognisable shape
static bool parse_report(const std::string& text, std::vector<Entry>& es, long& stated, bool& trunc)
{
    es.clear(); stated = -1; trunc = false;
    if (text.find("No memory leaks were detected.") != std::string::npos && text.find("Alloc num (") == std::string::npos) { stated = 0; return true; }
    size_t p = 0;
    while ((p = text.find("Alloc num (", p)) != std::string::npos) {
        Entry e; char file[256]; char kind[64]; int n = 0;
        if (sscanf(text.c_str() + p, "Alloc num (%u) Leak size: %lu Allocated at: %255s and line: %d. Type: \"%63[^\"]\"%n",
                   &e.seq, &e.size, file, &e.line, kind, &n) == 5 && n > 0) { e.kind = kind; es.push_back(e); }
        p += 10;
    }
    size_t f = text.rfind("Total number of leaks: ");
    if (f == std::string::npos) return false;
    stated = atol(text.c_str() + f + strlen("Total number of leaks: "));
    trunc = text.find("Too many memory leaks to report") != std::string::npos;
    return true;
}

int main(int argc, char** argv)
{
    if (argc < 5) return 2;
    FILE* in = fopen(argv[1], "r");
    FILE* out = fopen(argv[2], "w");
    P = atoi(argv[3]);
    bool separate = atoi(argv[4]) != 0;
    g_base_end = argc > 5 && atoi(argv[5]) != 0;
    if (!in || !out) return 2;
    vh_install(out);
    void* raw = malloc((size_t) NADDR * SLOT + 4096);
    arena = (char*) (((size_t) raw + 63) & ~(size_t) 63);
    PlatformSpecificRealloc = arena_realloc;

    ArenaAllocator newAlloc("Arena New", "new", "delete"), mallocAlloc("Arena Malloc", "malloc", "free");
    RecFailure* rf = new RecFailure;
    MemoryLeakDetector* det = new MemoryLeakDetector(rf);
    std::string cur = "disabled";
    std::map<int, std::string> kindOf;
    std::string seen;      // what the detector's text buffer holds, as far as this harness has seen it (cleared by startChecking only)
    std::string line;
    while (vh_readline(in, line)) {
        if (line.empty()) continue;
        std::vector<std::string> f = vh_split(line);
        while (f.size() < 7) f.push_back("");
        const std::string& op = f[0];
        int a = atoi(f[1].c_str()), a2 = atoi(f[2].c_str());
        size_t sz = (size_t) atol(f[3].c_str());
        std::string k = f[4]; int ln = atoi(f[5].c_str()); std::string q = f[6];
        if (op == "reset") {
            delete det; delete rf; rf = new RecFailure; det = new MemoryLeakDetector(rf); cur = "disabled"; kindOf.clear(); seen.clear();
            fprintf(out, "{\"op\":\"reset\"}\n");
            continue;
        }
        rf->count = 0; rf->last.clear();
        std::string rep;
        if (seen.size() > 2500 && op != "report") {
            // keep room in the detector's fixed text buffer for the message of this call (clearing it is all startChecking() does
            // besides setting the period, which is put back)
            det->startChecking(); seen.clear();
            if (cur == "enabled") det->enable(); else if (cur == "disabled") det->disable();
        }
        TestMemoryAllocator* al = (k == "malloc") ? (TestMemoryAllocator*) &mallocAlloc : (TestMemoryAllocator*) &newAlloc;
        if (op == "alloc") {
            g_next = addr_of(a);
            char* r = det->allocMemory(al, sz, "file.cpp", (size_t) ln, separate);
            if (r != addr_of(a)) { fprintf(out, "{\"op\":\"harness-error\",\"what\":\"alloc returned other address\"}\n"); break; }
            memset(r, 0x5A, sz);
            kindOf[a] = k;
        } else if (op == "free") {
            std::string fk = kindOf.count(a) ? kindOf[a] : "new";
            TestMemoryAllocator* fa = (fk == "malloc") ? (TestMemoryAllocator*) &mallocAlloc : (TestMemoryAllocator*) &newAlloc;
            det->deallocMemory(fa, addr_of(a), "free.cpp", 7, separate);
            if (rf->count == 0) kindOf.erase(a);
        } else if (op == "freenull") {
            det->deallocMemory(&newAlloc, NULL, "free.cpp", 7, separate);
        } else if (op == "realloc") {
            g_next = addr_of(a2);
            k = kindOf.count(a) ? kindOf[a] : "new";     // a block stays with the allocator family it came from
            al = (k == "malloc") ? (TestMemoryAllocator*) &mallocAlloc : (TestMemoryAllocator*) &newAlloc;
            char* r = det->reallocMemory(al, addr_of(a), sz, "file.cpp", (size_t) ln, separate);
            if (rf->count == 0) {
                // the address is the underlying allocator's choice; what came back is an observation (a detector that answers a
                // realloc without consulting the platform realloc returns the old address): log the address actually returned
                int got = -1;
                for (int i = 0; i < NADDR && got < 0; i++) if (r == addr_of(i)) got = i;
                if (got < 0) { fprintf(out, "{\"op\":\"harness-error\",\"what\":\"realloc returned an address outside the arena\"}\n"); break; }
                a2 = got;
                kindOf.erase(a); kindOf[a2] = k;
            }
            g_next = NULL;
        } else if (op == "enable") { det->enable(); cur = "enabled"; }
        else if (op == "disable") { det->disable(); cur = "disabled"; }
        else if (op == "startchecking") { det->startChecking(); cur = "checking"; seen.clear(); }
        else if (op == "inval") det->invalidateMemory(addr_of(a));      // what operator delete / free do before releasing: poison, change nothing
        else if (op == "stopchecking") { det->stopChecking(); cur = "enabled"; }
        else if (op == "incstage") det->increaseAllocationStage();
        else if (op == "decstage") det->decreaseAllocationStage();
        else if (op == "freestage") det->deallocAllMemoryInCurrentAllocationStage();
        else if (op == "clear") det->clearAllAccounting(period_of(q));
        else if (op == "demote") det->markCheckingPeriodLeaksAsNonCheckingPeriod();
        else if (op == "report") {
            // the report text accumulates in the detector's fixed buffer; only startChecking() clears it,
            // so clear it that way and put the period back (both calls only set the current period)
            // k = "keep": do not clear - as when the plugin's final report follows the last test's leak report with no
            // startChecking() in between; the report of THIS call is what it appended to the text already there
            bool keep = (k == "keep") && seen.size() < 1500;
            if (!keep) {
                det->startChecking(); seen.clear();
                if (cur == "enabled") det->enable(); else if (cur == "disabled") det->disable();
            }
            rep = det->report(period_of(q));
            std::string whole = rep;
            if (keep && !seen.empty() && rep.compare(0, seen.size(), seen) == 0) rep = rep.substr(seen.size());
            seen = whole;
        } else { fprintf(out, "{\"op\":\"harness-error\",\"what\":\"unknown op\"}\n"); break; }

        std::string res = "ok";
        if (rf->count > 0) seen = rf->last;
        if (rf->count > 0) {
            // the misuse text is appended to whatever the detector's buffer already holds: classify its tail
            size_t p1 = rf->last.rfind("Deallocating non-allocated memory\n");
            size_t p2 = rf->last.rfind("Allocation/deallocation type mismatch\n");
            size_t p3 = rf->last.rfind("Memory corruption (written out of bounds?)\n");
            if (p1 == std::string::npos) p1 = 0; else p1++;
            if (p2 == std::string::npos) p2 = 0; else p2++;
            if (p3 == std::string::npos) p3 = 0; else p3++;
            if (rf->count == 1 && p1 > p2 && p1 > p3) res = "nonallocated";
            else if (rf->count == 1 && p2 > p1 && p2 > p3) res = "mismatch";
            else if (rf->count == 1 && p3 > p1 && p3 > p2) res = "corruption";
            else res = "other:" + rf->last.substr(0, 80);
        }
        fprintf(out, "{\"op\":%s,\"a\":%d,\"a2\":%d,\"sz\":%lu,\"k\":%s,\"ln\":%d,\"q\":%s,\"res\":%s,"
                     "\"tot\":{\"all\":%lu,\"disabled\":%lu,\"enabled\":%lu,\"checking\":%lu}",
                vh_jstr(op).c_str(), a, a2, (unsigned long) sz, vh_jstr(k).c_str(), ln, vh_jstr(q).c_str(), vh_jstr(res).c_str(),
                (unsigned long) det->totalMemoryLeaks(mem_leak_period_all), (unsigned long) det->totalMemoryLeaks(mem_leak_period_disabled),
                (unsigned long) det->totalMemoryLeaks(mem_leak_period_enabled), (unsigned long) det->totalMemoryLeaks(mem_leak_period_checking));
        if (op == "report") {
            std::vector<Entry> es; long stated; bool trunc;
            if (!parse_report(rep, es, stated, trunc)) {
                fprintf(out, ",\"repbad\":%s", vh_jstr(rep.substr(0, 300)).c_str());
            } else {
                fprintf(out, ",\"stated\":%ld,\"trunc\":%s,\"rep\":[", stated, trunc ? "true" : "false");
                for (size_t i = 0; i < es.size(); i++)
                    fprintf(out, "%s{\"seq\":%u,\"size\":%lu,\"line\":%d,\"kind\":%s}", i ? "," : "", es[i].seq, es[i].size, es[i].line, vh_jstr(es[i].kind).c_str());
                fprintf(out, "]");
            }
        }
        fprintf(out, "}\n");
    }
    fflush(out);
    fclose(out);
    _exit(0);
}
