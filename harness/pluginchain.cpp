// C17 (plugin chain): executes install / remove / enable / disable scripts on a real TestRegistry with recording
// plugins and logs, after every call, countPlugins() and the order in which pre and post actions actually run.
#include "vh.h"
#include "CppUTest/TestHarness.h"
#include "CppUTest/TestRegistry.h"
#include "CppUTest/TestOutput.h"
#include "CppUTest/TestPlugin.h"

static std::vector<std::string> preLog, postLog;
static TestRegistry* theReg = NULL;
class RecPlugin : public TestPlugin
{
public:
    std::string nm;
    bool removeMyself;      // armed by "preremove": a one-shot plugin that takes itself out of the registry inside its own pre action
    explicit RecPlugin(const std::string& n) : TestPlugin(n.c_str()), nm(n), removeMyself(false) {}
    void preTestAction(UtestShell&, TestResult&) CPPUTEST_OVERRIDE
    {
        preLog.push_back(nm);
        if (removeMyself) { removeMyself = false; theReg->removePluginByName(nm.c_str()); }
    }
    void postTestAction(UtestShell&, TestResult&) CPPUTEST_OVERRIDE { postLog.push_back(nm); }
};
static std::string arr(const std::vector<std::string>& v)
{ std::string o = "["; for (size_t i = 0; i < v.size(); i++) { if (i) o += ","; o += vh_jstr(v[i]); } return o + "]"; }

int main(int argc, char** argv)
{
    if (argc < 3) return 2;
    FILE* in = fopen(argv[1], "r"); FILE* out = fopen(argv[2], "w");
    if (!in || !out) return 2;
    vh_install(out);
    TestRegistry* reg = new TestRegistry;
    std::map<std::string, RecPlugin*> objs;
    StringBufferTestOutput output; TestResult result(output); UtestShell shell("g", "n", "f.cpp", 1);
    std::string line;
    while (vh_readline(in, line)) {
        if (line.empty()) continue;
        std::vector<std::string> f = vh_split(line);
        if (f[0] == "reset") { delete reg; reg = new TestRegistry; objs.clear(); fprintf(out, "{\"op\":\"reset\"}\n"); continue; }   // (fresh plugin objects too)
        std::string name = f.size() > 1 ? f[1] : "";
        std::string res = "ok";
        // one plugin object per name for the whole execution (never freed: a plugin the registry failed to unlink must stay valid):
        // removing and installing it again is what a program does with its static plugin objects
        if (!objs.count(name)) objs[name] = new RecPlugin(name);
        if (f[0] == "install") reg->installPlugin(objs[name]);
        else if (f[0] == "preremove") { TestPlugin* q = reg->getPluginByName(name.c_str()); objs[name]->removeMyself = (q == objs[name] && objs[name]->isEnabled()); }
        else if (f[0] == "objenable") objs[name]->enable();
        else if (f[0] == "objdisable") objs[name]->disable();
        else if (f[0] == "remove") reg->removePluginByName(name.c_str());
        else if (f[0] == "enable" || f[0] == "disable") {
            TestPlugin* p = reg->getPluginByName(name.c_str());
            if (p && p != NullTestPlugin::instance() && p->getName() == name.c_str()) { if (f[0] == "enable") p->enable(); else p->disable(); res = "found"; }
            else res = "missing";
        } else { fprintf(out, "{\"op\":\"harness-error\",\"what\":\"unknown op\"}\n"); break; }
        preLog.clear(); postLog.clear();
        theReg = reg;
        reg->getFirstPlugin()->runAllPreTestAction(shell, result);
        reg->getFirstPlugin()->runAllPostTestAction(shell, result);
        fprintf(out, "{\"op\":%s,\"name\":%s,\"res\":%s,\"count\":%d,\"isen\":%s,\"pre\":%s,\"post\":%s}\n", vh_jstr(f[0]).c_str(), vh_jstr(name).c_str(), vh_jstr(res).c_str(),
                reg->countPlugins(), objs[name]->isEnabled() ? "true" : "false", arr(preLog).c_str(), arr(postLog).c_str());
    }
    fflush(out); fclose(out); _exit(0);
}
