// C15 conformance harness: executes scripts of out-of-memory injection calls on a real FailableMemoryAllocator
// (directly, and installed as the current new / new[] / malloc allocator) and on the real C interface
// (cpputest_malloc_set_out_of_memory_countdown & co, cpputest_malloc/calloc/strdup/strndup, and the malloc statistics
// cpputest_malloc_count_reset / cpputest_malloc_get_count that count the same allocations), and logs one ndjson
// line per call with what the caller saw, what cpputest_malloc_get_count returns after it and which allocator is the
// current malloc allocator after it (cur: failable | plain | null | other - a diagnostic).  It never judges.
// The test's malloc allocator is installed by `install` lines (via = failable | plain) and by reset (failable) only:
// after cpputest_malloc_set_not_out_of_memory the allocations are served by whatever allocator the code put back.
//   failalloc <script.tsv> <log.ndjson>      script lines: op<TAB>via<TAB>loc<TAB>n ; `reset` = fresh allocator
#include "vh.h"
#include <new>
#include "CppUTest/TestHarness.h"
#include "CppUTest/TestMemoryAllocator.h"
#include "CppUTest/MemoryLeakDetector.h"
#include "CppUTest/PlatformSpecificFunctions.h"
#include "CppUTest/TestHarness_c.h"

#undef new
#undef malloc
#undef free
#undef calloc
#undef realloc
#undef strdup
#undef strndup

static std::string g_printed;
static void capture_fputs(const char* s, PlatformSpecificFile) { g_printed += s; }
static void no_flush() {}

// source locations: 1 = fileA.c:10, 2 = fileA.c:20, 3 = fileB.c:10, 4 = fileB.c:20, ...
// designations and allocations pass different pointers with the same text (the allocator compares text)
static char g_desig_file[2][16] = { "fileA.c", "fileB.c" };
static char g_alloc_file[2][16] = { "fileA.c", "fileB.c" };
static const char* desig_file(long loc) { return g_desig_file[((loc - 1) / 2) & 1]; }
static const char* alloc_file(long loc) { return g_alloc_file[((loc - 1) / 2) & 1]; }
static size_t line_of(long loc) { return (size_t) (10 + 10 * ((loc - 1) % 2) + 100 * ((loc - 1) / 4)); }

static const char* current_name(TestMemoryAllocator* fa)
{
    TestMemoryAllocator* cur = getCurrentMallocAllocator();
    if (cur == fa) return "failable";
    if (cur == defaultMallocAllocator()) return "plain";
    if (cur == NullUnknownAllocator::defaultAllocator()) return "null";
    return "other";
}

int main(int argc, char** argv)
{
    if (argc < 3) return 2;
    FILE* in = fopen(argv[1], "r");
    FILE* out = fopen(argv[2], "w");
    if (!in || !out) return 2;
    vh_install(out);
    setvbuf(out, NULL, _IOLBF, 0);      // a sanitizer abort does not flush stdio: every completed call must already be in the log
    PlatformSpecificFPuts = capture_fputs;
    PlatformSpecificFlush = no_flush;

    FailableMemoryAllocator* fa = new FailableMemoryAllocator("failable", "alloc", "free");
    setCurrentMallocAllocator(fa);
    std::string line;
    unsigned long seq = 0;
    while (vh_readline(in, line)) {
        if (line.empty()) continue;
        std::vector<std::string> f = vh_split(line);
        while (f.size() < 4) f.push_back("0");
        const std::string op = f[0], via = f[1];
        long loc = atol(f[2].c_str()), n = atol(f[3].c_str());
        if (op == "reset") {
            cpputest_malloc_set_out_of_memory();          // make sure the pair below restores `fa`, whatever state we are in
            cpputest_malloc_set_not_out_of_memory();
            cpputest_malloc_count_reset();
            fa->clearFailedAllocs();
            setCurrentMallocAllocatorToDefault();
            delete fa;
            fa = new FailableMemoryAllocator("failable", "alloc", "free");
            setCurrentMallocAllocator(fa);
            fprintf(out, "{\"op\":\"reset\"}\n");
            continue;
        }
        g_printed.clear();
        seq++;
        std::string res = "none";
        size_t size = 8 + (seq % 5) * 8;
        if (op == "failnum") fa->failAllocNumber((int) n);
        else if (op == "failat") fa->failNthAllocAt((int) n, desig_file(loc), line_of(loc));
        else if (op == "alloc") {
            void* p = NULL;
            if (via == "direct") {
                p = fa->alloc_memory(size, alloc_file(loc), line_of(loc));
                if (p) { memset(p, 0x33, size); fa->free_memory((char*) p, size, alloc_file(loc), line_of(loc)); }
            } else if (via == "new") {
                setCurrentNewAllocator(fa);
                try { p = operator new(size, alloc_file(loc), line_of(loc)); } catch (std::bad_alloc&) { p = NULL; }
                if (p) { memset(p, 0x33, size); operator delete(p); }
                setCurrentNewAllocatorToDefault();
            } else if (via == "newarray") {
                setCurrentNewArrayAllocator(fa);
                try { p = operator new[](size, alloc_file(loc), line_of(loc)); } catch (std::bad_alloc&) { p = NULL; }
                if (p) { memset(p, 0x33, size); operator delete[](p); }
                setCurrentNewArrayAllocatorToDefault();
            } else { fprintf(out, "{\"op\":\"harness-error\",\"what\":\"unknown via\"}\n"); break; }
            res = p ? "ok" : "null";
        } else if (op == "checkdone") {
            bool threw = false;
            try { fa->checkAllFailedAllocsWereDone(); } catch (...) { threw = true; }
            res = (threw || !g_printed.empty()) ? "reported" : "ok";
        } else if (op == "clear") fa->clearFailedAllocs();
        else if (op == "countdown") cpputest_malloc_set_out_of_memory_countdown((int) n);
        else if (op == "setoom") cpputest_malloc_set_out_of_memory();
        else if (op == "setnotoom") cpputest_malloc_set_not_out_of_memory();
        else if (op == "install") {
            if (via == "failable") setCurrentMallocAllocator(fa);
            else if (via == "plain") setCurrentMallocAllocatorToDefault();
            else { fprintf(out, "{\"op\":\"harness-error\",\"what\":\"unknown allocator\"}\n"); break; }
        } else if (op == "countreset") cpputest_malloc_count_reset();
        else if (op == "getcount") (void) cpputest_malloc_get_count();     // the value read is logged below, as on every line
        else if (op == "c") {
            void* p = NULL;
            static const char text[] = "out of memory is a normal condition";
            TestMemoryAllocator* before = getCurrentMallocAllocator();
            if (via == "malloc") p = cpputest_malloc_location(size, alloc_file(loc), line_of(loc));
            else if (via == "calloc") p = cpputest_calloc_location(size / 8, 8, alloc_file(loc), line_of(loc));
            else if (via == "strdup") p = cpputest_strdup_location(text, alloc_file(loc), line_of(loc));
            else if (via == "strndup") p = cpputest_strndup_location(text, 5 + seq % 40, alloc_file(loc), line_of(loc));
            else { fprintf(out, "{\"op\":\"harness-error\",\"what\":\"unknown c function\"}\n"); break; }
            res = p ? "ok" : "null";
            if (p) {
                // free through the allocator that served the allocation: the one that was current when the call was made
                // (if the injection switched allocators during the call, to the null allocator, the block is not its own)
                TestMemoryAllocator* cur = getCurrentMallocAllocator();
                setCurrentMallocAllocator(before);
                cpputest_free_location(p, alloc_file(loc), line_of(loc));
                setCurrentMallocAllocator(cur);
            }
        } else { fprintf(out, "{\"op\":\"harness-error\",\"what\":\"unknown op\"}\n"); break; }
        fprintf(out, "{\"op\":%s,\"via\":%s,\"loc\":%ld,\"n\":%ld,\"res\":%s,\"count\":%d,\"cur\":\"%s\"}\n", vh_jstr(op).c_str(), vh_jstr(via).c_str(), loc, n,
                vh_jstr(res).c_str(), cpputest_malloc_get_count(), current_name(fa));
    }
    fflush(out);
    fclose(out);
    _exit(0);
}
