// C14 (message part) conformance harness: builds the real failure objects for operand pairs and logs what their
// message says.  Operands live in exact-size heap blocks, so ASan sees any read outside the operands' own bytes.
//   failmsg <script.tsv> <log.ndjson>
// script lines: kind<TAB>expected-hex<TAB>actual-hex   ("-" = NULL pointer, "" = empty) ; `reset` is echoed
// kinds: streq | nocase | checkeq | bineq | equals (EqualsFailure, C strings) | contains (ContainsFailure: expected = needle, actual = haystack)
//        exception (UnexpectedExceptionFailure, expected = the what() text) | unsupported (FeatureUnsupportedFailure, expected = feature name)
// Logged texts (operands, fields) are run-length encoded: [[symbol code, count], ...].
// Fields "f" of a message = the pieces it delimits: between '<' and '>' (no bracket inside); for bineq a piece that is a hex dump
// ("61 0A ...") is logged as the bytes it denotes; exception: the text after the first ": "; unsupported: the pieces between double quotes.
//   bitseq<TAB>expected<TAB>actual<TAB>mask<TAB>width   BitsEqualFailure; the three operands are 16 hex digits (the 8 bytes of an
//       unsigned long, most significant first), width = the byte count BITS_EQUAL passes (sizeof(actual), 1..8).  Logged: the two
//       operand fields of the message as symbol sequences (0, 1, 2 = any other character; blanks dropped).
#include "vh.h"
#include <stdexcept>
#include "CppUTest/TestHarness.h"
#include "CppUTest/TestFailure.h"

static char* exact_cstr(const std::string& bytes)
{
    char* p = (char*) malloc(bytes.size() + 1);
    memcpy(p, bytes.data(), bytes.size());
    p[bytes.size()] = 0;
    return p;
}

static int code_of(unsigned char c)
{
    switch (c) { case 'a': return 1; case 'A': return 2; case 'b': return 3; case '\\': return 4; case 'n': return 5;
                 case '\n': return 6; case 1: return 7; case 'x': return 8; case 'y': return 9; default: return 100 + c; }
}
static std::string codes(const std::string& s)      // run-length encoded
{
    std::string o = "["; char b[48];
    for (size_t i = 0; i < s.size(); ) {
        size_t j = i;
        while (j < s.size() && s[j] == s[i]) j++;
        snprintf(b, sizeof b, "%s[%d,%lu]", i ? "," : "", code_of((unsigned char) s[i]), (unsigned long) (j - i));
        o += b;
        i = j;
    }
    return o + "]";
}
static int hexval(char c)
{
    if (c >= '0' && c <= '9') return c - '0';
    if (c >= 'a' && c <= 'f') return c - 'a' + 10;
    if (c >= 'A' && c <= 'F') return c - 'A' + 10;
    return -1;
}
// "HH HH ... HH" -> the bytes; false when the piece is not a hex dump
static bool hexdump_bytes(const std::string& piece, std::string& bytes)
{
    bytes.clear();
    if (piece.empty() || piece.size() % 3 != 2) return false;
    for (size_t i = 0; i < piece.size(); i += 3) {
        int h = hexval(piece[i]), l = hexval(piece[i + 1]);
        if (h < 0 || l < 0 || (i + 2 < piece.size() && piece[i + 2] != ' ')) return false;
        bytes += (char) (h * 16 + l);
    }
    return true;
}
// the pieces of msg between `open` and the next `close` that have neither inside
static void delimited(const std::string& msg, char open, char close, std::vector<std::string>& out)
{
    size_t start = std::string::npos;
    for (size_t i = 0; i < msg.size(); i++) {
        if (start != std::string::npos && msg[i] == close) { out.push_back(msg.substr(start, i - start)); start = std::string::npos; }
        else if (msg[i] == open) start = i + 1;
    }
}
static std::string fields_json(const std::string& kind, const std::string& msg)
{
    std::vector<std::string> pieces;
    if (kind == "exception") { size_t p = msg.find(": "); if (p != std::string::npos) pieces.push_back(msg.substr(p + 2)); }
    else if (kind == "unsupported") delimited(msg, '"', '"', pieces);
    else delimited(msg, '<', '>', pieces);
    std::string o = "[";
    for (size_t i = 0; i < pieces.size(); i++) {
        std::string bytes;
        o += i ? "," : "";
        o += (kind == "bineq" && hexdump_bytes(pieces[i], bytes)) ? codes(bytes) : codes(pieces[i]);
    }
    return o + "]";
}
static bool all_printable(const std::string& s)
{
    for (size_t i = 0; i < s.size(); i++) if ((unsigned char) s[i] < 0x20 || (unsigned char) s[i] > 0x7e) return false;
    return true;
}

static std::string bytes_json(const std::string& s)
{
    std::string o = "["; char b[16];
    for (size_t i = 0; i < s.size(); i++) { snprintf(b, sizeof b, "%s%d", i ? "," : "", (int) (unsigned char) s[i]); o += b; }
    return o + "]";
}
static unsigned long value_of(const std::string& s)
{
    unsigned long v = 0;
    for (size_t i = 0; i < s.size(); i++) v = (v << 8) | (unsigned char) s[i];
    return v;
}
// the text between '<' and '>' that follows `label` in msg, as symbols; found=false when there is no such field
static std::string field_symbols(const std::string& msg, const char* label, bool& found)
{
    found = false;
    size_t p = msg.find(label);
    if (p == std::string::npos) return "[]";
    size_t b = msg.find('<', p);
    if (b == std::string::npos) return "[]";
    size_t e = msg.find('>', b);
    if (e == std::string::npos) return "[]";
    found = true;
    std::string o = "["; bool first = true;
    for (size_t i = b + 1; i < e; i++) {
        if (msg[i] == ' ') continue;
        o += first ? "" : ","; first = false;
        o += msg[i] == '0' ? "0" : (msg[i] == '1' ? "1" : "2");
    }
    return o + "]";
}

class ProbeShell : public UtestShell
{
public:
    ProbeShell() : UtestShell("group", "name", "file.cpp", 1) {}
};

int main(int argc, char** argv)
{
    if (argc < 3) return 2;
    FILE* in = fopen(argv[1], "r");
    FILE* out = fopen(argv[2], "w");
    if (!in || !out) return 2;
    vh_install(out);
    setvbuf(out, NULL, _IOLBF, 0);      // a sanitizer abort does not flush stdio: every completed call must already be in the log
    ProbeShell shell;
    std::string line;
    while (vh_readline(in, line)) {
        if (line.empty()) continue;
        std::vector<std::string> f = vh_split(line);
        while (f.size() < 3) f.push_back("");
        const std::string kind = f[0];
        if (kind == "reset") { fprintf(out, "{\"op\":\"reset\"}\n"); continue; }
        if (kind == "bitseq") {
            while (f.size() < 5) f.push_back("");
            std::string e = vh_unhex(f[1]), a = vh_unhex(f[2]), m = vh_unhex(f[3]);
            size_t w = (size_t) atol(f[4].c_str());
            if (e.size() != 8 || a.size() != 8 || m.size() != 8 || sizeof(unsigned long) != 8) { fprintf(out, "{\"op\":\"harness-error\",\"what\":\"bitseq operands must be 8 bytes\"}\n"); break; }
            BitsEqualFailure fl(&shell, "file.cpp", 2, value_of(e), value_of(a), value_of(m), w, "");
            std::string msg = fl.getMessage().asCharString();
            bool has_e = false, has_a = false;
            std::string eb = field_symbols(msg, "expected", has_e);
            size_t bw = msg.find("but was");
            std::string ab = field_symbols(bw == std::string::npos ? std::string() : msg.substr(bw), "but was", has_a);
            fprintf(out, "{\"op\":\"bitseq\",\"w\":%lu,\"e\":%s,\"a\":%s,\"m\":%s,\"has_e\":%s,\"has_a\":%s,\"eb\":%s,\"ab\":%s,\"msglen\":%lu}\n",
                    (unsigned long) w, bytes_json(e).c_str(), bytes_json(a).c_str(), bytes_json(m).c_str(), has_e ? "true" : "false", has_a ? "true" : "false",
                    eb.c_str(), ab.c_str(), (unsigned long) msg.size());
            continue;
        }
        bool enull = f[1] == "-", anull = f[2] == "-";
        std::string e = enull ? "" : vh_unhex(f[1]), a = anull ? "" : vh_unhex(f[2]);
        char* ce = enull ? NULL : exact_cstr(e);
        char* ca = anull ? NULL : exact_cstr(a);
        std::string msg;
        if (kind == "streq") { StringEqualFailure fl(&shell, "file.cpp", 2, ce, ca, ""); msg = fl.getMessage().asCharString(); }
        else if (kind == "nocase") { StringEqualNoCaseFailure fl(&shell, "file.cpp", 2, ce, ca, ""); msg = fl.getMessage().asCharString(); }
        else if (kind == "checkeq") { CheckEqualFailure fl(&shell, "file.cpp", 2, SimpleString(ce), SimpleString(ca), ""); msg = fl.getMessage().asCharString(); }
        else if (kind == "bineq") {
            unsigned char* be = (unsigned char*) malloc(e.size() ? e.size() : 1); memcpy(be, e.data(), e.size());
            unsigned char* ba = (unsigned char*) malloc(a.size() ? a.size() : 1); memcpy(ba, a.data(), a.size());
            BinaryEqualFailure fl(&shell, "file.cpp", 2, be, ba, e.size(), "");
            msg = fl.getMessage().asCharString();
            free(be); free(ba);
        }
        else if (kind == "equals") { EqualsFailure fl(&shell, "file.cpp", 2, ce, ca, ""); msg = fl.getMessage().asCharString(); }
        else if (kind == "contains") { ContainsFailure fl(&shell, "file.cpp", 2, SimpleString(ce), SimpleString(ca), ""); msg = fl.getMessage().asCharString(); }
        else if (kind == "unsupported") { FeatureUnsupportedFailure fl(&shell, "file.cpp", 2, SimpleString(ce), ""); msg = fl.getMessage().asCharString(); }
#if CPPUTEST_HAVE_EXCEPTIONS && CPPUTEST_USE_STD_CPP_LIB
        else if (kind == "exception") { std::runtime_error ex(e); UnexpectedExceptionFailure fl(&shell, ex); msg = fl.getMessage().asCharString(); }
#endif
        else { fprintf(out, "{\"op\":\"harness-error\",\"what\":\"unknown kind\"}\n"); break; }
        free(ce); free(ca);

        long pos = 0; bool haspos = false;
        size_t p = msg.find("difference starts at position ");
        if (p != std::string::npos) { haspos = true; pos = atol(msg.c_str() + p + strlen("difference starts at position ")); }
        bool raw = msg.find('\x01') != std::string::npos;
        fprintf(out, "{\"op\":%s,\"e\":%s,\"a\":%s,\"enull\":%s,\"anull\":%s,\"haspos\":%s,\"pos\":%ld,\"f\":%s,\"raw\":%s,\"msglen\":%lu}\n",
                vh_jstr(kind).c_str(), codes(e).c_str(), codes(a).c_str(), enull ? "true" : "false", anull ? "true" : "false",
                haspos ? "true" : "false", pos, fields_json(kind, msg).c_str(), raw ? "true" : "false", (unsigned long) msg.size());
    }
    fflush(out);
    fclose(out);
    _exit(0);
}
