// C09 conformance harness: builds real MockNamedValue objects from script lines, calls equals() in both
// directions / one integer getter inside a TestTestingFixture test, and logs one ndjson line per script
// line.  It never judges: the log carries the operands (as the specification's value records) and the
// raw observations.   Usage: mockvalue <script.tsv> <log.ndjson>
//
// script lines:  env | eq <A> <B> | get <A> <getter>
// values:  I|<type>|<neg>|h3|h2|h1|h0   integer of <type> in {int,uint,long,ulong,llong,ullong}, sign + 16-bit limbs
//          B|0/1     P|v/c/f|<id>     S|<hex>     M|<hex>     D|<k>|<neg>|<q>|<tk>|<tneg>|<tq>     O|<TypeName>|<content>
#include "vh.h"
#include <cmath>
#include <limits>
#include "CppUTest/TestHarness.h"
#include "CppUTest/TestTestingFixture.h"
#include "CppUTestExt/MockNamedValue.h"

static const char* TYPE_CODE[6] = {"int", "uint", "long", "ulong", "llong", "ullong"};
static const char* TYPE_NAME[6] = {"int", "unsigned int", "long int", "unsigned long int", "long long int", "unsigned long long int"};

static int type_index(const std::string& c)
{
    for (int i = 0; i < 6; i++) if (c == TYPE_CODE[i]) return i;
    return -1;
}

static std::string big_json(bool neg, uint64_t mag)
{
    char b[128];
    snprintf(b, sizeof b, "\"neg\":%s,\"m\":[%u,%u,%u,%u]", (neg && mag) ? "true" : "false",
             (unsigned) ((mag >> 48) & 0xffff), (unsigned) ((mag >> 32) & 0xffff), (unsigned) ((mag >> 16) & 0xffff), (unsigned) (mag & 0xffff));
    return b;
}
static std::string big_of_signed(long long v)
{
    if (v < 0) return big_json(true, (uint64_t) (-(v + 1)) + 1u);
    return big_json(false, (uint64_t) v);
}
static std::string big_of_unsigned(unsigned long long v) { return big_json(false, (uint64_t) v); }

static int g_objA[8], g_objB[8];
static char g_pool[8];
static void fn1() {}
static void fn2() {}

class IntContentComparator : public MockNamedValueComparator
{
public:
    bool isEqual(const void* a, const void* b) CPPUTEST_OVERRIDE { return *(const int*) a == *(const int*) b; }
    SimpleString valueToString(const void* a) CPPUTEST_OVERRIDE { return StringFrom(*(const int*) a); }
};

struct Built {
    MockNamedValue* v;
    std::string json;          // the value as the specification's record
    std::vector<char*> owned;
    Built() : v(NULL) {}
};

static std::string xreal_json(const std::string& k, bool neg, long q)
{
    char b[96];
    snprintf(b, sizeof b, "{\"k\":%s,\"neg\":%s,\"q\":%ld}", vh_jstr(k).c_str(), neg ? "true" : "false", q);
    return b;
}
static double xreal_value(const std::string& k, bool neg, long q)
{
    if (k == "nan") return std::numeric_limits<double>::quiet_NaN();
    if (k == "inf") return neg ? -std::numeric_limits<double>::infinity() : std::numeric_limits<double>::infinity();
    return (double) q * 0.125;
}

static bool build(const std::string& enc, const char* name, Built& out)
{
    std::vector<std::string> f = vh_split(enc, '|');
    out.v = new MockNamedValue(name);
    if (f[0] == "I" && f.size() == 7) {
        int t = type_index(f[1]);
        if (t < 0) return false;
        bool neg = f[2] == "1";
        uint64_t mag = ((uint64_t) strtoul(f[3].c_str(), NULL, 10) << 48) | ((uint64_t) strtoul(f[4].c_str(), NULL, 10) << 32) |
                       ((uint64_t) strtoul(f[5].c_str(), NULL, 10) << 16) | (uint64_t) strtoul(f[6].c_str(), NULL, 10);
        uint64_t pattern = neg ? (uint64_t) 0 - mag : mag;     // two's complement pattern of the value
        switch (t) {
            case 0: out.v->setValue((int) (int32_t) (uint32_t) pattern); break;
            case 1: out.v->setValue((unsigned int) (uint32_t) pattern); break;
            case 2: out.v->setValue((long int) (int64_t) pattern); break;
            case 3: out.v->setValue((unsigned long int) pattern); break;
            case 4: out.v->setValue((long long int) (int64_t) pattern); break;
            case 5: out.v->setValue((unsigned long long int) pattern); break;
        }
        out.json = "{\"t\":" + vh_jstr(out.v->getType().asCharString()) + "," + big_json(neg, mag) + "}";
        return true;
    }
    if (f[0] == "B" && f.size() == 2) {
        out.v->setValue(f[1] == "1");
        out.json = "{\"t\":" + vh_jstr(out.v->getType().asCharString()) + ",\"b\":" + (f[1] == "1" ? "true" : "false") + "}";
        return true;
    }
    if (f[0] == "P" && f.size() == 3) {
        int id = atoi(f[2].c_str());
        if (id < 0 || id > 7) return false;
        if (f[1] == "v") out.v->setValue((void*) (id ? &g_pool[id] : NULL));
        else if (f[1] == "c") out.v->setValue((const void*) (id ? &g_pool[id] : NULL));
        else if (f[1] == "f") out.v->setValue(id == 0 ? (void (*)()) NULL : (id == 1 ? fn1 : fn2));
        else return false;
        char b[32]; snprintf(b, sizeof b, ",\"id\":%d}", id);
        out.json = "{\"t\":" + vh_jstr(out.v->getType().asCharString()) + b;
        return true;
    }
    if (f[0] == "S" && f.size() == 2) {
        std::string s = vh_unhex(f[1]);
        char* own = (char*) malloc(s.size() + 1);          // a buffer of its own: equal content, different address
        memcpy(own, s.c_str(), s.size() + 1);
        out.owned.push_back(own);
        out.v->setValue((const char*) own);
        out.json = "{\"t\":" + vh_jstr(out.v->getType().asCharString()) + ",\"s\":" + vh_jstr(s) + "}";
        return true;
    }
    if (f[0] == "M" && f.size() == 2) {
        std::string s = vh_unhex(f[1]);
        char* own = (char*) malloc(s.size() + 1);
        memcpy(own, s.data(), s.size());
        out.owned.push_back(own);
        out.v->setMemoryBuffer((const unsigned char*) own, s.size());
        std::string arr = "[";
        for (size_t i = 0; i < s.size(); i++) { char b[8]; snprintf(b, sizeof b, "%s%u", i ? "," : "", (unsigned) (unsigned char) s[i]); arr += b; }
        out.json = "{\"t\":" + vh_jstr(out.v->getType().asCharString()) + ",\"bytes\":" + arr + "]}";
        return true;
    }
    if (f[0] == "D" && f.size() == 7) {
        bool n1 = f[2] == "1", n2 = f[5] == "1";
        long q1 = atol(f[3].c_str()), q2 = atol(f[6].c_str());
        out.v->setValue(xreal_value(f[1], n1, q1), xreal_value(f[4], n2, q2));
        out.json = "{\"t\":" + vh_jstr(out.v->getType().asCharString()) + ",\"v\":" + xreal_json(f[1], n1, q1) + ",\"tol\":" + xreal_json(f[4], n2, q2) + "}";
        return true;
    }
    if (f[0] == "O" && f.size() == 3) {
        int c = atoi(f[2].c_str());
        static int next = 0;
        int* slot = (f[1] == "TypeA" ? g_objA : g_objB) + (next++ % 8);     // its own object: equal content, different address
        *slot = c;
        out.v->setConstObjectPointer(f[1].c_str(), slot);
        char b[32]; snprintf(b, sizeof b, ",\"c\":%d}", c);
        out.json = "{\"t\":\"obj\",\"tn\":" + vh_jstr(out.v->getType().asCharString()) + b;
        return true;
    }
    return false;
}

static void destroy(Built& b)
{
    delete b.v;
    for (size_t i = 0; i < b.owned.size(); i++) free(b.owned[i]);
    b.owned.clear();
}

// ---- one getter call as the body of a test in a fixture
static MockNamedValue* g_val;
static int g_getter;
static bool g_returned;
static std::string g_ret;

static void getterBody()
{
    switch (g_getter) {
        case 0: { int r = g_val->getIntValue(); g_ret = big_of_signed(r); break; }
        case 1: { unsigned int r = g_val->getUnsignedIntValue(); g_ret = big_of_unsigned(r); break; }
        case 2: { long int r = g_val->getLongIntValue(); g_ret = big_of_signed(r); break; }
        case 3: { unsigned long int r = g_val->getUnsignedLongIntValue(); g_ret = big_of_unsigned(r); break; }
        case 4: { long long int r = g_val->getLongLongIntValue(); g_ret = big_of_signed(r); break; }
        case 5: { unsigned long long int r = g_val->getUnsignedLongLongIntValue(); g_ret = big_of_unsigned(r); break; }
    }
    g_returned = true;
}

int main(int argc, char** argv)
{
    if (argc < 3) return 2;
    FILE* in = fopen(argv[1], "r");
    FILE* out = fopen(argv[2], "w");
    if (!in || !out) return 2;
    vh_install(out);
    MockNamedValueComparatorsAndCopiersRepository repo;
    IntContentComparator cmp;
    repo.installComparator("TypeA", cmp);
    repo.installComparator("TypeB", cmp);
    MockNamedValue::setDefaultComparatorsAndCopiersRepository(&repo);

    std::string line;
    while (vh_readline(in, line)) {
        if (line.empty()) continue;
        std::vector<std::string> f = vh_split(line);
        const std::string& op = f[0];
        if (op == "reset") { fprintf(out, "{\"op\":\"reset\"}\n"); continue; }
        if (op == "env") {
            fprintf(out, "{\"op\":\"env\",\"bits\":{\"int\":%d,\"unsigned int\":%d,\"long int\":%d,\"unsigned long int\":%d,\"long long int\":%d,\"unsigned long long int\":%d},"
                         "\"signed\":{\"int\":%s,\"unsigned int\":%s,\"long int\":%s,\"unsigned long int\":%s,\"long long int\":%s,\"unsigned long long int\":%s}}\n",
                    (int) (8 * sizeof(int)), (int) (8 * sizeof(unsigned int)), (int) (8 * sizeof(long)), (int) (8 * sizeof(unsigned long)),
                    (int) (8 * sizeof(long long)), (int) (8 * sizeof(unsigned long long)),
                    (int) -1 < 0 ? "true" : "false", (unsigned int) -1 < 0 ? "true" : "false", (long) -1 < 0 ? "true" : "false",
                    (unsigned long) -1 < 0 ? "true" : "false", (long long) -1 < 0 ? "true" : "false", (unsigned long long) -1 < 0 ? "true" : "false");
            continue;
        }
        if (op == "eq" && f.size() >= 3) {
            Built a, b;
            if (!build(f[1], "a", a) || !build(f[2], "b", b)) { fprintf(out, "{\"op\":\"harness-error\",\"what\":\"bad value encoding\"}\n"); break; }
            if (f.size() >= 4 && f[3] == "alias" && f[1][0] == 'M' && f[2][0] == 'M') {
                // the two buffers start at the SAME address (the code under test sends a prefix of the array the expectation used,
                // or the same array): equality is still by length and content, never by address
                std::string sa = vh_unhex(f[1].substr(2)), sb = vh_unhex(f[2].substr(2));
                const std::string& longer = sa.size() >= sb.size() ? sa : sb;
                char* shared = (char*) malloc(longer.size() + 1);
                memcpy(shared, longer.data(), longer.size());
                a.owned.push_back(shared);
                if (longer.compare(0, sa.size(), sa) == 0 && longer.compare(0, sb.size(), sb) == 0) {
                    a.v->setMemoryBuffer((const unsigned char*) shared, sa.size());
                    b.v->setMemoryBuffer((const unsigned char*) shared, sb.size());
                }
            }
            bool ab = a.v->equals(*b.v);
            bool ba = b.v->equals(*a.v);
            fprintf(out, "{\"op\":\"eq\",\"a\":%s,\"b\":%s,\"ab\":%s,\"ba\":%s}\n", a.json.c_str(), b.json.c_str(), ab ? "true" : "false", ba ? "true" : "false");
            destroy(a); destroy(b);
            continue;
        }
        if (op == "get" && f.size() >= 3) {
            Built a;
            int g = type_index(f[2]);
            if (!build(f[1], "a", a) || g < 0) { fprintf(out, "{\"op\":\"harness-error\",\"what\":\"bad value encoding\"}\n"); break; }
            g_val = a.v; g_getter = g; g_returned = false; g_ret = big_json(false, 0);
            size_t failures;
            {
                TestTestingFixture fx;
                fx.setTestFunction(getterBody);
                fx.runAllTests();
                failures = fx.getFailureCount();
            }
            // "fails the test": the test is recorded as failed (whether or not the getter also came back)
            const char* k = failures > 0 ? "fail" : (g_returned ? "ret" : "lost");
            if (failures > 0) g_ret = big_json(false, 0);
            fprintf(out, "{\"op\":\"get\",\"a\":%s,\"g\":%s,\"k\":\"%s\",%s,\"failures\":%lu,\"returned\":%s}\n", a.json.c_str(), vh_jstr(TYPE_NAME[g]).c_str(), k,
                    g_ret.c_str(), (unsigned long) failures, g_returned ? "true" : "false");
            destroy(a);
            continue;
        }
        fprintf(out, "{\"op\":\"harness-error\",\"what\":\"unknown op\"}\n");
        break;
    }
    MockNamedValue::setDefaultComparatorsAndCopiersRepository(NULL);
    fflush(out);
    fclose(out);
    _exit(0);
}
