// C08 / C19 conformance harness: an interpreter of mocking scenarios on the real MockSupport.
// Usage: mock <script.tsv> <log.ndjson> <mode>
//   mode rec : C++ interface, a recording non-terminating MockFailureReporter (category = first line of the message);
//              the scenario stops after the first step that reported a failure; the line of that step carries "reps": the
//              categories of ALL failures the step delivered to the reporter, in order
//   mode cpp : C++ interface, the scenario is the body of a test in a TestTestingFixture with MockSupportPlugin
//              installed and the standard (terminating) reporter: the real verdict
//   mode c   : the same through the C interface (mock_c() / mock_scope_c()), also inside a fixture test
// One ndjson line per script line.  The harness never judges; it echoes the call (in the specification's
// vocabulary) and records what came back.
//
// script lines (TSV):
//   expect <scope> <fn> <n> <obj> <ign> <ins> <outs> <ret>     ins: name=ENC;...   outs: name=ty:hex;...   ret: ENC or -
//   begin <scope> <fn> | param <scope> <name> <ENC> | outparam <scope> <name> <ty> | object <scope> <id>
//       object identities (<obj> of expect, <id> of object): 0 = no object (expect only), -1 = the null pointer, 1..7 = live objects
//   ret <scope> <getter> <call|support> [<default ENC>] | left | check | clear | disable | enable | ignoreothers | strict <scope>
//   setdata <scope> <name> <ENC> [const|mut]   (objects: setDataConstObject / setDataObject) | getdata <scope> <name>
//   installcmp <scope> <type name> <whole|first|never|always|less> | installcpy <scope> <type name> <plain|inv> | removeall <scope>
//   failcheck  (modes cpp / c: a check of the test itself - LONGS_EQUAL - fails at this point of the body)
//   teardown   (modes cpp / c: the body of the test ends here; the lines up to `end' run in the test's teardown - also when the body
//               was left after a failure.  A step that ran although the test had already failed and added no failure is logged
//               with r "muted" and no observations; a step that added a failure is logged with that failure's category)
//   end        (end of the test: verdict r, vcount = number of failures the test recorded, reps = their categories in order,
//               texts = their messages in order)
//   reset      (next execution)
// value encodings (ENC) as in mockvalue.cpp:  I|type|neg|h3|h2|h1|h0  B|0/1  P|v/c/f|id  S|hex  M|hex  D|k|neg|q|tk|tneg|tq  O|Type|a,b[|id]
// objects of user types are records of two ints (a, b).  id (default 0) says WHICH object holds that content: 0 = an object of
// its own (the storage of the script line, distinct from every other object), n > 0 = the n-th shared object with that content -
// the same O|Type|a,b|n in an expectation and in an actual call passes the very same pointer on both sides.
// the comparison functions (expected, actual): "whole" compares both fields, "first" only a, "never" / "always" answer without
// looking, "less" says expected.a < actual.a (neither reflexive nor symmetric);
// output objects of user types are 4 bytes; the copy functions: "plain" copies them, "inv" copies every byte inverted
#include "vh.h"
#include <cmath>
#include <limits>
#include "CppUTest/TestHarness.h"
#include "CppUTest/TestTestingFixture.h"
#include "CppUTestExt/MockSupport.h"
#include "CppUTestExt/MockSupportPlugin.h"
#include "CppUTestExt/MockSupport_c.h"

static const char* TYPE_CODE[6] = {"int", "uint", "long", "ulong", "llong", "ullong"};
static const char* TYPE_NAME[6] = {"int", "unsigned int", "long int", "unsigned long int", "long long int", "unsigned long long int"};
static int type_index(const std::string& c) { for (int i = 0; i < 6; i++) if (c == TYPE_CODE[i]) return i; return -1; }
static int type_index_by_name(const std::string& c) { for (int i = 0; i < 6; i++) if (c == TYPE_NAME[i]) return i; return -1; }

struct Pair { int a, b; };
static char g_pool[8];
static int g_objects[8];
static Pair g_pairs[64];         // data-store objects: slot (a & 7) * 8 + (b & 7) holds {a, b}
static Pair* pair_slot(int a, int b) { Pair* p = &g_pairs[(a & 7) * 8 + (b & 7)]; p->a = a; p->b = b; return p; }
// shared parameter objects: (id, a, b) -> one object that holds {a, b} for the whole run (created while the script is parsed)
static std::map<std::vector<int>, Pair> g_shared;
static Pair* shared_object(int id, int a, int b)
{
    std::vector<int> k; k.push_back(id); k.push_back(a); k.push_back(b);
    Pair& p = g_shared[k]; p.a = a; p.b = b;
    return &p;
}
static const Pair* pair_of(const void* p) { return (p >= (const void*) &g_pairs[0] && p < (const void*) &g_pairs[64]) ? (const Pair*) p : NULL; }
static void fn1() {}
static void fn2() {}
typedef void (*fnptr)();
static void* object_of(int id) { return id < 0 ? (void*) NULL : (void*) &g_objects[id & 7]; }     // -1: the null pointer
static void* ptr_of(int id) { return id ? (void*) &g_pool[id & 7] : NULL; }
static fnptr fptr_of(int id) { return id == 0 ? (fnptr) NULL : (id == 1 ? fn1 : fn2); }
static int id_of_ptr(const void* p) { if (!p) return 0; for (int i = 1; i < 8; i++) if (p == &g_pool[i]) return i; return -1; }
static int id_of_fptr(fnptr p) { return p == NULL ? 0 : (p == fn1 ? 1 : (p == fn2 ? 2 : -1)); }

static std::string big_json(bool neg, uint64_t mag)
{
    char b[128];
    snprintf(b, sizeof b, "\"neg\":%s,\"m\":[%u,%u,%u,%u]", (neg && mag) ? "true" : "false",
             (unsigned) ((mag >> 48) & 0xffff), (unsigned) ((mag >> 32) & 0xffff), (unsigned) ((mag >> 16) & 0xffff), (unsigned) (mag & 0xffff));
    return b;
}
static std::string int_json(int t, bool neg, uint64_t mag) { return std::string("{\"t\":\"") + TYPE_NAME[t] + "\"," + big_json(neg, mag) + "}"; }
static std::string signed_json(int t, long long v) { return v < 0 ? int_json(t, true, (uint64_t) (-(v + 1)) + 1u) : int_json(t, false, (uint64_t) v); }
static std::string unsigned_json(int t, unsigned long long v) { return int_json(t, false, (uint64_t) v); }
static std::string xreal_json(const std::string& k, bool neg, long q)
{
    char b[96];
    snprintf(b, sizeof b, "{\"k\":\"%s\",\"neg\":%s,\"q\":%ld}", k.c_str(), neg ? "true" : "false", q);
    return b;
}
// finite doubles are integers q on a grid of 2^-10 (exact in binary): fine enough for differences below the interface's
// default tolerance 0.005, which on this grid admits exactly the differences of at most 5 units (5 * 2^-10 < 0.005 < 6 * 2^-10)
static const double GRID = 1.0 / 1024.0;
static const long DEFAULT_TOL_Q = 5;
static double xreal_value(const std::string& k, bool neg, long q)
{
    if (k == "nan") return std::numeric_limits<double>::quiet_NaN();
    if (k == "inf") return neg ? -std::numeric_limits<double>::infinity() : std::numeric_limits<double>::infinity();
    return (double) q * GRID;
}
static std::string double_json(double d)
{
    // the value only (no tolerance travels with a returned double): [t, v]
    if (std::isnan(d)) return "{\"t\":\"double\",\"v\":" + xreal_json("nan", false, 0) + "}";
    if (std::isinf(d)) return "{\"t\":\"double\",\"v\":" + xreal_json("inf", d < 0, 0) + "}";
    double q = d / GRID;
    if (q != std::floor(q) || std::fabs(q) > 2e9) return "{\"t\":\"double\",\"v\":{\"k\":\"offgrid\",\"neg\":false,\"q\":0}}";
    return "{\"t\":\"double\",\"v\":" + xreal_json("fin", q < 0, (long) q) + "}";
}
static std::string bytes_json(const unsigned char* p, size_t n)
{
    std::string a = "[";
    char b[8];
    for (size_t i = 0; i < n; i++) { snprintf(b, sizeof b, "%s%u", i ? "," : "", (unsigned) p[i]); a += b; }
    return a + "]";
}

static std::string obj_json(const char* tn, const Pair* p, int id = -1)
{
    char b[64]; snprintf(b, sizeof b, ",\"c\":[%d,%d]", p ? p->a : -1, p ? p->b : -1);
    char c[32] = ""; if (id >= 0) snprintf(c, sizeof c, ",\"id\":%d", id);       // (a value of the script: which object; an observed object has none)
    return std::string("{\"t\":\"obj\"") + (tn ? ",\"tn\":" + vh_jstr(tn) : std::string("")) + b + c + "}";
}

// ---- a parsed value (plain data; owned storage lives in g_steps, which is fully built before anything runs)
struct PV {
    char kind;        // I B P S M D O or '-' (none)
    int itype; bool neg; uint64_t mag;
    bool b;
    char pk; int id;
    std::string bytes;
    std::string dk, tk; bool dneg, tneg; long dq, tq;
    std::string tn; Pair pr; int oid; Pair* shared;
    std::string json;
    PV() : kind('-'), itype(0), neg(false), mag(0), b(false), pk('v'), id(0), dneg(false), tneg(false), dq(0), tq(0), oid(0), shared(NULL), json("{\"t\":\"none\"}") { pr.a = 0; pr.b = 0; }
    const void* object() const { return shared ? (const void*) shared : (const void*) &pr; }     // the parameter object this value stands for
    uint64_t pattern() const { return neg ? (uint64_t) 0 - mag : mag; }
    double dval() const { return xreal_value(dk, dneg, dq); }
    double dtol() const { return xreal_value(tk, tneg, tq); }
};

static bool parse_value(const std::string& enc, PV& v)
{
    if (enc == "-" || enc.empty()) { v = PV(); return true; }
    std::vector<std::string> f = vh_split(enc, '|');
    v.kind = f[0][0];
    if (f[0] == "I" && f.size() == 7) {
        v.itype = type_index(f[1]);
        if (v.itype < 0) return false;
        v.neg = f[2] == "1";
        v.mag = ((uint64_t) strtoul(f[3].c_str(), NULL, 10) << 48) | ((uint64_t) strtoul(f[4].c_str(), NULL, 10) << 32) |
                ((uint64_t) strtoul(f[5].c_str(), NULL, 10) << 16) | (uint64_t) strtoul(f[6].c_str(), NULL, 10);
        v.json = int_json(v.itype, v.neg, v.mag);
        return true;
    }
    if (f[0] == "B" && f.size() == 2) { v.b = f[1] == "1"; v.json = std::string("{\"t\":\"bool\",\"b\":") + (v.b ? "true" : "false") + "}"; return true; }
    if (f[0] == "P" && f.size() == 3) {
        v.pk = f[1][0]; v.id = atoi(f[2].c_str());
        const char* t = v.pk == 'v' ? "void*" : (v.pk == 'c' ? "const void*" : "void (*)()");
        char b[64]; snprintf(b, sizeof b, "{\"t\":\"%s\",\"id\":%d}", t, v.id);
        v.json = b;
        return v.pk == 'v' || v.pk == 'c' || v.pk == 'f';
    }
    if (f[0] == "S" && f.size() == 2) { v.bytes = vh_unhex(f[1]); v.json = "{\"t\":\"const char*\",\"s\":" + vh_jstr(v.bytes) + "}"; return true; }
    if (f[0] == "M" && f.size() == 2) {
        v.bytes = vh_unhex(f[1]);
        v.json = "{\"t\":\"const unsigned char*\",\"bytes\":" + bytes_json((const unsigned char*) v.bytes.data(), v.bytes.size()) + "}";
        return true;
    }
    if (f[0] == "D" && f.size() == 7) {
        v.dk = f[1]; v.dneg = f[2] == "1"; v.dq = atol(f[3].c_str());
        v.tk = f[4]; v.tneg = f[5] == "1"; v.tq = atol(f[6].c_str());
        // tk "dflt": the form without a tolerance (withParameter(name, double) / withDoubleParameters): the interface's default
        // tolerance 0.005, which on the grid is a tolerance of DEFAULT_TOL_Q units
        v.json = "{\"t\":\"double\",\"v\":" + xreal_json(v.dk, v.dneg, v.dq) + ",\"tol\":" + (v.tk == "dflt" ? xreal_json("fin", false, DEFAULT_TOL_Q) : xreal_json(v.tk, v.tneg, v.tq)) + "}";
        return true;
    }
    if (f[0] == "O" && (f.size() == 3 || f.size() == 4)) {
        std::vector<std::string> c = vh_split(f[2], ',');
        if (c.size() != 2) return false;
        v.tn = f[1]; v.pr.a = atoi(c[0].c_str()); v.pr.b = atoi(c[1].c_str());
        v.oid = f.size() == 4 ? atoi(f[3].c_str()) : 0;
        if (v.oid < 0) return false;
        v.shared = v.oid ? shared_object(v.oid, v.pr.a, v.pr.b) : NULL;
        v.json = obj_json(v.tn.c_str(), &v.pr, v.oid);
        return true;
    }
    return false;
}

struct NamedPV { std::string name; PV v; };
struct OutSpec { std::string name, ty, data; int obj; };
struct Step {
    std::vector<std::string> f;
    std::string op, scope, fn, name, ty, getter;
    int n, obj; bool ign;
    std::vector<NamedPV> ins; std::vector<OutSpec> outs;
    PV v;            // parameter value / return value / default value
    std::string echo;   // the call, as JSON fields
    std::string obs;    // observations, as JSON fields (filled when the step completes)
    bool done;
    bool started, muted;             // fixture modes: the step was entered; the test had already failed when it was
    size_t fails_before, fails_after;   // fixture modes: failures the test had recorded before / after the step
    Step() : n(0), obj(0), ign(false), done(false), started(false), muted(false), fails_before(0), fails_after(0) {}
};
static std::vector<Step> g_steps;       // the current execution
static volatile size_t g_at;            // step being executed
static std::string g_mode;
static FILE* g_out;

// ---- the recording reporter (mode rec)
class RecordingReporter : public MockFailureReporter
{
public:
    std::vector<std::string> msgs;
    void failTest(const MockFailure& failure) CPPUTEST_OVERRIDE { msgs.push_back(failure.getMessage().asCharString()); }
};
static RecordingReporter g_rec;

static const struct { const char* text; const char* cat; } CATS[] = {
    {"Mock Failure: Expected call WAS NOT fulfilled.", "unfulfilled"},
    {"Mock Failure: Unexpected additional (", "additional"},
    {"Mock Failure: Unexpected call to function: ", "unexpected"},
    {"Mock Failure: Out of order calls", "outoforder"},
    {"Mock Failure: Unexpected parameter name to function \"", "badname"},
    {"Mock Failure: Unexpected parameter value to parameter \"", "badvalue"},
    {"Mock Failure: Unexpected output parameter name to function \"", "badoutname"},
    {"Mock Failure: Unexpected parameter type \"", "badouttype"},
    {"Mock Failure: Expected parameter for function \"", "missingparam"},
    {"MockFailure: No way to compare type <", "nocompare"},
    {"MockFailure: No way to copy type <", "nocopy"},
    {"MockFailure: Function called on an unexpected object: ", "badobject"},
    {"Mock Failure: Expected call on object for function \"", "missingobject"},
};
// category of a failure text; "" if the text has none of the known shapes
static std::string category_of(const std::string& text)
{
    size_t best = std::string::npos; const char* cat = "";
    for (size_t i = 0; i < sizeof(CATS) / sizeof(CATS[0]); i++) {
        size_t p = text.find(CATS[i].text);
        if (p != std::string::npos && p < best) { best = p; cat = CATS[i].cat; }
    }
    if (best == std::string::npos && (text.find("expected <") != std::string::npos || text.find("\tCHECK") != std::string::npos)) return "check";
    return cat;
}

// ---- comparison and copy functions for user types, one per mode; the C++ flavour wraps the C one
extern "C" {
static int c_equal_whole(const void* x, const void* y) { return ((const Pair*) x)->a == ((const Pair*) y)->a && ((const Pair*) x)->b == ((const Pair*) y)->b; }
static int c_equal_first(const void* x, const void* y) { return ((const Pair*) x)->a == ((const Pair*) y)->a; }
static int c_equal_never(const void*, const void*) { return 0; }
static int c_equal_always(const void*, const void*) { return 1; }
static int c_equal_less(const void* x, const void* y) { return ((const Pair*) x)->a < ((const Pair*) y)->a; }
static const char* c_string_whole(const void* x) { static char buf[48]; snprintf(buf, sizeof buf, "(%d,%d)", ((const Pair*) x)->a, ((const Pair*) x)->b); return buf; }
static const char* c_string_first(const void* x) { static char buf[48]; snprintf(buf, sizeof buf, "(%d,_)", ((const Pair*) x)->a); return buf; }
static const char* c_string_never(const void* x) { static char buf[48]; snprintf(buf, sizeof buf, "never(%d,%d)", ((const Pair*) x)->a, ((const Pair*) x)->b); return buf; }
static const char* c_string_always(const void* x) { static char buf[48]; snprintf(buf, sizeof buf, "always(%d,%d)", ((const Pair*) x)->a, ((const Pair*) x)->b); return buf; }
static const char* c_string_less(const void* x) { static char buf[48]; snprintf(buf, sizeof buf, "(%d<,_)", ((const Pair*) x)->a); return buf; }
static void c_copy_plain(void* out, const void* in) { memcpy(out, in, 4); }
static void c_copy_inv(void* out, const void* in) { for (int i = 0; i < 4; i++) ((unsigned char*) out)[i] = (unsigned char) ~((const unsigned char*) in)[i]; }
}
// the comparison functions by mode; the C++ comparator of a mode asks the very same C function, every time it is asked
static const struct CmpMode { const char* name; int (*equal)(const void*, const void*); const char* (*str)(const void*); } CMP_MODES[] = {
    {"whole", c_equal_whole, c_string_whole}, {"first", c_equal_first, c_string_first}, {"never", c_equal_never, c_string_never},
    {"always", c_equal_always, c_string_always}, {"less", c_equal_less, c_string_less},
};
static const int N_CMP_MODES = (int) (sizeof(CMP_MODES) / sizeof(CMP_MODES[0]));
static int cmp_mode_index(const std::string& md) { for (int i = 0; i < N_CMP_MODES; i++) if (md == CMP_MODES[i].name) return i; return -1; }
class ModeComparator : public MockNamedValueComparator
{
    int mode_;
public:
    explicit ModeComparator(int mode) : mode_(mode) {}
    bool isEqual(const void* x, const void* y) CPPUTEST_OVERRIDE { return CMP_MODES[mode_].equal(x, y) != 0; }
    SimpleString valueToString(const void* x) CPPUTEST_OVERRIDE { return SimpleString(CMP_MODES[mode_].str(x)); }
};
class ModeCopier : public MockNamedValueCopier
{
    bool plain_;
public:
    explicit ModeCopier(bool plain) : plain_(plain) {}
    void copy(void* out, const void* in) CPPUTEST_OVERRIDE { if (plain_) c_copy_plain(out, in); else c_copy_inv(out, in); }
};
static ModeComparator g_cmp[] = { ModeComparator(0), ModeComparator(1), ModeComparator(2), ModeComparator(3), ModeComparator(4) };
static ModeCopier g_cpy_plain(true), g_cpy_inv(false);

// ---- per-scope interpreter state
struct ScopeRt {
    MockActualCall* call;                          // C++: the call object the fluent calls continue on
    std::map<std::string, std::vector<unsigned char> > bufs;   // output buffers handed to the current call
    ScopeRt() : call(NULL) {}
};
static std::map<std::string, ScopeRt> g_rt;
static const size_t BUFLEN = 8;
static const unsigned char FILL = 0xEE;
static bool is_c() { return g_mode == "c"; }
static MockSupport& cxx(const std::string& scope) { return scope.empty() ? mock() : mock(scope.c_str()); }
static MockSupport_c* cc(const std::string& scope) { return scope.empty() ? mock_c() : mock_scope_c(scope.c_str()); }

static void remove_types()
{
    if (is_c()) mock_c()->removeAllComparatorsAndCopiers();
    else mock().removeAllComparatorsAndCopiers();
}

// ---- C++ interface
static void cxx_expect_param(MockExpectedCall& e, const std::string& name, PV& v)
{
    switch (v.kind) {
        case 'I':
            switch (v.itype) {
                case 0: e.withParameter(name.c_str(), (int) (int32_t) (uint32_t) v.pattern()); break;
                case 1: e.withParameter(name.c_str(), (unsigned int) (uint32_t) v.pattern()); break;
                case 2: e.withParameter(name.c_str(), (long int) (int64_t) v.pattern()); break;
                case 3: e.withParameter(name.c_str(), (unsigned long int) v.pattern()); break;
                case 4: e.withParameter(name.c_str(), (long long int) (int64_t) v.pattern()); break;
                case 5: e.withParameter(name.c_str(), (unsigned long long int) v.pattern()); break;
            }
            break;
        case 'B': e.withParameter(name.c_str(), v.b); break;
        case 'P':
            if (v.pk == 'v') e.withParameter(name.c_str(), ptr_of(v.id));
            else if (v.pk == 'c') e.withParameter(name.c_str(), (const void*) ptr_of(v.id));
            else e.withParameter(name.c_str(), fptr_of(v.id));
            break;
        case 'S': e.withParameter(name.c_str(), v.bytes.c_str()); break;
        case 'M': e.withParameter(name.c_str(), (const unsigned char*) v.bytes.data(), v.bytes.size()); break;
        case 'D': if (v.tk == "dflt") e.withParameter(name.c_str(), v.dval()); else e.withParameter(name.c_str(), v.dval(), v.dtol()); break;
        case 'O': e.withParameterOfType(v.tn.c_str(), name.c_str(), v.object()); break;
    }
}
static void cxx_expect_return(MockExpectedCall& e, PV& v)
{
    switch (v.kind) {
        case 'I':
            switch (v.itype) {
                case 0: e.andReturnValue((int) (int32_t) (uint32_t) v.pattern()); break;
                case 1: e.andReturnValue((unsigned int) (uint32_t) v.pattern()); break;
                case 2: e.andReturnValue((long int) (int64_t) v.pattern()); break;
                case 3: e.andReturnValue((unsigned long int) v.pattern()); break;
                case 4: e.andReturnValue((long long int) (int64_t) v.pattern()); break;
                case 5: e.andReturnValue((unsigned long long int) v.pattern()); break;
            }
            break;
        case 'B': e.andReturnValue(v.b); break;
        case 'P':
            if (v.pk == 'v') e.andReturnValue(ptr_of(v.id));
            else if (v.pk == 'c') e.andReturnValue((const void*) ptr_of(v.id));
            else e.andReturnValue(fptr_of(v.id));
            break;
        case 'S': e.andReturnValue(v.bytes.c_str()); break;
        case 'D': e.andReturnValue(v.dval()); break;
    }
}
static void cxx_actual_param(MockActualCall& a, const std::string& name, PV& v)
{
    switch (v.kind) {
        case 'I':
            switch (v.itype) {
                case 0: a.withParameter(name.c_str(), (int) (int32_t) (uint32_t) v.pattern()); break;
                case 1: a.withParameter(name.c_str(), (unsigned int) (uint32_t) v.pattern()); break;
                case 2: a.withParameter(name.c_str(), (long int) (int64_t) v.pattern()); break;
                case 3: a.withParameter(name.c_str(), (unsigned long int) v.pattern()); break;
                case 4: a.withParameter(name.c_str(), (long long int) (int64_t) v.pattern()); break;
                case 5: a.withParameter(name.c_str(), (unsigned long long int) v.pattern()); break;
            }
            break;
        case 'B': a.withParameter(name.c_str(), v.b); break;
        case 'P':
            if (v.pk == 'v') a.withParameter(name.c_str(), ptr_of(v.id));
            else if (v.pk == 'c') a.withParameter(name.c_str(), (const void*) ptr_of(v.id));
            else a.withParameter(name.c_str(), fptr_of(v.id));
            break;
        case 'S': a.withParameter(name.c_str(), v.bytes.c_str()); break;
        case 'M': a.withParameter(name.c_str(), (const unsigned char*) v.bytes.data(), v.bytes.size()); break;
        case 'D': a.withParameter(name.c_str(), v.dval()); break;
        case 'O': a.withParameterOfType(v.tn.c_str(), name.c_str(), v.object()); break;
    }
}

// ---- C interface
static void c_expect_param(MockExpectedCall_c* e, const std::string& name, PV& v)
{
    switch (v.kind) {
        case 'I':
            switch (v.itype) {
                case 0: e->withIntParameters(name.c_str(), (int) (int32_t) (uint32_t) v.pattern()); break;
                case 1: e->withUnsignedIntParameters(name.c_str(), (unsigned int) (uint32_t) v.pattern()); break;
                case 2: e->withLongIntParameters(name.c_str(), (long int) (int64_t) v.pattern()); break;
                case 3: e->withUnsignedLongIntParameters(name.c_str(), (unsigned long int) v.pattern()); break;
                case 4: e->withLongLongIntParameters(name.c_str(), (long long int) (int64_t) v.pattern()); break;
                case 5: e->withUnsignedLongLongIntParameters(name.c_str(), (unsigned long long int) v.pattern()); break;
            }
            break;
        case 'B': e->withBoolParameters(name.c_str(), v.b ? 1 : 0); break;
        case 'P':
            if (v.pk == 'v') e->withPointerParameters(name.c_str(), ptr_of(v.id));
            else if (v.pk == 'c') e->withConstPointerParameters(name.c_str(), (const void*) ptr_of(v.id));
            else e->withFunctionPointerParameters(name.c_str(), fptr_of(v.id));
            break;
        case 'S': e->withStringParameters(name.c_str(), v.bytes.c_str()); break;
        case 'M': e->withMemoryBufferParameter(name.c_str(), (const unsigned char*) v.bytes.data(), v.bytes.size()); break;
        case 'D': if (v.tk == "dflt") e->withDoubleParameters(name.c_str(), v.dval()); else e->withDoubleParametersAndTolerance(name.c_str(), v.dval(), v.dtol()); break;
        case 'O': e->withParameterOfType(v.tn.c_str(), name.c_str(), v.object()); break;
    }
}
static void c_expect_return(MockExpectedCall_c* e, PV& v)
{
    switch (v.kind) {
        case 'I':
            switch (v.itype) {
                case 0: e->andReturnIntValue((int) (int32_t) (uint32_t) v.pattern()); break;
                case 1: e->andReturnUnsignedIntValue((unsigned int) (uint32_t) v.pattern()); break;
                case 2: e->andReturnLongIntValue((long int) (int64_t) v.pattern()); break;
                case 3: e->andReturnUnsignedLongIntValue((unsigned long int) v.pattern()); break;
                case 4: e->andReturnLongLongIntValue((long long int) (int64_t) v.pattern()); break;
                case 5: e->andReturnUnsignedLongLongIntValue((unsigned long long int) v.pattern()); break;
            }
            break;
        case 'B': e->andReturnBoolValue(v.b ? 1 : 0); break;
        case 'P':
            if (v.pk == 'v') e->andReturnPointerValue(ptr_of(v.id));
            else if (v.pk == 'c') e->andReturnConstPointerValue((const void*) ptr_of(v.id));
            else e->andReturnFunctionPointerValue(fptr_of(v.id));
            break;
        case 'S': e->andReturnStringValue(v.bytes.c_str()); break;
        case 'D': e->andReturnDoubleValue(v.dval()); break;
    }
}
static void c_actual_param(MockActualCall_c* a, const std::string& name, PV& v)
{
    switch (v.kind) {
        case 'I':
            switch (v.itype) {
                case 0: a->withIntParameters(name.c_str(), (int) (int32_t) (uint32_t) v.pattern()); break;
                case 1: a->withUnsignedIntParameters(name.c_str(), (unsigned int) (uint32_t) v.pattern()); break;
                case 2: a->withLongIntParameters(name.c_str(), (long int) (int64_t) v.pattern()); break;
                case 3: a->withUnsignedLongIntParameters(name.c_str(), (unsigned long int) v.pattern()); break;
                case 4: a->withLongLongIntParameters(name.c_str(), (long long int) (int64_t) v.pattern()); break;
                case 5: a->withUnsignedLongLongIntParameters(name.c_str(), (unsigned long long int) v.pattern()); break;
            }
            break;
        case 'B': a->withBoolParameters(name.c_str(), v.b ? 1 : 0); break;
        case 'P':
            if (v.pk == 'v') a->withPointerParameters(name.c_str(), ptr_of(v.id));
            else if (v.pk == 'c') a->withConstPointerParameters(name.c_str(), (const void*) ptr_of(v.id));
            else a->withFunctionPointerParameters(name.c_str(), fptr_of(v.id));
            break;
        case 'S': a->withStringParameters(name.c_str(), v.bytes.c_str()); break;
        case 'M': a->withMemoryBufferParameter(name.c_str(), (const unsigned char*) v.bytes.data(), v.bytes.size()); break;
        case 'D': a->withDoubleParameters(name.c_str(), v.dval()); break;
        case 'O': a->withParameterOfType(v.tn.c_str(), name.c_str(), v.object()); break;
    }
}

// a MockNamedValue (C++ returnValue()/getData()) as the specification's value record; reads it with the getter of its own type
static std::string named_value_json(const MockNamedValue& v, bool noneIfUnnamed = true)
{
    std::string t = v.getType().asCharString();
    if (noneIfUnnamed && v.getName().isEmpty()) return "{\"t\":\"none\"}";
    int it = type_index_by_name(t);
    switch (it) {
        case 0: return signed_json(0, v.getIntValue());
        case 1: return unsigned_json(1, v.getUnsignedIntValue());
        case 2: return signed_json(2, v.getLongIntValue());
        case 3: return unsigned_json(3, v.getUnsignedLongIntValue());
        case 4: return signed_json(4, v.getLongLongIntValue());
        case 5: return unsigned_json(5, v.getUnsignedLongLongIntValue());
    }
    char b[96];
    if (t == "bool") return std::string("{\"t\":\"bool\",\"b\":") + (v.getBoolValue() ? "true" : "false") + "}";
    if (t == "double") return double_json(v.getDoubleValue());
    if (t == "const char*") return "{\"t\":\"const char*\",\"s\":" + vh_jstr(v.getStringValue() ? v.getStringValue() : "<null>") + "}";
    if (t == "void*") { snprintf(b, sizeof b, "{\"t\":\"void*\",\"id\":%d}", id_of_ptr(v.getPointerValue())); return b; }
    if (t == "const void*") { snprintf(b, sizeof b, "{\"t\":\"const void*\",\"id\":%d}", id_of_ptr(v.getConstPointerValue())); return b; }
    if (t == "void (*)()") { snprintf(b, sizeof b, "{\"t\":\"void (*)()\",\"id\":%d}", id_of_fptr(v.getFunctionPointerValue())); return b; }
    if (t == "const unsigned char*") return "{\"t\":\"const unsigned char*\"}";
    // anything else is an object of a user type
    return obj_json(t.c_str(), pair_of(v.getConstObjectPointer()));
}
// the C tagged union as the specification's value record; `has' tells whether there is a value at all (the union has no "none")
static std::string c_value_json(const MockValue_c& v)
{
    char b[96];
    switch (v.type) {
        case MOCKVALUETYPE_BOOL: return std::string("{\"t\":\"bool\",\"b\":") + (v.value.boolValue ? "true" : "false") + "}";
        case MOCKVALUETYPE_INTEGER: return signed_json(0, v.value.intValue);
        case MOCKVALUETYPE_UNSIGNED_INTEGER: return unsigned_json(1, v.value.unsignedIntValue);
        case MOCKVALUETYPE_LONG_INTEGER: return signed_json(2, v.value.longIntValue);
        case MOCKVALUETYPE_UNSIGNED_LONG_INTEGER: return unsigned_json(3, v.value.unsignedLongIntValue);
        case MOCKVALUETYPE_LONG_LONG_INTEGER: return signed_json(4, v.value.longLongIntValue);
        case MOCKVALUETYPE_UNSIGNED_LONG_LONG_INTEGER: return unsigned_json(5, v.value.unsignedLongLongIntValue);
        case MOCKVALUETYPE_DOUBLE: return double_json(v.value.doubleValue);
        case MOCKVALUETYPE_STRING: return "{\"t\":\"const char*\",\"s\":" + vh_jstr(v.value.stringValue ? v.value.stringValue : "<null>") + "}";
        case MOCKVALUETYPE_POINTER: snprintf(b, sizeof b, "{\"t\":\"void*\",\"id\":%d}", id_of_ptr(v.value.pointerValue)); return b;
        case MOCKVALUETYPE_CONST_POINTER: snprintf(b, sizeof b, "{\"t\":\"const void*\",\"id\":%d}", id_of_ptr(v.value.constPointerValue)); return b;
        case MOCKVALUETYPE_FUNCTIONPOINTER: snprintf(b, sizeof b, "{\"t\":\"void (*)()\",\"id\":%d}", id_of_fptr((fnptr) v.value.functionPointerValue)); return b;
        case MOCKVALUETYPE_MEMORYBUFFER: return "{\"t\":\"const unsigned char*\"}";
        case MOCKVALUETYPE_OBJECT: return obj_json(NULL, pair_of(v.value.constObjectValue));
    }
    return "{\"t\":\"other\"}";
}

// typed return getters through four doors: C++ MockSupport, C++ MockActualCall, C MockSupport_c table, C MockActualCall_c table
struct CxxSupportView {
    MockSupport& m;
    explicit CxxSupportView(MockSupport& mm) : m(mm) {}
    bool has() { return m.hasReturnValue(); }
    MockNamedValue value() { return m.returnValue(); }
    bool b() { return m.boolReturnValue(); }                       bool b(bool d) { return m.returnBoolValueOrDefault(d); }
    int i() { return m.intReturnValue(); }                         int i(int d) { return m.returnIntValueOrDefault(d); }
    unsigned int u() { return m.unsignedIntReturnValue(); }        unsigned int u(unsigned int d) { return m.returnUnsignedIntValueOrDefault(d); }
    long int l() { return m.longIntReturnValue(); }                long int l(long int d) { return m.returnLongIntValueOrDefault(d); }
    unsigned long int ul() { return m.unsignedLongIntReturnValue(); }   unsigned long int ul(unsigned long int d) { return m.returnUnsignedLongIntValueOrDefault(d); }
    long long int ll() { return m.longLongIntReturnValue(); }      long long int ll(long long int d) { return m.returnLongLongIntValueOrDefault(d); }
    unsigned long long int ull() { return m.unsignedLongLongIntReturnValue(); }   unsigned long long int ull(unsigned long long int d) { return m.returnUnsignedLongLongIntValueOrDefault(d); }
    const char* s() { return m.stringReturnValue(); }              const char* s(const char* d) { return m.returnStringValueOrDefault(d); }
    double d() { return m.doubleReturnValue(); }                   double d(double x) { return m.returnDoubleValueOrDefault(x); }
    void* p() { return m.pointerReturnValue(); }                   void* p(void* d) { return m.returnPointerValueOrDefault(d); }
    const void* cp() { return m.constPointerReturnValue(); }       const void* cp(const void* d) { return m.returnConstPointerValueOrDefault(d); }
    fnptr fp() { return m.functionPointerReturnValue(); }          fnptr fp(fnptr d) { return m.returnFunctionPointerValueOrDefault(d); }
};
struct CxxCallView {
    MockActualCall& m;
    explicit CxxCallView(MockActualCall& mm) : m(mm) {}
    bool has() { return m.hasReturnValue(); }
    MockNamedValue value() { return m.returnValue(); }
    bool b() { return m.returnBoolValue(); }                       bool b(bool d) { return m.returnBoolValueOrDefault(d); }
    int i() { return m.returnIntValue(); }                         int i(int d) { return m.returnIntValueOrDefault(d); }
    unsigned int u() { return m.returnUnsignedIntValue(); }        unsigned int u(unsigned int d) { return m.returnUnsignedIntValueOrDefault(d); }
    long int l() { return m.returnLongIntValue(); }                long int l(long int d) { return m.returnLongIntValueOrDefault(d); }
    unsigned long int ul() { return m.returnUnsignedLongIntValue(); }   unsigned long int ul(unsigned long int d) { return m.returnUnsignedLongIntValueOrDefault(d); }
    long long int ll() { return m.returnLongLongIntValue(); }      long long int ll(long long int d) { return m.returnLongLongIntValueOrDefault(d); }
    unsigned long long int ull() { return m.returnUnsignedLongLongIntValue(); }   unsigned long long int ull(unsigned long long int d) { return m.returnUnsignedLongLongIntValueOrDefault(d); }
    const char* s() { return m.returnStringValue(); }              const char* s(const char* d) { return m.returnStringValueOrDefault(d); }
    double d() { return m.returnDoubleValue(); }                   double d(double x) { return m.returnDoubleValueOrDefault(x); }
    void* p() { return m.returnPointerValue(); }                   void* p(void* d) { return m.returnPointerValueOrDefault(d); }
    const void* cp() { return m.returnConstPointerValue(); }       const void* cp(const void* d) { return m.returnConstPointerValueOrDefault(d); }
    fnptr fp() { return m.returnFunctionPointerValue(); }          fnptr fp(fnptr d) { return m.returnFunctionPointerValueOrDefault(d); }
};
template <class T> struct CView {      // T = MockSupport_c or MockActualCall_c: the member names coincide
    T* m;
    explicit CView(T* mm) : m(mm) {}
    bool has() { return m->hasReturnValue() != 0; }
    MockValue_c value() { return m->returnValue(); }
    bool b() { return m->boolReturnValue() != 0; }                 bool b(bool d) { return m->returnBoolValueOrDefault(d ? 1 : 0) != 0; }
    int i() { return m->intReturnValue(); }                        int i(int d) { return m->returnIntValueOrDefault(d); }
    unsigned int u() { return m->unsignedIntReturnValue(); }       unsigned int u(unsigned int d) { return m->returnUnsignedIntValueOrDefault(d); }
    long int l() { return m->longIntReturnValue(); }               long int l(long int d) { return m->returnLongIntValueOrDefault(d); }
    unsigned long int ul() { return m->unsignedLongIntReturnValue(); }   unsigned long int ul(unsigned long int d) { return m->returnUnsignedLongIntValueOrDefault(d); }
    long long int ll() { return m->longLongIntReturnValue(); }     long long int ll(long long int d) { return m->returnLongLongIntValueOrDefault(d); }
    unsigned long long int ull() { return m->unsignedLongLongIntReturnValue(); }   unsigned long long int ull(unsigned long long int d) { return m->returnUnsignedLongLongIntValueOrDefault(d); }
    const char* s() { return m->stringReturnValue(); }             const char* s(const char* d) { return m->returnStringValueOrDefault(d); }
    double d() { return m->doubleReturnValue(); }                  double d(double x) { return m->returnDoubleValueOrDefault(x); }
    void* p() { return m->pointerReturnValue(); }                  void* p(void* d) { return m->returnPointerValueOrDefault(d); }
    const void* cp() { return m->constPointerReturnValue(); }      const void* cp(const void* d) { return m->returnConstPointerValueOrDefault(d); }
    fnptr fp() { return (fnptr) m->functionPointerReturnValue(); } fnptr fp(fnptr d) { return (fnptr) m->returnFunctionPointerValueOrDefault(d); }
};
static std::string generic_json(const MockNamedValue& v) { return named_value_json(v); }
static std::string generic_json(const MockValue_c& v) { return c_value_json(v); }

// reads the return value through view V with getter g ("value", "<type>", "<type>/d"); fills has and the value record
template <class V> static void read_return(V v, const std::string& g, const PV& d, bool& has, std::string& val)
{
    char b[96];
    has = v.has();
    if (g == "value") { val = has ? generic_json(v.value()) : std::string("{\"t\":\"none\"}"); return; }
    if (g == "bool") val = std::string("{\"t\":\"bool\",\"b\":") + (v.b() ? "true" : "false") + "}";
    else if (g == "bool/d") val = std::string("{\"t\":\"bool\",\"b\":") + (v.b(d.b) ? "true" : "false") + "}";
    else if (g == "int") val = signed_json(0, v.i());
    else if (g == "int/d") val = signed_json(0, v.i((int) (int32_t) (uint32_t) d.pattern()));
    else if (g == "uint") val = unsigned_json(1, v.u());
    else if (g == "uint/d") val = unsigned_json(1, v.u((unsigned int) (uint32_t) d.pattern()));
    else if (g == "long") val = signed_json(2, v.l());
    else if (g == "long/d") val = signed_json(2, v.l((long int) (int64_t) d.pattern()));
    else if (g == "ulong") val = unsigned_json(3, v.ul());
    else if (g == "ulong/d") val = unsigned_json(3, v.ul((unsigned long int) d.pattern()));
    else if (g == "llong") val = signed_json(4, v.ll());
    else if (g == "llong/d") val = signed_json(4, v.ll((long long int) (int64_t) d.pattern()));
    else if (g == "ullong") val = unsigned_json(5, v.ull());
    else if (g == "ullong/d") val = unsigned_json(5, v.ull((unsigned long long int) d.pattern()));
    else if (g == "str") { const char* s = v.s(); val = "{\"t\":\"const char*\",\"s\":" + vh_jstr(s ? s : "<null>") + "}"; }
    else if (g == "str/d") { const char* s = v.s(d.bytes.c_str()); val = "{\"t\":\"const char*\",\"s\":" + vh_jstr(s ? s : "<null>") + "}"; }
    else if (g == "double") val = double_json(v.d());
    else if (g == "double/d") val = double_json(v.d(d.dval()));
    else if (g == "ptr") { snprintf(b, sizeof b, "{\"t\":\"void*\",\"id\":%d}", id_of_ptr(v.p())); val = b; }
    else if (g == "ptr/d") { snprintf(b, sizeof b, "{\"t\":\"void*\",\"id\":%d}", id_of_ptr(v.p(ptr_of(d.id)))); val = b; }
    else if (g == "cptr") { snprintf(b, sizeof b, "{\"t\":\"const void*\",\"id\":%d}", id_of_ptr(v.cp())); val = b; }
    else if (g == "cptr/d") { snprintf(b, sizeof b, "{\"t\":\"const void*\",\"id\":%d}", id_of_ptr(v.cp((const void*) ptr_of(d.id)))); val = b; }
    else if (g == "fptr") { snprintf(b, sizeof b, "{\"t\":\"void (*)()\",\"id\":%d}", id_of_fptr(v.fp())); val = b; }
    else if (g == "fptr/d") { snprintf(b, sizeof b, "{\"t\":\"void (*)()\",\"id\":%d}", id_of_fptr(v.fp(fptr_of(d.id)))); val = b; }
    else val = "{\"t\":\"harness-unknown-getter\"}";
}

static MockActualCall_c* g_ccall;      // C: the function table actualCall returned (one static "current call" behind it)

// ---- one step on the real code; fills st.obs
static void exec_step(Step& st)
{
    const std::string& op = st.op;
    ScopeRt& rt = g_rt[st.scope];
    if (op == "expect") {
        bool bare = st.ins.empty() && st.outs.empty() && st.obj == 0 && !st.ign && st.v.kind == '-';
        if (!is_c()) {
            MockSupport& m = cxx(st.scope);
            if (st.n == 0 && bare) { m.expectNoCall(st.fn.c_str()); return; }
            MockExpectedCall& e = st.n == 1 ? m.expectOneCall(st.fn.c_str()) : m.expectNCalls((unsigned) st.n, st.fn.c_str());
            if (st.obj) e.onObject(object_of(st.obj));
            for (size_t i = 0; i < st.ins.size(); i++) cxx_expect_param(e, st.ins[i].name, st.ins[i].v);
            for (size_t i = 0; i < st.outs.size(); i++) {
                OutSpec& o = st.outs[i];
                if (o.ty == "raw") { if (o.data.empty()) e.withUnmodifiedOutputParameter(o.name.c_str()); else e.withOutputParameterReturning(o.name.c_str(), o.data.data(), o.data.size()); }
                else e.withOutputParameterOfTypeReturning(o.ty.c_str(), o.name.c_str(), &o.obj);
            }
            if (st.ign) e.ignoreOtherParameters();
            cxx_expect_return(e, st.v);
        } else {
            MockSupport_c* m = cc(st.scope);
            if (st.n == 0 && bare) { m->expectNoCall(st.fn.c_str()); return; }
            MockExpectedCall_c* e = st.n == 1 ? m->expectOneCall(st.fn.c_str()) : m->expectNCalls((unsigned) st.n, st.fn.c_str());
            for (size_t i = 0; i < st.ins.size(); i++) c_expect_param(e, st.ins[i].name, st.ins[i].v);
            for (size_t i = 0; i < st.outs.size(); i++) {
                OutSpec& o = st.outs[i];
                if (o.ty == "raw") { if (o.data.empty()) e->withUnmodifiedOutputParameter(o.name.c_str()); else e->withOutputParameterReturning(o.name.c_str(), o.data.data(), o.data.size()); }
                else e->withOutputParameterOfTypeReturning(o.ty.c_str(), o.name.c_str(), &o.obj);
            }
            if (st.ign) e->ignoreOtherParameters();
            c_expect_return(e, st.v);
        }
    } else if (op == "begin") {
        rt.bufs.clear();
        if (!is_c()) rt.call = &cxx(st.scope).actualCall(st.fn.c_str());
        else cc(st.scope)->actualCall(st.fn.c_str());
    } else if (op == "param") {
        // a user-type parameter takes its comparator from the scope addressed last: address the call's own scope, as the
        // fluent form mock("s").actualCall(..).withParameterOfType(..) does
        if (st.v.kind == 'O') (void) cxx(st.scope);
        cxx_actual_param(*rt.call, st.name, st.v);        // (C interface: exec_step_c_call)
    } else if (op == "outparam") {
        std::vector<unsigned char>& buf = rt.bufs[st.name];
        buf.assign(BUFLEN, FILL);
        if (!is_c()) { if (st.ty == "raw") rt.call->withOutputParameter(st.name.c_str(), &buf[0]); else rt.call->withOutputParameterOfType(st.ty.c_str(), st.name.c_str(), &buf[0]); }
    } else if (op == "object") {
        if (!is_c()) rt.call->onObject(object_of(st.obj));
    } else if (op == "ret") {
        std::string val; bool has = false;
        bool viaCall = st.ty == "call";
        if (!is_c()) { if (viaCall) read_return(CxxCallView(*rt.call), st.getter, st.v, has, val); else read_return(CxxSupportView(cxx(st.scope)), st.getter, st.v, has, val); }
        else { if (viaCall) read_return(CView<MockActualCall_c>(g_ccall), st.getter, st.v, has, val); else read_return(CView<MockSupport_c>(cc(st.scope)), st.getter, st.v, has, val); }
        std::string outs = "{";
        for (std::map<std::string, std::vector<unsigned char> >::iterator it = rt.bufs.begin(); it != rt.bufs.end(); ++it)
            outs += std::string(outs.size() > 1 ? "," : "") + vh_jstr(it->first) + ":" + bytes_json(&it->second[0], it->second.size());
        st.obs = std::string(",\"has\":") + (has ? "true" : "false") + ",\"val\":" + val + ",\"outs\":" + outs + "}";
    } else if (op == "left") {
        bool left = !is_c() ? mock().expectedCallsLeft() : mock_c()->expectedCallsLeft() != 0;
        st.obs = std::string(",\"left\":") + (left ? "true" : "false");
    } else if (op == "check") { if (!is_c()) mock().checkExpectations(); else mock_c()->checkExpectations(); }
    else if (op == "clear") { if (!is_c()) mock().clear(); else mock_c()->clear(); g_rt.clear(); }
    else if (op == "disable") { if (!is_c()) mock().disable(); else mock_c()->disable(); }
    else if (op == "enable") { if (!is_c()) mock().enable(); else mock_c()->enable(); }
    else if (op == "ignoreothers") { if (!is_c()) mock().ignoreOtherCalls(); else mock_c()->ignoreOtherCalls(); }
    else if (op == "strict") { if (!is_c()) cxx(st.scope).strictOrder(); else cc(st.scope)->strictOrder(); }
    else if (op == "installcmp") {
        int md = cmp_mode_index(st.ty);
        if (!is_c()) cxx(st.scope).installComparator(st.name.c_str(), g_cmp[md]);
        else cc(st.scope)->installComparator(st.name.c_str(), CMP_MODES[md].equal, CMP_MODES[md].str);
    } else if (op == "installcpy") {
        bool plain = st.ty == "plain";
        if (!is_c()) cxx(st.scope).installCopier(st.name.c_str(), plain ? g_cpy_plain : g_cpy_inv);
        else cc(st.scope)->installCopier(st.name.c_str(), plain ? c_copy_plain : c_copy_inv);
    } else if (op == "removeall") {
        if (!is_c()) cxx(st.scope).removeAllComparatorsAndCopiers(); else cc(st.scope)->removeAllComparatorsAndCopiers();
    } else if (op == "setdata") {
        PV& v = st.v;
        if (!is_c()) {
            MockSupport& m = cxx(st.scope);
            switch (v.kind) {
                case 'I': if (v.itype == 0) m.setData(st.name.c_str(), (int) (int32_t) (uint32_t) v.pattern()); else m.setData(st.name.c_str(), (unsigned int) (uint32_t) v.pattern()); break;
                case 'B': m.setData(st.name.c_str(), v.b); break;
                case 'S': m.setData(st.name.c_str(), v.bytes.c_str()); break;
                case 'D': m.setData(st.name.c_str(), v.dval()); break;
                case 'P': if (v.pk == 'v') m.setData(st.name.c_str(), ptr_of(v.id)); else if (v.pk == 'c') m.setData(st.name.c_str(), (const void*) ptr_of(v.id)); else m.setData(st.name.c_str(), fptr_of(v.id)); break;
                case 'O': if (st.ty == "mut") m.setDataObject(st.name.c_str(), v.tn.c_str(), pair_slot(v.pr.a, v.pr.b));
                          else m.setDataConstObject(st.name.c_str(), v.tn.c_str(), pair_slot(v.pr.a, v.pr.b));
                          break;
            }
        } else {
            MockSupport_c* m = cc(st.scope);
            switch (v.kind) {
                case 'I': if (v.itype == 0) m->setIntData(st.name.c_str(), (int) (int32_t) (uint32_t) v.pattern()); else m->setUnsignedIntData(st.name.c_str(), (unsigned int) (uint32_t) v.pattern()); break;
                case 'B': m->setBoolData(st.name.c_str(), v.b ? 1 : 0); break;
                case 'S': m->setStringData(st.name.c_str(), v.bytes.c_str()); break;
                case 'D': m->setDoubleData(st.name.c_str(), v.dval()); break;
                case 'P': if (v.pk == 'v') m->setPointerData(st.name.c_str(), ptr_of(v.id)); else if (v.pk == 'c') m->setConstPointerData(st.name.c_str(), (const void*) ptr_of(v.id)); else m->setFunctionPointerData(st.name.c_str(), fptr_of(v.id)); break;
                case 'O': if (st.ty == "mut") m->setDataObject(st.name.c_str(), v.tn.c_str(), pair_slot(v.pr.a, v.pr.b));
                          else m->setDataConstObject(st.name.c_str(), v.tn.c_str(), pair_slot(v.pr.a, v.pr.b));
                          break;
            }
        }
    } else if (op == "failcheck") {
        LONGS_EQUAL(4, 5);           // a check of the test itself, not of the mock
    } else if (op == "getdata") {
        std::string val;
        if (!is_c()) val = named_value_json(cxx(st.scope).getData(st.name.c_str()), false);
        else { MockValue_c v = cc(st.scope)->getData(st.name.c_str()); val = c_value_json(v); }
        st.obs = ",\"val\":" + val;
    }
}

// the C interface continues a call through the function table returned by actualCall (one static "current call")
static void exec_step_c_call(Step& st)
{
    ScopeRt& rt = g_rt[st.scope];
    if (st.op == "begin") { rt.bufs.clear(); g_ccall = cc(st.scope)->actualCall(st.fn.c_str()); }
    else if (st.op == "param") { if (st.v.kind == 'O') (void) cc(st.scope); c_actual_param(g_ccall, st.name, st.v); }
    else if (st.op == "outparam") {
        std::vector<unsigned char>& buf = rt.bufs[st.name];
        buf.assign(BUFLEN, FILL);
        if (st.ty == "raw") g_ccall->withOutputParameter(st.name.c_str(), &buf[0]); else g_ccall->withOutputParameterOfType(st.ty.c_str(), st.name.c_str(), &buf[0]);
    }
}

static TestTestingFixture* g_fx;       // modes cpp / c: the fixture whose test the scenario is
static void run_one(Step& st)
{
    if (g_fx) { st.started = true; st.muted = UtestShell::getCurrent()->hasFailed(); st.fails_before = g_fx->getFailureCount(); }
    if (is_c() && (st.op == "begin" || st.op == "param" || st.op == "outparam")) exec_step_c_call(st);
    else exec_step(st);
    if (g_fx) st.fails_after = g_fx->getFailureCount();
    st.done = true;
}

// the failure message proper: up to the blank line that ends it
static std::string message_of(const std::string& text)
{
    std::string t = text;
    size_t e = t.find("\n\n");
    if (e != std::string::npos) t = t.substr(0, e);
    while (!t.empty() && (t[t.size() - 1] == '\n' || t[t.size() - 1] == ' ')) t.erase(t.size() - 1);
    return t;
}
// categories of a list of failure texts as a JSON array; "?" for a text of unknown shape
static std::string reps_json(const std::vector<std::string>& texts)
{
    std::string a = "[";
    for (size_t i = 0; i < texts.size(); i++) { std::string c = category_of(texts[i]); a += std::string(i ? "," : "") + vh_jstr(c.empty() ? "?" : c); }
    return a + "]";
}
static void log_line(const Step& st, const std::string& r, const std::string& text = "", const std::string& reps = "")
{
    std::string extra = r == "ok" ? st.obs : (text.empty() ? std::string("") : ",\"text\":" + vh_jstr(message_of(text)));
    if (!reps.empty()) extra += ",\"reps\":" + reps;
    fprintf(g_out, "{\"op\":%s%s,\"r\":%s%s}\n", vh_jstr(st.op).c_str(), st.echo.c_str(), vh_jstr(r).c_str(), extra.c_str());
}

// ---- executions
static size_t g_end;       // index of the "end" step (or g_steps.size())
static size_t g_td;        // index of the "teardown" step (or g_end): the body is the steps before it, the teardown the steps from it on
static void fixture_body()
{
    for (g_at = 0; g_at < g_td; g_at++) run_one(g_steps[g_at]);
}
static void fixture_teardown()
{
    for (g_at = g_td; g_at < g_end; g_at++) run_one(g_steps[g_at]);
}

static std::string first_failure_text(const std::string& out)
{
    size_t p = out.find("error: Failure in TEST(");
    if (p == std::string::npos) return "";
    size_t q = out.find('\n', p);
    return q == std::string::npos ? "" : out.substr(q + 1);
}

// the texts of all failures the fixture's test recorded, in order
static std::vector<std::string> all_failure_texts(const std::string& out)
{
    static const char* HEAD = "error: Failure in TEST(";
    std::vector<std::string> res;
    size_t p = out.find(HEAD);
    while (p != std::string::npos) {
        size_t q = out.find('\n', p);
        if (q == std::string::npos) break;
        size_t nx = out.find(HEAD, q);
        size_t e = nx == std::string::npos ? out.size() : out.rfind('\n', nx);     // the next header line starts with its file:line
        res.push_back(out.substr(q + 1, (e == std::string::npos || e < q + 1) ? std::string::npos : e - q - 1));
        p = nx;
    }
    return res;
}

static void run_execution()
{
    g_end = g_steps.size();
    for (size_t i = 0; i < g_steps.size(); i++) if (g_steps[i].op == "end") { g_end = i; break; }
    g_td = g_end;
    for (size_t i = 0; i < g_end; i++) if (g_steps[i].op == "teardown") { g_td = i; break; }
    g_rt.clear();
    for (int i = 0; i < 8; i++) g_objects[i] = i;
    if (g_mode == "rec") {
        mock().setMockFailureStandardReporter(&g_rec);
        bool failed = false; std::string why;
        for (size_t i = 0; i < g_end; i++) {
            Step& st = g_steps[i];
            if (failed) { log_line(st, "skipped"); continue; }
            if (st.op == "failcheck") { fprintf(g_out, "{\"op\":\"harness-error\",\"what\":\"failcheck needs a test: modes cpp / c\"}\n"); fflush(g_out); _exit(0); }
            g_rec.msgs.clear();
            run_one(st);
            if (!g_rec.msgs.empty()) {
                failed = true;
                why = category_of(g_rec.msgs[0]);
                if (why.empty()) { fprintf(g_out, "{\"op\":%s,\"repbad\":%s}\n", vh_jstr(st.op).c_str(), vh_jstr(g_rec.msgs[0].substr(0, 200)).c_str()); continue; }
                log_line(st, why, g_rec.msgs[0], reps_json(g_rec.msgs));
            } else log_line(st, "ok");
        }
        if (g_end < g_steps.size()) {
            size_t count = failed ? 1 : 0;
            std::string reps = failed ? "[" + vh_jstr(why) + "]" : std::string("[]");
            if (!failed) {
                g_rec.msgs.clear();
                mock().checkExpectations();
                if (!g_rec.msgs.empty()) { failed = true; count = g_rec.msgs.size(); why = category_of(g_rec.msgs[0]); reps = reps_json(g_rec.msgs); }
            }
            if (failed && why.empty()) fprintf(g_out, "{\"op\":\"end\",\"repbad\":%s}\n", vh_jstr(g_rec.msgs.empty() ? "" : g_rec.msgs[0].substr(0, 200)).c_str());
            else fprintf(g_out, "{\"op\":\"end\",\"mode\":\"rec\",\"r\":%s,\"vcount\":%lu,\"reps\":%s}\n", vh_jstr(failed ? why : "ok").c_str(), (unsigned long) count, reps.c_str());
            for (size_t i = g_end + 1; i < g_steps.size(); i++) log_line(g_steps[i], "skipped");
        }
        mock().clear();
        remove_types();
        mock().setMockFailureStandardReporter(NULL);
        return;
    }
    // modes cpp / c: the scenario is the body of a test; MockSupportPlugin gives the end-of-test verdict
    size_t failures; std::string output;
    {
        TestTestingFixture fx;
        MockSupportPlugin plugin;
        fx.installPlugin(&plugin);
        fx.setTestFunction(fixture_body);
        if (g_td < g_end) fx.setTeardown(fixture_teardown);
        g_at = 0;
        g_fx = &fx;
        fx.runAllTests();
        g_fx = NULL;
        failures = fx.getFailureCount();
        output = fx.getOutput().asCharString();
    }
    std::string text = first_failure_text(output);
    std::string why = failures ? category_of(text) : "ok";
    std::vector<std::string> texts = all_failure_texts(output);
    for (size_t i = 0; i < g_end; i++) {
        Step& st = g_steps[i];
        // a step that was entered and did not complete was left through a failure: the one the test recorded next
        if (st.done && st.fails_after == st.fails_before) log_line(st, st.muted ? "muted" : "ok");
        else if (st.started) {
            std::string mine = st.fails_before < texts.size() ? texts[st.fails_before] : std::string("");
            std::string cat = category_of(mine);
            if (cat.empty()) fprintf(g_out, "{\"op\":%s,\"repbad\":%s}\n", vh_jstr(st.op).c_str(), vh_jstr(mine.substr(0, 200)).c_str());
            else log_line(st, cat, mine);
        } else log_line(st, "skipped");
    }
    if (g_end < g_steps.size()) {
        std::string all = "[";
        for (size_t i = 0; i < texts.size(); i++) all += std::string(i ? "," : "") + vh_jstr(message_of(texts[i]));
        all += "]";
        if (failures && why.empty()) fprintf(g_out, "{\"op\":\"end\",\"repbad\":%s}\n", vh_jstr(text.substr(0, 200)).c_str());
        else fprintf(g_out, "{\"op\":\"end\",\"mode\":%s,\"r\":%s,\"vcount\":%lu,\"reps\":%s,\"text\":%s,\"texts\":%s}\n", vh_jstr(g_mode).c_str(), vh_jstr(why).c_str(), (unsigned long) failures,
                     reps_json(texts).c_str(), vh_jstr(message_of(text)).c_str(), all.c_str());
        for (size_t i = g_end + 1; i < g_steps.size(); i++) log_line(g_steps[i], "skipped");
    }
    // whatever state the test left behind (the plugin has cleared the mock)
    if (is_c()) { mock_c()->clear(); mock_c()->removeAllComparatorsAndCopiers(); } else { mock().clear(); mock().removeAllComparatorsAndCopiers(); }
}

static bool parse_step(const std::vector<std::string>& f, Step& st)
{
    st.f = f; st.op = f[0];
    const std::string& op = st.op;
    std::string e = "";
    if (op == "expect" && f.size() >= 9) {
        st.scope = f[1]; st.fn = f[2]; st.n = atoi(f[3].c_str()); st.obj = atoi(f[4].c_str()); st.ign = f[5] == "1";
        std::string ins = "{", outs = "{";
        if (!f[6].empty() && f[6] != "-") {
            std::vector<std::string> ps = vh_split(f[6], ';');
            for (size_t i = 0; i < ps.size(); i++) {
                size_t q = ps[i].find('=');
                NamedPV np; np.name = ps[i].substr(0, q);
                if (!parse_value(ps[i].substr(q + 1), np.v)) return false;
                ins += std::string(i ? "," : "") + vh_jstr(np.name) + ":" + np.v.json;
                st.ins.push_back(np);
            }
        }
        if (!f[7].empty() && f[7] != "-") {
            std::vector<std::string> ps = vh_split(f[7], ';');
            for (size_t i = 0; i < ps.size(); i++) {
                size_t q = ps[i].find('='), c = ps[i].find(':');
                OutSpec o; o.name = ps[i].substr(0, q); o.ty = ps[i].substr(q + 1, c - q - 1); o.data = vh_unhex(ps[i].substr(c + 1)); o.obj = 0;
                if (o.ty != "raw") memcpy(&o.obj, o.data.data(), o.data.size() < sizeof(int) ? o.data.size() : sizeof(int));
                outs += std::string(i ? "," : "") + vh_jstr(o.name) + ":{\"ty\":" + vh_jstr(o.ty) + ",\"data\":" + bytes_json((const unsigned char*) o.data.data(), o.data.size()) + "}";
                st.outs.push_back(o);
            }
        }
        if (!parse_value(f[8], st.v)) return false;
        char b[64]; snprintf(b, sizeof b, ",\"n\":%d,\"obj\":%d,\"ign\":%s", st.n, st.obj, st.ign ? "true" : "false");
        e = ",\"s\":" + vh_jstr(st.scope) + ",\"e\":{\"fn\":" + vh_jstr(st.fn) + b + ",\"ins\":" + ins + "},\"outs\":" + outs + "},\"ret\":" + st.v.json + "}";
    } else if (op == "begin" && f.size() >= 3) { st.scope = f[1]; st.fn = f[2]; e = ",\"s\":" + vh_jstr(st.scope) + ",\"fn\":" + vh_jstr(st.fn); }
    else if (op == "param" && f.size() >= 4) {
        st.scope = f[1]; st.name = f[2];
        if (!parse_value(f[3], st.v)) return false;
        e = ",\"s\":" + vh_jstr(st.scope) + ",\"k\":" + vh_jstr(st.name) + ",\"v\":" + st.v.json;
    } else if (op == "outparam" && f.size() >= 4) { st.scope = f[1]; st.name = f[2]; st.ty = f[3]; e = ",\"s\":" + vh_jstr(st.scope) + ",\"k\":" + vh_jstr(st.name) + ",\"ty\":" + vh_jstr(st.ty); }
    else if (op == "object" && f.size() >= 3) { st.scope = f[1]; st.obj = atoi(f[2].c_str()); char b[32]; snprintf(b, sizeof b, ",\"o\":%d", st.obj); e = ",\"s\":" + vh_jstr(st.scope) + b; }
    else if (op == "ret" && f.size() >= 4) {
        st.scope = f[1]; st.getter = f[2]; st.ty = f[3];        // ty: "call" (through the call object / table) or "support"
        if (f.size() >= 5 && !parse_value(f[4], st.v)) return false;
        bool od = st.getter.size() > 2 && st.getter.substr(st.getter.size() - 2) == "/d";
        e = ",\"s\":" + vh_jstr(st.scope) + ",\"g\":" + vh_jstr(od ? st.getter.substr(0, st.getter.size() - 2) : st.getter) + ",\"od\":" + (od ? "true" : "false") + ",\"via\":" + vh_jstr(st.ty) + ",\"d\":" + st.v.json;
    } else if (op == "strict" && f.size() >= 2) { st.scope = f[1]; e = ",\"s\":" + vh_jstr(st.scope); }
    else if (op == "setdata" && f.size() >= 4) {
        st.scope = f[1]; st.name = f[2];
        if (!parse_value(f[3], st.v)) return false;
        st.ty = f.size() >= 5 ? f[4] : "const";
        e = ",\"s\":" + vh_jstr(st.scope) + ",\"k\":" + vh_jstr(st.name) + ",\"v\":" + st.v.json + ",\"how\":" + vh_jstr(st.ty);
    } else if ((op == "installcmp" || op == "installcpy") && f.size() >= 4) {
        st.scope = f[1]; st.name = f[2]; st.ty = f[3];
        if (op == "installcmp" ? cmp_mode_index(st.ty) < 0 : (st.ty != "plain" && st.ty != "inv")) return false;
        e = ",\"s\":" + vh_jstr(st.scope) + ",\"tn\":" + vh_jstr(st.name) + ",\"md\":" + vh_jstr(st.ty);
    } else if (op == "removeall" && f.size() >= 2) { st.scope = f[1]; e = ",\"s\":" + vh_jstr(st.scope);
    } else if (op == "getdata" && f.size() >= 3) { st.scope = f[1]; st.name = f[2]; e = ",\"s\":" + vh_jstr(st.scope) + ",\"k\":" + vh_jstr(st.name); }
    else if (op == "left" || op == "check" || op == "clear" || op == "disable" || op == "enable" || op == "ignoreothers" || op == "end" || op == "failcheck" || op == "teardown") {}
    else return false;
    st.echo = e;
    return true;
}

int main(int argc, char** argv)
{
    if (argc < 4) return 2;
    FILE* in = fopen(argv[1], "r");
    g_out = fopen(argv[2], "w");
    g_mode = argv[3];
    if (!in || !g_out || (g_mode != "rec" && g_mode != "cpp" && g_mode != "c")) return 2;
    vh_install(g_out);
    std::string line;
    bool more = true;
    while (more) {
        g_steps.clear();
        bool sawreset = false;
        while ((more = vh_readline(in, line))) {
            if (line.empty()) continue;
            std::vector<std::string> f = vh_split(line);
            if (f[0] == "reset") { sawreset = true; break; }
            Step st;
            if (!parse_step(f, st)) { fprintf(g_out, "{\"op\":\"harness-error\",\"what\":%s}\n", vh_jstr("bad script line: " + line.substr(0, 100)).c_str()); fflush(g_out); _exit(0); }
            g_steps.push_back(st);
        }
        if (!g_steps.empty()) run_execution();
        if (sawreset) fprintf(g_out, "{\"op\":\"reset\"}\n");
        fflush(g_out);
    }
    fclose(g_out);
    _exit(0);
}
