// Common helpers for the conformance harnesses (DESIGN.md Appendix C).
// Include this FIRST in a harness translation unit: it pulls in the C++ standard headers before any
// CppUTest header (the `new` macro of MemoryLeakDetectorNewMacros.h breaks <map>/<string> otherwise).
#ifndef VH_H
#define VH_H
#include <cstdio>
#include <cstdlib>
#include <cstring>
#include <cstdint>
#include <csignal>
#include <string>
#include <vector>
#include <map>
#include <set>
#include <algorithm>
#include <exception>
#include <unistd.h>

static FILE* vh_log = NULL;

static void vh_crash_exit(int sig)
{
    // async-signal-unsafe but we are dying anyway; the log must show the crash so the trace is rejected
    if (vh_log) {
        fprintf(vh_log, "\n{\"op\":\"crashed\",\"sig\":%d}\n", sig);
        fflush(vh_log);
    }
    _exit(99);
}

static void vh_terminate()
{
    vh_crash_exit(-1);
}

static inline void vh_install(FILE* log, bool signals = true)
{
    vh_log = log;
    std::set_terminate(vh_terminate);
    if (signals) {
        signal(SIGSEGV, vh_crash_exit);
        signal(SIGBUS, vh_crash_exit);
        signal(SIGFPE, vh_crash_exit);
        signal(SIGABRT, vh_crash_exit);
        signal(SIGILL, vh_crash_exit);
    }
}

static inline std::string vh_jstr(const std::string& s)
{
    std::string o = "\"";
    char b[8];
    for (size_t i = 0; i < s.size(); i++) {
        unsigned char c = (unsigned char) s[i];
        if (c == '"') o += "\\\"";
        else if (c == '\\') o += "\\\\";
        else if (c == '\n') o += "\\n";
        else if (c == '\r') o += "\\r";
        else if (c == '\t') o += "\\t";
        else if (c < 0x20 || c >= 0x7f) { snprintf(b, sizeof b, "\\u%04x", c); o += b; }
        else o += (char) c;
    }
    return o + "\"";
}

static inline std::vector<std::string> vh_split(const std::string& line, char sep = '\t')
{
    std::vector<std::string> out;
    size_t p = 0;
    for (;;) {
        size_t q = line.find(sep, p);
        if (q == std::string::npos) { out.push_back(line.substr(p)); break; }
        out.push_back(line.substr(p, q - p));
        p = q + 1;
    }
    return out;
}

static inline bool vh_readline(FILE* f, std::string& line)
{
    line.clear();
    int c;
    bool any = false;
    while ((c = fgetc(f)) != EOF) {
        any = true;
        if (c == '\n') return true;
        line += (char) c;
    }
    return any;
}

// hex <-> bytes, for scripts carrying arbitrary byte strings
static inline std::string vh_unhex(const std::string& h)
{
    std::string o;
    for (size_t i = 0; i + 1 < h.size(); i += 2) o += (char) strtol(h.substr(i, 2).c_str(), NULL, 16);
    return o;
}
static inline std::string vh_hex(const std::string& s)
{
    std::string o; char b[4];
    for (size_t i = 0; i < s.size(); i++) { snprintf(b, sizeof b, "%02x", (unsigned char) s[i]); o += b; }
    return o;
}

struct VhRng {
    uint64_t s;
    explicit VhRng(uint64_t seed) : s(seed * 0x9E3779B97F4A7C15ULL + 0x1234567ULL) {}
    uint64_t next() { s ^= s << 13; s ^= s >> 7; s ^= s << 17; return s * 0x2545F4914F6CDD1DULL; }
    uint64_t below(uint64_t n) { return n ? next() % n : 0; }
};
#endif
