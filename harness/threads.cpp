// C10 conformance harness (real threads).
//  mode "run <seed> <threads> <ops> <log>": N real threads, each running a seeded script through ALL eleven
//     thread-safe entry points (new, new nothrow, new debug, new[] x3, delete, delete[], malloc, realloc, free) with
//     turnOnThreadSafeNewDeleteOverloads(); pre-emption is forced at lock acquire/release by wrapping the
//     PlatformSpecificMutexLock/Unlock seams; events lock/unlock (seams) and table add/remove/retrieve (hook H3,
//     i.e. at the linearization point, inside the lock) are written to slots reserved with an atomic counter.
//  mode "misuse <kind> <log>": inside a real test run, a misuse (overrun / foreign free / double free) is detected - or the allocator
//     fails the test because it cannot satisfy the request - while the lock is held; afterwards the same and another thread
//     allocate again.  Completion within the caller's deadline = no hang.
#include "vh.h"
#include <atomic>
#include <thread>
#include <new>
#include <sched.h>
#include "CppUTest/TestHarness.h"
#include "CppUTest/TestRegistry.h"
#include "CppUTest/TestOutput.h"
#include "CppUTest/TestPlugin.h"
#include "CppUTest/MemoryLeakWarningPlugin.h"
#include "CppUTest/MemoryLeakDetector.h"
#include "CppUTest/PlatformSpecificFunctions.h"
#include "CppUTest/TestMemoryAllocator.h"
#include "CppUTest/TestHarness_c.h"
#undef new
#undef malloc
#undef free
#undef realloc
#undef calloc
#undef strdup
#undef strndup

extern void (*CppUTestVerif_TableEvent)(int kind, const void* memory, int found);
// the thread-safe malloc family itself (the cpputest_malloc_location front end additionally keeps an unsynchronised
// statistics counter for the out-of-memory countdown, which is not part of the detector and not part of the claim)
extern void* cpputest_malloc_location_with_leak_detection(size_t size, const char* file, size_t line);
extern void* cpputest_realloc_location_with_leak_detection(void* memory, size_t size, const char* file, size_t line);
extern void cpputest_free_location_with_leak_detection(void* buffer, const char* file, size_t line);

enum { EV_LOCK = 1, EV_UNLOCK = 2, EV_ADD = 3, EV_REMOVE = 4, EV_RETRIEVE = 5 };
struct Ev { int kind; int tid; const void* addr; int found; int owner; };
static Ev* evs; static size_t evCap;
static std::atomic<size_t> evPos(0);
static std::atomic<int> lockOwner(0);
static std::atomic<bool> recording(false);
static thread_local int myTid = 0;
static thread_local uint64_t myRng = 1;
static int yieldLevel = 1;

static inline void logEv(int kind, const void* addr, int found)
{
    if (!recording.load()) return;
    size_t i = evPos.fetch_add(1);
    if (i >= evCap) return;
    evs[i].kind = kind; evs[i].tid = myTid; evs[i].addr = addr; evs[i].found = found; evs[i].owner = lockOwner.load();
}
static inline uint64_t rnd() { myRng ^= myRng << 13; myRng ^= myRng >> 7; myRng ^= myRng << 17; return myRng; }
static void preempt()
{
    if (!yieldLevel) return;
    uint64_t r = rnd() % 16;
    if (r < 6) sched_yield();
    else if (r == 6 && yieldLevel > 1) usleep(20);
}
static void (*realLock)(PlatformSpecificMutex);
static void (*realUnlock)(PlatformSpecificMutex);
static void wrapLock(PlatformSpecificMutex m) { preempt(); realLock(m); lockOwner.store(myTid); logEv(EV_LOCK, NULL, 0); }
static void wrapUnlock(PlatformSpecificMutex m) { logEv(EV_UNLOCK, NULL, 0); lockOwner.store(0); realUnlock(m); preempt(); }
static void tableEvent(int kind, const void* mem, int found) { logEv(kind == 1 ? EV_ADD : kind == 2 ? EV_REMOVE : EV_RETRIEVE, mem, found); }

struct Blk { void* p; int fam; };   // fam: 0 new, 1 new[], 2 malloc
static std::atomic<long> entryCount[11];
static long heldTotal[64];

static void worker(int tid, uint64_t seed, int nops)
{
    myTid = tid; myRng = seed * 0x9E3779B97F4A7C15ULL + (uint64_t) tid * 7919 + 1;
    std::vector<Blk> mine; mine.reserve(64);
    for (int i = 0; i < nops; i++) {
        uint64_t r = rnd() % 100;
        if (mine.size() < 12 && (r < 55 || mine.empty())) {
            size_t sz = (size_t) (rnd() % 40) + 1;
            Blk b; b.p = NULL; b.fam = 0;
            switch (rnd() % 7) {
            case 0: b.p = ::operator new(sz); b.fam = 0; entryCount[0]++; break;
            case 1: b.p = ::operator new(sz, std::nothrow); b.fam = 0; entryCount[1]++; break;
            case 2: b.p = ::operator new(sz, "thr.cpp", (size_t) 10); b.fam = 0; entryCount[2]++; break;
            case 3: b.p = ::operator new[](sz); b.fam = 1; entryCount[3]++; break;
            case 4: b.p = ::operator new[](sz, std::nothrow); b.fam = 1; entryCount[4]++; break;
            case 5: b.p = ::operator new[](sz, "thr.cpp", (size_t) 20); b.fam = 1; entryCount[5]++; break;
            default: b.p = cpputest_malloc_location_with_leak_detection(sz, "thr.c", 30); b.fam = 2; entryCount[8]++; break;
            }
            if (b.p) { memset(b.p, 0x11, sz); mine.push_back(b); }
        } else if (r < 65) {
            size_t k = rnd() % mine.size();
            if (mine[k].fam == 2) { size_t sz = (size_t) (rnd() % 60) + 1; void* q = cpputest_realloc_location_with_leak_detection(mine[k].p, sz, "thr.c", 40); entryCount[9]++; if (q) mine[k].p = q; }
        } else {
            size_t k = rnd() % mine.size();
            Blk b = mine[k]; mine[k] = mine.back(); mine.pop_back();
            if (b.fam == 0) { ::operator delete(b.p); entryCount[6]++; }
            else if (b.fam == 1) { ::operator delete[](b.p); entryCount[7]++; }
            else { cpputest_free_location_with_leak_detection(b.p, "thr.c", 50); entryCount[10]++; }
        }
    }
    // release about half of what is left, keep the rest outstanding
    while (mine.size() > 3) {
        Blk b = mine.back(); mine.pop_back();
        if (b.fam == 0) ::operator delete(b.p); else if (b.fam == 1) ::operator delete[](b.p); else cpputest_free_location_with_leak_detection(b.p, "thr.c", 60);
    }
    heldTotal[tid] = (long) mine.size();
}

static void dumpEvents(FILE* out, int nthreads, long delta)
{
    size_t n = evPos.load(); if (n > evCap) n = evCap;
    // addresses -> small ids (TLC integers are 32-bit)
    std::map<const void*, int> ids;
    static const char* KN[] = {"", "lock", "unlock", "add", "remove", "retrieve"};
    long held = 0; for (int t = 1; t <= nthreads; t++) held += heldTotal[t];
    for (size_t i = 0; i < n; i++) {
        int id = 0;
        if (evs[i].addr) { std::map<const void*, int>::iterator it = ids.find(evs[i].addr); if (it == ids.end()) { id = (int) ids.size() + 1; ids[evs[i].addr] = id; } else id = it->second; }
        fprintf(out, "{\"op\":\"%s\",\"t\":%d,\"a\":%d,\"found\":%s,\"o\":%d}\n", KN[evs[i].kind], evs[i].tid, id, evs[i].found ? "true" : "false", evs[i].owner);
    }
    fprintf(out, "{\"op\":\"end\",\"t\":0,\"a\":%ld,\"found\":%s,\"o\":%ld,\"entries\":[", delta, evPos.load() > evCap ? "false" : "true", held);
    for (int i = 0; i < 11; i++) fprintf(out, "%s%ld", i ? "," : "", entryCount[i].load());
    fprintf(out, "]}\n");
}

static int runThreads(uint64_t seed, int nthreads, int nops, const char* logPath)
{
    FILE* out = fopen(logPath, "w");
    if (!out) return 2;
    vh_install(out, false);
    myTid = 99;      // the main thread allocates too while it starts the workers (std::thread's state): it is a thread like the others
    evCap = (size_t) nthreads * (size_t) nops * 8 + 4096;
    evs = (Ev*) calloc(evCap, sizeof(Ev));
    std::vector<std::thread>* ths = new std::vector<std::thread>();
    ths->reserve((size_t) nthreads);
    MemoryLeakDetector* det = MemoryLeakWarningPlugin::getGlobalDetector();
    det->enable();
    realLock = PlatformSpecificMutexLock; realUnlock = PlatformSpecificMutexUnlock;
    PlatformSpecificMutexLock = wrapLock; PlatformSpecificMutexUnlock = wrapUnlock;
    MemoryLeakWarningPlugin::turnOnThreadSafeNewDeleteOverloads();
    if (seed % 2 == 1) {
        // a save / restore pair around code that must not be tracked (the library does this itself when it creates the global
        // detector) has to bring the thread-safe overloads back, not the unlocked ones
        MemoryLeakWarningPlugin::saveAndDisableNewDeleteOverloads();
        void* untracked = ::operator new(16); ::operator delete(untracked);
        MemoryLeakWarningPlugin::restoreNewDeleteOverloads();
    }
    long base = (long) det->totalMemoryLeaks(mem_leak_period_all);
    CppUTestVerif_TableEvent = tableEvent;
    recording.store(true);
    for (int t = 1; t <= nthreads; t++) ths->push_back(std::thread(worker, t, seed, nops));
    for (size_t i = 0; i < ths->size(); i++) (*ths)[i].join();
    recording.store(false);
    CppUTestVerif_TableEvent = NULL;
    long total = (long) det->totalMemoryLeaks(mem_leak_period_all);
    MemoryLeakWarningPlugin::turnOnDefaultNotThreadSafeNewDeleteOverloads();
    PlatformSpecificMutexLock = realLock; PlatformSpecificMutexUnlock = realUnlock;
    dumpEvents(out, nthreads, total - base);
    fflush(out); fclose(out);
    _exit(0);
}

// ---------------------------------------------------------------- one thread slow inside the locked region
// mode "stall <ms> <log>": thread 1 allocates through an allocator that takes <ms> milliseconds (a slow or starved thread, a
// slow user allocator, a huge block being poisoned): for that long it is inside the detector's locked region.  Threads 2 and 3
// start allocating (new[] / malloc family) as soon as thread 1 is inside.  However long the lock is held, nobody else may
// enter: the event log must still be a behaviour of the lock protocol.
static std::atomic<bool> stallInside(false);
static int stallMs = 0;
class StallingAllocator : public TestMemoryAllocator
{
public:
    StallingAllocator() : TestMemoryAllocator("stalling new", "new", "delete") {}
    char* alloc_memory(size_t size, const char* file, size_t line) CPPUTEST_OVERRIDE
    {
        stallInside.store(true);
        usleep((useconds_t) stallMs * 1000);
        return TestMemoryAllocator::alloc_memory(size, file, line);
    }
};
static void stallOwner() { myTid = 1; void* p = ::operator new(16); memset(p, 1, 16); ::operator delete(p); heldTotal[1] = 0; }
static void stallOther(int tid)
{
    myTid = tid; myRng = (uint64_t) tid * 7919 + 1;
    while (!stallInside.load()) sched_yield();
    for (int i = 0; i < 20; i++) {
        if (tid == 2) { char* q = (char*) ::operator new[](8); memset(q, 2, 8); ::operator delete[](q); }
        else { void* q = cpputest_malloc_location_with_leak_detection(8, "stall.c", 3); q = cpputest_realloc_location_with_leak_detection(q, 24, "stall.c", 4); cpputest_free_location_with_leak_detection(q, "stall.c", 5); }
    }
    heldTotal[tid] = 0;
}
static int runStall(int ms, const char* logPath)
{
    FILE* out = fopen(logPath, "w");
    if (!out) return 2;
    vh_install(out, false);
    stallMs = ms;
    myTid = 99;
    evCap = 4096; evs = (Ev*) calloc(evCap, sizeof(Ev));
    MemoryLeakDetector* det = MemoryLeakWarningPlugin::getGlobalDetector();
    det->enable();
    StallingAllocator* stalling = new StallingAllocator;
    std::vector<std::thread>* ths = new std::vector<std::thread>();
    ths->reserve(3);
    realLock = PlatformSpecificMutexLock; realUnlock = PlatformSpecificMutexUnlock;
    PlatformSpecificMutexLock = wrapLock; PlatformSpecificMutexUnlock = wrapUnlock;
    MemoryLeakWarningPlugin::turnOnThreadSafeNewDeleteOverloads();
    setCurrentNewAllocator(stalling);
    long base = (long) det->totalMemoryLeaks(mem_leak_period_all);
    CppUTestVerif_TableEvent = tableEvent;
    recording.store(true);
    ths->push_back(std::thread(stallOwner));
    ths->push_back(std::thread(stallOther, 2));
    ths->push_back(std::thread(stallOther, 3));
    for (size_t i = 0; i < ths->size(); i++) (*ths)[i].join();
    recording.store(false);
    CppUTestVerif_TableEvent = NULL;
    long total = (long) det->totalMemoryLeaks(mem_leak_period_all);
    setCurrentNewAllocatorToDefault();
    MemoryLeakWarningPlugin::turnOnDefaultNotThreadSafeNewDeleteOverloads();
    PlatformSpecificMutexLock = realLock; PlatformSpecificMutexUnlock = realUnlock;
    dumpEvents(out, 3, total - base);
    fflush(out); fclose(out);
    _exit(0);
}

// ---------------------------------------------------------------- misuse while the lock is held
static int misuseKind = 0;
static int bodyReached = 0, afterMisuse = 0, secondRan = 0, otherThreadOk = 0;
static char* volatile leakedForLater = NULL;
static MemoryLeakDetector* secondDetector = NULL;
// an allocator that cannot satisfy the request and says so the way the library's own default allocator does when the C library returns
// NULL (TestMemoryAllocator::alloc_memory -> checkedMalloc -> FAIL): a test failure raised while the wrapper holds the detector's lock
class RefusingAllocator : public TestMemoryAllocator
{
public:
    RefusingAllocator(const char* n, const char* a, const char* f) : TestMemoryAllocator(n, a, f) {}
    char* alloc_memory(size_t, const char*, size_t) CPPUTEST_OVERRIDE { FAIL("scripted: the allocator cannot satisfy the request"); return NULLPTR; }
};
static RefusingAllocator* refusingNewArray = NULL;
static RefusingAllocator* refusingMalloc = NULL;
static void misuseBody()
{
    bodyReached = 1;
    MemoryLeakWarningPlugin::turnOnThreadSafeNewDeleteOverloads();
    if (misuseKind == 4 || misuseKind == 5) {
        // (the result is stored where the compiler cannot prove it unused: an unused operator new call may be removed)
        if (misuseKind == 4) { setCurrentNewArrayAllocator(refusingNewArray); leakedForLater = (char*) ::operator new[](8); }
        else { setCurrentMallocAllocator(refusingMalloc); leakedForLater = (char*) cpputest_malloc_location_with_leak_detection(8, "m.c", 5); }
        afterMisuse = 1;   // must not be reached
        return;
    }
    if (misuseKind == 6 || misuseKind == 7) {
        // the library's own default allocators and a request the C library refuses (TestMemoryAllocator::alloc_memory -> checkedMalloc)
        const size_t huge = (size_t) 1 << 62;
        if (misuseKind == 6) leakedForLater = (char*) ::operator new[](huge);
        else leakedForLater = (char*) cpputest_malloc_location_with_leak_detection(huge, "m.c", 6);
        afterMisuse = 1;   // must not be reached
        return;
    }
    if (misuseKind == 3) {
        // the global detector is replaced while the thread-safe overloads are on (setGlobalDetector is public API): the lock taken
        // by the wrappers and the lock released on the failure path must both be the current detector's
        MemoryLeakWarningPlugin::setGlobalDetector(secondDetector, MemoryLeakWarningPlugin::getGlobalFailureReporter());
        char* q = (char*) ::operator new[](8);
        q[8] = 'X'; ::operator delete[](q);
        afterMisuse = 1;
        return;
    }
    char* p = (char*) ::operator new[](8);
    if (misuseKind == 0) { p[8] = 'X'; ::operator delete[](p); }          // overrun into the guard bytes, found at release
    else if (misuseKind == 1) { int local = 0; ::operator delete((void*) &local); leakedForLater = p; }   // foreign address
    else { ::operator delete[](p); ::operator delete[](p); }               // double release
    afterMisuse = 1;   // must not be reached: the failing check ends the phase
}
static void secondBody()
{
    secondRan = 1;
    setCurrentNewArrayAllocatorToDefault(); setCurrentMallocAllocatorToDefault();
    char* q = (char*) ::operator new[](4);     // needs the detector lock again
    ::operator delete[](q);
}
static void otherThread() { myTid = 2; char* q = (char*) ::operator new[](4); ::operator delete[](q); otherThreadOk = 1; }

static int runMisuse(int kind, const char* logPath)
{
    FILE* out = fopen(logPath, "w");
    if (!out) return 2;
    vh_install(out, false);
    misuseKind = kind;
    MemoryLeakDetector* det = MemoryLeakWarningPlugin::getGlobalDetector();
    det->enable();
    if (kind == 3) { secondDetector = new MemoryLeakDetector(MemoryLeakWarningPlugin::getGlobalFailureReporter()); secondDetector->enable(); }
    refusingNewArray = new RefusingAllocator("refusing new []", "new []", "delete []");
    refusingMalloc = new RefusingAllocator("refusing malloc", "malloc", "free");
    TestRegistry registry;
    ExecFunctionTestShell t1, t2;
    t1.setGroupName("M"); t1.setTestName("misuse"); t1.setFileName("m.cpp"); t1.setLineNumber(1);
    t2.setGroupName("M"); t2.setTestName("after"); t2.setFileName("m.cpp"); t2.setLineNumber(2);
    ExecFunctionWithoutParameters f1(misuseBody), f2(secondBody);
    t1.testFunction_ = &f1; t2.testFunction_ = &f2;
    registry.addTest(&t2); registry.addTest(&t1);
    StringBufferTestOutput output;
    TestResult result(output);
    fprintf(out, "{\"op\":\"begin\",\"kind\":%d}\n", kind); fflush(out);
    registry.runAllTests(result);
    std::thread th(otherThread); th.join();
    MemoryLeakWarningPlugin::turnOnDefaultNotThreadSafeNewDeleteOverloads();
    if (kind == 3) MemoryLeakWarningPlugin::setGlobalDetector(det, MemoryLeakWarningPlugin::getGlobalFailureReporter());
    std::string text = output.getOutput().asCharString();
    std::string cat = text.find("Memory corruption") != std::string::npos ? "corruption" : text.find("Deallocating non-allocated memory") != std::string::npos ? "nonallocated"
                      : text.find("scripted: the allocator cannot satisfy the request") != std::string::npos ? "refused"
                      : text.find("malloc returned null pointer") != std::string::npos ? "nullmalloc" : "none";
    fprintf(out, "{\"op\":\"misuse\",\"kind\":%d,\"body\":%d,\"after\":%d,\"second\":%d,\"other\":%d,\"failures\":%lu,\"run\":%lu,\"cat\":\"%s\"}\n",
            kind, bodyReached, afterMisuse, secondRan, otherThreadOk, (unsigned long) result.getFailureCount(), (unsigned long) result.getRunCount(), cat.c_str());
    fflush(out); fclose(out);
    _exit(0);
}

int main(int argc, char** argv)
{
    if (argc >= 6 && std::string(argv[1]) == "run") { if (argc > 6) yieldLevel = atoi(argv[6]); return runThreads((uint64_t) atoll(argv[2]), atoi(argv[3]), atoi(argv[4]), argv[5]); }
    if (argc >= 4 && std::string(argv[1]) == "misuse") return runMisuse(atoi(argv[2]), argv[3]);
    if (argc >= 4 && std::string(argv[1]) == "stall") return runStall(atoi(argv[2]), argv[3]);
    return 2;
}
