// C14 (buffer part) conformance harness: drives a private MemoryLeakDetector through misuse messages and leak
// reports, watches every bounded write the detector makes into its fixed text buffer through the
// PlatformSpecificVSNprintf seam (destination offset, size, returned length, write limit at that moment) and the
// H2 hooks (fill position, write limit, canary), and logs one ndjson line per call.  It never judges.
//   repbuf <script.tsv> <log.ndjson>
// script lines (TSV):  clear | misuse <kind> <alloc-file-len> <free-file-len> | leak <kind> <size> <file-len> <count>
//                      | freeall | report | reset
#include "vh.h"
#include <cstdarg>
#include "CppUTest/TestHarness.h"
#include "CppUTest/MemoryLeakDetector.h"
#include "CppUTest/TestMemoryAllocator.h"
#include "CppUTest/PlatformSpecificFunctions.h"

struct App { long off, size, ret, lim; };
static std::vector<App> g_apps;
static MemoryLeakDetector* g_det = NULL;
static char* g_base = NULL;
static long g_cap = 0;
static long g_top = 0;      // the write limit of a fresh buffer
static int (*real_vsnprintf)(char*, size_t, const char*, va_list) = NULL;

static int watching_vsnprintf(char* str, size_t size, const char* format, va_list args)
{
    bool mine = g_det && g_base && str >= g_base && str < g_base + g_cap;
    App a; a.off = 0; a.size = 0; a.ret = 0; a.lim = 0;
    if (mine) {
        a.off = (long) (str - g_base);
        a.size = size > 1000000 ? 1000000 : (long) size;
        a.lim = (long) g_det->verifBuffer().verifLimit();
    }
    int r = real_vsnprintf(str, size, format, args);
    if (mine) { a.ret = r; g_apps.push_back(a); }
    return r;
}

class QuietFailure : public MemoryLeakFailure
{
public:
    int count;
    QuietFailure() : count(0) {}
    void fail(char*) CPPUTEST_OVERRIDE { count++; }
};

// file names of a given length; they stay alive (the detector keeps the pointer); contents include '%' and '\\'
static const char* file_of(long len)
{
    static std::map<long, char*> pool;
    std::map<long, char*>::iterator it = pool.find(len);
    if (it != pool.end()) return it->second;
    char* s = (char*) malloc((size_t) len + 1);
    static const char alphabet[] = "src/dir_%s%n\\file.cpp<>";
    for (long i = 0; i < len; i++) s[i] = alphabet[(size_t) (i * 7 + len) % (sizeof(alphabet) - 1)];
    s[len] = 0;
    pool[len] = s;
    return s;
}

struct Out { char* p; bool isMalloc; };

int main(int argc, char** argv)
{
    if (argc < 3) return 2;
    FILE* in = fopen(argv[1], "r");
    FILE* out = fopen(argv[2], "w");
    if (!in || !out) return 2;
    vh_install(out);
    setvbuf(out, NULL, _IOLBF, 0);      // a sanitizer abort does not flush stdio: every completed call must already be in the log
    real_vsnprintf = PlatformSpecificVSNprintf;
    PlatformSpecificVSNprintf = watching_vsnprintf;

    TestMemoryAllocator newAlloc("harness new", "new", "delete"), mallocAlloc("harness malloc", "malloc", "free");
    QuietFailure* qf = new QuietFailure;
    g_det = new MemoryLeakDetector(qf);
    g_cap = (long) SimpleStringBuffer::SIMPLE_STRING_BUFFER_LEN;
    g_base = g_det->verifBuffer().toString();
    g_top = (long) g_det->verifBuffer().verifLimit();
    std::vector<Out> outs;
    static char bogus[16];
    std::string line;
    while (vh_readline(in, line)) {
        if (line.empty()) continue;
        std::vector<std::string> f = vh_split(line);
        while (f.size() < 5) f.push_back("0");
        const std::string op = f[0], kind = f[1];
        long x = atol(f[2].c_str()), y = atol(f[3].c_str()), cnt = atol(f[4].c_str());
        if (op == "reset") {
            g_base = NULL;
            // outstanding blocks are forgotten together with the detector
            outs.clear();
            delete g_det; delete qf;
            qf = new QuietFailure; g_det = new MemoryLeakDetector(qf);
            g_base = g_det->verifBuffer().toString();
            fprintf(out, "{\"op\":\"reset\"}\n");
            continue;
        }
        g_apps.clear();
        SimpleStringBuffer& sb = g_det->verifBuffer();
        long start = (long) sb.verifFilled();
        long n = 0, stated = -1, listed = 0; bool warn = false, notice = false, isreport = false;
        if (op == "clear") g_det->startChecking();
        else if (op == "misuse") {
            if (kind == "nonalloc") g_det->deallocMemory(&mallocAlloc, bogus, file_of(y), 7);
            else if (kind == "mismatch") {
                char* p = g_det->allocMemory(&newAlloc, 8, file_of(x), 5);
                g_det->deallocMemory(&mallocAlloc, p, file_of(y), 7);
            } else if (kind == "corrupt") {
                char* p = g_det->allocMemory(&newAlloc, 8, file_of(x), 5);
                p[8] = 'X';
                g_det->deallocMemory(&newAlloc, p, file_of(y), 7);
            } else { fprintf(out, "{\"op\":\"harness-error\",\"what\":\"unknown misuse kind\"}\n"); break; }
        } else if (op == "leak") {
            for (long i = 0; i < (cnt > 0 ? cnt : 1); i++) {
                Out o; o.isMalloc = (kind == "malloc");
                o.p = g_det->allocMemory(o.isMalloc ? &mallocAlloc : &newAlloc, (size_t) x, file_of(y), 11);
                for (long k = 0; k < x; k++) o.p[k] = (char) ((k * 37 + i) & 0xFF);
                outs.push_back(o);
            }
        } else if (op == "freeall") {
            for (size_t i = 0; i < outs.size(); i++) g_det->deallocMemory(outs[i].isMalloc ? &mallocAlloc : &newAlloc, outs[i].p, "free.cpp", 3);
            outs.clear();
        } else if (op == "report") {
            isreport = true;
            n = (long) outs.size();
            for (size_t i = 0; i < outs.size(); i++) if (outs[i].isMalloc) warn = true;
            g_det->report(mem_leak_period_all);
        } else { fprintf(out, "{\"op\":\"harness-error\",\"what\":\"unknown op\"}\n"); break; }

        long filled = (long) sb.verifFilled(), limit = (long) sb.verifLimit();
        if (filled > 1000000000L || filled < 0) filled = 1000000000L;     // (TLC integers are 32 bit)
        if (limit > 1000000000L || limit < 0) limit = 1000000000L;
        long textlen = (long) strnlen(g_base, (size_t) g_cap);     // == cap: no terminator inside the buffer
        bool canary = sb.verifCanaryIntact();
        long maxend = 0;
        for (size_t i = 0; i < g_apps.size(); i++) {
            long touched = g_apps[i].ret + 1 < g_apps[i].size ? g_apps[i].ret + 1 : g_apps[i].size;
            if (g_apps[i].off + touched > maxend) maxend = g_apps[i].off + touched;
        }
        if (isreport) {
            std::string text(g_base, (size_t) textlen);
            std::string region = start < textlen ? text.substr((size_t) start) : std::string();
            size_t p = region.rfind("Total number of leaks: ");
            if (p != std::string::npos) stated = atol(region.c_str() + p + strlen("Total number of leaks: "));
            else if (region.find("No memory leaks were detected.") != std::string::npos) stated = 0;
            notice = region.find("Too many memory leaks to report") != std::string::npos;
            for (p = 0; (p = region.find("Alloc num (", p)) != std::string::npos; p += 10) listed++;
        }
        // appends made while the leaks are listed (limit lowered) come by the thousand: contiguous untruncated ones are
        // added up (off, size of the first; sum of the returned lengths) -- the same thing for a bounded append
        std::vector<App> apps;
        long top = g_top;
        for (size_t i = 0; i < g_apps.size(); i++) {
            const App& a = g_apps[i];
            if (isreport && apps.size() > 1) {          // (the report header stays by itself)
                App& b = apps.back();
                if (a.lim != top && a.lim == b.lim && b.ret >= 0 && b.ret < b.size && a.off == b.off + b.ret && a.size == b.size - b.ret && a.ret >= 0) {
                    b.ret += a.ret;
                    continue;
                }
            }
            apps.push_back(a);
        }
        fprintf(out, "{\"op\":%s,\"kind\":%s,\"x\":%ld,\"y\":%ld,\"cnt\":%ld,\"cap\":%ld,\"apps\":[", vh_jstr(op).c_str(), vh_jstr(kind).c_str(), x, y, cnt, g_cap);
        for (size_t i = 0; i < apps.size(); i++)
            fprintf(out, "%s{\"off\":%ld,\"size\":%ld,\"ret\":%ld,\"lim\":%ld}", i ? "," : "", apps[i].off, apps[i].size, apps[i].ret, apps[i].lim);
        fprintf(out, "],\"nraw\":%lu,\"filled\":%ld,\"limit\":%ld,\"textlen\":%ld,\"canary\":%s,\"maxend\":%ld,"
                     "\"n\":%ld,\"warn\":%s,\"start\":%ld,\"stated\":%ld,\"listed\":%ld,\"notice\":%s,\"misuses\":%d}\n",
                (unsigned long) g_apps.size(), filled, limit, textlen, canary ? "true" : "false", maxend,
                n, warn ? "true" : "false", start, stated, listed, notice ? "true" : "false", qf->count);
        qf->count = 0;
    }
    fflush(out);
    fclose(out);
    _exit(0);
}
