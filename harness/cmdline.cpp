// C12 conformance harness: for every script line (an argument vector) it (1) parses the vector with the real
// CommandLineArguments and reads the configuration through the getters, (2) runs the real CommandLineTestRunner on a
// probe registry (console / JUnit / TeamCity outputs replaced by string buffers through the factory methods, the
// separate-process hook replaced by an in-process stub that counts its calls) and records what was printed (usage /
// help / neither), which output kind was created, and how often every probe test ran.  What the RUN gets is observed
// where the runner applies it: every output the runner creates is a recording output (its verbosity level and colour
// flag at the start of every test run and at the end), the registry is a recording registry (the seed of every
// shuffleTests call), and the test terminator / rethrow switch are read after the run.  The millisecond clock
// (GetPlatformSpecificTimeInMillis, an input of parsing a seedless -s) is the real one or the value of the last
// `clock' line.  One ndjson line per script
// line.  Tokens live in exact-size heap blocks, so AddressSanitizer reports any read beyond a token.  Never judges.
// Usage: cmdline <script.tsv> <log.ndjson>
//   clock <decimal milliseconds> | clock real  (the platform clock reads this value for the lines that follow)
//   probe <g> <n> <ign> <g> <n> <ign> ...      (hex strings; defines the probe registry for the lines that follow)
//   argv <tok> <tok> ...                       (hex bytes, "-" = empty token)
//   reset
#include "vh.h"
#include "CppUTest/TestHarness.h"
#include "CppUTest/TestRegistry.h"
#include "CppUTest/TestOutput.h"
#include "CppUTest/TestPlugin.h"
#include "CppUTest/CommandLineArguments.h"
#include "CppUTest/CommandLineTestRunner.h"
#include "CppUTest/PlatformSpecificFunctions.h"

struct Probe { std::string g, n; bool ign; };
static std::vector<Probe> g_probe;
static std::vector<long> g_ran;
static long g_seps = 0;

class ProbeUtest : public Utest
{
    size_t id_;
public:
    explicit ProbeUtest(size_t id) : id_(id) {}
    void testBody() CPPUTEST_OVERRIDE { g_ran[id_]++; }
};
class ProbeShell : public UtestShell
{
    size_t id_;
public:
    ProbeShell(size_t id, const char* g, const char* n) : UtestShell(g, n, "probe.cpp", 1), id_(id) {}
    Utest* createTest() CPPUTEST_OVERRIDE { return new ProbeUtest(id_); }
};
class ProbeIgnoredShell : public IgnoredUtestShell
{
    size_t id_;
public:
    ProbeIgnoredShell(size_t id, const char* g, const char* n) : IgnoredUtestShell(g, n, "probe.cpp", 1), id_(id) {}
    Utest* createTest() CPPUTEST_OVERRIDE { return new ProbeUtest(id_); }
};

static void sep_stub(UtestShell* shell, TestPlugin* plugin, TestResult* result)
{
    g_seps++;
    shell->runOneTestInCurrentProcess(plugin, *result);
}

// Collects what the runner prints.  (StringBufferTestOutput does the same in a SimpleString, which is copied on every append: a
// vector like -r100 -vv on the probe registry then costs seconds under ASan and eats the deadline that detects real hangs.)
// It also records what the runner applied to it: verbosity level and colour flag, at the start of every test run and now.
class BufOutput : public TestOutput
{
public:
    std::string text;
    const char* kind;
    std::vector<int> atStart;                 // level * 2 + colour at every printTestsStarted
    explicit BufOutput(const char* k) : kind(k) {}
    int level() const { return (int) verbose_; }
    bool colored() const { return color_; }
    void printTestsStarted() CPPUTEST_OVERRIDE { atStart.push_back(level() * 2 + (colored() ? 1 : 0)); TestOutput::printTestsStarted(); }
    void printBuffer(const char* s) CPPUTEST_OVERRIDE { text += s; }
    void flush() CPPUTEST_OVERRIDE {}
    std::string json() const
    {
        bool same = true;
        for (size_t k = 0; k < atStart.size(); k++) if (atStart[k] != level() * 2 + (colored() ? 1 : 0)) same = false;
        return std::string("{\"k\":\"") + kind + "\",\"level\":" + std::to_string(level()) + ",\"color\":" + (colored() ? "true" : "false")
             + ",\"starts\":" + std::to_string(atStart.size()) + ",\"same\":" + (same ? "true" : "false") + "}";
    }
};

// The registry the runner works on: records the seed of every shuffleTests call.
class RecRegistry : public TestRegistry
{
public:
    std::vector<size_t> seeds;
    void shuffleTests(size_t seed) CPPUTEST_OVERRIDE { seeds.push_back(seed); TestRegistry::shuffleTests(seed); }
};

static unsigned long g_clock = 0;
static unsigned long (*g_real_clock)() = NULL;
static unsigned long clock_stub() { return g_clock; }

class RecordingRunner : public CommandLineTestRunner
{
public:
    std::string kinds;            // output factories called, in order
    std::string package;
    BufOutput* console;
    std::vector<BufOutput*> outs; // every output created, in order (owned by the runner)
    RecordingRunner(int ac, const char* const* av, TestRegistry* r) : CommandLineTestRunner(ac, av, r), console(NULL) {}
    std::string consoleText() { return console ? console->text : std::string(); }
    std::string outsJson()
    {
        std::string o = "[";
        for (size_t k = 0; k < outs.size(); k++) o += (k ? "," : "") + outs[k]->json();
        return o + "]";
    }
protected:
    BufOutput* made(const char* k) { outs.push_back(new BufOutput(k)); return outs.back(); }
    TestOutput* createTeamCityOutput() CPPUTEST_OVERRIDE { kinds += "teamcity;"; return made("teamcity"); }
    TestOutput* createJUnitOutput(const SimpleString& p) CPPUTEST_OVERRIDE { kinds += "junit;"; package = p.asCharString(); return made("junit"); }
    TestOutput* createConsoleOutput() CPPUTEST_OVERRIDE { kinds += "console;"; console = made("console"); return console; }
    TestOutput* createCompositeOutput(TestOutput* a, TestOutput* b) CPPUTEST_OVERRIDE { kinds += "composite;"; return CommandLineTestRunner::createCompositeOutput(a, b); }
};

static std::string jbytes(const std::string& s)
{
    std::string o = "[";
    for (size_t i = 0; i < s.size(); i++) { char b[8]; snprintf(b, sizeof b, "%s%d", i ? "," : "", (unsigned char) s[i]); o += b; }
    return o + "]";
}
static const char* jb(bool b) { return b ? "true" : "false"; }

static bool g_repbad = false;
// TestFilter exposes its fields only through asString(): TestFilter: "<pattern>"[ with strict[, invert] matching]
static std::string jfilters(const TestFilter* f)
{
    std::string o = "[";
    bool first = true;
    for (; f; f = f->getNext()) {
        std::string t = f->asString().asCharString();
        size_t a = t.find('"'), b = t.rfind('"');
        if (t.compare(0, 13, "TestFilter: \"") != 0 || a == std::string::npos || b <= a) { g_repbad = true; continue; }
        std::string pat = t.substr(a + 1, b - a - 1), tail = t.substr(b + 1);
        bool strict = tail.find("strict") != std::string::npos, inv = tail.find("invert") != std::string::npos;
        if (!tail.empty() && !strict && !inv) g_repbad = true;
        if (!first) o += ",";
        first = false;
        o += "{\"p\":" + jbytes(pat) + ",\"s\":" + jb(strict) + ",\"x\":" + jb(inv) + "}";
    }
    return o + "]";
}

int main(int argc, char** argv)
{
    if (argc < 3) return 2;
    FILE* in = fopen(argv[1], "r");
    FILE* out = fopen(argv[2], "w");
    if (!in || !out) return 2;
    setvbuf(out, NULL, _IOLBF, 0);
    vh_install(out);
    PlatformSpecificRunTestInASeperateProcess = sep_stub;
    g_real_clock = GetPlatformSpecificTimeInMillis;
    std::string line;
    while (vh_readline(in, line)) {
        if (line.empty()) continue;
        std::vector<std::string> f = vh_split(line);
        if (f[0] == "reset") { g_probe.clear(); GetPlatformSpecificTimeInMillis = g_real_clock; fprintf(out, "{\"op\":\"reset\"}\n"); continue; }
        if (f[0] == "clock") {      // the decimal text is logged as given ("real": empty)
            bool real = f.size() < 2 || f[1] == "real";
            if (!real) g_clock = strtoul(f[1].c_str(), NULL, 10);
            GetPlatformSpecificTimeInMillis = real ? g_real_clock : clock_stub;
            fprintf(out, "{\"op\":\"clock\",\"ms\":%s}\n", jbytes(real ? std::string() : f[1]).c_str());
            continue;
        }
        if (f[0] == "probe") {
            g_probe.clear();
            std::string js = "[";
            for (size_t k = 1; k + 3 <= f.size(); k += 3) {
                Probe p; p.g = (f[k] == "-") ? "" : vh_unhex(f[k]); p.n = (f[k + 1] == "-") ? "" : vh_unhex(f[k + 1]); p.ign = f[k + 2] == "1";
                g_probe.push_back(p);
                if (js.size() > 1) js += ",";
                js += "{\"g\":" + jbytes(p.g) + ",\"n\":" + jbytes(p.n) + ",\"ign\":" + jb(p.ign) + "}";
            }
            fprintf(out, "{\"op\":\"probe\",\"tests\":%s]}\n", js.c_str());
            continue;
        }
        if (f[0] != "argv") { fprintf(out, "{\"op\":\"harness-error\",\"what\":\"unknown op\"}\n"); break; }
        // ---- the vector, every token in its own exact-size heap block
        std::vector<std::string> toks;
        for (size_t k = 1; k < f.size(); k++) toks.push_back(f[k] == "-" ? std::string() : vh_unhex(f[k]));
        int ac = (int) toks.size() + 1;
        char** av = (char**) malloc(sizeof(char*) * (size_t) ac);        // exactly ac entries: av[ac] must never be read
        av[0] = (char*) malloc(5); memcpy(av[0], "prog", 5);
        std::string jt = "[";
        for (size_t k = 0; k < toks.size(); k++) {
            av[k + 1] = (char*) malloc(toks[k].size() + 1);
            memcpy(av[k + 1], toks[k].c_str(), toks[k].size() + 1);
            jt += (k ? "," : "") + jbytes(toks[k]);
        }
        jt += "]";
        g_repbad = false;
        std::string cfgjs;
        bool acc;
        unsigned long repeat = 0;
        bool cfgRethrow = true;
        {   // (1) the parser alone
            TestRegistry reg;
            CommandLineArguments args(ac, av);
            acc = args.parse(reg.getFirstPlugin());
            // seed and repeat count are logged exactly: the decimal text of the configured size_t value, as a byte string
            // (the specification compares numbers as digit sequences - they do not fit its 32-bit integers)
            std::string seedText = std::to_string((unsigned long long) args.getShuffleSeed());
            std::string repeatText = std::to_string((unsigned long long) args.getRepeatCount());
            char b[768];
            snprintf(b, sizeof b, "\"acc\":%s,\"help\":%s,\"verbose\":%s,\"vv\":%s,\"color\":%s,\"sep\":%s,\"lg\":%s,\"ln\":%s,\"ll\":%s,\"ri\":%s,"
                     "\"rev\":%s,\"crash\":%s,\"rethrow\":%s,\"shuffle\":%s,\"seed\":%s,\"repeat\":%s,\"out\":\"%s\"",
                     jb(acc), jb(args.needHelp()), jb(args.isVerbose()), jb(args.isVeryVerbose()), jb(args.isColor()), jb(args.runTestsInSeperateProcess()),
                     jb(args.isListingTestGroupNames()), jb(args.isListingTestGroupAndCaseNames()), jb(args.isListingTestLocations()), jb(args.isRunIgnored()),
                     jb(args.isReversing()), jb(args.isCrashingOnFail()), jb(args.isRethrowingExceptions()), jb(args.isShuffling()),
                     jbytes(seedText).c_str(), jbytes(repeatText).c_str(),
                     args.isJUnitOutput() ? "junit" : args.isTeamCityOutput() ? "teamcity" : args.isEclipseOutput() ? "eclipse" : "?");
            cfgjs = b;
            repeat = (unsigned long) args.getRepeatCount();
            cfgRethrow = args.isRethrowingExceptions();
            cfgjs += ",\"pkg\":" + jbytes(args.getPackageName().asCharString());
            cfgjs += ",\"gf\":" + jfilters(args.getGroupFilters()) + ",\"nf\":" + jfilters(args.getNameFilters());
        }
        // (2) the runner on the probe registry
        g_ran.assign(g_probe.size(), 0);
        g_seps = 0;
        std::string printed = "none", kinds, package, outs = "[]", shuf = "{\"n\":0,\"seed\":[],\"same\":true}";
        bool arethrow = false, acrash = false;
        long rc = 0;
        // a vector outside the documented language may yield an absurd repeat count (e.g. "-r-3"): the statement is about
        // the parser, so the run is skipped there (lvl2 false); documented vectors never get here with repeat > 100
        bool lvl2 = !(acc && repeat > 100);
        if (lvl2) {
            RecRegistry reg;
            std::vector<UtestShell*> shells;
            for (size_t k = 0; k < g_probe.size(); k++) {
                UtestShell* s = g_probe[k].ign ? (UtestShell*) new ProbeIgnoredShell(k, g_probe[k].g.c_str(), g_probe[k].n.c_str())
                                               : (UtestShell*) new ProbeShell(k, g_probe[k].g.c_str(), g_probe[k].n.c_str());
                shells.push_back(s);
                reg.addTest(s);
            }
            reg.setCurrentRegistry(&reg);
            // whether the runner applies -e / -ci / -f must be visible whatever the vector says: start from the opposite
            // of what the parser reported for rethrow, and from the default terminator
            UtestShell::setRethrowExceptions(!cfgRethrow);
            {
                RecordingRunner runner(ac, av, &reg);
                rc = runner.runAllTestsMain();
                arethrow = UtestShell::isRethrowingExceptions();
                acrash = dynamic_cast<const CrashingTestTerminator*>(&UtestShell::getCurrentTestTerminator()) != NULL;
                outs = runner.outsJson();
                bool sameSeed = true;          // shuffleTests calls: how many, the seed of the first as decimal text, all with that seed?
                for (size_t k = 1; k < reg.seeds.size(); k++) if (reg.seeds[k] != reg.seeds[0]) sameSeed = false;
                shuf = "{\"n\":" + std::to_string(reg.seeds.size()) + ",\"seed\":"
                     + jbytes(reg.seeds.empty() ? std::string() : std::to_string((unsigned long long) reg.seeds[0])) + ",\"same\":" + jb(sameSeed) + "}";
                std::string text = runner.consoleText();
                bool usage = text.find("use -h for more extensive help") != std::string::npos;
                bool help = text.find("Thanks for using CppUTest.") != std::string::npos;
                printed = help ? "help" : usage ? "usage" : "none";
                kinds = runner.kinds; package = runner.package;
            }
            reg.setCurrentRegistry(NULL);
            UtestShell::restoreDefaultTestTerminator();
            UtestShell::setRethrowExceptions(false);
            for (size_t k = 0; k < shells.size(); k++) delete shells[k];
        }
        std::string outkind = kinds == "console;" ? "console" : kinds == "teamcity;" ? "teamcity" : kinds == "junit;" ? "junit"
                            : kinds == "junit;console;composite;" ? "junit+console" : kinds;
        std::string jr = "[";
        for (size_t k = 0; k < g_ran.size(); k++) { jr += (k ? "," : "") + std::to_string(g_ran[k] > 1000000 ? 1000000 : g_ran[k]); }
        jr += "]";
        fprintf(out, "{\"op\":\"argv\",\"tok\":%s,%s,\"lvl2\":%s,\"printed\":\"%s\",\"outkind\":%s,\"outpkg\":%s,\"seps\":%ld,\"rc\":%ld,\"ran\":%s,"
                     "\"outs\":%s,\"shuf\":%s,\"arethrow\":%s,\"acrash\":%s%s}\n",
                jt.c_str(), cfgjs.c_str(), jb(lvl2), printed.c_str(), vh_jstr(outkind).c_str(), jbytes(package).c_str(), g_seps, rc > 1000000 ? 1000000 : rc, jr.c_str(),
                outs.c_str(), shuf.c_str(), jb(arethrow), jb(acrash),
                g_repbad ? ",\"repbad\":true" : "");
        for (int k = 0; k < ac; k++) free(av[k]);
        free(av);
    }
    fflush(out);
    fclose(out);
    _exit(0);
}
