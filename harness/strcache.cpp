// C18 conformance harness: executes scripts of SimpleStringInternalCache calls on a private cache whose
// underlying allocator records (and numbers) every allocation, and logs one ndjson line per call with the
// observations Trace_StrCache binds.  It never judges.
//   strcache probe <out.ndjson> <maxsize>              one line per size: what a fresh cache does for alloc(s)+dealloc
//   strcache run <script.tsv> <log.ndjson> <bound>...  script lines: op<TAB>a<TAB>n ; `reset` = fresh cache
#include "vh.h"
#include "CppUTest/TestHarness.h"
#include "CppUTest/SimpleStringInternalCache.h"
#include "CppUTest/TestMemoryAllocator.h"
#include "CppUTest/PlatformSpecificFunctions.h"

struct Under { long id; size_t size; };
static std::map<char*, Under> g_live;       // live underlying allocations by start address
static long g_next_id = 1;
static std::vector<long> g_got, g_ret;
static std::string g_printed;

class RecordingAllocator : public TestMemoryAllocator
{
public:
    RecordingAllocator() : TestMemoryAllocator("recording", "malloc", "free") {}
    char* alloc_memory(size_t size, const char*, size_t) CPPUTEST_OVERRIDE
    {
        char* p = (char*) malloc(size ? size : 1);
        Under u; u.id = g_next_id++; u.size = size;
        g_live[p] = u;
        g_got.push_back(u.id);
        return p;
    }
    void free_memory(char* memory, size_t, const char*, size_t) CPPUTEST_OVERRIDE
    {
        std::map<char*, Under>::iterator it = g_live.find(memory);
        if (it == g_live.end()) { g_ret.push_back(0); return; }   // not (or no longer) a live allocation: logged, not executed
        g_ret.push_back(it->second.id);
        g_live.erase(it);
        free(memory);
    }
};

static void capture_fputs(const char* s, PlatformSpecificFile) { g_printed += s; }
static void no_flush() {}

struct Buf { char* p; size_t n; long mem; unsigned char pat; bool live; };

static void locate(char* p, long& mem, long& room)
{
    mem = 0; room = 0;
    if (!p) return;
    std::map<char*, Under>::iterator it = g_live.upper_bound(p);
    if (it == g_live.begin()) return;
    --it;
    if (p >= it->first && p < it->first + (it->second.size ? it->second.size : 1)) {
        mem = it->second.id;
        room = (long) (it->second.size - (size_t) (p - it->first));
    } else if (p == it->first) { mem = it->second.id; room = 0; }
}

static std::string ids(const std::vector<long>& v)
{
    std::string s = "["; char b[32];
    for (size_t i = 0; i < v.size(); i++) { snprintf(b, sizeof b, "%s%ld", i ? "," : "", v[i]); s += b; }
    return s + "]";
}

static void drop_all_underlying()
{
    for (std::map<char*, Under>::iterator it = g_live.begin(); it != g_live.end(); ++it) free(it->first);
    g_live.clear();
    g_next_id = 1;
}

static char g_foreign[4][32] = { "foreign-zero", "foreign-one", "foreign-two", "foreign-three" };

int main(int argc, char** argv)
{
    if (argc < 4) return 2;
    std::string mode = argv[1];
    PlatformSpecificFPuts = capture_fputs;
    PlatformSpecificFlush = no_flush;
    RecordingAllocator rec;

    if (mode == "probe") {
        FILE* out = fopen(argv[2], "w");
        if (!out) return 2;
        vh_install(out);
    setvbuf(out, NULL, _IOLBF, 0);      // a sanitizer abort does not flush stdio: every completed call must already be in the log
        long maxs = atol(argv[3]);
        for (long s = 0; s <= maxs; s++) {
            SimpleStringInternalCache* c = new SimpleStringInternalCache;
            c->setAllocator(&rec);
            g_got.clear(); g_ret.clear();
            char* p = c->alloc((size_t) s);
            long mem, room; locate(p, mem, room);
            size_t ngot = g_got.size();
            if (mem && room >= s) memset(p, 0x11, (size_t) s);
            c->dealloc(p, (size_t) s);
            bool kept = g_ret.empty();
            fprintf(out, "{\"op\":\"probe\",\"n\":%ld,\"mem\":%ld,\"room\":%ld,\"ngot\":%lu,\"kept\":%s}\n", s, mem, room, (unsigned long) ngot, kept ? "true" : "false");
            c->clearAllIncludingCurrentlyUsedMemory();
            delete c;
            drop_all_underlying();
        }
        fclose(out);
        _exit(0);
    }

    FILE* in = fopen(argv[2], "r");
    FILE* out = fopen(argv[3], "w");
    if (!in || !out) return 2;
    vh_install(out);
    setvbuf(out, NULL, _IOLBF, 0);      // a sanitizer abort does not flush stdio: every completed call must already be in the log
    std::vector<size_t> bounds;
    for (int i = 4; i < argc; i++) bounds.push_back((size_t) atol(argv[i]));

    SimpleStringInternalCache* cache = new SimpleStringInternalCache;
    cache->setAllocator(&rec);
    std::vector<Buf> bufs;          // bufs[k-1] = result of the k-th alloc call of this execution
    std::string line;
    while (vh_readline(in, line)) {
        if (line.empty()) continue;
        std::vector<std::string> f = vh_split(line);
        while (f.size() < 3) f.push_back("0");
        const std::string& op = f[0];
        long a = atol(f[1].c_str());
        size_t n = (size_t) atol(f[2].c_str());
        if (op == "reset") {
            cache->clearAllIncludingCurrentlyUsedMemory();
            delete cache;
            drop_all_underlying();
            bufs.clear();
            cache = new SimpleStringInternalCache;
            cache->setAllocator(&rec);
            fprintf(out, "{\"op\":\"reset\"}\n");
            continue;
        }
        g_got.clear(); g_ret.clear(); g_printed.clear();
        long mem = 0, room = 0;
        if (op == "alloc") {
            char* p = cache->alloc(n);
            locate(p, mem, room);
            Buf b; b.p = p; b.n = n; b.mem = mem; b.pat = (unsigned char) (0x40 + (bufs.size() * 7) % 0xB0); b.live = true;
            memset(p, b.pat, n);          // the owner uses every byte it asked for (ASan watches the bounds)
            if (n) p[n - 1] = 0;          // ... as a terminated string (the unknown-release warning prints the buffer)
            bufs.push_back(b);
        } else if (op == "dealloc") {
            if (a < 1 || (size_t) a > bufs.size() || !bufs[(size_t) a - 1].live) { fprintf(out, "{\"op\":\"harness-error\",\"what\":\"no such buffer\"}\n"); break; }
            Buf& b = bufs[(size_t) a - 1];
            mem = b.mem;
            b.live = false;
            cache->dealloc(b.p, n);
        } else if (op == "foreign") {
            cache->dealloc(g_foreign[a & 3], n);
        } else if (op == "clearcache") {
            cache->clearCache();
        } else if (op == "clearall") {
            cache->clearAllIncludingCurrentlyUsedMemory();
            for (size_t i = 0; i < bufs.size(); i++) bufs[i].live = false;
        } else { fprintf(out, "{\"op\":\"harness-error\",\"what\":\"unknown op\"}\n"); break; }

        bool intact = true;
        for (size_t i = 0; i < bufs.size() && intact; i++)
            if (bufs[i].live)
                for (size_t k = 0; k < bufs[i].n; k++)
                    if ((unsigned char) bufs[i].p[k] != (k + 1 == bufs[i].n ? 0 : bufs[i].pat)) { intact = false; break; }
        std::string hf = "[";
        for (size_t i = 0; i < bounds.size(); i++) { hf += (i ? "," : ""); hf += cache->hasFreeBlocksOfSize(bounds[i]) ? "true" : "false"; }
        hf += "]";
        fprintf(out, "{\"op\":%s,\"a\":%ld,\"n\":%lu,\"mem\":%ld,\"room\":%ld,\"got\":%s,\"ret\":%s,\"warn\":%s,\"hasfree\":%s,\"intact\":%s}\n",
                vh_jstr(op).c_str(), a, (unsigned long) n, mem, room, ids(g_got).c_str(), ids(g_ret).c_str(),
                g_printed.empty() ? "false" : "true", hf.c_str(), intact ? "true" : "false");
    }
    fflush(out);
    fclose(out);
    _exit(0);
}
