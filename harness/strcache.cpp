// C18 conformance harness: executes scripts of SimpleStringInternalCache calls on a private cache (`new` .. `del`), or of
// SimpleStringCacheAllocator / SimpleString calls under a GlobalSimpleStringCache (`gnew` .. `gdel`), whose underlying
// allocator records (and numbers) every allocation, and logs one ndjson line per call with the observations
// Trace_StrCache binds.  It never judges.
//   strcache probe <out.ndjson> <maxsize>              one line per size: what a fresh cache does for alloc(s)+dealloc
//   strcache run <script.tsv> <log.ndjson> <bound>...  script lines: op<TAB>a<TAB>n ; `reset` = fresh cache
#include "vh.h"
#include "CppUTest/TestHarness.h"
#include "CppUTest/SimpleStringInternalCache.h"
#include "CppUTest/TestMemoryAllocator.h"
#include "CppUTest/PlatformSpecificFunctions.h"

struct Under { long id; size_t size; };
static std::map<char*, Under> g_live;       // live underlying allocations by start address
static long g_next_id = 1;
static std::vector<long> g_got, g_ret;
static std::string g_printed;

class RecordingAllocator : public TestMemoryAllocator
{
public:
    RecordingAllocator() : TestMemoryAllocator("recording", "malloc", "free") {}
    char* alloc_memory(size_t size, const char*, size_t) CPPUTEST_OVERRIDE
    {
        char* p = (char*) malloc(size ? size : 1);
        Under u; u.id = g_next_id++; u.size = size;
        g_live[p] = u;
        g_got.push_back(u.id);
        return p;
    }
    void free_memory(char* memory, size_t, const char*, size_t) CPPUTEST_OVERRIDE
    {
        std::map<char*, Under>::iterator it = g_live.find(memory);
        if (it == g_live.end()) { g_ret.push_back(0); return; }   // not (or no longer) a live allocation: logged, not executed
        g_ret.push_back(it->second.id);
        g_live.erase(it);
        free(memory);
    }
};

static void capture_fputs(const char* s, PlatformSpecificFile) { g_printed += s; }
static void no_flush() {}

struct Buf { char* p; size_t n; long mem; unsigned char pat; bool live; SimpleString* str; };

static void locate(char* p, long& mem, long& room)
{
    mem = 0; room = 0;
    if (!p) return;
    std::map<char*, Under>::iterator it = g_live.upper_bound(p);
    if (it == g_live.begin()) return;
    --it;
    if (p >= it->first && p < it->first + (it->second.size ? it->second.size : 1)) {
        mem = it->second.id;
        room = (long) (it->second.size - (size_t) (p - it->first));
    } else if (p == it->first) { mem = it->second.id; room = 0; }
}

static std::string ids(const std::vector<long>& v)
{
    std::string s = "["; char b[32];
    for (size_t i = 0; i < v.size(); i++) { snprintf(b, sizeof b, "%s%ld", i ? "," : "", v[i]); s += b; }
    return s + "]";
}

static void drop_all_underlying()
{
    for (std::map<char*, Under>::iterator it = g_live.begin(); it != g_live.end(); ++it) free(it->first);
    g_live.clear();
    g_next_id = 1;
}

static char g_foreign[4][32] = { "foreign-zero", "foreign-one", "foreign-two", "foreign-three" };

int main(int argc, char** argv)
{
    if (argc < 4) return 2;
    std::string mode = argv[1];
    PlatformSpecificFPuts = capture_fputs;
    PlatformSpecificFlush = no_flush;
    RecordingAllocator rec;

    if (mode == "probe") {
        FILE* out = fopen(argv[2], "w");
        if (!out) return 2;
        vh_install(out);
    setvbuf(out, NULL, _IOLBF, 0);      // a sanitizer abort does not flush stdio: every completed call must already be in the log
        long maxs = atol(argv[3]);
        for (long s = 0; s <= maxs; s++) {
            SimpleStringInternalCache* c = new SimpleStringInternalCache;
            c->setAllocator(&rec);
            g_got.clear(); g_ret.clear();
            char* p = c->alloc((size_t) s);
            long mem, room; locate(p, mem, room);
            size_t ngot = g_got.size();
            if (mem && room >= s) memset(p, 0x11, (size_t) s);
            c->dealloc(p, (size_t) s);
            bool kept = g_ret.empty();
            fprintf(out, "{\"op\":\"probe\",\"n\":%ld,\"mem\":%ld,\"room\":%ld,\"ngot\":%lu,\"kept\":%s}\n", s, mem, room, (unsigned long) ngot, kept ? "true" : "false");
            c->clearAllIncludingCurrentlyUsedMemory();
            delete c;
            drop_all_underlying();
        }
        fclose(out);
        _exit(0);
    }

    FILE* in = fopen(argv[2], "r");
    FILE* out = fopen(argv[3], "w");
    if (!in || !out) return 2;
    vh_install(out);
    setvbuf(out, NULL, _IOLBF, 0);      // a sanitizer abort does not flush stdio: every completed call must already be in the log
    std::vector<size_t> bounds;
    for (int i = 4; i < argc; i++) bounds.push_back((size_t) atol(argv[i]));

    SimpleStringInternalCache* cache = NULL;     // the bare cache of this execution (op `new` .. `del`)
    GlobalSimpleStringCache* global = NULL;      // the global cache of this execution (op `gnew` .. `gdel`)
    TestMemoryAllocator* previous = SimpleString::getStringAllocator();   // the string allocator in place before the cache
    std::vector<Buf> bufs;          // bufs[k-1] = result of the k-th alloc / snew call of this execution
    std::string line;
    while (vh_readline(in, line)) {
        if (line.empty()) continue;
        std::vector<std::string> f = vh_split(line);
        while (f.size() < 3) f.push_back("0");
        const std::string& op = f[0];
        long a = atol(f[1].c_str());
        size_t n = (size_t) atol(f[2].c_str());
        if (op == "reset") {
            // strings that outlived a global cache are abandoned, never destructed (their buffers went back with the cache)
            if (cache) { cache->clearAllIncludingCurrentlyUsedMemory(); delete cache; cache = NULL; }
            if (global) { delete global; global = NULL; }
            SimpleString::setStringAllocator(NULLPTR);
            drop_all_underlying();
            bufs.clear();
            fprintf(out, "{\"op\":\"reset\"}\n");
            continue;
        }
        g_got.clear(); g_ret.clear(); g_printed.clear();
        long mem = 0, room = 0;
        bool need_cache = !(op == "new" || op == "gnew");
        if (need_cache && !cache && !global) { fprintf(out, "{\"op\":\"harness-error\",\"what\":\"no cache object\"}\n"); break; }
        if (!need_cache && (cache || global)) { fprintf(out, "{\"op\":\"harness-error\",\"what\":\"cache object exists\"}\n"); break; }
        if (op == "new") {
            previous = SimpleString::getStringAllocator();
            cache = new SimpleStringInternalCache;
            cache->setAllocator(&rec);
        } else if (op == "gnew") {
            // the recording allocator is SimpleString's string allocator; the global cache installs itself over it
            SimpleString::setStringAllocator(&rec);
            previous = SimpleString::getStringAllocator();
            global = new GlobalSimpleStringCache;
        } else if (op == "del" && cache) {
            delete cache;
            cache = NULL;
        } else if (op == "gdel" && global) {
            delete global;
            global = NULL;
            for (size_t i = 0; i < bufs.size(); i++) bufs[i].live = false;   // the owners are abandoned, not destructed
        } else if (op == "alloc") {
            char* p = cache ? cache->alloc(n) : global->getAllocator()->alloc_memory(n, __FILE__, __LINE__);
            locate(p, mem, room);
            Buf b; b.p = p; b.n = n; b.mem = mem; b.pat = (unsigned char) (0x40 + (bufs.size() * 7) % 0xB0); b.live = true; b.str = NULL;
            memset(p, b.pat, n);          // the owner uses every byte it asked for (ASan watches the bounds)
            if (n) p[n - 1] = 0;          // ... as a terminated string (the unknown-release warning prints the buffer)
            bufs.push_back(b);
        } else if (op == "snew" && global && n > 0) {
            // a SimpleString whose buffer has n bytes: exactly one buffer request through SimpleString's string allocator
            Buf b; b.n = n; b.pat = (unsigned char) (0x40 + (bufs.size() * 7) % 0xB0); b.live = true;
            std::string text(n - 1, (char) b.pat);
            b.str = new SimpleString(text.c_str());
            b.p = const_cast<char*>(b.str->asCharString());
            locate(b.p, mem, room);
            b.mem = mem;
            bufs.push_back(b);
        } else if (op == "dealloc" || op == "sdel") {
            if (a < 1 || (size_t) a > bufs.size() || !bufs[(size_t) a - 1].live || (op == "sdel") != (bufs[(size_t) a - 1].str != NULL)) {
                fprintf(out, "{\"op\":\"harness-error\",\"what\":\"no such buffer\"}\n"); break; }
            Buf& b = bufs[(size_t) a - 1];
            mem = b.mem;
            b.live = false;
            if (b.str) { n = b.str->size() + 1; delete b.str; b.str = NULL; }
            else if (cache) cache->dealloc(b.p, n);
            else global->getAllocator()->free_memory(b.p, n, __FILE__, __LINE__);
        } else if (op == "foreign") {
            if (cache) cache->dealloc(g_foreign[a & 3], n);
            else global->getAllocator()->free_memory(g_foreign[a & 3], n, __FILE__, __LINE__);
        } else if (op == "clearcache" && cache) {
            cache->clearCache();
        } else if (op == "clearall" && cache) {
            cache->clearAllIncludingCurrentlyUsedMemory();
            for (size_t i = 0; i < bufs.size(); i++) bufs[i].live = false;
        } else { fprintf(out, "{\"op\":\"harness-error\",\"what\":\"unknown op or wrong kind of cache\"}\n"); break; }

        bool intact = true;
        for (size_t i = 0; i < bufs.size() && intact; i++)
            if (bufs[i].live)
                for (size_t k = 0; k < bufs[i].n; k++)
                    if ((unsigned char) bufs[i].p[k] != (k + 1 == bufs[i].n ? 0 : bufs[i].pat)) { intact = false; break; }
        std::string hf = "[";
        if (cache)
            for (size_t i = 0; i < bounds.size(); i++) { hf += (i ? "," : ""); hf += cache->hasFreeBlocksOfSize(bounds[i]) ? "true" : "false"; }
        hf += "]";
        TestMemoryAllocator* now = SimpleString::getStringAllocator();
        const char* cur = (global && now == global->getAllocator()) ? "cache" : (now == previous ? "under" : "other");
        fprintf(out, "{\"op\":%s,\"a\":%ld,\"n\":%lu,\"mem\":%ld,\"room\":%ld,\"got\":%s,\"ret\":%s,\"warn\":%s,\"hasfree\":%s,\"intact\":%s,\"cur\":\"%s\"}\n",
                vh_jstr(op).c_str(), a, (unsigned long) n, mem, room, ids(g_got).c_str(), ids(g_ret).c_str(),
                g_printed.empty() ? "false" : "true", hf.c_str(), intact ? "true" : "false", cur);
        // between two cache objects SimpleString uses its default allocator again (the recording allocator sees only what a
        // cache obtains; a dangling adaptor is never left installed)
        if (!global && !cache) SimpleString::setStringAllocator(NULLPTR);
    }
    fflush(out);
    fclose(out);
    _exit(0);
}
