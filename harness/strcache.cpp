// C18 conformance harness: executes scripts of SimpleStringInternalCache calls on a private cache (`new` .. `del`), or of
// SimpleStringCacheAllocator / SimpleString calls under a GlobalSimpleStringCache (`gnew` .. `gdel`), whose underlying
// allocator records (and numbers) every allocation, and logs one ndjson line per call on the cache with the observations
// Trace_StrCache binds.  It never judges.
// Strings that predate a global cache: `pnew k n` (before gnew: a SimpleString with an n-byte buffer from the previous
// allocator), then under the cache `pdel k` (destroyed), `pset k n` (assigned an n-byte text), `pcat k n` (n characters
// appended); `gnew 1` = the calls up to gdel run inside a test (UtestShell::runOneTest) whose TestResult prints into a
// StringBufferTestOutput created before the cache, so the unknown-release warning is appended to a string that predates the
// cache.  During these script calls a spy in front of the adaptor records every alloc_memory / free_memory call (with
// nesting): one log line per call on the adaptor - alloc / dealloc / foreign / wbegin .. wend - all carrying `sl`, the
// index of the script call.  Every execution is closed by an `end` line.
// `xdealloc k m` releases the k-th buffer with a size m of another class than its own (the script's claim; the Trace
// specification checks it): the buffer stays live.  Bare: one call, one line; global: through the spy like pdel.
//   strcache probe <out.ndjson> <maxsize>              one line per size: what a fresh cache does for alloc(s)+dealloc
//   strcache run <script.tsv> <log.ndjson> <bound>...  script lines: op<TAB>a<TAB>n ; `reset` = fresh cache
#include "vh.h"
#include "CppUTest/TestHarness.h"
#include "CppUTest/SimpleStringInternalCache.h"
#include "CppUTest/TestMemoryAllocator.h"
#include "CppUTest/PlatformSpecificFunctions.h"

struct Under { long id; size_t size; };
static std::map<char*, Under> g_live;       // live underlying allocations by start address
static long g_next_id = 1;
static std::vector<long> g_got, g_ret;
static std::string g_printed;        // everything printed since the cache object was constructed (console + test output)
static void locate(char* p, long& mem, long& room);

// calls on the adaptor seen by the spy during one script call, in order of entry
struct Ev { const char* op; size_t n; long mem, room; std::vector<long> got, ret; bool warn; };
static std::vector<Ev> g_events;
static std::vector<size_t> g_open;           // indices of the calls that have not returned yet
static std::set<char*> g_cache_ptrs;         // pointers handed out by the cache / adaptor and not yet released to it
static char* g_elsewhere = NULL;             // the buffer the current script call releases with a size of another class (`xdealloc`)

class RecordingAllocator : public TestMemoryAllocator
{
public:
    RecordingAllocator() : TestMemoryAllocator("recording", "malloc", "free") {}
    char* alloc_memory(size_t size, const char*, size_t) CPPUTEST_OVERRIDE
    {
        char* p = (char*) malloc(size ? size : 1);
        Under u; u.id = g_next_id++; u.size = size;
        g_live[p] = u;
        (g_open.empty() ? g_got : g_events[g_open.back()].got).push_back(u.id);
        return p;
    }
    void free_memory(char* memory, size_t, const char*, size_t) CPPUTEST_OVERRIDE
    {
        std::map<char*, Under>::iterator it = g_live.find(memory);
        std::vector<long>& ret = g_open.empty() ? g_ret : g_events[g_open.back()].ret;
        if (it == g_live.end()) { ret.push_back(0); return; }   // not (or no longer) a live allocation: logged, not executed
        ret.push_back(it->second.id);
        g_live.erase(it);
        free(memory);
    }
};

static void capture_fputs(const char* s, PlatformSpecificFile) { g_printed += s; }
static void no_flush() {}

// the spy: forwards to the adaptor of the live global cache and records the call (entry order, nesting, what the
// underlying allocator saw during the call itself, whether anything was printed before it returned)
class SpyAllocator : public TestMemoryAllocator
{
public:
    TestMemoryAllocator* target;
    SpyAllocator() : TestMemoryAllocator("spy", "malloc", "free"), target(NULL) {}
    static size_t enter(const char* op, size_t n, long mem)
    {
        Ev e; e.op = op; e.n = n; e.mem = mem; e.room = 0; e.warn = false;
        g_events.push_back(e);
        g_open.push_back(g_events.size() - 1);
        return g_events.size() - 1;
    }
    static void leave(size_t idx, size_t printed_before)
    {
        g_open.pop_back();
        g_events[idx].warn = g_printed.size() > printed_before;
        if (g_events.size() > idx + 1 && (std::string(g_events[idx].op) == "foreign" || std::string(g_events[idx].op) == "xdealloc")) {
            // calls arrived while this release was being served: it becomes a bracket around them
            g_events[idx].op = "wbegin";
            Ev e; e.op = "wend"; e.n = g_events[idx].n; e.mem = 0; e.room = 0; e.warn = false;
            g_events.push_back(e);
        }
    }
    char* alloc_memory(size_t size, const char* f, size_t l) CPPUTEST_OVERRIDE
    {
        size_t before = g_printed.size();
        size_t idx = enter("alloc", size, 0);
        char* p = target->alloc_memory(size, f, l);
        long mem, room; locate(p, mem, room);
        g_events[idx].mem = mem; g_events[idx].room = room;
        g_cache_ptrs.insert(p);
        leave(idx, before);
        return p;
    }
    void free_memory(char* p, size_t size, const char* f, size_t l) CPPUTEST_OVERRIDE
    {
        size_t before = g_printed.size();
        bool known = g_cache_ptrs.count(p) != 0;
        bool elsewhere = known && p == g_elsewhere;      // the script says: a size of another class; the owner keeps the buffer
        long mem = 0, room = 0;
        if (known) { locate(p, mem, room); if (!elsewhere) g_cache_ptrs.erase(p); }
        if (elsewhere) g_elsewhere = NULL;
        size_t idx = enter(elsewhere ? "xdealloc" : known ? "dealloc" : "foreign", size, mem);
        target->free_memory(p, size, f, l);
        leave(idx, before);
    }
};

// a test output that keeps its text in a SimpleString (the real StringBufferTestOutput); the harness keeps its own copy
class CountingStringOutput : public StringBufferTestOutput
{
public:
    void printBuffer(const char* s) CPPUTEST_OVERRIDE { g_printed += s; StringBufferTestOutput::printBuffer(s); }
};

static size_t count_warnings()
{
    size_t k = 0;
    for (size_t at = g_printed.find("WARNING: Attempting to deallocate"); at != std::string::npos; at = g_printed.find("WARNING: Attempting to deallocate", at + 1)) k++;
    return k;
}

struct Buf { char* p; size_t n; long mem; unsigned char pat; bool live; SimpleString* str; };

static void locate(char* p, long& mem, long& room)
{
    mem = 0; room = 0;
    if (!p) return;
    std::map<char*, Under>::iterator it = g_live.upper_bound(p);
    if (it == g_live.begin()) return;
    --it;
    if (p >= it->first && p < it->first + (it->second.size ? it->second.size : 1)) {
        mem = it->second.id;
        room = (long) (it->second.size - (size_t) (p - it->first));
    } else if (p == it->first) { mem = it->second.id; room = 0; }
}

static std::string ids(const std::vector<long>& v)
{
    std::string s = "["; char b[32];
    for (size_t i = 0; i < v.size(); i++) { snprintf(b, sizeof b, "%s%ld", i ? "," : "", v[i]); s += b; }
    return s + "]";
}

static void drop_all_underlying()
{
    for (std::map<char*, Under>::iterator it = g_live.begin(); it != g_live.end(); ++it) free(it->first);
    g_live.clear();
    g_next_id = 1;
}

static char g_foreign[4][32] = { "foreign-zero", "foreign-one", "foreign-two", "foreign-three" };

// ---------------------------------------------------------------- the interpreter
static RecordingAllocator rec;
static SpyAllocator spy;
static FILE* g_in = NULL;
static FILE* g_out = NULL;
static std::vector<size_t> bounds;
static SimpleStringInternalCache* cache = NULL;     // the bare cache of this execution (op `new` .. `del`)
static GlobalSimpleStringCache* global = NULL;      // the global cache of this execution (op `gnew` .. `gdel`)
static TestMemoryAllocator* previous = NULL;        // the string allocator in place before the cache
static std::vector<Buf> bufs;                       // bufs[k-1] = result of the k-th alloc / snew call of this execution
static std::map<long, SimpleString*> pre;           // strings created before the global cache (pnew)
static long g_sl = 0;                               // index of the script call within the execution
static bool g_pending = false;                      // a line read inside a test body that has to be executed outside of it
static std::string g_pending_line;
static UtestShell* fx_shell = NULL;                 // `gnew 1`: the test the calls run in, its result and its output
static TestResult* fx_result = NULL;
static CountingStringOutput* fx_out = NULL;
static bool g_run_body = false;

enum { P_EOF, P_BODY_DONE, P_ERROR };
static int process(bool in_body);

class BodyTest : public Utest
{
public:
    void testBody() CPPUTEST_OVERRIDE { process(true); }
};
class BodyShell : public UtestShell
{
public:
    BodyShell() : UtestShell("verif", "body", "harness", 1) {}
    Utest* createTest() CPPUTEST_OVERRIDE { return new BodyTest; }
};

static void emit(const char* op, long a, size_t n, long mem, long room, const std::vector<long>& got, const std::vector<long>& ret, bool warn,
                 long nwarn, const std::string& hf, bool intact, const char* cur)
{
    fprintf(g_out, "{\"op\":%s,\"sl\":%ld,\"a\":%ld,\"n\":%lu,\"mem\":%ld,\"room\":%ld,\"got\":%s,\"ret\":%s,\"warn\":%s,\"nwarn\":%ld,\"hasfree\":%s,\"intact\":%s,\"cur\":\"%s\"}\n",
            vh_jstr(op).c_str(), g_sl, a, (unsigned long) n, mem, room, ids(got).c_str(), ids(ret).c_str(),
            warn ? "true" : "false", nwarn, hf.c_str(), intact ? "true" : "false", cur);
}

static int process(bool in_body)
{
    std::string line;
    for (;;) {
        if (g_pending) { line = g_pending_line; g_pending = false; }
        else if (!vh_readline(g_in, line)) {
            if (in_body) { g_pending = false; return P_BODY_DONE; }
            fprintf(g_out, "{\"op\":\"end\",\"sl\":%ld}\n", g_sl);
            return P_EOF;
        }
        if (line.empty()) continue;
        std::vector<std::string> f = vh_split(line);
        while (f.size() < 3) f.push_back("0");
        const std::string& op = f[0];
        long a = atol(f[1].c_str());
        size_t n = (size_t) atol(f[2].c_str());
        if (in_body && (op == "gdel" || op == "reset")) {      // the cache outlives the test: leave the body first
            g_pending = true; g_pending_line = line;
            return P_BODY_DONE;
        }
        if (op == "reset") {
            // strings that outlived a global cache are abandoned, never destructed (their buffers went back with the cache)
            if (cache) { cache->clearAllIncludingCurrentlyUsedMemory(); delete cache; cache = NULL; }
            if (global) { delete global; global = NULL; }
            SimpleString::setStringAllocator(NULLPTR);
            drop_all_underlying();
            bufs.clear(); pre.clear(); g_cache_ptrs.clear();
            fprintf(g_out, "{\"op\":\"end\",\"sl\":%ld}\n{\"op\":\"reset\"}\n", g_sl);
            g_sl = 0;
            continue;
        }
        g_got.clear(); g_ret.clear(); g_events.clear(); g_open.clear();
        size_t printed_before = g_printed.size();
        long mem = 0, room = 0;
        bool composite = false;
        bool need_cache = !(op == "new" || op == "gnew" || op == "pnew");
        if (need_cache && !cache && !global) { fprintf(g_out, "{\"op\":\"harness-error\",\"what\":\"no cache object\"}\n"); return P_ERROR; }
        if (!need_cache && (cache || global)) { fprintf(g_out, "{\"op\":\"harness-error\",\"what\":\"cache object exists\"}\n"); return P_ERROR; }
        if (op == "new") {
            previous = SimpleString::getStringAllocator();
            g_printed.clear(); printed_before = 0;
            cache = new SimpleStringInternalCache;
            cache->setAllocator(&rec);
        } else if (op == "pnew" && n > 0) {
            // a string that predates the cache: its buffer comes from the recording allocator = the previous string allocator
            SimpleString::setStringAllocator(&rec);
            previous = SimpleString::getStringAllocator();
            std::string text(n - 1, (char) ('a' + a % 26));
            pre[a] = new SimpleString(text.c_str());
            locate(const_cast<char*>(pre[a]->asCharString()), mem, room);
        } else if (op == "gnew") {
            // the recording allocator is SimpleString's string allocator; the global cache installs itself over it
            SimpleString::setStringAllocator(&rec);
            previous = SimpleString::getStringAllocator();
            g_printed.clear(); printed_before = 0;
            if (a == 1) {            // a current test whose output string was created before the cache
                fx_out = new CountingStringOutput;
                fx_result = new TestResult(*fx_out);
                fx_shell = new BodyShell;
                g_run_body = true;
            }
            g_got.clear();
            global = new GlobalSimpleStringCache;
        } else if (op == "del" && cache) {
            delete cache;
            cache = NULL;
        } else if (op == "gdel" && global) {
            delete global;
            global = NULL;
            for (size_t i = 0; i < bufs.size(); i++) bufs[i].live = false;   // the owners are abandoned, not destructed
            pre.clear(); g_cache_ptrs.clear();
            fx_out = NULL; fx_result = NULL; fx_shell = NULL;                // ... and so are the test's result and output
        } else if (op == "alloc") {
            char* p = cache ? cache->alloc(n) : global->getAllocator()->alloc_memory(n, __FILE__, __LINE__);
            locate(p, mem, room);
            g_cache_ptrs.insert(p);
            Buf b; b.p = p; b.n = n; b.mem = mem; b.pat = (unsigned char) (0x40 + (bufs.size() * 7) % 0xB0); b.live = true; b.str = NULL;
            memset(p, b.pat, n);          // the owner uses every byte it asked for (ASan watches the bounds)
            if (n) p[n - 1] = 0;          // ... as a terminated string (the unknown-release warning prints the buffer)
            else if (room > 0) p[0] = 0;  // (a 0-byte request: terminated only if the buffer happens to have room)
            bufs.push_back(b);
        } else if (op == "snew" && global && n > 0) {
            // a SimpleString whose buffer has n bytes: exactly one buffer request through SimpleString's string allocator
            Buf b; b.n = n; b.pat = (unsigned char) (0x40 + (bufs.size() * 7) % 0xB0); b.live = true;
            std::string text(n - 1, (char) b.pat);
            b.str = new SimpleString(text.c_str());
            b.p = const_cast<char*>(b.str->asCharString());
            locate(b.p, mem, room);
            g_cache_ptrs.insert(b.p);
            b.mem = mem;
            bufs.push_back(b);
        } else if (op == "dealloc" || op == "sdel") {
            if (a < 1 || (size_t) a > bufs.size() || !bufs[(size_t) a - 1].live || (op == "sdel") != (bufs[(size_t) a - 1].str != NULL)) {
                fprintf(g_out, "{\"op\":\"harness-error\",\"what\":\"no such buffer\"}\n"); return P_ERROR; }
            Buf& b = bufs[(size_t) a - 1];
            mem = b.mem;
            b.live = false;
            g_cache_ptrs.erase(b.p);
            if (b.str) { n = b.str->size() + 1; delete b.str; b.str = NULL; }
            else if (cache) cache->dealloc(b.p, n);
            else global->getAllocator()->free_memory(b.p, n, __FILE__, __LINE__);
        } else if (op == "xdealloc") {
            // release with a size of another class than the buffer's own: the cache does not keep the buffer there, the
            // owner goes on using it (it stays live: its bytes are watched, it can be released properly later)
            if (a < 1 || (size_t) a > bufs.size() || !bufs[(size_t) a - 1].live || bufs[(size_t) a - 1].str) {
                fprintf(g_out, "{\"op\":\"harness-error\",\"what\":\"no such buffer\"}\n"); return P_ERROR; }
            Buf& b = bufs[(size_t) a - 1];
            mem = b.mem;
            if (cache) cache->dealloc(b.p, n);
            else {
                // under a global cache the printing of the warning is a client of the cache: the spy records its calls
                composite = true;
                spy.target = global->getAllocator();
                SimpleString::setStringAllocator(&spy);
                g_elsewhere = b.p;
                spy.free_memory(b.p, n, __FILE__, __LINE__);
                g_elsewhere = NULL;
                SimpleString::setStringAllocator(spy.target);
            }
        } else if (op == "foreign") {
            if (cache) cache->dealloc(g_foreign[a & 3], n);
            else global->getAllocator()->free_memory(g_foreign[a & 3], n, __FILE__, __LINE__);
        } else if ((op == "pdel" || op == "pset" || op == "pcat") && global) {
            if (!pre.count(a) || (op != "pdel" && n == 0)) { fprintf(g_out, "{\"op\":\"harness-error\",\"what\":\"no such string\"}\n"); return P_ERROR; }
            composite = true;
            spy.target = global->getAllocator();
            SimpleString::setStringAllocator(&spy);
            if (op == "pdel") { delete pre[a]; pre.erase(a); }
            else if (op == "pset") { std::string text(n - 1, 's'); *pre[a] = SimpleString(text.c_str()); }
            else { std::string text(n, 'c'); *pre[a] += text.c_str(); }
            SimpleString::setStringAllocator(spy.target);
        } else if (op == "clearcache" && cache) {
            cache->clearCache();
        } else if (op == "clearall" && cache) {
            cache->clearAllIncludingCurrentlyUsedMemory();
            for (size_t i = 0; i < bufs.size(); i++) bufs[i].live = false;
            g_cache_ptrs.clear();
        } else { fprintf(g_out, "{\"op\":\"harness-error\",\"what\":\"unknown op or wrong kind of cache\"}\n"); return P_ERROR; }

        bool intact = true;
        for (size_t i = 0; i < bufs.size() && intact; i++)
            if (bufs[i].live)
                for (size_t k = 0; k < bufs[i].n; k++)
                    if ((unsigned char) bufs[i].p[k] != (k + 1 == bufs[i].n ? 0 : bufs[i].pat)) { intact = false; break; }
        std::string hf = "[";
        if (cache)
            for (size_t i = 0; i < bounds.size(); i++) { hf += (i ? "," : ""); hf += cache->hasFreeBlocksOfSize(bounds[i]) ? "true" : "false"; }
        hf += "]";
        TestMemoryAllocator* now = SimpleString::getStringAllocator();
        const char* cur = (global && now == global->getAllocator()) ? "cache" : (now == previous ? "under" : "other");
        long nwarn = (long) count_warnings();
        if (!composite)
            emit(op.c_str(), a, n, mem, room, g_got, g_ret, g_printed.size() > printed_before, nwarn, hf, intact, cur);
        else {
            if (g_events.empty()) emit("nop", a, n, 0, 0, g_got, g_ret, false, nwarn, hf, intact, cur);
            for (size_t i = 0; i < g_events.size(); i++) {
                const Ev& e = g_events[i];
                emit(e.op, a, e.n, e.mem, e.room, e.got, e.ret, e.warn, i + 1 == g_events.size() ? nwarn : -1, hf, intact, cur);
            }
        }
        g_sl++;
        // between two cache objects SimpleString uses its default allocator again (the recording allocator sees only what a
        // cache obtains; a dangling adaptor is never left installed)
        if (!global && !cache) SimpleString::setStringAllocator(NULLPTR);
        if (g_run_body) {
            // the script calls up to gdel run inside a test: UtestShell::getCurrent() is that test, its result prints into fx_out
            g_run_body = false;
            fx_shell->runOneTest(NullTestPlugin::instance(), *fx_result);
        }
    }
}

int main(int argc, char** argv)
{
    if (argc < 4) return 2;
    std::string mode = argv[1];
    PlatformSpecificFPuts = capture_fputs;
    PlatformSpecificFlush = no_flush;

    if (mode == "probe") {
        FILE* out = fopen(argv[2], "w");
        if (!out) return 2;
        vh_install(out);
    setvbuf(out, NULL, _IOLBF, 0);      // a sanitizer abort does not flush stdio: every completed call must already be in the log
        long maxs = atol(argv[3]);
        for (long s = 0; s <= maxs; s++) {
            SimpleStringInternalCache* c = new SimpleStringInternalCache;
            c->setAllocator(&rec);
            g_got.clear(); g_ret.clear();
            char* p = c->alloc((size_t) s);
            long mem, room; locate(p, mem, room);
            size_t ngot = g_got.size();
            if (mem && room >= s) memset(p, 0x11, (size_t) s);
            c->dealloc(p, (size_t) s);
            bool kept = g_ret.empty();
            fprintf(out, "{\"op\":\"probe\",\"n\":%ld,\"mem\":%ld,\"room\":%ld,\"ngot\":%lu,\"kept\":%s}\n", s, mem, room, (unsigned long) ngot, kept ? "true" : "false");
            c->clearAllIncludingCurrentlyUsedMemory();
            delete c;
            drop_all_underlying();
        }
        fclose(out);
        _exit(0);
    }

    g_in = fopen(argv[2], "r");
    g_out = fopen(argv[3], "w");
    if (!g_in || !g_out) return 2;
    vh_install(g_out);
    setvbuf(g_out, NULL, _IOLBF, 0);      // a sanitizer abort does not flush stdio: every completed call must already be in the log
    for (int i = 4; i < argc; i++) bounds.push_back((size_t) atol(argv[i]));
    previous = SimpleString::getStringAllocator();
    NullTestPlugin::instance();           // its name is a static string: constructed now, not under a cache
    process(false);
    fflush(g_out);
    fclose(g_out);
    _exit(0);
}
