// C11 conformance harness: executes scripted histories of one real TestRegistry (tests of several kinds added, the options
// run-in-separate-process / run-ignored set, any number of runs, tests added and options set between runs), so that the
// tests of a separate-process run go through the real PlatformSpecificRunTestInASeperateProcess (Platforms/Gcc/UtestPlatform.cpp).
// The PlatformSpecificFork / PlatformSpecificWaitPid seams are replaced by
//   stub mode: scripted outcomes (fork ok/fail; waitpid EINTR, other error, or a status word built with the libc
//              encodings).  The pid handed to the parent is the pid of a REAL, harmless child of this program (blocked
//              in pause(), with a SIGCONT handler that reports every SIGCONT through a pipe), because the parent calls
//              kill(pid, SIGCONT) directly;
//   real mode: the real fork()/waitpid(), observed: the child executes a scripted behaviour (raise a signal, _exit a
//              status, fail a check, stop itself) at a scripted place (setup, body, teardown, plugin pre/post action);
//              independently of that, a second installed plugin (ReportPlugin, the way MemoryLeakWarningPlugin or
//              MockSupportPlugin report) adds a failure to the TestResult in its pre action, its post action or both
//              (`rep'), while the test's own checks may all pass.
// One ndjson log line per call on the registry (addtest, setsep, setri) and per step of the parent: begin (tests the
// registry holds), teststart (number, kind of the shell, scripted behaviour), fork, wait (with the decoded outcome), endtest
// (failures recorded for the test, classified; number of waitpid calls; SIGCONTs seen; real children left un-reaped; whether
// any code of the test - plugin action, setup, body, teardown - executed in the runner process), end (totals).
// It never judges.
// Usage: sepproc <script.tsv> <log.ndjson>            sepproc --probe-retries   (prints the number of waitpid calls
//        the parent makes when every call is interrupted; 2001 = no bound found)
// Script lines (TSV): addtest plain|ignored | setsep | setri | begin N stub|real | teststart act arg place rep (behaviour of the
//        i-th test of this run, in running order; rep = none|pre|post|both: plugin actions that report a failure) | fork ok|fail | wait kind arg | endtest | end (= run now) | reset (new registry)
#include "vh.h"
#include <sys/types.h>
#include <sys/wait.h>
#include <errno.h>
#include <poll.h>
#include <time.h>
#include <sys/prctl.h>
#include "CppUTest/TestHarness.h"
#include "CppUTest/TestRegistry.h"
#include "CppUTest/TestOutput.h"
#include "CppUTest/TestResult.h"
#include "CppUTest/TestPlugin.h"
#include "CppUTest/PlatformSpecificFunctions.h"

static FILE* g_log = NULL;
static bool g_real = false;
static pid_t g_helper = -1;          // the harmless child (stub mode)
static int g_contpipe[2] = {-1, -1}; // helper -> harness: one byte per SIGCONT received
static pid_t g_self = 0;

struct Outcome { std::string kind; int arg; };
static std::vector<Outcome> g_queue;  // scripted fork/wait outcomes of the whole execution, in order
static size_t g_qpos = 0;
static std::vector<size_t> g_testEnd; // for each test: index in g_queue one past its last outcome
static int g_test = 0;               // number of the running test (1-based)
static int g_waits = 0, g_conts = 0, g_pendingStops = 0;
static std::vector<std::string> g_fail;   // failures recorded for the running test, classified
static int g_probeCalls = -1;         // >= 0: probe mode, count waitpid calls
static std::vector<pid_t> g_kids;     // real children forked so far and not yet seen to be gone
static bool g_inRunner = false;       // some code of the running test executed in the runner process
static void mark_place() { if (getpid() == g_self) g_inRunner = true; }

// children the parent code did not reap (still running, stopped, or zombies): kill and reap them, return how many
static int sweep_kids()
{
    int left = 0;
    for (size_t i = 0; i < g_kids.size(); i++) {
        int st;
        pid_t w = waitpid(g_kids[i], &st, WNOHANG);
        if (w < 0) continue;                 // already reaped by the code under test
        left++;
        if (w == 0) { kill(g_kids[i], SIGKILL); kill(g_kids[i], SIGCONT); waitpid(g_kids[i], &st, 0); }
    }
    g_kids.clear();
    return left;
}

static void helper_cont(int) { char c = 'c'; ssize_t r = write(g_contpipe[1], &c, 1); (void) r; }

static void start_helper()
{
    if (pipe(g_contpipe) != 0) abort();
    g_helper = fork();
    if (g_helper == 0) {
        prctl(PR_SET_PDEATHSIG, SIGKILL);
        signal(SIGCONT, helper_cont);
        close(g_contpipe[0]);
        char r = 'r'; ssize_t w = write(g_contpipe[1], &r, 1); (void) w;    // ready: from now on every SIGCONT is reported
        for (;;) { pause(); if (getppid() == 1) _exit(0); }
    }
    close(g_contpipe[1]);
    // wait until the helper has its handler in place (a SIGCONT sent before that would be discarded by the default disposition)
    char r = 0;
    while (read(g_contpipe[0], &r, 1) < 0 && errno == EINTR) {}
    if (r != 'r') abort();
}
static void stop_helper()
{
    if (g_helper > 0) { kill(g_helper, SIGKILL); int st; waitpid(g_helper, &st, 0); g_helper = -1; }
}
// collect the SIGCONTs the parent sent for the stops reported so far (each is awaited up to 10 s)
static void collect_conts()
{
    while (g_pendingStops > 0) {
        struct pollfd p; p.fd = g_contpipe[0]; p.events = POLLIN;
        if (poll(&p, 1, 10000) <= 0) break;      /* generous: only a SIGCONT that was never sent costs this time */
        char c; if (read(g_contpipe[0], &c, 1) == 1) g_conts++;
        g_pendingStops--;
    }
    // anything beyond what was asked for
    for (;;) {
        struct pollfd p; p.fd = g_contpipe[0]; p.events = POLLIN;
        if (poll(&p, 1, 0) <= 0) break;
        char c; if (read(g_contpipe[0], &c, 1) == 1) g_conts++; else break;
    }
    g_pendingStops = 0;
}

static bool next_outcome(Outcome& o)
{
    size_t end = (g_test >= 1 && (size_t) g_test <= g_testEnd.size()) ? g_testEnd[(size_t) g_test - 1] : g_queue.size();
    if (g_qpos >= end) return false;
    o = g_queue[g_qpos++];
    return true;
}

static int my_fork()
{
    if (g_probeCalls >= 0) return (int) g_helper;
    if (g_real) {
        fprintf(g_log, "{\"op\":\"fork\",\"res\":\"ok\",\"nfail\":%d}\n", (int) g_fail.size());
        fflush(g_log);
        pid_t p = fork();
        if (p < 0) { fprintf(g_log, "{\"op\":\"harness-error\",\"what\":\"real fork failed\"}\n"); fflush(g_log); _exit(3); }
        if (p > 0) g_kids.push_back(p);
        return (int) p;
    }
    Outcome o;
    if (!next_outcome(o) || (o.kind != "ok" && o.kind != "fail")) {
        fprintf(g_log, "{\"op\":\"fork\",\"res\":\"unscripted\",\"nfail\":%d}\n", (int) g_fail.size());
        return -1;
    }
    fprintf(g_log, "{\"op\":\"fork\",\"res\":\"%s\",\"nfail\":%d}\n", o.kind.c_str(), (int) g_fail.size());
    if (o.kind == "fail") { errno = EAGAIN; return -1; }
    return (int) g_helper;
}

static void log_wait(const char* kind, int arg)
{
    fprintf(g_log, "{\"op\":\"wait\",\"out\":\"%s\",\"arg\":%d,\"nfail\":%d}\n", kind, arg, (int) g_fail.size());
    fflush(g_log);
}

static int my_waitpid(int pid, int* status, int options)
{
    if (g_probeCalls >= 0) {
        if (++g_probeCalls > 2000) { *status = 0; return pid; }
        errno = EINTR; return -1;
    }
    g_waits++;
    if (g_real) {
        // the real waitpid, polled so that a child that never ends shows up in the log instead of hanging the harness
        struct timespec t0; clock_gettime(CLOCK_MONOTONIC, &t0);
        for (;;) {
            int st = 0;
            pid_t w = waitpid(pid, &st, options | WNOHANG);
            if (w == pid) {
                if (WIFEXITED(st)) log_wait("exited", WEXITSTATUS(st));
                else if (WIFSIGNALED(st)) log_wait("signaled", WTERMSIG(st));
                else if (WIFSTOPPED(st)) log_wait("stopped", WSTOPSIG(st));
                else log_wait("other", st);
                *status = st;
                return (int) w;
            }
            if (w < 0) { int e = errno; log_wait(e == EINTR ? "eintr" : "error", e); errno = e; return -1; }
            struct timespec t1; clock_gettime(CLOCK_MONOTONIC, &t1);
            if (t1.tv_sec - t0.tv_sec >= 6) {
                log_wait("hang", 0);
                kill(pid, SIGKILL); kill(pid, SIGCONT);
                pid_t w2 = waitpid(pid, &st, 0);
                *status = st; return (int) w2;
            }
            struct timespec nap = {0, 2000000}; nanosleep(&nap, NULL);
        }
    }
    collect_conts();
    Outcome o;
    if (!next_outcome(o)) { log_wait("unscripted", 0); *status = 0; return pid; }
    log_wait(o.kind.c_str(), o.arg);
    if (o.kind == "eintr") { errno = EINTR; return -1; }
    if (o.kind == "error") { errno = ECHILD; return -1; }
    if (o.kind == "exited") *status = (o.arg & 0xff) << 8;
    else if (o.kind == "signaled") *status = o.arg & 0x7f;
    else if (o.kind == "stopped") { *status = ((o.arg & 0xff) << 8) | 0x7f; g_pendingStops++; }
    else *status = 0;
    return pid;
}

// ---------------------------------------------------------------- scripted child behaviour (real mode)
struct Behaviour
{
    std::string act; int arg; std::string place; std::string rep;
    bool reports(const char* where) const { return rep == where || rep == "both"; }
    int nrep() const { return rep == "both" ? 2 : (rep == "pre" || rep == "post") ? 1 : 0; }
};

// sh: the running test; result: where a non-terminating failure is recorded (plugin actions run before/after the
// test is "current", so they record through the TestResult they are given, as MemoryLeakWarningPlugin does)
static void act_now(const Behaviour& b, bool terminating, UtestShell* sh, TestResult* result)
{
    if (b.act == "pass") return;
    if (b.act == "exit") _exit(b.arg);
    if (b.act == "signal" || b.act == "signal-then-fail") raise(b.arg);
    if (b.act == "stop-twice") { raise(SIGSTOP); raise(SIGSTOP); }
    if (b.act == "fail" || b.act == "signal-then-fail") {
        if (terminating) sh->fail("scripted failure", "script.cpp", 1);
        else result->addFailure(TestFailure(sh, "script.cpp", 1, "scripted failure"));
    }
}

struct Scripted                       // what a scripted shell carries, whatever its class
{
    Behaviour b; std::string nm;
    virtual ~Scripted() {}
    virtual const char* kind() const = 0;
    void name(UtestShell* sh, int i)
    { char t[32]; snprintf(t, sizeof t, "t%d", i); nm = t; sh->setGroupName("G"); sh->setTestName(nm.c_str()); sh->setFileName("script.cpp"); sh->setLineNumber(1); }
};
class ScriptTest : public Utest
{
    const Behaviour* b_;
public:
    explicit ScriptTest(const Behaviour* b) : b_(b) {}
    void setup() CPPUTEST_OVERRIDE { mark_place(); if (b_->place == "setup") act_now(*b_, true, UtestShell::getCurrent(), NULL); }
    void testBody() CPPUTEST_OVERRIDE { mark_place(); if (b_->place == "body") act_now(*b_, true, UtestShell::getCurrent(), NULL); }
    void teardown() CPPUTEST_OVERRIDE { mark_place(); if (b_->place == "teardown") act_now(*b_, true, UtestShell::getCurrent(), NULL); }
};
class ScriptShell : public UtestShell, public Scripted          // TEST
{
public:
    explicit ScriptShell(int i) : UtestShell() { name(this, i); }
    ScriptShell(const Behaviour& bb, int i) : UtestShell() { b = bb; name(this, i); }
    const char* kind() const CPPUTEST_OVERRIDE { return "plain"; }
    Utest* createTest() CPPUTEST_OVERRIDE { return new ScriptTest(&b); }
};
class ScriptIgnoredShell : public IgnoredUtestShell, public Scripted   // IGNORE_TEST
{
public:
    explicit ScriptIgnoredShell(int i) : IgnoredUtestShell() { name(this, i); }
    const char* kind() const CPPUTEST_OVERRIDE { return "ignored"; }
    Utest* createTest() CPPUTEST_OVERRIDE { return new ScriptTest(&b); }
};
class ActionPlugin : public TestPlugin
{
public:
    ActionPlugin() : TestPlugin("ActionPlugin") {}
    void preTestAction(UtestShell& t, TestResult& r) CPPUTEST_OVERRIDE
    { Scripted* s = dynamic_cast<Scripted*>(&t); if (s) { mark_place(); if (s->b.place == "pre") act_now(s->b, false, &t, &r); } }
    void postTestAction(UtestShell& t, TestResult& r) CPPUTEST_OVERRIDE
    { Scripted* s = dynamic_cast<Scripted*>(&t); if (s) { mark_place(); if (s->b.place == "post") act_now(s->b, false, &t, &r); } }
};

// a plugin that reports an error of its own about the test (leak report, unmet expectations, ...): straight to the TestResult
class ReportPlugin : public TestPlugin
{
public:
    ReportPlugin() : TestPlugin("ReportPlugin") {}
    void preTestAction(UtestShell& t, TestResult& r) CPPUTEST_OVERRIDE
    { Scripted* s = dynamic_cast<Scripted*>(&t); if (s && s->b.reports("pre")) { mark_place(); r.addFailure(TestFailure(&t, "plugin.cpp", 7, "reported by a plugin before the test")); } }
    void postTestAction(UtestShell& t, TestResult& r) CPPUTEST_OVERRIDE
    { Scripted* s = dynamic_cast<Scripted*>(&t); if (s && s->b.reports("post")) { mark_place(); r.addFailure(TestFailure(&t, "plugin.cpp", 8, "reported by a plugin after the test")); } }
};

// ---------------------------------------------------------------- probe in front of the real TestResult
static std::string classify(const std::string& m, int& arg)
{
    arg = 0;
    const char* sig = "Failed in separate process - killed by signal ";
    if (m.compare(0, strlen(sig), sig) == 0) { arg = atoi(m.c_str() + strlen(sig)); return "signal"; }
    if (m == "Failed in separate process") return "exit";
    if (m == "Stopped in separate process - continuing") return "stopped";
    if (m == "Call to fork() failed") return "fork";
    if (m.find("EINTR") != std::string::npos) return "eintr";
    if (m == "Call to waitpid() failed") return "waitpid";
    return "other";
}

class ProbeResult : public TestResult
{
public:
    explicit ProbeResult(TestOutput& o) : TestResult(o) {}
    void currentTestStarted(UtestShell* t) CPPUTEST_OVERRIDE
    {
        if (getpid() == g_self) {
            g_test++; g_waits = 0; g_conts = 0; g_pendingStops = 0; g_fail.clear(); g_inRunner = false;
            // scripted outcomes the previous test did not consume are not handed to this one
            if (g_test >= 2 && (size_t) g_test - 2 < g_testEnd.size()) g_qpos = g_testEnd[(size_t) g_test - 2];
            Scripted* s = dynamic_cast<Scripted*>(t);
            fprintf(g_log, "{\"op\":\"teststart\",\"i\":%d,\"kind\":\"%s\",\"act\":\"%s\",\"arg\":%d,\"rep\":%d}\n", g_test, s ? s->kind() : "?",
                    s ? s->b.act.c_str() : "any", s ? s->b.arg : 0, s ? s->b.nrep() : 0);
        }
        TestResult::currentTestStarted(t);
    }
    void addFailure(const TestFailure& f) CPPUTEST_OVERRIDE
    {
        if (getpid() == g_self) {
            int arg; std::string k = classify(f.getMessage().asCharString(), arg);
            char b[64]; snprintf(b, sizeof b, "{\"kind\":\"%s\",\"arg\":%d}", k.c_str(), arg);
            g_fail.push_back(b);
        }
        TestResult::addFailure(f);
    }
    void currentTestEnded(UtestShell* t) CPPUTEST_OVERRIDE
    {
        TestResult::currentTestEnded(t);
        if (getpid() != g_self) return;
        if (!g_real) collect_conts();
        int left = g_real ? sweep_kids() : 0;     // a child the parent did not reap
        fprintf(g_log, "{\"op\":\"endtest\",\"left\":%d,\"msgs\":[", left);
        for (size_t i = 0; i < g_fail.size(); i++) fprintf(g_log, "%s%s", i ? "," : "", g_fail[i].c_str());
        fprintf(g_log, "],\"waits\":%d,\"conts\":%d,\"inrunner\":%s}\n", g_waits, g_real ? -1 : g_conts, g_inRunner ? "true" : "false");
        fflush(g_log);
    }
};

// does a terminal stop signal stop a child here (it does not when the process group is orphaned)?
static bool tty_stops_work()
{
    pid_t p = fork();
    if (p == 0) { raise(SIGTSTP); _exit(0); }
    bool stopped = false;
    for (int i = 0; i < 1500; i++) {
        int st; pid_t w = waitpid(p, &st, WUNTRACED | WNOHANG);
        if (w == p) { if (WIFSTOPPED(st)) { stopped = true; kill(p, SIGCONT); waitpid(p, &st, 0); } break; }
        struct timespec nap = {0, 2000000}; nanosleep(&nap, NULL);
    }
    return stopped;
}

// the registry under test and what was put into it; lives from the first call after a `reset' to the next `reset'
struct Registry
{
    TestRegistry reg;
    ActionPlugin plugin;
    ReportPlugin reporter;
    std::vector<UtestShell*> shells;
    Registry() { reg.installPlugin(&plugin); reg.installPlugin(&reporter); }
    ~Registry() { for (size_t i = 0; i < shells.size(); i++) delete shells[i]; }
    void add(const std::string& kind)
    {
        int i = (int) shells.size() + 1;
        UtestShell* sh = kind == "ignored" ? (UtestShell*) new ScriptIgnoredShell(i) : (UtestShell*) new ScriptShell(i);
        shells.push_back(sh);
        reg.addTest(sh);
    }
};

// one runAllTests with a fresh TestResult; bs[i] = what the i-th test of the list does in this run
static bool run_once(Registry& R, std::vector<Behaviour>& bs)
{
    g_test = 0; g_qpos = 0;
    size_t i = 0;
    for (UtestShell* t = R.reg.getFirstTest(); t; t = t->getNext(), i++) {
        Scripted* s = dynamic_cast<Scripted*>(t);
        if (!s || i >= bs.size()) return false;
        s->b = bs[i];
    }
    if (i != bs.size()) return false;
    StringBufferTestOutput output;
    {
        ProbeResult result(output);
        fflush(g_log);
        R.reg.runAllTests(result);
        fprintf(g_log, "{\"op\":\"end\",\"total\":%d,\"ran\":%d,\"ign\":%d,\"failed\":%s}\n", (int) result.getFailureCount(), (int) result.getRunCount(),
                (int) result.getIgnoredCount(), result.isFailure() ? "true" : "false");
    }
    fflush(g_log);
    return true;
}

int main(int argc, char** argv)
{
    // The children of this harness die of, or are stopped by, signals on purpose.  A process started as a background job of a
    // non-interactive shell (or under nohup) inherits SIGINT / SIGQUIT / SIGHUP as "ignored", and a child that raises such a signal
    // would then simply go on: start from the default disposition and an empty signal mask, whatever the caller left us with.
    for (int sig = 1; sig < NSIG; sig++) if (sig != SIGKILL && sig != SIGSTOP) signal(sig, SIG_DFL);
    { sigset_t none; sigemptyset(&none); sigprocmask(SIG_SETMASK, &none, NULL); }
    g_self = getpid();
    PlatformSpecificFork = my_fork;
    PlatformSpecificWaitPid = my_waitpid;
    if (argc >= 2 && std::string(argv[1]) == "--probe-retries") {
        start_helper();
        g_probeCalls = 0;
        TestRegistry reg; reg.setRunTestsInSeperateProcess();
        Behaviour b; b.act = "pass"; b.arg = 0; b.place = "body"; b.rep = "none";
        ScriptShell sh(b, 1); reg.addTest(&sh);
        StringBufferTestOutput output; TestResult result(output);
        reg.runAllTests(result);
        printf("{\"waitpid_calls\":%d,\"failures\":%d}\n", g_probeCalls, (int) result.getFailureCount());
        stop_helper();
        return 0;
    }
    if (argc < 3) return 2;
    FILE* in = fopen(argv[1], "r");
    g_log = fopen(argv[2], "w");
    if (!in || !g_log) return 2;
    vh_install(g_log, false);         // no fatal-signal handlers: children must die by the default dispositions
    start_helper();
    bool tty = tty_stops_work();

    std::vector<Behaviour> bs; bool started = false;     // started: between `begin' and `end' (the script of one run)
    Registry* R = NULL;
    std::string line;
    while (vh_readline(in, line)) {
        if (line.empty()) continue;
        std::vector<std::string> f = vh_split(line);
        while (f.size() < 5) f.push_back("");
        const std::string& op = f[0];
        if (op == "reset") { delete R; R = NULL; fprintf(g_log, "{\"op\":\"reset\"}\n"); started = false; continue; }
        if (!R) R = new Registry();
        if (!started && op == "addtest") { R->add(f[1]); fprintf(g_log, "{\"op\":\"addtest\",\"kind\":\"%s\"}\n", f[1] == "ignored" ? "ignored" : "plain"); }
        else if (!started && op == "setsep") { R->reg.setRunTestsInSeperateProcess(); fprintf(g_log, "{\"op\":\"setsep\"}\n"); }
        else if (!started && op == "setri") { R->reg.setRunIgnored(); fprintf(g_log, "{\"op\":\"setri\"}\n"); }
        else if (!started && op == "begin") {
            g_real = f[2] == "real"; bs.clear(); g_queue.clear(); g_testEnd.clear(); started = true;
            fprintf(g_log, "{\"op\":\"begin\",\"n\":%d,\"tty\":%s}\n", (int) R->reg.countTests(), tty ? "true" : "false");
        }
        else if (!started) { fprintf(g_log, "{\"op\":\"harness-error\",\"what\":\"call outside a run\"}\n"); break; }
        else if (op == "teststart") { Behaviour b; b.act = (f[1].empty() || f[1] == "any") ? (g_real ? "pass" : "any") : f[1]; b.arg = atoi(f[2].c_str()); b.place = f[3].empty() ? "body" : f[3]; b.rep = f[4].empty() ? "none" : f[4]; bs.push_back(b); }
        else if (op == "fork") { Outcome o; o.kind = f[1]; o.arg = 0; g_queue.push_back(o); }
        else if (op == "wait") { Outcome o; o.kind = f[1]; o.arg = atoi(f[2].c_str()); g_queue.push_back(o); }
        else if (op == "endtest") g_testEnd.push_back(g_queue.size());
        else if (op == "end") {
            if (!run_once(*R, bs)) { fprintf(g_log, "{\"op\":\"harness-error\",\"what\":\"test count\"}\n"); break; }
            started = false;
        }
        else { fprintf(g_log, "{\"op\":\"harness-error\",\"what\":\"unknown op\"}\n"); break; }
    }
    delete R;
    fflush(g_log);
    fclose(g_log);
    stop_helper();
    _exit(0);
}
