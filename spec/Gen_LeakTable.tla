---------------------------- MODULE Gen_LeakTable ----------------------------
(* Behaviour generation for C04: LeakTable's actions with a history variable recording the
   calls and their arguments (no observations: those are predicted by Trace_LeakTable when
   the log recorded from the real detector is validated).  Printed as JSON at D steps. *)
EXTENDS LeakTable, Json
CONSTANT D
VARIABLES h, done
gvars == <<vars, h, done>>

Step(op, a, a2, sz, k, ln, q) ==
    h' = Append(h, [op |-> op, a |-> a, a2 |-> a2, sz |-> sz, k |-> k, ln |-> ln, q |-> q])

GInit == Init /\ h = <<>> /\ done = FALSE
GStep == /\ Len(h) < D /\ UNCHANGED done
         /\ \/ \E a \in Addrs, sz \in Sizes, k \in Kinds : Alloc(a, sz, k, 100 + seq) /\ Step("alloc", a, 0, sz, k, 100 + seq, "")
            \/ \E a \in Addrs : Free(a) /\ Step("free", a, 0, 0, "", 0, "")
            \/ \E a \in Addrs : FreeUnknown(a) /\ Step("free", a, 0, 0, "", 0, "")
            \/ \E a \in Addrs : ReallocUnknown(a) /\ Step("realloc", a, a, 1, "", 0, "")
            \/ FreeNull /\ Step("freenull", 0, 0, 0, "", 0, "")
            \/ \E a \in Addrs, a2 \in Addrs, sz \in Sizes :
                  Realloc(a, a2, sz, 100 + seq) /\ Step("realloc", a, a2, sz, "", 100 + seq, "")
            \/ period # "enabled" /\ Enable /\ Step("enable", 0, 0, 0, "", 0, "")
            \/ period # "disabled" /\ Disable /\ Step("disable", 0, 0, 0, "", 0, "")
            \/ period # "checking" /\ StartChecking /\ Step("startchecking", 0, 0, 0, "", 0, "")
            \/ period = "checking" /\ StopChecking /\ Step("stopchecking", 0, 0, 0, "", 0, "")
            \/ IncStage /\ Step("incstage", 0, 0, 0, "", 0, "")
            \/ DecStage /\ Step("decstage", 0, 0, 0, "", 0, "")
            \/ live # {} /\ FreeStage /\ Step("freestage", 0, 0, 0, "", 0, "")
            \/ \E q \in Queries : live # {} /\ Clear(q) /\ Step("clear", 0, 0, 0, "", 0, q)
            \/ live # {} /\ Demote /\ Step("demote", 0, 0, 0, "", 0, "")
            \/ \E q \in Queries : live # {} /\ Query /\ Step("report", 0, 0, 0, "", 0, q)
            \* a report that follows earlier text in the detector's buffer (no startChecking in between) states its own blocks only
            \/ \E q \in {"all", "checking"} : live # {} /\ Query /\ Step("report", 0, 0, 0, "keep", 0, q)
            \/ \E a \in Addrs : live # {} /\ Invalidate(a) /\ Step("inval", a, 0, 0, "", 0, "")
\* a single deterministic closing step, so that simulation prints each sampled behaviour once
GEnd == Len(h) = D /\ ~done /\ done' = TRUE /\ UNCHANGED <<vars, h>>
GNext == GStep \/ GEnd
GSpec == GInit /\ [][GNext]_gvars
Dump == done => PrintT(<<"BEH", ToJson(h)>>)
=============================================================================
