---- MODULE MC_Mock_TTrace_1790991695 ----
EXTENDS MC_Mock, Sequences, TLCExt, Toolbox, Naturals, TLC

_expression ==
    LET MC_Mock_TEExpression == INSTANCE MC_Mock_TEExpression
    IN MC_Mock_TEExpression!expression
----

_trace ==
    LET MC_Mock_TETrace == INSTANCE MC_Mock_TETrace
    IN MC_Mock_TETrace!trace
----

_inv ==
    ~(
        TLCGet("level") = Len(_TETrace)
        /\
        res = ([k |-> "ok"])
        /\
        last = ("begin")
        /\
        ms = (("" :> [data |-> <<>>, live |-> TRUE, exps |-> <<[ins |-> <<>>, ign |-> FALSE, outs |-> <<>>, obj |-> 0, fn |-> "f", ret |-> [t |-> "none"], lo |-> 0, hi |-> 0, n |-> 1]>>, used |-> <<0>>, ooo |-> {}, strict |-> FALSE, expOrder |-> 0, actOrder |-> 1, ignoreOthers |-> FALSE, enabled |-> TRUE, cur |-> [obj |-> 0, given |-> <<>>, gout |-> <<>>, fn |-> "f", phase |-> "open", cand |-> {1}, match |-> 0, order |-> 1], made |-> <<>>]))
        /\
        created = (<<>>)
        /\
        why = ("")
        /\
        failed = (FALSE)
    )
----

_init ==
    /\ res = _TETrace[1].res
    /\ last = _TETrace[1].last
    /\ why = _TETrace[1].why
    /\ ms = _TETrace[1].ms
    /\ failed = _TETrace[1].failed
    /\ created = _TETrace[1].created
----

_next ==
    /\ \E i,j \in DOMAIN _TETrace:
        /\ \/ /\ j = i + 1
              /\ i = TLCGet("level")
        /\ res  = _TETrace[i].res
        /\ res' = _TETrace[j].res
        /\ last  = _TETrace[i].last
        /\ last' = _TETrace[j].last
        /\ why  = _TETrace[i].why
        /\ why' = _TETrace[j].why
        /\ ms  = _TETrace[i].ms
        /\ ms' = _TETrace[j].ms
        /\ failed  = _TETrace[i].failed
        /\ failed' = _TETrace[j].failed
        /\ created  = _TETrace[i].created
        /\ created' = _TETrace[j].created

\* Uncomment the ASSUME below to write the states of the error trace
\* to the given file in Json format. Note that you can pass any tuple
\* to `JsonSerialize`. For example, a sub-sequence of _TETrace.
    \* ASSUME
    \*     LET J == INSTANCE Json
    \*         IN J!JsonSerialize("MC_Mock_TTrace_1790991695.json", _TETrace)

=============================================================================

 Note that you can extract this module `MC_Mock_TEExpression`
  to a dedicated file to reuse `expression` (the module in the 
  dedicated `MC_Mock_TEExpression.tla` file takes precedence 
  over the module `MC_Mock_TEExpression` below).

---- MODULE MC_Mock_TEExpression ----
EXTENDS MC_Mock, Sequences, TLCExt, Toolbox, Naturals, TLC

expression == 
    [
        \* To hide variables of the `MC_Mock` spec from the error trace,
        \* remove the variables below.  The trace will be written in the order
        \* of the fields of this record.
        res |-> res
        ,last |-> last
        ,why |-> why
        ,ms |-> ms
        ,failed |-> failed
        ,created |-> created
        
        \* Put additional constant-, state-, and action-level expressions here:
        \* ,_stateNumber |-> _TEPosition
        \* ,_resUnchanged |-> res = res'
        
        \* Format the `res` variable as Json value.
        \* ,_resJson |->
        \*     LET J == INSTANCE Json
        \*     IN J!ToJson(res)
        
        \* Lastly, you may build expressions over arbitrary sets of states by
        \* leveraging the _TETrace operator.  For example, this is how to
        \* count the number of times a spec variable changed up to the current
        \* state in the trace.
        \* ,_resModCount |->
        \*     LET F[s \in DOMAIN _TETrace] ==
        \*         IF s = 1 THEN 0
        \*         ELSE IF _TETrace[s].res # _TETrace[s-1].res
        \*             THEN 1 + F[s-1] ELSE F[s-1]
        \*     IN F[_TEPosition - 1]
    ]

=============================================================================



Parsing and semantic processing can take forever if the trace below is long.
 In this case, it is advised to uncomment the module below to deserialize the
 trace from a generated binary file.

\*
\*---- MODULE MC_Mock_TETrace ----
\*EXTENDS MC_Mock, IOUtils, TLC
\*
\*trace == IODeserialize("MC_Mock_TTrace_1790991695.bin", TRUE)
\*
\*=============================================================================
\*

---- MODULE MC_Mock_TETrace ----
EXTENDS MC_Mock, TLC

trace == 
    <<
    ([res |-> [k |-> "ok"],last |-> "init",ms |-> ("" :> [data |-> <<>>, live |-> TRUE, exps |-> <<>>, used |-> <<>>, ooo |-> {}, strict |-> FALSE, expOrder |-> 0, actOrder |-> 0, ignoreOthers |-> FALSE, enabled |-> TRUE, cur |-> [obj |-> 0, given |-> <<>>, gout |-> <<>>, fn |-> "", phase |-> "none", cand |-> {}, match |-> 0, order |-> 0], made |-> <<>>]),created |-> <<>>,why |-> "",failed |-> FALSE]),
    ([res |-> [k |-> "ok"],last |-> "expect",ms |-> ("" :> [data |-> <<>>, live |-> TRUE, exps |-> <<[ins |-> <<>>, ign |-> FALSE, outs |-> <<>>, obj |-> 0, fn |-> "f", ret |-> [t |-> "none"], lo |-> 0, hi |-> 0, n |-> 1]>>, used |-> <<0>>, ooo |-> {}, strict |-> FALSE, expOrder |-> 0, actOrder |-> 0, ignoreOthers |-> FALSE, enabled |-> TRUE, cur |-> [obj |-> 0, given |-> <<>>, gout |-> <<>>, fn |-> "", phase |-> "none", cand |-> {}, match |-> 0, order |-> 0], made |-> <<>>]),created |-> <<>>,why |-> "",failed |-> FALSE]),
    ([res |-> [k |-> "ok"],last |-> "begin",ms |-> ("" :> [data |-> <<>>, live |-> TRUE, exps |-> <<[ins |-> <<>>, ign |-> FALSE, outs |-> <<>>, obj |-> 0, fn |-> "f", ret |-> [t |-> "none"], lo |-> 0, hi |-> 0, n |-> 1]>>, used |-> <<0>>, ooo |-> {}, strict |-> FALSE, expOrder |-> 0, actOrder |-> 1, ignoreOthers |-> FALSE, enabled |-> TRUE, cur |-> [obj |-> 0, given |-> <<>>, gout |-> <<>>, fn |-> "f", phase |-> "open", cand |-> {1}, match |-> 0, order |-> 1], made |-> <<>>]),created |-> <<>>,why |-> "",failed |-> FALSE])
    >>
----


=============================================================================

---- CONFIG MC_Mock_TTrace_1790991695 ----
CONSTANTS
    Scopes <- ScopesG
    Fns = { "f" }
    PNames = { }
    Vals <- Vals2
    ONames = { }
    OData <- NoData
    Objs = { }
    Rets <- RetsTyped
    MaxExp = 1
    Ns = { 1 , 2 }
    MaxCalls = 2
    RetGetters <- GetTyped
    LateExpect = FALSE
    Toggles = FALSE

INVARIANT
    _inv

CHECK_DEADLOCK
    \* CHECK_DEADLOCK off because of PROPERTY or INVARIANT above.
    FALSE

INIT
    _init

NEXT
    _next

CONSTANT
    _TETrace <- _trace

ALIAS
    _expression
=============================================================================
\* Generated on Sat Oct 03 01:41:37 UTC 2026