---------------------------- MODULE Gen_MemAccount ----------------------------
EXTENDS MemAccount, Json
CONSTANT D
VARIABLES h, done
gvars == <<vars, h, done>>
St(op, sz, cs) == h' = Append(h, [op |-> op, sz |-> sz, cs |-> cs])
SetSeq(S) == SortedSeq(S)
GInit == Init /\ h = <<>> /\ done = FALSE
GStep == /\ Len(h) < D /\ UNCHANGED done
         /\ \/ \E S \in CacheChoices : UseCache(S) /\ St("cache", 0, SetSeq(S))
            \/ \E sz \in Sizes : Alloc(sz) /\ St("alloc", sz, <<>>)
            \/ \E sz \in Sizes : Dealloc(sz) /\ St("dealloc", sz, <<>>)
            \/ DOMAIN stats # {} /\ ~cacheMode /\ Clear /\ St("clear", 0, <<>>)
GEnd == Len(h) = D /\ ~done /\ done' = TRUE /\ UNCHANGED <<vars, h>>
GSpec == GInit /\ [][GStep \/ GEnd]_gvars
Dump == done => PrintT(<<"BEH", ToJson(h)>>)
=============================================================================
