------------------------------- MODULE Checks -------------------------------
(***************************************************************************)
(* CppUTest check macros (property C03).                                   *)
(*                                                                         *)
(* For every check kind the mathematical predicate it names is written     *)
(* here as an operator over exact operand values (Holds), independent of   *)
(* the code's algorithm:                                                   *)
(*  - integers are exact sign/magnitude values with three base-2^24 limbs  *)
(*    (TLC's integers are 32-bit; every 64-bit machine value has exactly   *)
(*    one such representation, so equality and order are exact);           *)
(*  - doubles are NaN, +-infinity, or (-1)^neg * k * 2^e with a small      *)
(*    natural k (an extended-real model; rows only combine finite values   *)
(*    whose differences are exactly representable, see WellFormedDbl);     *)
(*  - C strings are NULL or sequences of bytes 1..255, memory blocks NULL  *)
(*    or sequences of bytes 0..255;                                        *)
(*  - pointers are 0 (NULL), 1, 2.                                         *)
(* The state machine has one action Do(c) per executed check: it adds one  *)
(* failure exactly when the predicate is false and counts the check once   *)
(* (a passing relational comparison is the one kind that is not counted).  *)
(* Where the property statement leaves the verdict open (negative or NaN   *)
(* tolerance) both verdicts are allowed; the count is still exact.         *)
(***************************************************************************)
EXTENDS Integers, Sequences, FiniteSets, TLC, Strings, Bitwise

CONSTANTS MaxN        \* bound on the number of checks executed in one behaviour (model checking only)

B == 16777216        \* 2^24, the limb base

-----------------------------------------------------------------------------
(* Exact integers *)
IV(neg, h, mi, lo) == [neg |-> neg, m |-> <<h, mi, lo>>]
Zero == IV(FALSE, 0, 0, 0)
IsZero(v) == v.m = <<0, 0, 0>>
IsIntVal(v) == /\ v.neg \in BOOLEAN /\ Len(v.m) = 3
               /\ v.m[1] \in 0..65536 /\ v.m[2] \in 0..(B - 1) /\ v.m[3] \in 0..(B - 1)
               /\ (IsZero(v) => ~v.neg)                                   \* canonical zero

MagCmp(a, b) == IF a[1] # b[1] THEN (IF a[1] < b[1] THEN -1 ELSE 1)
                ELSE IF a[2] # b[2] THEN (IF a[2] < b[2] THEN -1 ELSE 1)
                ELSE IF a[3] # b[3] THEN (IF a[3] < b[3] THEN -1 ELSE 1) ELSE 0
\* sign of (a - b)
ICmp(a, b) == IF a.neg /\ ~b.neg THEN -1
              ELSE IF ~a.neg /\ b.neg THEN 1
              ELSE IF a.neg THEN MagCmp(b.m, a.m) ELSE MagCmp(a.m, b.m)

\* magnitude plus a small integer d (result must stay >= 0)
MagAdd(m, d) == LET t0 == m[3] + d
                    c0 == IF t0 < 0 THEN -1 ELSE IF t0 >= B THEN 1 ELSE 0
                    t1 == m[2] + c0
                    c1 == IF t1 < 0 THEN -1 ELSE IF t1 >= B THEN 1 ELSE 0
                IN <<m[1] + c1, t1 - c1 * B, t0 - c0 * B>>

Pow2Mag(n) == IF n < 24 THEN <<0, 0, 2^n>> ELSE IF n < 48 THEN <<0, 2^(n - 24), 0>> ELSE <<2^(n - 48), 0, 0>>
Pos(m) == [neg |-> FALSE, m |-> m]
Neg(m) == [neg |-> m # <<0, 0, 0>>, m |-> m]

IntTypes == {"schar", "uchar", "ushort", "int", "uint", "long", "ulong", "llong", "ullong"}
Bits(T) == CASE T \in {"schar", "uchar"} -> 8 [] T = "ushort" -> 16 [] T \in {"int", "uint"} -> 32 [] OTHER -> 64
Signed(T) == T \in {"schar", "int", "long", "llong"}
TMin(T) == IF Signed(T) THEN Neg(Pow2Mag(Bits(T) - 1)) ELSE Zero
TMax(T) == Pos(MagAdd(Pow2Mag(IF Signed(T) THEN Bits(T) - 1 ELSE Bits(T)), -1))
InRange(T, v) == ICmp(TMin(T), v) <= 0 /\ ICmp(v, TMax(T)) <= 0

\* value modulo 256 of the two's-complement pattern (the meaning of `& 0xff')
Mod256(v) == LET r == v.m[3] % 256 IN IF v.neg THEN (256 - r) % 256 ELSE r

\* the bit pattern of a non-negative value ANDed limb-wise
MagAnd(a, b) == <<a[1] & b[1], a[2] & b[2], a[3] & b[3]>>

-----------------------------------------------------------------------------
(* Extended-real doubles *)
DNaN == [c |-> "nan", neg |-> FALSE, k |-> 0, e |-> 0]
DInf(neg) == [c |-> "inf", neg |-> neg, k |-> 0, e |-> 0]
DFin(neg, k, e) == [c |-> "fin", neg |-> neg, k |-> k, e |-> IF k = 0 THEN 0 ELSE e]
IsNaN(d) == d.c = "nan"
IsInf(d) == d.c = "inf"
IsFin(d) == d.c = "fin"
DIsZero(d) == d.c = "fin" /\ d.k = 0
SK(d) == IF d.neg THEN 0 - d.k ELSE d.k                 \* signed multiple of 2^e
\* A row is well formed when its finite non-zero values either share the exponent (differences and
\* comparisons are then exact integer arithmetic on k), or the tolerance is zero/infinite/unspecified
\* and exponents of distinct scales are so far apart that values of different scales are never equal.
NonZeroFin(d) == d.c = "fin" /\ d.k # 0
WellFormedDbl(x, y, t) ==
    LET F == { d \in {x, y, t} : NonZeroFin(d) } IN
    \/ \A d1, d2 \in F : d1.e = d2.e
    \/ /\ ~NonZeroFin(t)
       /\ \A d1, d2 \in F : d1.e = d2.e \/ d1.e - d2.e > 40 \/ d2.e - d1.e > 40
SameValue(x, y) == \/ (IsInf(x) /\ IsInf(y) /\ x.neg = y.neg)
                   \/ (DIsZero(x) /\ DIsZero(y))                      \* -0 and +0 are the same value
                   \/ (NonZeroFin(x) /\ NonZeroFin(y) /\ x.e = y.e /\ x.neg = y.neg /\ x.k = y.k)
TolNonNegative(t) == (IsInf(t) /\ ~t.neg) \/ DIsZero(t) \/ (NonZeroFin(t) /\ ~t.neg)
\* |x - y| <= t in the extended reals (x, y not NaN, t non-negative)
DiffWithin(x, y, t) ==
    IF IsInf(t) THEN TRUE                                              \* every difference is <= +infinity
    ELSE IF IsInf(x) \/ IsInf(y) THEN FALSE                            \* infinite difference, finite tolerance
    ELSE IF DIsZero(t) THEN SameValue(x, y)
    ELSE LET ex == IF NonZeroFin(x) THEN x.e ELSE t.e
             ey == IF NonZeroFin(y) THEN y.e ELSE t.e
             d == SK(x) - SK(y) IN
         \* well-formed rows: finite non-zero x, y share t's exponent
         IF ex = t.e /\ ey = t.e THEN (IF d < 0 THEN 0 - d ELSE d) <= t.k ELSE FALSE
\* The predicate of DOUBLES_EQUAL for a non-negative tolerance, as the property states it
DblEqual(x, y, t) == /\ ~IsNaN(x) /\ ~IsNaN(y)
                     /\ (SameValue(x, y) \/ DiffWithin(x, y, t))

-----------------------------------------------------------------------------
(* Strings / blocks *)
NULLS == <<-1>>
IsNull(s) == s = NULLS

-----------------------------------------------------------------------------
(* Check kinds.  Integer equality kinds: operand type and predicate class. *)
IntKinds == [
    LONGS_EQUAL |-> "long", UNSIGNED_LONGS_EQUAL |-> "ulong", LONGLONGS_EQUAL |-> "llong",
    UNSIGNED_LONGLONGS_EQUAL |-> "ullong", SIGNED_BYTES_EQUAL |-> "schar", BYTES_EQUAL |-> "int",
    ENUMS_EQUAL_INT |-> "int", ENUMS_EQUAL_TYPE_ULONG |-> "ulong", CHECK_EQUAL_ZERO |-> "int",
    CHECK_EQUAL_int |-> "int", CHECK_EQUAL_uint |-> "uint", CHECK_EQUAL_long |-> "long", CHECK_EQUAL_ulong |-> "ulong",
    CHECK_EQUAL_llong |-> "llong", CHECK_EQUAL_ullong |-> "ullong", CHECK_EQUAL_bool |-> "int",
    CHECK_EQUAL_C_INT |-> "int", CHECK_EQUAL_C_UINT |-> "uint", CHECK_EQUAL_C_LONG |-> "long", CHECK_EQUAL_C_ULONG |-> "ulong",
    CHECK_EQUAL_C_LONGLONG |-> "llong", CHECK_EQUAL_C_ULONGLONG |-> "ullong", CHECK_EQUAL_C_CHAR |-> "schar",
    CHECK_EQUAL_C_UBYTE |-> "uchar", CHECK_EQUAL_C_SBYTE |-> "schar", CHECK_EQUAL_C_BOOL |-> "int" ]
IntKindNames == DOMAIN IntKinds
\* bool-valued operands: the integer denotes a truth value (non-zero = true)
BoolPredKinds == {"CHECK_EQUAL_C_BOOL", "CHECK_EQUAL_bool"}
IntHolds(k, x, y) == CASE k = "BYTES_EQUAL" -> Mod256(x) = Mod256(y)
                       [] k \in BoolPredKinds -> IsZero(x) = IsZero(y)
                       [] OTHER -> x = y                                   \* exact values: structural equality

RelOps == {"==", "!=", "<", ">", "<=", ">="}
RelHolds(rel, x, y) == LET c == ICmp(x, y) IN
    CASE rel = "==" -> c = 0 [] rel = "!=" -> c # 0 [] rel = "<" -> c < 0
      [] rel = ">" -> c > 0 [] rel = "<=" -> c <= 0 [] rel = ">=" -> c >= 0

BoolKinds == {"CHECK", "CHECK_TRUE", "CHECK_FALSE", "CHECK_C"}
BoolHolds(k, x) == IF k = "CHECK_FALSE" THEN IsZero(x) ELSE ~IsZero(x)

FailKinds == {"FAIL", "FAIL_TEST", "FAIL_C", "FAIL_TEXT_C"}
ThrowKinds == {"CHECK_THROWS"}

StrKinds == {"STRCMP_EQUAL", "STRNCMP_EQUAL", "STRCMP_NOCASE_EQUAL", "STRCMP_CONTAINS", "STRCMP_NOCASE_CONTAINS",
             "CHECK_EQUAL_C_STRING", "CHECK_EQUAL_SimpleString"}
\* x = expected, y = actual; NULL equals only NULL
StrHolds(k, x, y, n) ==
    IF IsNull(x) \/ IsNull(y) THEN IsNull(x) /\ IsNull(y)
    ELSE CASE k \in {"STRCMP_EQUAL", "CHECK_EQUAL_C_STRING", "CHECK_EQUAL_SimpleString"} -> x = y
           [] k = "STRNCMP_EQUAL" -> TakeN(x, n) = TakeN(y, n)
           [] k = "STRCMP_NOCASE_EQUAL" -> EqNoCase(x, y)
           [] k = "STRCMP_CONTAINS" -> HasSub(y, x)                         \* actual contains expected
           [] k = "STRCMP_NOCASE_CONTAINS" -> HasSubNoCase(y, x)

MemKinds == {"MEMCMP_EQUAL", "CHECK_EQUAL_C_MEMCMP"}
\* a zero-length block always matches; NULL equals only NULL; else the first n bytes agree
MemHolds(x, y, n) ==
    IF n = 0 THEN TRUE
    ELSE IF IsNull(x) \/ IsNull(y) THEN IsNull(x) /\ IsNull(y)
    ELSE TakeN(x, n) = TakeN(y, n)
MemWellFormed(x, y, n) == (IsNull(x) \/ n <= Len(x)) /\ (IsNull(y) \/ n <= Len(y))

BitsKinds == {"BITS_EQUAL", "CHECK_EQUAL_C_BITS"}
BitsHolds(x, y, mask) == MagAnd(x.m, mask.m) = MagAnd(y.m, mask.m)

PtrKinds == {"POINTERS_EQUAL", "FUNCTIONPOINTERS_EQUAL", "CHECK_EQUAL_C_POINTER", "CHECK_EQUAL_ptr"}

DblKinds == {"DOUBLES_EQUAL", "CHECK_EQUAL_C_REAL", "CHECK_EQUAL_double"}
\* CHECK_EQUAL on doubles names plain equality of values (NaN equals nothing)
DblHolds(k, x, y, t) == IF k = "CHECK_EQUAL_double" THEN ~IsNaN(x) /\ ~IsNaN(y) /\ SameValue(x, y)
                        ELSE DblEqual(x, y, t)

Ops == {"int", "cmp", "bool", "fail", "throws", "str", "mem", "bits", "ptr", "dbl"}

\* Is the verdict fixed by the property statement?
Specified(c) == IF c.op = "dbl" /\ c.k # "CHECK_EQUAL_double"
                THEN IsNaN(c.x) \/ IsNaN(c.y) \/ TolNonNegative(c.t)      \* NaN operands: never equal, whatever the tolerance
                ELSE TRUE

Holds(c) == CASE c.op = "int" -> IntHolds(c.k, c.x, c.y)
              [] c.op = "cmp" -> RelHolds(c.rel, c.x, c.y)
              [] c.op = "bool" -> BoolHolds(c.k, c.x)
              [] c.op = "fail" -> FALSE
              [] c.op = "throws" -> c.x = "expected"
              [] c.op = "str" -> StrHolds(c.k, c.x, c.y, c.n)
              [] c.op = "mem" -> MemHolds(c.x, c.y, c.n)
              [] c.op = "bits" -> BitsHolds(c.x, c.y, c.mask)
              [] c.op = "ptr" -> c.x = c.y
              [] c.op = "dbl" -> DblHolds(c.k, c.x, c.y, c.t)

\* the calls the specification talks about (operands inside the operand types of the macro)
WellFormed(c) == CASE c.op = "int" -> c.k \in IntKindNames /\ IsIntVal(c.x) /\ IsIntVal(c.y)
                                      /\ InRange(IntKinds[c.k], c.x) /\ InRange(IntKinds[c.k], c.y)
                   [] c.op = "cmp" -> c.rel \in RelOps /\ c.t \in IntTypes /\ IsIntVal(c.x) /\ IsIntVal(c.y)
                                      /\ InRange(c.t, c.x) /\ InRange(c.t, c.y)
                   [] c.op = "bool" -> c.k \in BoolKinds /\ IsIntVal(c.x) /\ InRange("int", c.x)
                   [] c.op = "fail" -> c.k \in FailKinds
                   [] c.op = "throws" -> c.k \in ThrowKinds /\ c.x \in {"expected", "other", "none"}
                   [] c.op = "str" -> c.k \in StrKinds /\ c.n \in Nat
                   [] c.op = "mem" -> c.k \in MemKinds /\ c.n \in Nat /\ MemWellFormed(c.x, c.y, c.n)
                   [] c.op = "bits" -> c.k \in BitsKinds /\ c.w \in {1, 2, 4, 8} /\ ~c.x.neg /\ ~c.y.neg /\ ~c.mask.neg
                                       /\ IsIntVal(c.x) /\ IsIntVal(c.y) /\ IsIntVal(c.mask)
                   [] c.op = "ptr" -> c.k \in PtrKinds /\ c.x \in 0..2 /\ c.y \in 0..2
                   [] c.op = "dbl" -> c.k \in DblKinds /\ WellFormedDbl(c.x, c.y, c.t)

-----------------------------------------------------------------------------
(* The accounting state machine *)
VARIABLES checks,     \* TestResult check counter
          failures,   \* TestResult failure counter
          executed,   \* ghost: checks executed
          passcmp,    \* ghost: relational comparisons that passed
          mustfail,   \* ghost: executed checks whose (specified) predicate was false
          mayfail     \* ghost: executed checks whose verdict the statement leaves open
vars == <<checks, failures, executed, passcmp, mustfail, mayfail>>

Init == checks = 0 /\ failures = 0 /\ executed = 0 /\ passcmp = 0 /\ mustfail = 0 /\ mayfail = 0

FailSet(c) == IF Specified(c) THEN {~Holds(c)} ELSE BOOLEAN
Counted(c, failed) == IF c.op = "cmp" /\ ~failed THEN 0 ELSE 1

\* one check executed inside a test
Do(c) == /\ WellFormed(c)
         /\ \E f \in FailSet(c) :
              /\ failures' = failures + (IF f THEN 1 ELSE 0)
              /\ checks' = checks + Counted(c, f)
              /\ passcmp' = passcmp + (IF c.op = "cmp" /\ ~f THEN 1 ELSE 0)
         /\ executed' = executed + 1
         /\ mustfail' = mustfail + (IF Specified(c) /\ ~Holds(c) THEN 1 ELSE 0)
         /\ mayfail' = mayfail + (IF Specified(c) THEN 0 ELSE 1)

\* a fresh TestResult
Reset == checks' = 0 /\ failures' = 0 /\ executed' = 0 /\ passcmp' = 0 /\ mustfail' = 0 /\ mayfail' = 0

-----------------------------------------------------------------------------
(* Properties (C03) *)
TypeOK == checks \in Nat /\ failures \in Nat /\ executed \in Nat
CountedOnce == checks = executed - passcmp                       \* one per check, never more; passing comparisons excepted
FailIffFalse == mustfail <= failures /\ failures <= mustfail + mayfail
FailuresAreChecks == failures <= checks                          \* every failure is a counted check
=============================================================================
