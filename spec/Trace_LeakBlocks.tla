---------------------------- MODULE Trace_LeakBlocks ----------------------------
(* Trace validation for C05/C06: the ndjson log recorded from the real allocation entry points (one line per
   call with its arguments and what was observed) must be a behaviour of LeakBlocks.  Bound observations:
   ret    "ptr" | "null" | "badalloc" | "void"              what the call returned
   rep    misuse category passed to the MemoryLeakFailure callback ("none" when it was not called)
   n      calloc: leading zero bytes; realloc: leading bytes equal to the old content; strdup/strndup: length of the copy
   over   release: every user byte differed from what the program stored when the memory reached the underlying allocator
   live   totalMemoryLeaks(all)
   intact every other live block (user bytes and guard) is byte-for-byte what the program stored
   clean  no byte of the arena outside the blocks handed out was written, and the allocator seam saw only its own pointers
   inside/aligned (successful requests) the user range lies in the underlying block obtained for this call; 16-byte aligned
   `under' and `nreq' (size and number of underlying requests) are diagnostics: not bound, predicted by Predict. *)
EXTENDS LeakBlocks, Json, IOUtils
VARIABLE l
tvars == <<vars, l>>
Tr == ndJsonDeserialize(IOEnv.TRACE)
E == Tr[l]
Is(op) == l <= Len(Tr) /\ Tr[l].op = op /\ l' = l + 1

\* "yields NULL (or bad_alloc)": which of the two is fixed by the entry point (LeakBlocks!FailRet) - the forms of operator new that are declared
\* to throw answer bad_alloc (a new-expression does not test their result: a NULL from them is a constructor run at address 0), the nothrow
\* forms and the malloc family answer NULL.  The harness is built with exceptions enabled.
ObsOK(r, b) == /\ E.ret = r.ret /\ E.rep = r.rep /\ E.n = r.n /\ E.over = r.over
               /\ E.live = Cardinality({ s \in Slots : b[s] # NoBlk })
               /\ E.intact /\ E.clean
               /\ r.ret = "ptr" => (E.inside /\ E.aligned)

Call == \/ Is("alloc") /\ Alloc(E.ep, E.s, E.sz, E.fault)
        \/ Is("calloc") /\ Calloc(E.s, E.sz, E.sz2, E.fault)
        \/ Is("strdup") /\ Strdup(E.s, E.sz.n, E.fault)
        \/ Is("strndup") /\ Strndup(E.s, E.sz.n, E.sz2, E.fault)
        \/ Is("realloc") /\ IF E.s = -1 THEN ReallocNull(E.s2, E.sz, E.fault)
                            ELSE (Realloc(E.s, E.s2, E.sz, E.fault) \/ ReallocUnknown(E.s))
        \/ Is("write") /\ Write(E.s, E.pos, E.val)
        \/ Is("release") /\ IF E.s = -1 THEN ReleaseNull(E.ep) ELSE IF E.s = -2 THEN ReleaseForeign(E.ep) ELSE Release(E.ep, E.s, E.pos)
        \/ Is("typecheck") /\ SetTypeCheck(E.val = 1)
        \/ Is("period") /\ SetPeriod(E.var)
        \/ Is("setalloc") /\ SetAlloc(E.ep, E.var)
TInit == Init /\ l = 1
TNext == Call /\ ObsOK(res', blk')
\* executions are concatenated with reset lines (fresh detector, default allocators, empty arena)
TReset == Is("reset") /\ blk' = [s \in Slots |-> NoBlk] /\ typeCheck' = TRUE /\ cur' = [f \in Families |-> "plain"]
          /\ res' = Res("void", "none", -1, "na") /\ last' = [op |-> "init"]
TSpec == TInit /\ [][TNext \/ TReset]_tvars
Accepted == TLCGet("stats").diameter - 1 = Len(Tr)
TInv == /\ TypeOK /\ LayoutSound /\ FailsIffUnsatisfiable /\ FailureChangesNothing /\ SuccessAddsOne /\ RequestsAreSilent
        /\ ReportExact /\ WritesAreSilent /\ Poisoned

\* diagnostics: the same walk without binding the observations, printing what the specification predicts
PSpec == TInit /\ [][Call \/ TReset]_tvars
LastSize == IF "sz" \in DOMAIN Tr[l - 1] THEN Tr[l - 1].sz ELSE S(0)
Predict == (l > 1 /\ l - 1 >= atoi(IOEnv.FROM_LINE_N)) =>
              PrintT(<<"BEH", ToJson([line |-> l - 1, ret |-> res.ret, rep |-> res.rep, n |-> res.n, over |-> res.over, live |-> NLive,
                                      typeCheck |-> typeCheck, cur |-> cur,
                                      underlying_request_if_new_or_malloc |-> <<Total(LastSize, FALSE), Total(LastSize, TRUE)>>])>>)
=============================================================================
