---------------------------- MODULE Trace_SepProcess ----------------------------
(* Trace validation for C11.  The log is written by harness/sepproc.cpp, one line per step of the parent:
     begin (n, tty), teststart (i, act, arg), fork (res, nfail), wait (out, arg, nfail), endtest (msgs, waits, conts, left),
     end (total, ran, failed)
   where fork/wait lines carry the outcome the parent was given (scripted by the stubs, or observed from the real
   kernel) and `nfail' = failures recorded for the test before that call; `msgs' are the failures recorded for the test,
   classified from their text (kind "other" = unknown wording, only counted); `conts' = SIGCONTs the harmless child
   received (-1 = not observable, real forks).  The log must be a behaviour of SepProcess: every parent step allowed,
   the outcomes compatible with the child's behaviour (real forks), and every observation equal to the specification's. *)
EXTENDS SepProcess, Json, IOUtils
VARIABLE l
tvars == <<vars, l>>
Tr == ndJsonDeserialize(IOEnv.TRACE)
E == Tr[l]
Is(op) == l <= Len(Tr) /\ Tr[l].op = op /\ l' = l + 1

SoFar == E.nfail = Len(tfail)            \* failures recorded before this call
MsgOK(m, f) == m.kind \in {"other", f.kind} /\ (m.kind = "signal" => m.arg = f.arg)
EndObs == /\ Len(E.msgs) = Len(tfail) /\ \A i \in 1..Len(tfail) : MsgOK(E.msgs[i], tfail[i])
          /\ E.waits = waits /\ E.conts \in {-1, conts}
          /\ E.left = 0                      \* no child left behind un-reaped (running, stopped or zombie)

WaitBy(o, a) == \/ o = "eintr" /\ WaitEintr
                \/ o = "error" /\ WaitError
                \/ o = "exited" /\ WaitExited(a)
                \/ o = "signaled" /\ WaitSignaled(a)
                \/ o = "stopped" /\ WaitStopped(a)
ForkBy(r) == (r = "ok" /\ ForkOk) \/ (r = "fail" /\ ForkFail)

TInit == Init /\ l = 1
TNext == \/ Is("begin") /\ Begin(E.n, E.tty)
         \/ Is("teststart") /\ StartTest([act |-> E.act, arg |-> E.arg]) /\ E.i = ti'
         \/ Is("fork") /\ SoFar /\ ForkBy(E.res)
         \/ Is("wait") /\ SoFar /\ WaitBy(E.out, E.arg)
         \/ Is("endtest") /\ EndTest /\ EndObs
         \/ Is("end") /\ End /\ E.total = total /\ E.ran = ran /\ E.failed = (total > 0)
TReset == /\ Is("reset") /\ pc' = "idle" /\ n' = 0 /\ ti' = 0 /\ beh' = NoBeh /\ retries' = 0 /\ stops' = 0 /\ waits' = 0
          /\ conts' = 0 /\ tfail' = <<>> /\ ev' = <<>> /\ total' = 0 /\ ran' = 0 /\ plan' = AnyPlan /\ tty' = TRUE
TSpec == TInit /\ [][TNext \/ TReset]_tvars
Accepted == TLCGet("stats").diameter - 1 = Len(Tr)
TInv == OncePerEvent /\ EventsAreFailures /\ StopsResumed /\ WaitsBounded /\ ChildNotLost /\ AllRun /\ RunCounts

\* diagnostics: the same walk with the observations unbound, printing what the specification has after each line
PNext == \/ Is("begin") /\ Begin(E.n, E.tty)
         \/ Is("teststart") /\ StartTest([act |-> E.act, arg |-> E.arg])
         \/ Is("fork") /\ ForkBy(E.res)
         \/ Is("wait") /\ WaitBy(E.out, E.arg)
         \/ Is("endtest") /\ EndTest
         \/ Is("end") /\ End
PSpec == TInit /\ [][PNext \/ TReset]_tvars
Predict == (l > 1 /\ l - 1 >= atoi(IOEnv.FROM_LINE_N)) =>
              PrintT(<<"BEH", ToJson([line |-> l - 1, pc |-> pc, test |-> ti, failures |-> tfail, waits |-> waits, conts |-> conts,
                                      retries |-> retries, total |-> total, ran |-> ran, childStillOwes |-> plan])>>)
=============================================================================
