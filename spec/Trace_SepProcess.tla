---------------------------- MODULE Trace_SepProcess ----------------------------
(* Trace validation for C11.  The log is written by harness/sepproc.cpp, one line per call on the registry and per step of
   the parent:
     addtest (kind), setsep, setri,
     begin (n, tty), teststart (i, kind, act, arg, rep), fork (res, nfail), wait (out, arg, nfail),
     endtest (msgs, waits, conts, left, inrunner), end (total, ran, ign, failed)
   where fork/wait lines carry the outcome the parent was given (scripted by the stubs, or observed from the real
   kernel) and `nfail' = failures recorded for the test before that call; `msgs' are the failures recorded for the test,
   classified from their text (kind "other" = unknown wording, only counted); `conts' = SIGCONTs the harmless child
   received (-1 = not observable, real forks); `n' = tests the registry holds at the start of the run, `kind' = kind of the
   test the registry started (from its class), `rep' = failures the plugins' pre / post actions report about the test, `inrunner' = some code of the test (plugin action, setup, body, teardown)
   executed in the runner process, `ign' = tests counted as ignored.  The log must be a behaviour of SepProcess: every parent step allowed,
   the outcomes compatible with the child's behaviour (real forks), and every observation equal to the specification's. *)
EXTENDS SepProcess, Json, IOUtils
VARIABLE l
tvars == <<vars, l>>
Tr == ndJsonDeserialize(IOEnv.TRACE)
E == Tr[l]
Is(op) == l <= Len(Tr) /\ Tr[l].op = op /\ l' = l + 1

SoFar == E.nfail = Len(tfail)            \* failures recorded before this call
MsgOK(m, f) == m.kind \in {"other", f.kind} /\ (m.kind = "signal" => m.arg = f.arg)
EndObs == /\ Len(E.msgs) = Len(tfail) /\ \A i \in 1..Len(tfail) : MsgOK(E.msgs[i], tfail[i])
          /\ E.waits = waits /\ E.conts \in {-1, conts}
          /\ E.left = 0                      \* no child left behind un-reaped (running, stopped or zombie)
          /\ E.inrunner = (where = "runner") \* where the test executed: never in the runner in a separate-process run

WaitBy(o, a) == \/ o = "eintr" /\ WaitEintr
                \/ o = "error" /\ WaitError
                \/ o = "exited" /\ WaitExited(a)
                \/ o = "signaled" /\ WaitSignaled(a)
                \/ o = "stopped" /\ WaitStopped(a)
ForkBy(r) == (r = "ok" /\ ForkOk) \/ (r = "fail" /\ ForkFail)

TInit == Init /\ l = 1
TNext == \/ Is("addtest") /\ AddTest(E.kind)
         \/ Is("setsep") /\ (IF sep THEN UNCHANGED vars ELSE SetSep)
         \/ Is("setri") /\ (IF ri THEN UNCHANGED vars ELSE SetRunIgnored)
         \/ Is("begin") /\ Begin(E.tty) /\ E.n = Len(tests)
         \/ Is("teststart") /\ StartTest([act |-> E.act, arg |-> E.arg, rep |-> E.rep]) /\ E.i = ti' /\ E.kind = tests[ti']
         \/ Is("fork") /\ SoFar /\ ForkBy(E.res)
         \/ Is("wait") /\ SoFar /\ WaitBy(E.out, E.arg)
         \/ Is("endtest") /\ EndTest /\ EndObs
         \/ Is("end") /\ End /\ E.total = total /\ E.ran = ran /\ E.ign = ign /\ E.failed = (total > 0)
TReset == /\ Is("reset") /\ pc' = "idle" /\ sep' = FALSE /\ ri' = FALSE /\ tests' = <<>> /\ runs' = 0 /\ where' = "none" /\ ign' = 0 /\ n' = 0 /\ ti' = 0 /\ beh' = NoBeh /\ retries' = 0 /\ stops' = 0 /\ waits' = 0
          /\ conts' = 0 /\ tfail' = <<>> /\ ev' = <<>> /\ total' = 0 /\ ran' = 0 /\ plan' = AnyPlan /\ tty' = TRUE
TSpec == TInit /\ [][TNext \/ TReset]_tvars
Accepted == TLCGet("stats").diameter - 1 = Len(Tr)
TInv == OncePerEvent /\ EventsAreFailures /\ Contained /\ ChildFailuresCount /\ StopsResumed /\ WaitsBounded /\ ChildNotLost /\ AllRun /\ RunCounts

\* diagnostics: the same walk with the observations unbound, printing what the specification has after each line
PNext == \/ Is("addtest") /\ AddTest(E.kind)
         \/ Is("setsep") /\ (IF sep THEN UNCHANGED vars ELSE SetSep)
         \/ Is("setri") /\ (IF ri THEN UNCHANGED vars ELSE SetRunIgnored)
         \/ Is("begin") /\ Begin(E.tty)
         \/ Is("teststart") /\ StartTest([act |-> E.act, arg |-> E.arg, rep |-> E.rep])
         \/ Is("fork") /\ ForkBy(E.res)
         \/ Is("wait") /\ WaitBy(E.out, E.arg)
         \/ Is("endtest") /\ EndTest
         \/ Is("end") /\ End
PSpec == TInit /\ [][PNext \/ TReset]_tvars
Predict == (l > 1 /\ l - 1 >= atoi(IOEnv.FROM_LINE_N)) =>
              PrintT(<<"BEH", ToJson([line |-> l - 1, pc |-> pc, sep |-> sep, runIgnored |-> ri, tests |-> tests, run |-> runs, test |-> ti,
                                      testExecutesIn |-> where, failures |-> tfail, waits |-> waits, conts |-> conts,
                                      retries |-> retries, total |-> total, ran |-> ran, childStillOwes |-> plan])>>)
=============================================================================
