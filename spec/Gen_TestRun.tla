---------------------------- MODULE Gen_TestRun ----------------------------
(* Program generation for the replay leg of C01/C02/C17: TestRun's own state machine chooses a program
   (registry, configuration, scripts lazily, shuffle draws as the code's Fisher-Yates consumes them);
   when the run is done the program is printed as JSON and executed on the real runner. *)
EXTENDS MC_TestRun, Json
VARIABLES draws, fin
gvars == <<vars, draws, fin>>

\* UtestShellPointerArray::shuffle: for i = n-1 down to 1: j = rand() % (i+1); swap(i, j)   (0-based)
Swap(s, i, j) == [s EXCEPT ![i] = s[j], ![j] = s[i]]
RECURSIVE FY(_, _, _)
FY(s, i, d) == IF i < 1 THEN s ELSE FY(Swap(s, i + 1, d[Len(s) - i] + 1), i - 1, d)
DrawSeqs(n) == IF n <= 1 THEN {<<>>} ELSE { d \in [1..(n - 1) -> 0..(n - 1)] : \A x \in 1..(n - 1) : d[x] <= n - x }

GInit == MCInit /\ draws = <<>> /\ fin = FALSE
GRep == /\ pc = "repBegin" /\ rep < cfg.repeat /\ ~fin
        /\ IF cfg.shuffle
           THEN \E d \in DrawSeqs(Len(order)) : RepBegin(FY(order, Len(order) - 1, d)) /\ draws' = draws \o d
           ELSE RepBegin(order) /\ draws' = draws
        /\ UNCHANGED fin
GStep == ~fin /\ (Step \/ \E s \in Scripts : ChooseScript(s)) /\ UNCHANGED <<draws, fin>>
GEnd == pc = "done" /\ ~fin /\ fin' = TRUE /\ UNCHANGED <<vars, draws>>
GNext == GRep \/ GStep \/ GEnd
GSpec == GInit /\ [][GNext]_gvars
Dump == fin => PrintT(<<"BEH", ToJson([reg |-> reg, cfg |-> cfg, draws |-> draws,
                                       script |-> [i \in 1..Len(reg) |-> IF script[i] = Unset THEN OkScript ELSE script[i]]])>>)
=============================================================================
