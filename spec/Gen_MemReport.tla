---------------------------- MODULE Gen_MemReport ----------------------------
(* a run = a registry in the default order (tests of a group consecutive); each test's group and operations are chosen freely *)
EXTENDS MemReport, Json
CONSTANT D
VARIABLES h, done
gvars == <<vars, h, done>>
GInit == Init /\ h = <<>> /\ done = FALSE
\* the generator only records the tests; "next group" is filled in when the registry is built
GStep == /\ Len(h) < D /\ UNCHANGED done
         /\ \E g \in Groups, ops \in OpSeqs, ng \in Groups \cup {""} :
               /\ (h # <<>> /\ h[Len(h)].nextg # "") => g = h[Len(h)].nextg
               /\ (h # <<>> /\ h[Len(h)].nextg = "") => FALSE
               /\ RunTest(g, ops, ng) /\ h' = Append(h, [g |-> g, ops |-> ops, nextg |-> ng])
GEnd == h # <<>> /\ h[Len(h)].nextg = "" /\ ~done /\ done' = TRUE /\ UNCHANGED <<vars, h>>
GSpec == GInit /\ [][GStep \/ GEnd]_gvars
Dump == done => PrintT(<<"BEH", ToJson(h)>>)
=============================================================================
