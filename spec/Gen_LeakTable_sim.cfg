SPECIFICATION GSpec
CONSTANTS
  Addrs = {0, 3, 6, 9, 1, 4, 2, 5}
  P = 3
  MaxSeq = 30
  Kinds = {"new", "malloc"}
  Sizes = {1, 8, 17}
  MaxStage = 2
  D = 24
INVARIANTS Dump
CHECK_DEADLOCK FALSE
