---------------------------- MODULE MC_Mock ----------------------------
(* Constant sets for model checking / generating Mock (TLC configuration files cannot spell records). *)
EXTENDS Mock
I1 == MkInt("int", P(0, 0, 0, 1))
I2 == MkInt("int", P(0, 0, 0, 2))
L1 == MkInt("long int", P(0, 0, 0, 1))
Vals2 == {I1, I2}
Vals3 == {I1, I2, L1}            \* L1 equals I1 by value: two spellings of one parameter value
Rets1 == {I1}
Rets2 == {NoVal, I1}
Rets3 == {NoVal, I1, I2}
Raw1 == {[ty |-> "raw", data |-> <<1>>]}
Raw2 == {[ty |-> "raw", data |-> <<1>>], [ty |-> "raw", data |-> <<2, 2>>]}
NoData == {}
GetValue == {[g |-> "value", od |-> FALSE, d |-> NoVal]}
S1 == [t |-> "const char*", s |-> "a"]
B1 == [t |-> "bool", b |-> TRUE]
U1 == MkInt("unsigned int", P(0, 0, 0, 1))
N1 == MkInt("int", N(0, 0, 0, 1))
RetsTyped == {NoVal, I1, N1, U1, S1, B1}
GetTyped == GetValue \cup {[g |-> "int", od |-> FALSE, d |-> NoVal], [g |-> "uint", od |-> FALSE, d |-> NoVal],
                            [g |-> "long", od |-> TRUE, d |-> MkInt("long int", P(0, 0, 0, 7))], [g |-> "bool", od |-> FALSE, d |-> NoVal],
                            [g |-> "str", od |-> TRUE, d |-> S1]}
ScopesG == {""}
ScopesGS == {"", "s"}
=============================================================================
