---------------------------- MODULE MC_Mock ----------------------------
(* Constant sets for model checking / generating Mock (TLC configuration files cannot spell records). *)
EXTENDS Mock
I1 == MkInt("int", P(0, 0, 0, 1))
I2 == MkInt("int", P(0, 0, 0, 2))
L1 == MkInt("long int", P(0, 0, 0, 1))
Vals1 == {I1}
Vals2 == {I1, I2}
Vals3 == {I1, I2, L1}            \* L1 equals I1 by value: two spellings of one parameter value
Rets1 == {I1}
Rets2 == {NoVal, I1}
Rets3 == {NoVal, I1, I2}
Raw1 == {[ty |-> "raw", data |-> <<1>>]}
Raw2 == {[ty |-> "raw", data |-> <<1>>], [ty |-> "raw", data |-> <<2, 2>>]}
NoData == {}
GetValue == {[g |-> "value", od |-> FALSE, d |-> NoVal]}
S1 == [t |-> "const char*", s |-> "a"]
B1 == [t |-> "bool", b |-> TRUE]
U1 == MkInt("unsigned int", P(0, 0, 0, 1))
N1 == MkInt("int", N(0, 0, 0, 1))
RetsTyped == {NoVal, I1, N1, U1, S1, B1}
GetTyped == GetValue \cup {[g |-> "int", od |-> FALSE, d |-> NoVal], [g |-> "uint", od |-> FALSE, d |-> NoVal],
                            [g |-> "long", od |-> TRUE, d |-> MkInt("long int", P(0, 0, 0, 7))], [g |-> "bool", od |-> FALSE, d |-> NoVal],
                            [g |-> "str", od |-> TRUE, d |-> S1]}
\* objects of user types: content = two fields; the type names are ordinary names, some of which begin like a built-in type name
Ob(tn, a, b) == [t |-> "obj", tn |-> tn, c |-> <<a, b>>]
ValsObj1 == {Ob("intPair", 1, 1), Ob("intPair", 1, 2), Ob("intPair", 2, 1)}
ValsObjQ == {Ob("intPair", 1, 1), Ob("intPair", 1, 2)}
ValsObj2 == ValsObj1 \cup {Ob("boolean_flag", 1, 1), Ob("boolean_flag", 1, 2)}
\* objects with an identity: each content in an object of its own (id 0) and in a shared object (id 1) - an expectation and an
\* actual call may name the very same object, the same content in two objects, or different contents
ObI(tn, a, b, i) == [t |-> "obj", tn |-> tn, c |-> <<a, b>>, id |-> i]
ValsObjId == { ObI("intPair", c[1], c[2], i) : c \in {<<1, 1>>, <<1, 2>>, <<2, 1>>}, i \in {0, 1} }
ValsObjIdQ == { ObI("intPair", c[1], c[2], i) : c \in {<<1, 1>>, <<2, 1>>}, i \in {0, 1} }
CmpPlain == {"whole", "first"}
ValsMixed == {I1, Ob("intPair", 1, 1), Ob("intPair", 1, 2)}
Typed1 == {[ty |-> "intPair", data |-> <<42, 0, 0, 1>>]}
Typed2 == {[ty |-> "doubleBox", data |-> <<42, 0, 255, 1>>], [ty |-> "doubleBox", data |-> <<7, 8, 9, 10>>]}
DVals1 == {I1, B1, S1, Ob("intPair", 1, 2), Ob("boolean_flag", 2, 1), Ob("doubleBox", 3, 3), Ob("TypeA", 1, 1), Ob("unsigned int_t", 2, 2),
           Ob("const char*Name", 1, 3), Ob("void*Handle", 2, 3), Ob("long int64", 3, 1)}
\* doubles: expectations with tolerance 0 (exact), the default tolerance, a small positive, a negative and a -inf tolerance,
\* and actual values equal to the expected one, off by 1 unit (inside the default tolerance), by DefaultTolQ and by
\* DefaultTolQ + 1 units (the edge of the default tolerance); an actual value's own tolerance plays no role
Dbl(q, tol) == [t |-> "double", v |-> XFin(q), tol |-> tol]
DTols == {XFin(0), XFin(DefaultTolQ), XFin(1), XFin(0 - 1), XFin(0 - 8), XInf(TRUE)}
ValsDblExp == { Dbl(1024, tol) : tol \in DTols }
ValsDblAct == { Dbl(q, XFin(DefaultTolQ)) : q \in {1024, 1025, 1023, 1024 + DefaultTolQ, 1024 + DefaultTolQ + 1, 1024 - DefaultTolQ - 1} }
ValsDbl == ValsDblExp \cup ValsDblAct
ValsDblSmall == { Dbl(1024, tol) : tol \in {XFin(0), XFin(0 - 1)} } \cup { Dbl(q, XFin(DefaultTolQ)) : q \in {1024, 1025, 1030} }
NoKeys == {}
Keys2 == {"k", "cfg"}
\* object identities: none; live objects; live objects and the null pointer
NoObjs == {}
Objs1 == {1}
Objs12 == {1, 2}
ObjsN1 == {NullObj, 1}
ObjsN12 == {NullObj, 1, 2}
ScopesG == {""}
ScopesGST == {"", "s", "t"}
ScopesGS == {"", "s"}
=============================================================================
