------------------------------ MODULE SimpleStr ------------------------------
(***************************************************************************)
(* CppUTest SimpleString and its free helper functions (property C13).     *)
(*                                                                         *)
(* Layer 1 - values: every operation of the string type and of the helper  *)
(* functions is given by its textbook definition over byte sequences       *)
(* (Expected), using only the operators of Strings.tla - quantification    *)
(* over positions, never the loops of the implementation.                  *)
(* Layer 2 - objects: a pool of NObj string objects on which operations    *)
(* are applied in sequence (copy-assignment incl. self-assignment,         *)
(* s += s, in-place replace, padding of two objects, ...).                 *)
(* Ghost `live': the set of (id, size) buffers obtained from the string    *)
(* allocator and not yet returned.  Every call carries the list of         *)
(* allocator events it caused; a release is only possible for a live id    *)
(* with the size it was requested with (exactly once, same size); a pure   *)
(* function call leaves `live' as it found it; when every object has been  *)
(* destroyed `live' is empty.                                              *)
(*                                                                         *)
(* Meanings that are genuinely open are fixed here and said so:            *)
(*  count    = number of positions at which the pattern occurs             *)
(*             (overlapping occurrences count; "" occurs once per byte);   *)
(*  split    = pieces end WITH the delimiter, cut at non-overlapping       *)
(*             occurrences left to right, plus a last piece if the string  *)
(*             does not end with the delimiter; the empty delimiter splits *)
(*             into bytes; the empty string is one empty piece;            *)
(*  replace  = non-overlapping occurrences, left to right; "" -> no-op;    *)
(*  printable: bytes >= 0x80 are either kept or written \xHH (both are     *)
(*             accepted: the statement does not say which).                *)
(***************************************************************************)
EXTENDS Integers, Sequences, FiniteSets, TLC, Strings

CONSTANTS NObj        \* number of string objects in the pool

NULLS == <<-1>>
IsNull(s) == s = NULLS
NoObj == <<-2>>                                  \* an object slot that holds no object

-----------------------------------------------------------------------------
(* text constants as byte sequences *)
T_null == <<40, 110, 117, 108, 108, 41>>                                   \* "(null)"
T_true == <<116, 114, 117, 101>>
T_false == <<102, 97, 108, 115, 101>>
T_size == <<83, 105, 122, 101, 32, 61, 32>>                                \* "Size = "
T_hexc == <<32, 124, 32, 72, 101, 120, 67, 111, 110, 116, 101, 110, 116, 115, 32, 61, 32>>   \* " | HexContents = "
T_dots == <<32, 46, 46, 46>>                                               \* " ..."

HexU(d) == IF d < 10 THEN 48 + d ELSE 55 + d          \* upper-case hex digit
HexL(d) == IF d < 10 THEN 48 + d ELSE 87 + d          \* lower-case hex digit
RECURSIVE HexLower(_)
HexLower(n) == IF n < 16 THEN <<HexL(n)>> ELSE HexLower(n \div 16) \o <<HexL(n % 16)>>
Dec(n) == IF n < 0 THEN <<45>> \o Digits(0 - n) ELSE Digits(n)

\* printable(): \a \b \t \n \v \f \r as two characters, other control bytes (< 0x20, 0x7F) as \xHH
EscLetter(c) == <<97, 98, 116, 110, 118, 102, 114>>[c - 6]
HexEsc(c) == <<92, 120, HexU(c \div 16), HexU(c % 16)>>
Esc(c, hiEscaped) == IF c >= 7 /\ c <= 13 THEN <<92, EscLetter(c)>>
                     ELSE IF c < 32 \/ c = 127 THEN HexEsc(c)
                     ELSE IF c >= 128 /\ hiEscaped THEN HexEsc(c)
                     ELSE <<c>>
PrintableWith(s, hiEscaped) == FlattenSeqs([i \in 1..Len(s) |-> Esc(s[i], hiEscaped)])
Printables(s) == {PrintableWith(s, TRUE), PrintableWith(s, FALSE)}

\* subString / subStringFromTill
SubStr1(s, b) == DropN(s, b)
SubStr2(s, b, n) == TakeN(DropN(s, b), n)
SubFromTill(s, c1, c2) == LET b == Find(s, c1) IN
                          IF b = -1 THEN <<>>
                          ELSE LET e == FindFrom(s, b, c2) IN IF e = -1 THEN DropN(s, b) ELSE SubStr2(s, b, e - b)

\* padStringsToSameLength: the shorter one is padded on the left
PadLeft(s, n, c) == Rep(<<c>>, n - Len(s)) \o s
Padded(a, b, c) == LET n == Max2(Len(a), Len(b)) IN <<PadLeft(a, n, c), PadLeft(b, n, c)>>

\* first occurrence (0-based offset) of sub in s, -1 if none; the empty pattern is found at 0
StrStrPos(s, sub) == LET O == Occurrences(s, sub) IN IF O = {} THEN -1 ELSE (CHOOSE i \in O : \A j \in O : i <= j) - 1

\* Character classes of the "C" locale, over ALL byte values 0..255.  The C-library-like primitives and the operations
\* built on them classify single bytes (white space and digits in AtoI / AtoU, upper case in ToLower / lowerCase / the
\* comparisons without case, control bytes and the seven with a letter escape in printable).  The classes are listed
\* here extensionally, byte by byte, as <ctype.h> defines them; the operators (IsSpaceCh, IsDigitCh, LowerCh, Esc) use
\* range tests, and MC_SimpleStr (StrLaws) confronts the two for every byte.  Bytes >= 0x80 belong to no class.
SpaceBytes == {9, 10, 11, 12, 13, 32}          \* \t \n \v \f \r and the blank: isspace()
DigitBytes == {48, 49, 50, 51, 52, 53, 54, 55, 56, 57}
UpperBytes == {65, 66, 67, 68, 69, 70, 71, 72, 73, 74, 75, 76, 77, 78, 79, 80, 81, 82, 83, 84, 85, 86, 87, 88, 89, 90}
ControlBytes == 0..31 \cup {127}               \* iscntrl()
LetterEscBytes == {7, 8, 9, 10, 11, 12, 13}    \* \a \b \t \n \v \f \r

\* AtoI / AtoU: leading white space (every byte of SpaceBytes, in any number and order), optional sign (AtoI only),
\* maximal run of decimal digits; everything after it - any byte - is ignored
IsSpaceCh(c) == c = 32 \/ (c >= 9 /\ c <= 13)
IsDigitCh(c) == c >= 48 /\ c <= 57
SkipSpaces(s) == LET P == { i \in 1..Len(s) : ~IsSpaceCh(s[i]) } IN
                 IF P = {} THEN <<>> ELSE SubSeq(s, CHOOSE i \in P : \A j \in P : i <= j, Len(s))
RECURSIVE DigitRun(_, _)
DigitRun(s, acc) == IF s = <<>> \/ ~IsDigitCh(Head(s)) THEN acc ELSE DigitRun(Tail(s), 10 * acc + (Head(s) - 48))
DigitRunLen(s) == LET P == { i \in 1..Len(s) : ~IsDigitCh(s[i]) } IN IF P = {} THEN Len(s) ELSE (CHOOSE i \in P : \A j \in P : i <= j) - 1
AtoU(s) == DigitRun(SkipSpaces(s), 0)
AtoI(s) == LET t == SkipSpaces(s) IN
           IF t = <<>> THEN 0
           ELSE IF t[1] = 45 THEN 0 - DigitRun(Tail(t), 0)
           ELSE IF t[1] = 43 THEN DigitRun(Tail(t), 0) ELSE DigitRun(t, 0)
NumLen(s) == LET t == SkipSpaces(s) IN
             IF t = <<>> THEN 0 ELSE IF t[1] \in {43, 45} THEN DigitRunLen(Tail(t)) ELSE DigitRunLen(t)

\* StringFromBinary: "%02X" of every byte, separated by one space
HexByte(b) == <<HexU(b \div 16), HexU(b % 16)>>
BinaryText(bs) == IF bs = <<>> THEN <<>>
                  ELSE [k \in 1..(3 * Len(bs) - 1) |->
                          LET b == bs[((k - 1) \div 3) + 1] r == (k - 1) % 3 IN
                          IF r = 0 THEN HexU(b \div 16) ELSE IF r = 1 THEN HexU(b % 16) ELSE 32]
BinaryWithSize(bs) == T_size \o Digits(Len(bs)) \o T_hexc \o BinaryText(TakeN(bs, 128)) \o (IF Len(bs) > 128 THEN T_dots ELSE <<>>)

\* StringFromMaskedBits: most significant bit first, 'x' outside the mask, one space between bytes
MaskedBits(V, M, byteCount) ==
    LET nb == 8 * Min2(byteCount, 8)
        Ch(p) == IF p \in M THEN (IF p \in V THEN 49 ELSE 48) ELSE 120
        Piece(i) == LET p == nb - i IN IF p % 8 = 0 /\ p # 0 THEN <<Ch(p), 32>> ELSE <<Ch(p)>>      \* i-th character (1-based), bit p
    IN FlattenSeqs([i \in 1..nb |-> Piece(i)])

\* English ordinal suffix: 11th, 12th, 13th in every hundred
Ordinal(n) == Digits(n) \o (IF (n % 100) \in 11..13 THEN <<116, 104>>
                            ELSE CASE n % 10 = 1 -> <<115, 116>> [] n % 10 = 2 -> <<110, 100>> [] n % 10 = 3 -> <<114, 100>> [] OTHER -> <<116, 104>>)

ToSetOf(s) == { s[i] : i \in 1..Len(s) }

-----------------------------------------------------------------------------
(* Symbolic sizes.  Positions, lengths and counts are size_t values; TLC integers are 32-bit.  A call therefore    *)
(* carries, next to its numbers n1, n2, n3, a tuple hg of names: hg[k] = "" means "the number n_k", any other name *)
(* denotes a size_t value that no string in memory can reach (SIZE_MAX and its neighbours, the sign bit of the     *)
(* 64-bit word, the values just outside 32 and 31 bits).  Their textbook meaning is the same in every operation:   *)
(* a position beyond every string, a length / count larger than every string.  In the textbook operators (which    *)
(* only ever compare a size with a length, take a minimum, or index below it) they are all represented by one      *)
(* number `Beyond' that exceeds the length of every string the specification talks about (MC_SimpleStr checks      *)
(* that every number >= the length behaves like Beyond).  No arithmetic is ever done on a symbolic size.           *)
HugeNames == {"SIZE_MAX", "SIZE_MAX-1", "SIZE_MAX-2", "SIZE_MAX-3", "SIZE_MAX/2+1", "SIZE_MAX/2", "2^32", "2^32-1", "2^32+1", "2^31", "2^31+1"}
Beyond == 1000000000
SzOf(n, h) == IF h = "" THEN n ELSE Beyond
\* the (function, operand slot) pairs for which a size beyond every buffer is a legal argument:
\*   substring forms, findFrom: positions / amounts are clamped by definition;
\*   StrNCmp: like strncmp, reads stop at the terminators, n is only an upper bound;
\*   copyToBuffer: strlcpy-like, writes min(size - 1, length) bytes and the terminator - legal when the real buffer holds them;
\*   repeat: only of the empty string (the result is empty; any other string would not fit in memory);
\*   StringFromMaskedBits: the byte count is clamped to the width of unsigned long.
\* NOT legal (the C contract makes n bytes accessible): StrNCpy (may pad up to n), MemCmp, at().
HugeSlots(c) == CASE c.fn = "substr1" -> {1}
                  [] c.fn = "substr2" -> {1, 2}
                  [] c.fn = "findfrom" -> {1}
                  [] c.fn = "strncmp" -> {1}
                  [] c.fn = "copytobuf" -> {1}
                  [] c.fn = "repeat" -> IF c.s1 = <<>> THEN {1} ELSE {}
                  [] c.fn = "maskedbits" -> {3}
                  [] OTHER -> {}
HgOK(c) == /\ DOMAIN c.hg = 1..3
           /\ \A k \in 1..3 : c.hg[k] = "" \/ (c.hg[k] \in HugeNames /\ k \in HugeSlots(c))
           /\ (c.hg[1] # "" => c.n1 = 0) /\ (c.hg[2] # "" => c.n2 = 0) /\ (c.hg[3] # "" => c.n3 = 0)
\* the call with its sizes as the textbook operators see them
Norm(c) == [c EXCEPT !.n1 = SzOf(c.n1, c.hg[1]), !.n2 = SzOf(c.n2, c.hg[2]), !.n3 = SzOf(c.n3, c.hg[3])]

-----------------------------------------------------------------------------
(* Pure calls: c = [fn, s1, s2, s3, n1, n2, n3, hg].  Expected(c) is the textbook result. *)
Fns == {"ctor", "repeat", "copy", "plus", "append", "appendc", "eq", "ne", "eqnocase", "contains", "containsnocase",
        "startswith", "endswith", "count", "find", "findfrom", "substr1", "substr2", "subfromtill", "split", "replacech",
        "replacestr", "lower", "printable", "pad", "copytobuf", "at", "size", "isempty", "strcmp", "strncmp", "strlen",
        "strncpy", "strstr", "memcmp", "atoi", "atou", "tolower", "format", "format2", "dec", "udec", "hex", "hexschar",
        "brackets", "bool", "char", "fromornull", "printableornull", "binary", "binaryornull", "binarysize",
        "binarysizeornull", "maskedbits", "ordinal"}

IsCStr(s) == \A i \in 1..Len(s) : s[i] \in 1..255
IsBlock(s) == \A i \in 1..Len(s) : s[i] \in 0..255
OrNull(s, P(_)) == IsNull(s) \/ P(s)

\* the calls the specification talks about (PreN / ExpectedN / ResOKN see the normalised call)
PreN(c) ==
    /\ c.fn \in Fns
    /\ CASE c.fn \in {"ctor", "fromornull", "printableornull"} -> IsNull(c.s1) \/ IsCStr(c.s1)
         [] c.fn \in {"binary", "binarysize"} -> IsBlock(c.s1)
         [] c.fn \in {"binaryornull", "binarysizeornull"} -> IsNull(c.s1) \/ IsBlock(c.s1)
         [] c.fn = "memcmp" -> IsBlock(c.s1) /\ IsBlock(c.s2) /\ c.n1 <= Len(c.s1) /\ c.n1 <= Len(c.s2)
         [] c.fn = "maskedbits" -> ToSetOf(c.s1) \subseteq 0..63 /\ ToSetOf(c.s2) \subseteq 0..63 /\ (c.n3 \in 1..16 \/ c.n3 = Beyond)
         [] c.fn = "at" -> IsCStr(c.s1) /\ c.n1 <= Len(c.s1)
         [] c.fn \in {"atoi", "atou"} -> IsCStr(c.s1) /\ NumLen(c.s1) <= 9
         [] c.fn = "tolower" -> c.n1 \in 0..255
         [] c.fn = "char" -> c.n1 \in 1..255
         [] c.fn = "hexschar" -> c.n1 \in -128..127
         [] c.fn \in {"udec", "hex", "brackets", "ordinal"} -> c.n1 >= 0
         [] c.fn \in {"find", "replacech"} -> IsCStr(c.s1) /\ c.n1 \in 1..255 /\ (c.fn = "replacech" => c.n2 \in 1..255)
         [] c.fn \in {"findfrom", "subfromtill"} -> IsCStr(c.s1) /\ c.n2 \in 1..255 /\ (c.fn = "subfromtill" => c.n1 \in 1..255)
         [] c.fn = "pad" -> IsCStr(c.s1) /\ IsCStr(c.s2) /\ c.n1 \in 1..255
         [] OTHER -> IsCStr(c.s1) /\ IsCStr(c.s2) /\ IsCStr(c.s3)
    /\ c.n1 \in Int /\ c.n2 \in Int /\ c.n3 \in Int
    /\ (c.fn \notin {"dec", "hexschar"} => (c.n1 >= 0 /\ c.n2 >= 0 /\ c.n3 >= 0))

Pre(c) == (c.fn \in Fns /\ HgOK(c)) /\ PreN(Norm(c))

BoolOf(b) == b
ExpectedN(c) ==
    CASE c.fn = "ctor" -> IF IsNull(c.s1) THEN <<>> ELSE c.s1
      [] c.fn = "repeat" -> Rep(c.s1, c.n1)
      [] c.fn = "copy" -> c.s1
      [] c.fn \in {"plus", "append", "appendc", "format2"} -> c.s1 \o c.s2
      [] c.fn = "eq" -> c.s1 = c.s2
      [] c.fn = "ne" -> c.s1 # c.s2
      [] c.fn = "eqnocase" -> EqNoCase(c.s1, c.s2)
      [] c.fn = "contains" -> HasSub(c.s1, c.s2)
      [] c.fn = "containsnocase" -> HasSubNoCase(c.s1, c.s2)
      [] c.fn = "startswith" -> StartsWith(c.s1, c.s2)
      [] c.fn = "endswith" -> EndsWith(c.s1, c.s2)
      [] c.fn = "count" -> CountSub(c.s1, c.s2)
      [] c.fn = "find" -> Find(c.s1, c.n1)
      [] c.fn = "findfrom" -> FindFrom(c.s1, c.n1, c.n2)
      [] c.fn = "substr1" -> SubStr1(c.s1, c.n1)
      [] c.fn = "substr2" -> SubStr2(c.s1, c.n1, c.n2)
      [] c.fn = "subfromtill" -> SubFromTill(c.s1, c.n1, c.n2)
      [] c.fn = "split" -> IF c.s2 = <<>> THEN [i \in 1..Len(c.s1) |-> <<c.s1[i]>>]
                           ELSE IF c.s1 = <<>> THEN <<<<>>>>                        \* the empty string is one (empty) piece
                           ELSE SplitBy(c.s1, c.s2)
      [] c.fn = "replacech" -> ReplaceChar(c.s1, c.n1, c.n2)
      [] c.fn = "replacestr" -> ReplaceSub(c.s1, c.s2, c.s3)
      [] c.fn = "lower" -> Lower(c.s1)
      [] c.fn = "pad" -> Padded(c.s1, c.s2, c.n1)
      [] c.fn = "copytobuf" -> IF c.n1 = 0 \/ c.n2 = 1 THEN <<>> ELSE TakeN(c.s1, c.n1 - 1)     \* n2 = 1: NULL destination
      [] c.fn = "at" -> IF c.n1 < Len(c.s1) THEN c.s1[c.n1 + 1] ELSE 0
      [] c.fn \in {"size", "strlen"} -> Len(c.s1)
      [] c.fn = "isempty" -> c.s1 = <<>>
      [] c.fn = "strcmp" -> CmpSign(c.s1, c.s2)
      [] c.fn = "strncmp" -> CmpSignN(c.s1, c.s2, c.n1)
      [] c.fn = "strstr" -> StrStrPos(c.s1, c.s2)
      [] c.fn = "memcmp" -> CmpSignN(c.s1, c.s2, c.n1)
      [] c.fn = "atoi" -> AtoI(c.s1)
      [] c.fn = "atou" -> AtoU(c.s1)
      [] c.fn = "tolower" -> LowerCh(c.n1)
      [] c.fn = "format" -> c.s1
      [] c.fn \in {"dec", "udec"} -> Dec(c.n1)
      [] c.fn = "hex" -> HexLower(c.n1)
      [] c.fn = "hexschar" -> HexLower(IF c.n1 < 0 THEN c.n1 + 256 ELSE c.n1)
      [] c.fn = "brackets" -> <<40, 48, 120>> \o HexLower(c.n1) \o <<41>>
      [] c.fn = "bool" -> IF c.n1 # 0 THEN T_true ELSE T_false
      [] c.fn = "char" -> <<c.n1>>
      [] c.fn = "fromornull" -> IF IsNull(c.s1) THEN T_null ELSE c.s1
      [] c.fn = "binary" -> BinaryText(c.s1)
      [] c.fn = "binaryornull" -> IF IsNull(c.s1) THEN T_null ELSE BinaryText(c.s1)
      [] c.fn = "binarysize" -> BinaryWithSize(c.s1)
      [] c.fn = "binarysizeornull" -> IF IsNull(c.s1) THEN T_null ELSE BinaryWithSize(c.s1)
      [] c.fn = "maskedbits" -> MaskedBits(ToSetOf(c.s1), ToSetOf(c.s2), c.n3)
      [] c.fn = "ordinal" -> Ordinal(c.n1)

Expected(c) == ExpectedN(Norm(c))

\* Is `res' a result the specification allows for call c?
ResOKN(c, res) ==
    CASE c.fn = "printable" -> res \in Printables(c.s1)
      [] c.fn = "printableornull" -> IF IsNull(c.s1) THEN res = T_null ELSE res \in Printables(c.s1)
      \* StrNCpy(dst[n1], src): res = the n1 bytes of dst afterwards (prefilled with 170).  The bytes of src up to and
      \* including its terminator are copied, at most n1 of them; bytes after the terminator are untouched or zero.
      [] c.fn = "strncpy" -> /\ Len(res) = c.n1
                             /\ \A i \in 1..c.n1 : IF i <= Len(c.s1) THEN res[i] = c.s1[i]
                                                   ELSE IF i = Len(c.s1) + 1 THEN res[i] = 0
                                                   ELSE res[i] \in {0, 170}
      [] OTHER -> res = ExpectedN(c)
ResOK(c, res) == ResOKN(Norm(c), res)

-----------------------------------------------------------------------------
(* Allocator events: <<1, id, size>> = buffer id of `size' bytes obtained, <<2, id, size>> = returned.            *)
(* ApplyEvs(L, ev) = [ok, live]: ok iff every buffer obtained has a fresh id and a size >= 1, and every release   *)
(* names a buffer that is outstanding at that moment (in L, or obtained earlier in ev) WITH the size it was       *)
(* requested with, and no buffer is released twice.  Written with quantifiers, not recursion: one call can        *)
(* cause a thousand events (formatters building a string piecewise).                                              *)
ApplyEvs(L, ev) ==
    LET Allocs == { i \in 1..Len(ev) : ev[i][1] = 1 }
        Frees == { i \in 1..Len(ev) : ev[i][1] = 2 }
        AllocIds == { ev[i][2] : i \in Allocs }
        FreeIds == { ev[i][2] : i \in Frees }
        LIds == { x[1] : x \in L }
        ok == /\ Allocs \cup Frees = 1..Len(ev)
              /\ \A i \in Allocs : ev[i][3] >= 1 /\ ev[i][2] \notin LIds
              /\ Cardinality(AllocIds) = Cardinality(Allocs)                       \* fresh ids
              /\ Cardinality(FreeIds) = Cardinality(Frees)                         \* nothing is returned twice
              /\ \A f \in Frees : \/ <<ev[f][2], ev[f][3]>> \in L                  \* outstanding, same size
                                   \/ \E a \in Allocs : a < f /\ ev[a][2] = ev[f][2] /\ ev[a][3] = ev[f][3]
    IN [ok |-> ok,
        live |-> { x \in L : x[1] \notin FreeIds } \cup
                 { <<ev[a][2], ev[a][3]>> : a \in { b \in Allocs : ev[b][2] \notin FreeIds } }]

-----------------------------------------------------------------------------
VARIABLES val,     \* [1..NObj -> content | NoObj]
          live,    \* ghost: outstanding string-allocator buffers <<id, size>>
          res      \* result of the last pure call (or <<>>)
vars == <<val, live, res>>
Objs == 1..NObj
Exists(i) == val[i] # NoObj

Init == val = [i \in Objs |-> NoObj] /\ live = {} /\ res = <<>>

\* a pure function call on fresh operands: result as specified, every buffer it obtained is returned
\* (the guards are written `(...) = TRUE' so that TLC evaluates them as state predicates: inside an action it
\*  would unfold a quantifier over a 400-byte buffer recursively and exhaust its stack)
Pure(c, r, ev) ==
    /\ (Pre(c) /\ ResOK(c, r)) = TRUE
    /\ (LET st == ApplyEvs(live, ev) IN st.ok /\ st.live = live) = TRUE
    /\ res' = r /\ UNCHANGED <<val, live>>

\* Object calls: o = [fn, i, j, k, s1, s2, n1, n2, hg]; hg = <<h1, h2>> as for the pure calls (only `sub' takes sizes)
OSz(o, k) == SzOf(IF k = 1 THEN o.n1 ELSE o.n2, o.hg[k])
OHgOK(o) == /\ DOMAIN o.hg = 1..2
            /\ \A k \in 1..2 : o.hg[k] = "" \/ (o.hg[k] \in HugeNames /\ o.fn = "sub")
            /\ (o.hg[1] # "" => o.n1 = 0) /\ (o.hg[2] # "" => o.n2 = 0)
ObjFns == {"new", "del", "assign", "append", "appendlit", "replacech", "replacestr", "pad", "sub", "lower", "plus", "printable", "end"}
ObjPreN(o) ==
    CASE o.fn = "new" -> o.i \in Objs /\ ~Exists(o.i) /\ IsCStr(o.s1)
      [] o.fn = "del" -> o.i \in Objs /\ Exists(o.i)
      [] o.fn \in {"assign", "append", "lower", "printable"} -> o.i \in Objs /\ o.j \in Objs /\ Exists(o.i) /\ Exists(o.j)
      [] o.fn = "sub" -> o.i \in Objs /\ o.j \in Objs /\ Exists(o.i) /\ Exists(o.j) /\ o.n1 >= 0 /\ o.n2 >= 0
      [] o.fn = "appendlit" -> o.i \in Objs /\ Exists(o.i) /\ IsCStr(o.s1)
      [] o.fn = "replacech" -> o.i \in Objs /\ Exists(o.i) /\ o.n1 \in 1..255 /\ o.n2 \in 1..255
      [] o.fn = "replacestr" -> o.i \in Objs /\ Exists(o.i) /\ IsCStr(o.s1) /\ IsCStr(o.s2)
      [] o.fn = "pad" -> o.i \in Objs /\ o.j \in Objs /\ o.i # o.j /\ Exists(o.i) /\ Exists(o.j) /\ o.n1 \in 1..255
      [] o.fn = "plus" -> o.i \in Objs /\ o.j \in Objs /\ o.k \in Objs /\ Exists(o.i) /\ Exists(o.j) /\ Exists(o.k)
      [] o.fn = "end" -> TRUE
ObjPre(o) == OHgOK(o) /\ ObjPreN(o)
\* the contents after the call (a set: printable leaves a choice)
ObjPost(o) ==
    CASE o.fn = "new" -> {[val EXCEPT ![o.i] = o.s1]}
      [] o.fn = "del" -> {[val EXCEPT ![o.i] = NoObj]}
      [] o.fn = "assign" -> {[val EXCEPT ![o.i] = val[o.j]]}                       \* i = j: self-assignment changes nothing
      [] o.fn = "append" -> {[val EXCEPT ![o.i] = val[o.i] \o val[o.j]]}           \* i = j: s += s doubles the string
      [] o.fn = "appendlit" -> {[val EXCEPT ![o.i] = val[o.i] \o o.s1]}
      [] o.fn = "replacech" -> {[val EXCEPT ![o.i] = ReplaceChar(val[o.i], o.n1, o.n2)]}
      [] o.fn = "replacestr" -> {[val EXCEPT ![o.i] = ReplaceSub(val[o.i], o.s1, o.s2)]}
      [] o.fn = "pad" -> LET p == Padded(val[o.i], val[o.j], o.n1) IN {[val EXCEPT ![o.i] = p[1], ![o.j] = p[2]]}
      [] o.fn = "sub" -> {[val EXCEPT ![o.i] = SubStr2(val[o.j], OSz(o, 1), OSz(o, 2))]}
      [] o.fn = "lower" -> {[val EXCEPT ![o.i] = Lower(val[o.j])]}
      [] o.fn = "plus" -> {[val EXCEPT ![o.i] = val[o.j] \o val[o.k]]}
      [] o.fn = "printable" -> {[val EXCEPT ![o.i] = p] : p \in Printables(val[o.j])}
      [] o.fn = "end" -> {[i \in Objs |-> NoObj]}
Obj(o, ev) ==
    /\ (o.fn \in ObjFns /\ ObjPre(o)) = TRUE
    /\ val' \in ObjPost(o)
    /\ ApplyEvs(live, ev).ok = TRUE
    /\ live' = ApplyEvs(live, ev).live
    /\ res' = <<>>

-----------------------------------------------------------------------------
(* Properties (C13) *)
TypeOK == /\ \A i \in Objs : val[i] = NoObj \/ IsCStr(val[i])
          /\ \A x \in live : x[1] \in Nat /\ x[2] >= 1
UniqueIds == \A x, y \in live : x[1] = y[1] => x = y
\* when no object exists every buffer has been returned
QuiescentClean == (\A i \in Objs : ~Exists(i)) => live = {}
\* an object cannot exist without a buffer
ObjectsHaveBuffers == Cardinality(live) >= Cardinality({ i \in Objs : Exists(i) })
=============================================================================
