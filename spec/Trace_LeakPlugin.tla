---------------------------- MODULE Trace_LeakPlugin ----------------------------
(* Trace validation for C07: the ndjson log recorded from real runs (real registry, test lifecycle, leak plugin,
   detector, operator new[]/malloc) must be a behaviour of LeakPlugin.  Bound observations:
   ran        whether the operation was executed (own failures leave the phase)
   chk, all   totalMemoryLeaks(checking) / (all) right after the operation
   failures   failure count of the TestResult at the start and at the end of a test
   leakfail   number of leak failures recorded for the test (0 or 1), own = number of other failures
   res        realloc / rfail: "moved" (a block came back) or "null"
   kept       end: number of tracked copies of leak failures the output allocated while the failure was reported
   listed     the blocks named in the leak failure / final report (allocation numbers mapped back to script ids),
              stated = the total the report states; a truncated report ("Too many leaks") may list a subset *)
EXTENDS LeakPlugin, Json, IOUtils
VARIABLE l
tvars == <<vars, l>>
Tr == ndJsonDeserialize(IOEnv.TRACE)
E == Tr[l]
Is(op) == l <= Len(Tr) /\ Tr[l].op = op /\ l' = l + 1
SeqSet(s) == { s[i] : i \in 1..Len(s) }
ListedOK(exp) == /\ E.stated = Cardinality(exp)
                 /\ IF E.trunc THEN SeqSet(E.listed) \subseteq exp ELSE SeqSet(E.listed) = exp /\ Len(E.listed) = Cardinality(exp)

\* while a test runs, its Utest object is itself a tracked block of the checking period (created after the pre-test
\* action, destroyed before the post-test action)
OpObs(o, inTest) == /\ E.ran = o.ran
                    /\ o.ran => (E.chk = o.chk + (IF inTest THEN 1 ELSE 0) /\ E.all = o.all + (IF inTest THEN 1 ELSE 0))
Call == \/ Is("begin") /\ Begin /\ E.failures = out'.failures
        \/ Is("alloc") /\ E.arg = nextId /\ AllocOp(E.ph) /\ OpObs(out', cur # 0)
        \/ Is("free") /\ FreeOp(E.ph, E.arg) /\ OpObs(out', cur # 0)
        \/ Is("realloc") /\ E.arg2 = nextId /\ ReallocOp(E.ph, E.arg, TRUE) /\ OpObs(out', cur # 0) /\ (out'.ran => E.res = "moved")
        \/ Is("rfail") /\ ReallocOp(E.ph, E.arg, FALSE) /\ OpObs(out', cur # 0) /\ (out'.ran => E.res = "null")
        \/ Is("expect") /\ ExpectOp(E.ph, E.arg) /\ OpObs(out', cur # 0)
        \/ Is("ignore") /\ IgnoreOp(E.ph) /\ OpObs(out', cur # 0)
        \/ Is("fail") /\ FailOp(E.ph) /\ OpObs(out', cur # 0)
        \/ Is("end") /\ (E.arg # 0 => E.arg = nextId) /\ End(E.arg # 0, E.arg2 = 1) /\ E.kept = out'.kept /\ E.leakfail = (IF out'.leakfail THEN 1 ELSE 0) /\ E.own = out'.own /\ E.failures = out'.failures
                     /\ (out'.leakfail => ListedOK(out'.listed))
        \/ Is("final") /\ Final /\ ListedOK(out'.listed)
TInit == Init /\ l = 1
TReset == Is("reset") /\ blocks' = {} /\ nextId' = 1 /\ period' = "enabled" /\ cur' = 0 /\ ntests' = 0 /\ phase' = "o" /\ aborted' = {}
          /\ expected' = 0 /\ ignore' = FALSE /\ failures' = 0 /\ failAtStart' = 0 /\ nops' = 0
          /\ out' = [ran |-> TRUE, chk |-> 0, all |-> 0] /\ hist' = <<>>
TSpec == TInit /\ [][Call \/ TReset]_tvars
Accepted == TLCGet("stats").diameter - 1 = Len(Tr)
\* the clauses of C07 on the last finished test (hist grows with the run; checking its last record keeps validation linear)
LastOK == Len(hist) > 0 =>
             LET r == hist[Len(hist)] IN
             /\ r.leakFailure <=> (~r.ownFailed /\ ~r.ignore /\ Cardinality(r.mine) # r.expected)
             /\ r.leakFailure => r.listed = r.mine
             /\ r.ownFailed => ~r.leakFailure
             /\ \A i \in 1..(Len(hist) - 1) : hist[i].mine \cap r.listed = {}
TInv == TypeOK /\ Refines /\ UniqueIds /\ LastOK

\* diagnostics: the same walk without binding the observations
PCall == \/ Is("begin") /\ Begin
         \/ Is("alloc") /\ AllocOp(E.ph)
         \/ Is("free") /\ FreeOp(E.ph, E.arg)
         \/ Is("realloc") /\ ReallocOp(E.ph, E.arg, TRUE)
         \/ Is("rfail") /\ ReallocOp(E.ph, E.arg, FALSE)
         \/ Is("expect") /\ ExpectOp(E.ph, E.arg)
         \/ Is("ignore") /\ IgnoreOp(E.ph)
         \/ Is("fail") /\ FailOp(E.ph)
         \/ Is("end") /\ End(E.arg # 0, E.arg2 = 1)
         \/ Is("final") /\ Final
PSpec == TInit /\ [][PCall \/ TReset]_tvars
Predict == (l > 1 /\ l - 1 >= atoi(IOEnv.FROM_LINE_N)) =>
              PrintT(<<"BEH", ToJson([line |-> l - 1, out |-> out, test |-> cur, expected |-> expected, ignore |-> ignore,
                                      blocks |-> blocks])>>)
=============================================================================
