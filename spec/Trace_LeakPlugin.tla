---------------------------- MODULE Trace_LeakPlugin ----------------------------
(* Trace validation for C07: the ndjson log recorded from real runs (real registry, test lifecycle, leak plugin,
   detector, operator new[]/malloc) must be a behaviour of LeakPlugin.  Bound observations:
   ran        whether the operation was executed (own failures leave the phase)
   chk, all   totalMemoryLeaks(checking) / (all) right after the operation
   failures   failure count of the TestResult at the start and at the end of a test
   leakfail   number of leak failures recorded for the test (0 or 1), own = number of other failures
   res        realloc / rfail: "moved" (a block came back) or "null"
   kept       end: number of tracked copies of leak failures the output allocated while the failure was reported
   listed     the blocks named in the leak failure / final report (allocation numbers mapped back to script ids),
              stated = the total the report states; a truncated report ("Too many leaks") may list a subset
   Runs may be thousands of tests long: the walk keeps the ghost record of the last finished test only (hist is a window
   of one record here) and, in `left', the blocks that the tests before it left behind and that are still outstanding -
   so a state does not grow with the length of the run and the validation stays linear in the length of the log. *)
EXTENDS LeakPlugin, Json, IOUtils
VARIABLES l,
          left      \* ghost: ids of the outstanding blocks that were left behind by the tests finished before the last finished one
tvars == <<vars, l, left>>
Tr == ndJsonDeserialize(IOEnv.TRACE)
E == Tr[l]
Is(op) == l <= Len(Tr) /\ Tr[l].op = op /\ l' = l + 1
SeqSet(s) == { s[i] : i \in 1..Len(s) }
ListedOK(exp) == /\ E.stated = Cardinality(exp)
                 /\ IF E.trunc THEN SeqSet(E.listed) \subseteq exp ELSE SeqSet(E.listed) = exp /\ Len(E.listed) = Cardinality(exp)

\* while a test runs, its Utest object is itself a tracked block of the checking period (created after the pre-test
\* action, destroyed before the post-test action)
OpObs(o, inTest) == /\ E.ran = o.ran
                    /\ o.ran => (E.chk = o.chk + (IF inTest THEN 1 ELSE 0) /\ E.all = o.all + (IF inTest THEN 1 ELSE 0))
\* the end of a test: the record of the test finished before it moves into `left'
TEnd(keep, pf) == /\ EndStep(keep, pf) /\ hist' = <<EndRecord(pf)>>
                  /\ left' = (left \cup (IF hist = <<>> THEN {} ELSE hist[1].mine)) \cap Ids(blocks')
\* any other step: blocks that are released (or re-allocated: the result is a new block) leave `left'
Prune == left' = left \cap Ids(blocks')
Call == \/ Is("begin") /\ Begin /\ E.failures = out'.failures /\ UNCHANGED left
        \/ Is("alloc") /\ E.arg = nextId /\ AllocOp(E.ph) /\ OpObs(out', cur # 0) /\ Prune
        \/ Is("free") /\ FreeOp(E.ph, E.arg) /\ OpObs(out', cur # 0) /\ Prune
        \/ Is("realloc") /\ E.arg2 = nextId /\ ReallocOp(E.ph, E.arg, TRUE) /\ OpObs(out', cur # 0) /\ (out'.ran => E.res = "moved") /\ Prune
        \/ Is("rfail") /\ ReallocOp(E.ph, E.arg, FALSE) /\ OpObs(out', cur # 0) /\ (out'.ran => E.res = "null") /\ Prune
        \/ Is("expect") /\ ExpectOp(E.ph, E.arg) /\ OpObs(out', cur # 0) /\ Prune
        \/ Is("ignore") /\ IgnoreOp(E.ph) /\ OpObs(out', cur # 0) /\ Prune
        \/ Is("fail") /\ FailOp(E.ph) /\ OpObs(out', cur # 0) /\ Prune
        \/ Is("end") /\ (E.arg # 0 => E.arg = nextId) /\ TEnd(E.arg # 0, E.arg2 = 1) /\ E.kept = out'.kept /\ E.leakfail = (IF out'.leakfail THEN 1 ELSE 0) /\ E.own = out'.own /\ E.failures = out'.failures
                     /\ (out'.leakfail => ListedOK(out'.listed))
        \/ Is("final") /\ Final /\ ListedOK(out'.listed) /\ UNCHANGED left
TInit == Init /\ l = 1 /\ left = {}
TReset == Is("reset") /\ blocks' = {} /\ nextId' = 1 /\ period' = "enabled" /\ cur' = 0 /\ ntests' = 0 /\ phase' = "o" /\ aborted' = {}
          /\ expected' = 0 /\ ignore' = FALSE /\ failures' = 0 /\ failAtStart' = 0 /\ nops' = 0
          /\ out' = [ran |-> TRUE, chk |-> 0, all |-> 0] /\ hist' = <<>> /\ left' = {}
TSpec == TInit /\ [][Call \/ TReset]_tvars
Accepted == TLCGet("stats").diameter - 1 = Len(Tr)
\* the clauses of C07 on the last finished test, against everything the tests before it left behind
LastOK == Len(hist) > 0 =>
             LET r == hist[Len(hist)] IN
             /\ r.leakFailure <=> (~r.ownFailed /\ ~r.ignore /\ Cardinality(r.mine) # r.expected)
             /\ r.leakFailure => r.listed = r.mine
             /\ r.ownFailed => ~r.leakFailure
             /\ left \cap r.listed = {}
TInv == TypeOK /\ Refines /\ UniqueIds /\ LastOK

\* diagnostics: the same walk without binding the observations
PCall == \/ Is("begin") /\ Begin /\ UNCHANGED left
         \/ Is("alloc") /\ AllocOp(E.ph) /\ Prune
         \/ Is("free") /\ FreeOp(E.ph, E.arg) /\ Prune
         \/ Is("realloc") /\ ReallocOp(E.ph, E.arg, TRUE) /\ Prune
         \/ Is("rfail") /\ ReallocOp(E.ph, E.arg, FALSE) /\ Prune
         \/ Is("expect") /\ ExpectOp(E.ph, E.arg) /\ Prune
         \/ Is("ignore") /\ IgnoreOp(E.ph) /\ Prune
         \/ Is("fail") /\ FailOp(E.ph) /\ Prune
         \/ Is("end") /\ TEnd(E.arg # 0, E.arg2 = 1)
         \/ Is("final") /\ Final /\ UNCHANGED left
PSpec == TInit /\ [][PCall \/ TReset]_tvars
Predict == (l > 1 /\ l - 1 >= atoi(IOEnv.FROM_LINE_N)) =>
              PrintT(<<"BEH", ToJson([line |-> l - 1, out |-> out, test |-> cur, expected |-> expected, ignore |-> ignore,
                                      blocks |-> blocks, left |-> left])>>)
=============================================================================
