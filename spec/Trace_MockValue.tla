---------------------------- MODULE Trace_MockValue ----------------------------
(* Trace validation for C09: the ndjson log recorded from real MockNamedValue objects (one line per
   call: operands as value records, the raw results) must be a behaviour of MockValue.  The operands of
   a log line are arbitrary 64-bit values (sign + limbs), not only lattice points. *)
EXTENDS MockValue, Json, IOUtils
VARIABLE l
tvars == <<vars, l>>
Tr == ndJsonDeserialize(IOEnv.TRACE)
E == Tr[l]
Is(o) == l <= Len(Tr) /\ Tr[l].op = o /\ l' = l + 1

WellFormed(v) == IsInt(v) => (IsBig(IntVal(v)) /\ InRange(IntVal(v), v.t))
\* the range tables of the module are those of the platform the code was compiled for
TEnv == /\ Is("env") /\ \A t \in IntTypes : E.bits[t] = Width(t) /\ E.signed[t] = Signed(t)
        /\ op' = "init" /\ a' = None /\ b' = None /\ res' = None
TEq == /\ Is("eq") /\ WellFormed(E.a) /\ WellFormed(E.b)
       /\ Compare(E.a, E.b)
       /\ res'.ab = E.ab /\ res'.ba = E.ba
TGet == /\ Is("get") /\ WellFormed(E.a)
        /\ Read(E.a, E.g)
        /\ res' = [k |-> E.k, neg |-> E.neg, m |-> E.m]
TReset == Is("reset") /\ op' = "init" /\ a' = None /\ b' = None /\ res' = None
TNext == TEnv \/ TEq \/ TGet \/ TReset
TSpec == (Init /\ l = 1) /\ [][TNext]_tvars
Accepted == TLCGet("stats").diameter - 1 = Len(Tr)
TInv == /\ TypeOK /\ EqualIffSameInteger /\ Symmetric /\ DifferentTypesNeverEqual /\ NanEqualsNothing
        /\ ExpectationTolerance /\ GetterNeverLies

\* diagnostics: the same walk with the observations unbound, printing what the specification predicts
PEq == Is("eq") /\ Compare(E.a, E.b)
PGet == Is("get") /\ Read(E.a, E.g) /\ res' = GetDesign(E.a, E.g)
PNext == TEnv \/ PEq \/ PGet \/ TReset
PSpec == (Init /\ l = 1) /\ [][PNext]_tvars
Predict == (l > 1 /\ l - 1 >= atoi(IOEnv.FROM_LINE_N)) =>
              PrintT(<<"BEH", ToJson([line |-> l - 1, op |-> op,
                                      predicted |-> IF op = "get" THEN [allowed |-> GetAllowed(a, b.t), design |-> res]
                                                    ELSE [allowed |-> {res}, design |-> res]])>>)
=============================================================================
