---------------------------- MODULE ReportBuffer ----------------------------
(***************************************************************************)
(* The fixed-size text buffer of CppUTest's MemoryLeakDetector             *)
(* (SimpleStringBuffer + MemoryLeakOutputStringBuffer), property C14.      *)
(*                                                                         *)
(* The buffer has Cap bytes.  `filled' is the fill position, `limit' the   *)
(* write limit (never above Cap-1, so that the terminator always fits).    *)
(* Every piece of text is appended by one bounded formatted write          *)
(* (vsnprintf semantics): a write of a text of length n at fill position f *)
(* under limit lim puts min(n, lim-f) characters and a terminator, and     *)
(* advances the fill position by the same amount; WHEN THE BUFFER IS FULL  *)
(* (f >= lim) NOTHING IS WRITTEN.  (This is the intended design.  The code *)
(* computes the room as the unsigned difference lim - f; if the limit has  *)
(* been lowered below the fill position that difference wraps around.)     *)
(*                                                                         *)
(* One action per public call of the detector that builds text:            *)
(*   Clear            startChecking(): the buffer is emptied               *)
(*   Misuse(ns)       a misuse message made of parts of lengths ns         *)
(*   Report(...)      report(): the limit is lowered by Reserve so that    *)
(*                    the footer always fits, the header and one entry per *)
(*                    leak are appended, the limit is put back, and the    *)
(*                    footer is appended: the "too many leaks" notice if   *)
(*                    the listing reached the lowered limit, the total,    *)
(*                    and a note when malloc leaks are among them.         *)
(* Lengths are parameters: any file name, any block size, any content.     *)
(* report() does not clear the buffer, so earlier messages stay in front.  *)
(*                                                                         *)
(* `extent' = highest buffer index ever written (terminators included),    *)
(* `nul' = index of the terminator written last, `rep' = what the last     *)
(* report said.                                                            *)
(***************************************************************************)
EXTENDS Naturals, Sequences, TLC

CONSTANTS Cap,         \* size of the buffer                                   (code: 4096)
          Reserve,     \* by how much report() lowers the limit below Cap      (measured from the code)
          NoticeLen,   \* length of the "too many leaks" notice                (measured)
          FooterBase,  \* length of the total line without the number's digits (measured)
          WarnLen,     \* length of the malloc note                            (measured)
          NoLeakLen,   \* length of the "no leaks" message                     (measured)
          HeaderLen,   \* length of the report header                          (measured)
          Lens,        \* model: lengths of message parts / entry parts explored
          MsgLens,     \* model: lengths of the first part of a misuse message (its title)
          Digits,      \* model: digit counts of the total explored
          MaxLeaks,    \* model: leaks per report
          MaxOps       \* model: calls per behaviour

VARIABLES filled, limit, extent, nul, rep, ops,
          listing    \* the report in progress: [on, n, cut, start] (report() = Start; Entry*; Stop)
vars == <<filled, limit, extent, nul, rep, ops, listing>>

Min(a, b) == IF a < b THEN a ELSE b
Max(a, b) == IF a > b THEN a ELSE b
Top == Cap - 1                                   \* the highest legal limit / fill position
Low == IF Reserve <= Cap THEN Min(Cap - Reserve, Top) ELSE 0      \* the limit while leaks are listed

\* s = [f: fill position, e: extent, z: terminator index, cut: something was dropped so far]
St(f, e, z, cut) == [f |-> f, e |-> e, z |-> z, cut |-> cut]
\* one bounded formatted write of a text of length n
Add(s, lim, n) ==
    IF s.f >= lim THEN [s EXCEPT !.cut = @ \/ n > 0]
    ELSE LET w == Min(n, lim - s.f) IN St(s.f + w, Max(s.e, s.f + w), s.f + w, s.cut \/ n > w)
AddAll(s, lim, ns) ==
    LET F[i \in 0..Len(ns)] == IF i = 0 THEN s ELSE Add(F[i - 1], lim, ns[i]) IN F[Len(ns)]
Here == St(filled, extent, nul, FALSE)

NoRep == [kind |-> "none"]
Idle == [on |-> FALSE, n |-> 0, cut |-> FALSE, start |-> 0]

Init == filled = 0 /\ limit = Top /\ extent = 0 /\ nul = 0 /\ rep = NoRep /\ ops = 0 /\ listing = Idle

\* startChecking(): empty text (the limit is left alone)
Clear == /\ ~listing.on
         /\ filled' = 0 /\ nul' = 0 /\ rep' = NoRep
         /\ UNCHANGED <<limit, extent, listing>>

\* a misuse message (non-allocated release, type mismatch, corruption): parts appended under the current limit
Misuse(ns) ==
    LET r == AddAll(Here, limit, ns) IN
    /\ ~listing.on
    /\ filled' = r.f /\ extent' = r.e /\ nul' = r.z /\ rep' = NoRep
    /\ UNCHANGED <<limit, listing>>

\* the end of a report that listed n leaks, from buffer state a (a.cut = something of the listing was dropped),
\* started at fill position start: d = number of digits of n, warn = malloc leaks among them,
\* keepLow = whether a report without leaks says so under the lowered limit and leaves it lowered (the code does), or puts
\* the limit back first (the property does not care).
\* Result: buffer state, limit, and what the report says.
Finish(a, n, start, d, warn, keepLow) ==
    IF n = 0
    THEN LET lim0 == IF keepLow THEN Low ELSE Top
             b == Add([a EXCEPT !.cut = FALSE], lim0, NoLeakLen) IN
         [s |-> b, lim |-> lim0,
          rep |-> [kind |-> "report", n |-> 0, fresh |-> (start = 0), cut |-> FALSE, notice |-> FALSE, footer |-> ~b.cut, start |-> start]]
    ELSE LET reached == a.f >= Low
             b1 == IF reached THEN Add([a EXCEPT !.cut = FALSE], Top, NoticeLen) ELSE [a EXCEPT !.cut = FALSE]
             b2 == Add([b1 EXCEPT !.cut = FALSE], Top, FooterBase + d)
             b3 == IF warn THEN Add(b2, Top, WarnLen) ELSE b2 IN
         [s |-> b3, lim |-> Top,
          rep |-> [kind |-> "report", n |-> n, fresh |-> (start = 0), cut |-> a.cut, notice |-> (reached /\ ~b1.cut),
                   footer |-> ~b2.cut, start |-> start]]

\* report() as one call: `entries' = lengths of the header and of the parts of the leak entries, in order
Report(n, entries, d, warn, keepLow) ==
    LET a == AddAll(Here, Low, entries)
        r == Finish(a, n, filled, d, warn, keepLow) IN
    /\ ~listing.on /\ (n = 0 => entries = <<>>)
    /\ filled' = r.s.f /\ extent' = r.s.e /\ nul' = r.s.z /\ limit' = r.lim /\ rep' = r.rep
    /\ UNCHANGED listing

\* ... and the same in the steps the code takes (startMemoryLeakReporting / reportMemoryLeak / stopMemoryLeakReporting)
Start == /\ ~listing.on
         /\ limit' = Low /\ listing' = [on |-> TRUE, n |-> 0, cut |-> FALSE, start |-> filled]
         /\ UNCHANGED <<filled, extent, nul, rep>>
Entry(x, y) ==                       \* one leak: location line of length x, memory dump of length y; the header goes first
    LET a == AddAll(Here, limit, (IF listing.n = 0 THEN <<HeaderLen>> ELSE <<>>) \o <<x, y>>) IN
    /\ listing.on /\ listing.n < MaxLeaks
    /\ filled' = a.f /\ extent' = a.e /\ nul' = a.z
    /\ listing' = [listing EXCEPT !.n = @ + 1, !.cut = @ \/ a.cut]
    /\ UNCHANGED <<limit, rep>>
Stop(d, warn, keepLow) ==
    LET r == Finish([Here EXCEPT !.cut = listing.cut], listing.n, listing.start, d, warn, keepLow) IN
    /\ listing.on
    /\ filled' = r.s.f /\ extent' = r.s.e /\ nul' = r.s.z /\ limit' = r.lim /\ rep' = r.rep
    /\ listing' = Idle

Step == ops < MaxOps /\ ops' = ops + 1
Next == /\ Step
        /\ \/ Clear
           \/ \E x \in Lens, y \in Lens, z \in MsgLens : Misuse(<<z, x, y>>)
           \/ Start
           \/ \E x \in Lens, y \in Lens : Entry(x, y)
           \/ \E d \in Digits, w \in BOOLEAN, k \in BOOLEAN : (listing.n = 0 => d = 1 /\ ~w) /\ (listing.n > 0 => k) /\ Stop(d, w, k)
Spec == Init /\ [][Next]_vars

-----------------------------------------------------------------------------
\* Properties (C14, buffer part)
TypeOK == filled \in Nat /\ limit \in Nat /\ extent \in Nat /\ nul \in Nat /\ listing.on \in BOOLEAN
\* nothing is ever written outside the buffer, whatever was appended before and however long the texts are
InBounds == filled <= Top /\ limit <= Top /\ extent <= Top
\* the text stays terminated: the terminator written last sits exactly at the fill position
Terminated == nul = filled
\* a report begun on a cleared buffer states the true total (its footer is complete)
\* and carries the notice whenever something of the listing was dropped
TruthfulWhenFresh == (rep.kind = "report" /\ rep.fresh) => /\ rep.footer
                                                           /\ (rep.n > 0 /\ rep.cut => rep.notice)
\* the reserve is what makes that true: footer pieces together never exceed it
ReserveSufficient == filled >= 0 /\ \A d \in Digits : NoticeLen + FooterBase + d + WarnLen + 1 <= Reserve
\* report() as one call and report() in steps are the same thing: checked by Trace/Gen modules that use Report,
\* and here by the listing never outliving a behaviour's end in a state that Report could not produce
ListingSane == listing.on => limit = Low /\ listing.start <= Top
=============================================================================
