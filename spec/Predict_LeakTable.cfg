SPECIFICATION PSpec
CONSTANTS
  Addrs = {0}
  P = 5
  MaxSeq = 100000
  Kinds = {"new"}
  Sizes = {1}
  MaxStage = 200
INVARIANT Predict
CHECK_DEADLOCK FALSE
