---------------------------- MODULE MemAccount ----------------------------
(* MemoryAccountant (TestMemoryAllocator.cpp): per-size statistics of allocations, deallocations and the maximum
   number outstanding at one time, either per exact size or per configured cache size (smallest cache size that
   fits; larger requests go to "other" = 0).  Not one of the listed properties: part of growing the specification
   over the leak-detection subsystem (DESIGN.md section 10).  Same recipe: spec, TLC, generated behaviours and
   random histories on the real class, trace validation. *)
EXTENDS Naturals, Sequences, FiniteSets, TLC
CONSTANTS Sizes,        \* request sizes
          CacheChoices  \* possible cache-size configurations (sets of sizes)
VARIABLES stats,     \* [bucket -> [a, d, max, cur]] for the buckets created so far
          cache,     \* the configured cache sizes, or {} in exact-size mode
          cacheMode
vars == <<stats, cache, cacheMode>>

Zero == [a |-> 0, d |-> 0, max |-> 0, cur |-> 0]
Init == stats = << >> /\ cache = {} /\ cacheMode = FALSE
Fits(sz) == { c \in cache : sz <= c }
Min(S) == CHOOSE x \in S : \A y \in S : x <= y
Bucket(sz) == IF cacheMode THEN (IF Fits(sz) = {} THEN 0 ELSE Min(Fits(sz))) ELSE sz
Get(b) == IF b \in DOMAIN stats THEN stats[b] ELSE Zero
Put(b, r) == [x \in DOMAIN stats \cup {b} |-> IF x = b THEN r ELSE stats[x]]

\* useCacheSizes: only before anything was counted; creates a row per cache size plus "other"
UseCache(S) == /\ DOMAIN stats = {} /\ ~cacheMode
               /\ cache' = S /\ cacheMode' = TRUE
               /\ stats' = [x \in S \cup {0} |-> Zero]
Alloc(sz) == LET b == Bucket(sz) r == Get(b) c == r.cur + 1 IN
             /\ stats' = Put(b, [a |-> r.a + 1, d |-> r.d, cur |-> c, max |-> IF c > r.max THEN c ELSE r.max])
             /\ UNCHANGED <<cache, cacheMode>>
Dealloc(sz) == LET b == Bucket(sz) r == Get(b) IN
             /\ stats' = Put(b, [a |-> r.a, d |-> r.d + 1, cur |-> IF r.cur > 0 THEN r.cur - 1 ELSE 0, max |-> r.max])
             /\ UNCHANGED <<cache, cacheMode>>
\* clear(): the rows go; the mode stays (a cleared accountant in cache mode answers 0 for everything)
Clear == stats' = << >> /\ UNCHANGED <<cache, cacheMode>>
Next == (\E S \in CacheChoices : UseCache(S)) \/ (\E sz \in Sizes : Alloc(sz) \/ Dealloc(sz)) \/ Clear
Spec == Init /\ [][Next]_vars

\* observations
AllocsOf(st, sz, b) == IF b \in DOMAIN st THEN st[b].a ELSE 0
RECURSIVE SumOver(_, _, _)
SumOver(st, S, f) == IF S = {} THEN 0 ELSE LET x == CHOOSE y \in S : TRUE IN (IF f = "a" THEN st[x].a ELSE st[x].d) + SumOver(st, S \ {x}, f)
TotalA(st) == SumOver(st, DOMAIN st, "a")
TotalD(st) == SumOver(st, DOMAIN st, "d")
\* report rows: ascending by size; in cache mode "other" (0) comes last, in exact mode size 0 ("other") first
RECURSIVE SortedSeq(_)
SortedSeq(S) == IF S = {} THEN <<>> ELSE <<Min(S)>> \o SortedSeq(S \ {Min(S)})
RowOrder(st, cm) == IF cm /\ 0 \in DOMAIN st THEN SortedSeq(DOMAIN st \ {0}) \o <<0>> ELSE SortedSeq(DOMAIN st)
Rows(st, cm) == [i \in 1..Len(RowOrder(st, cm)) |-> [size |-> RowOrder(st, cm)[i], a |-> st[RowOrder(st, cm)[i]].a,
                                                       d |-> st[RowOrder(st, cm)[i]].d, max |-> st[RowOrder(st, cm)[i]].max]]

Sane == \A b \in DOMAIN stats : stats[b].cur <= stats[b].max /\ stats[b].max <= stats[b].a /\ stats[b].cur + stats[b].d >= stats[b].a
CacheRows == cacheMode /\ DOMAIN stats # {} => DOMAIN stats \subseteq cache \cup {0}
=============================================================================
