---------------------------- MODULE MC_ThreadSafe ----------------------------
EXTENDS ThreadSafe
CONSTANT Variant
A(b) == [k |-> "alloc", b |-> b, b2 |-> 0]
F(b) == [k |-> "free", b |-> b, b2 |-> 0]
R(b, c) == [k |-> "realloc", b |-> b, b2 |-> c]
X(b) == [k |-> "badfree", b |-> b, b2 |-> 0]
Z(b) == [k |-> "allocfail", b |-> b, b2 |-> 0]
\* each thread works on its own blocks (an allocator never hands one address to two threads); t3 also commits a misuse, and one
\* allocation of t2 is refused by the allocator with a test failure
Scripts3 == [t \in {"t1", "t2", "t3"} |->
               IF t = "t1" THEN <<A(1), A(2), F(1), R(2, 3)>>
               ELSE IF t = "t2" THEN <<A(11), Z(13), F(11), A(12)>>
               ELSE <<A(21), X(99), F(21), A(22)>>]
Scripts4 == [t \in {"t1", "t2", "t3", "t4"} |->
               IF t = "t1" THEN <<A(1), A(2), F(1), R(2, 3)>>
               ELSE IF t = "t2" THEN <<A(11), F(11), A(12)>>
               ELSE IF t = "t3" THEN <<A(21), X(99), F(21)>>
               ELSE <<A(31), R(31, 32), F(32)>>]
MCThreads == IF Variant = 4 THEN {"t1", "t2", "t3", "t4"} ELSE {"t1", "t2", "t3"}
MCScript == IF Variant = 4 THEN Scripts4 ELSE Scripts3
=============================================================================
