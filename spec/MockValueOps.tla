---------------------------- MODULE MockValueOps ----------------------------
(***************************************************************************)
(* Constant-level part of the MockNamedValue specification (C09), shared   *)
(* by MockValue (the comparison / getter state machine) and Mock (the      *)
(* expectation engine, C08/C19, whose parameters and return values are     *)
(* these values).  See MockValue.tla for the description of the layers.    *)
(***************************************************************************)
EXTENDS Integers, Sequences, FiniteSets, TLC

-----------------------------------------------------------------------------
\* Big integers
B == 65536
Limb == 0..(B - 1)
Zero4 == <<0, 0, 0, 0>>
Big(neg, m) == [neg |-> neg, m |-> m]
P(h3, h2, h1, h0) == Big(FALSE, <<h3, h2, h1, h0>>)
N(h3, h2, h1, h0) == Big(TRUE, <<h3, h2, h1, h0>>)
IsBig(v) == /\ DOMAIN v = {"neg", "m"} /\ v.neg \in BOOLEAN
            /\ DOMAIN v.m = 1..4 /\ \A i \in 1..4 : v.m[i] \in Limb
            /\ (v.neg => v.m # Zero4)

MagLt(x, y) == \E i \in 1..4 : x[i] < y[i] /\ \A j \in 1..(i - 1) : x[j] = y[j]
MagLe(x, y) == x = y \/ MagLt(x, y)
BigLe(a, b) == CASE a.neg /\ ~b.neg -> TRUE
                 [] ~a.neg /\ b.neg -> FALSE
                 [] ~a.neg /\ ~b.neg -> MagLe(a.m, b.m)
                 [] OTHER -> MagLe(b.m, a.m)
BigLt(a, b) == BigLe(a, b) /\ a # b
SameInteger(a, b) == a.neg = b.neg /\ a.m = b.m

\* magnitude arithmetic modulo 2^64 (limb-wise, carries explicit)
Compl(m) == [i \in 1..4 |-> (B - 1) - m[i]]
Inc(m) == LET s4 == m[4] + 1
              s3 == m[3] + (s4 \div B)
              s2 == m[2] + (s3 \div B)
              s1 == m[1] + (s2 \div B)
          IN <<s1 % B, s2 % B, s3 % B, s4 % B>>
Neg64(m) == Inc(Compl(m))            \* two's complement: 2^64 - m (mod 2^64)

-----------------------------------------------------------------------------
\* The integer types (LP64: the widths are checked against sizeof by the "env" line of every log)
IntTypes == {"int", "unsigned int", "long int", "unsigned long int", "long long int", "unsigned long long int"}
Width(t) == IF t \in {"int", "unsigned int"} THEN 32 ELSE 64
Signed(t) == t \in {"int", "long int", "long long int"}
Lo(t) == IF ~Signed(t) THEN P(0, 0, 0, 0) ELSE IF Width(t) = 32 THEN N(0, 0, 32768, 0) ELSE N(32768, 0, 0, 0)
Hi(t) == CASE ~Signed(t) /\ Width(t) = 32 -> P(0, 0, 65535, 65535)
           [] Signed(t) /\ Width(t) = 32 -> P(0, 0, 32767, 65535)
           [] ~Signed(t) /\ Width(t) = 64 -> P(65535, 65535, 65535, 65535)
           [] OTHER -> P(32767, 65535, 65535, 65535)
InRange(v, t) == BigLe(Lo(t), v) /\ BigLe(v, Hi(t))

\* C integer conversion of a mathematical value to type t: keep the low Width(t) bits of the two's
\* complement pattern, read them back with t's signedness
Pattern64(v) == IF v.neg THEN Neg64(v.m) ELSE v.m
Trunc(p, w) == IF w = 32 THEN <<0, 0, p[3], p[4]>> ELSE p
TopBit(p, w) == IF w = 32 THEN p[3] >= 32768 ELSE p[1] >= 32768
Conv(v, t) == LET p == Trunc(Pattern64(v), Width(t)) IN
              IF Signed(t) /\ TopBit(p, Width(t)) THEN Big(TRUE, Trunc(Neg64(p), Width(t))) ELSE Big(FALSE, p)

-----------------------------------------------------------------------------
\* Values.  Integer: [t, neg, m].  bool: [t, b].  Pointers (data, const data, function): [t, id], identity.
\* String: [t, s], content.  Memory buffer: [t, bytes], length and content.  Double: [t, v, tol] with
\* v, tol extended reals [k \in {"nan","inf","fin"}, neg, q] (finite = q units of 2^-3, exact in binary).
\* Object of a user type with an installed comparator: [t = "obj", tn, c] (comparator compares contents c).
PtrTypes == {"void*", "const void*", "void (*)()"}
IsInt(a) == a.t \in IntTypes
IntVal(a) == Big(a.neg, a.m)
MkInt(t, v) == [t |-> t, neg |-> v.neg, m |-> v.m]

XNan == [k |-> "nan", neg |-> FALSE, q |-> 0]
XInf(neg) == [k |-> "inf", neg |-> neg, q |-> 0]
XFin(q) == [k |-> "fin", neg |-> (q < 0), q |-> q]
XSame(x, y) == x.k = y.k /\ (x.k = "inf" => x.neg = y.neg) /\ (x.k = "fin" => x.q = y.q)
Abs(i) == IF i < 0 THEN -i ELSE i
\* |x - y| <= tol over the extended reals, for non-NaN operands and a non-NaN tolerance
DiffWithin(x, y, tol) ==
    IF tol.k = "inf" THEN ~tol.neg                      \* +inf tolerates every distance, -inf none
    ELSE IF x.k = "inf" \/ y.k = "inf" THEN FALSE       \* infinite distance, finite tolerance
    ELSE Abs(x.q - y.q) <= tol.q
\* the rule of the property (and of C03): NaN equals nothing; same value (including the same infinity) or
\* within the tolerance.  Stated for non-negative tolerances; a negative tolerance admits nothing but "same
\* value" is not promised either, so negative tolerances are outside the enumerated domain.
DoubleEq(x, y, tol) ==
    IF x.k = "nan" \/ y.k = "nan" \/ tol.k = "nan" THEN FALSE
    ELSE XSame(x, y) \/ DiffWithin(x, y, tol)

\* equals(): `a' is the receiver (the expectation), `b' the argument
Eq(a, b) ==
    IF IsInt(a) /\ IsInt(b) THEN SameInteger(IntVal(a), IntVal(b))
    ELSE IF a.t # b.t THEN FALSE
    ELSE CASE a.t = "bool" -> a.b = b.b
           [] a.t \in PtrTypes -> a.id = b.id
           [] a.t = "const char*" -> a.s = b.s
           [] a.t = "const unsigned char*" -> a.bytes = b.bytes
           [] a.t = "double" -> DoubleEq(a.v, b.v, a.tol)
           [] a.t = "obj" -> a.tn = b.tn /\ a.c = b.c
           [] OTHER -> FALSE

\* a getter inside a running test: either the test fails or the number returned is the stored one
Fail == [k |-> "fail", neg |-> FALSE, m |-> Zero4]
Ret(v) == [k |-> "ret", neg |-> v.neg, m |-> v.m]
GetAllowed(s, g) == {Fail} \cup (IF InRange(IntVal(s), g) THEN {Ret(IntVal(s))} ELSE {})

-----------------------------------------------------------------------------
\* Intended design of the code (MockNamedValue.cpp), as operators
\* equals(): same signedness -> compare after widening; mixed -> the signed side must be non-negative, then
\* both are converted to the 64-bit unsigned type
EqDesign(a, b) ==
    LET va == IntVal(a)  vb == IntVal(b) IN
    IF Signed(a.t) = Signed(b.t) THEN Conv(va, IF Signed(a.t) THEN "long long int" ELSE "unsigned long long int")
                                      = Conv(vb, IF Signed(a.t) THEN "long long int" ELSE "unsigned long long int")
    ELSE LET sg == IF Signed(a.t) THEN va ELSE vb
             us == IF Signed(a.t) THEN vb ELSE va IN
         ~sg.neg /\ Conv(sg, "unsigned long long int") = Conv(us, "unsigned long long int")

\* getters: which stored types a getter accepts (everything else is a type mismatch = the test fails)
Accepts(g) == CASE g = "int" -> {"int"}
                [] g = "unsigned int" -> {"int", "unsigned int"}
                [] g = "long int" -> {"int", "unsigned int", "long int"}
                [] g = "unsigned long int" -> {"int", "unsigned int", "long int", "unsigned long int"}
                [] g = "long long int" -> {"int", "unsigned int", "long int", "unsigned long int", "long long int"}
                [] OTHER -> IntTypes
GetDesign(s, g) == IF s.t \in Accepts(g) /\ InRange(IntVal(s), g) THEN Ret(Conv(IntVal(s), g)) ELSE Fail
\* the same table with the conversion applied without asking whether the value fits (not the design:
\* used to show that GetterDesignRefines below can fail)
GetUnguarded(s, g) == IF s.t \in Accepts(g) THEN Ret(Conv(IntVal(s), g)) ELSE Fail

-----------------------------------------------------------------------------
\* Enumerated domain: the property's boundary lattice, symbolic points tag + d
Lattice == { N(32768, 0, 0, 0), N(32767, 65535, 65535, 65535),                       \* -2^63, -2^63+1
             N(0, 1, 0, 1), N(0, 1, 0, 0), N(0, 0, 65535, 65535),                     \* -2^32-1 .. -2^32+1
             N(0, 0, 32768, 1), N(0, 0, 32768, 0), N(0, 0, 32767, 65535),             \* -2^31-1 .. -2^31+1
             N(0, 0, 0, 2), N(0, 0, 0, 1), P(0, 0, 0, 0), P(0, 0, 0, 1), P(0, 0, 0, 2),
             P(0, 0, 32767, 65535), P(0, 0, 32768, 0), P(0, 0, 32768, 1),             \* 2^31-1 .. 2^31+1
             P(0, 0, 65535, 65535), P(0, 1, 0, 0), P(0, 1, 0, 1),                     \* 2^32-1 .. 2^32+1
             P(32767, 65535, 65535, 65535), P(32768, 0, 0, 0), P(32768, 0, 0, 1),     \* 2^63-1 .. 2^63+1
             P(65535, 65535, 65535, 65534), P(65535, 65535, 65535, 65535) }           \* 2^64-2, 2^64-1
IntValues == { x \in { MkInt(t, v) : t \in IntTypes, v \in Lattice } : InRange(IntVal(x), x.t) }
XVals == {XNan, XInf(FALSE), XInf(TRUE)} \cup { XFin(q) : q \in {-8, -1, 0, 1, 7, 8, 9} }
XTols == {XNan, XInf(FALSE), XFin(0), XFin(1), XFin(16)}
OtherValues ==
    { [t |-> "bool", b |-> x] : x \in BOOLEAN }
    \cup { [t |-> pt, id |-> i] : pt \in PtrTypes, i \in 0..2 }
    \cup { [t |-> "const char*", s |-> x] : x \in {"", "a", "ab", "aB"} }
    \cup { [t |-> "const unsigned char*", bytes |-> x] : x \in {<<>>, <<0>>, <<0, 0>>, <<0, 255>>, <<1>>} }
    \cup { [t |-> "double", v |-> x, tol |-> y] : x \in XVals, y \in XTols }
    \cup { [t |-> "obj", tn |-> n, c |-> x] : n \in {"TypeA", "TypeB"}, x \in 1..2 }
\* representatives of the integers for mixed integer / non-integer pairs
FewInts == { x \in IntValues : IntVal(x) \in {P(0, 0, 0, 0), P(0, 0, 0, 1)} }

=============================================================================
