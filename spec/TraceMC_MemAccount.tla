---- MODULE TraceMC_MemAccount ----
EXTENDS Trace_MemAccount
CC == {{4}}
====
