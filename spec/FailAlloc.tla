------------------------------ MODULE FailAlloc ------------------------------
(***************************************************************************)
(* CppUTest out-of-memory injection (property C15).                        *)
(*                                                                         *)
(* Part 1: FailableMemoryAllocator.  A test designates allocations that    *)
(* must fail: "the n-th allocation overall" (failAllocNumber) or "the n-th *)
(* allocation made at source location loc" (failNthAllocAt).  Two layers:  *)
(*  - implementation-shaped: `pending', the list of designations (head     *)
(*    insertion); every location designation carries its own counter       *)
(*    `seen' of allocations made at its location since it was placed;      *)
(*    `count' numbers the allocations since the last clear; a designation  *)
(*    is consumed when it fires;                                           *)
(*  - textbook ghost: `todo', the set of designated allocation points in   *)
(*    absolute terms (global index, or location x index at that location   *)
(*    since the last clear, `lc'), minus the ones that have occurred.      *)
(* The verdict of an allocation in the first layer must be the textbook    *)
(* one (ExactlyDesignated).                                                *)
(* When several pending designations name the same allocation, that        *)
(* allocation fails once; the property does not say whether all of them    *)
(* are used up by it, so FAlloc takes the consumed subset C as a parameter *)
(* (non-empty; every location counter advances regardless).                *)
(*                                                                         *)
(* Part 2: the C interface.  cpputest_malloc_set_out_of_memory_countdown   *)
(* (n) makes the n-th C allocation from now and all later ones fail;       *)
(* set_out_of_memory / set_not_out_of_memory switch directly.  While out   *)
(* of memory the null allocator is installed in place of the test's        *)
(* malloc allocator (here: the failable one), so the latter is not asked.  *)
(* cpputest_malloc/calloc/strdup/strndup each perform exactly one C        *)
(* allocation and return NULL exactly when it fails.                       *)
(* The simulation is a detour around the test's malloc allocator, whichever *)
(* that is: `sel' = the malloc allocator the test has installed (the        *)
(* failable one of part 1, or the plain standard one that never fails;      *)
(* Install changes it, outside the simulation).  The allocator that serves  *)
(* a C allocation is Current: the null allocator while out of memory,       *)
(* otherwise `sel'.  However often and by whichever door the simulation was *)
(* entered (set_out_of_memory, countdown(0), a countdown expiring, any of   *)
(* them again while already out of memory), set_not_out_of_memory ends it:  *)
(* the allocator in place before it serves the allocations again; when the  *)
(* simulation was never entered, it has nothing to put back and the test's  *)
(* allocator stays.                                                         *)
(*                                                                         *)
(* Part 3: the malloc statistics of the C interface.  cpputest_malloc_get_   *)
(* count returns the number of C allocations (successful or not) since     *)
(* cpputest_malloc_count_reset (`mc').  The statistics and the injection   *)
(* are two features over the same allocations: counting, reading and       *)
(* resetting the statistics leaves the injection alone (the countdown      *)
(* keeps running from where it was), and arming / clearing the injection   *)
(* leaves the statistics alone.                                            *)
(*                                                                         *)
(* `last' = what the caller observes of the last call (res) and what the   *)
(* textbook layer says it should be (want).                                *)
(***************************************************************************)
EXTENDS Integers, Sequences, FiniteSets, TLC

CONSTANTS Locs,        \* source locations (naturals >= 1)
          Ns,          \* designation numbers explored by the model
          Countdowns,  \* countdown values (naturals) explored by the model; -1 (no countdown) is always explored
          MaxAllocs,   \* bound on allocations per clear period in the model
          MaxPending,  \* bound on simultaneously pending designations in the model
          MaxCount,    \* bound on the malloc statistics counter in the model
          Allocators   \* the malloc allocators the test may install: a subset of {"failable", "plain"} containing "failable" (the initial one)

VARIABLES pending, count,          \* failable allocator, implementation-shaped
          todo, lc,                \* failable allocator, textbook ghost
          cd, oom,                 \* C interface: countdown (-1 = none), out of memory
          sel,                     \* C interface: the malloc allocator the test has installed ("failable" | "plain")
          cn, cseen, forced,       \* C interface, ghost: argument of the last countdown, C allocations since, oom forced otherwise
          mc,                      \* C interface: malloc statistics, C allocations since the last count reset
          last

fvars == <<pending, count, todo, lc>>
cvars == <<cd, oom, sel, cn, cseen, forced, mc>>
injvars == <<pending, count, todo, lc, cd, oom, sel, cn, cseen, forced>>
vars == <<pending, count, todo, lc, cd, oom, sel, cn, cseen, forced, mc, last>>

CFns == {"malloc", "calloc", "strdup", "strndup"}
ASSUME "failable" \in Allocators /\ Allocators \subseteq {"failable", "plain"}
\* the allocator that serves the next C allocation
Current == IF oom THEN "null" ELSE sel
Outcome(op, res, want) == [op |-> op, res |-> res, want |-> want]

Init == /\ pending = <<>> /\ count = 0 /\ todo = {} /\ lc = [x \in Locs |-> 0]
        /\ cd = -1 /\ oom = FALSE /\ sel = "failable" /\ cn = -1 /\ cseen = 0 /\ forced = FALSE /\ mc = 0
        /\ last = Outcome("init", "none", FALSE)

-----------------------------------------------------------------------------
\* failAllocNumber(n): the n-th allocation since the last clear must fail
FailNumber(n) ==
    /\ pending' = <<[g |-> TRUE, loc |-> 0, n |-> n, seen |-> 0]>> \o pending
    /\ todo' = todo \cup {[g |-> TRUE, loc |-> 0, target |-> n]}
    /\ last' = Outcome("failnum", "none", FALSE)
    /\ UNCHANGED <<count, lc, cd, oom, sel, cn, cseen, forced, mc>>

\* failNthAllocAt(n, loc): the n-th allocation made at loc from now on must fail
FailAt(loc, n) ==
    /\ pending' = <<[g |-> FALSE, loc |-> loc, n |-> n, seen |-> 0]>> \o pending
    /\ todo' = todo \cup {[g |-> FALSE, loc |-> loc, target |-> lc[loc] + n]}
    /\ last' = Outcome("failat", "none", FALSE)
    /\ UNCHANGED <<count, lc, cd, oom, sel, cn, cseen, forced, mc>>

\* the pending designations that name the next allocation, made at loc
Matching(loc) == { i \in 1..Len(pending) :
                     IF pending[i].g THEN pending[i].n = count + 1
                                     ELSE pending[i].loc = loc /\ pending[i].seen + 1 = pending[i].n }
Bump(s, loc) == [i \in 1..Len(s) |-> IF ~s[i].g /\ s[i].loc = loc THEN [s[i] EXCEPT !.seen = @ + 1] ELSE s[i]]
Keep(s, C) == LET F[i \in 0..Len(s)] == IF i = 0 THEN <<>> ELSE IF i \in C THEN F[i - 1] ELSE Append(F[i - 1], s[i])
              IN F[Len(s)]
Hit(loc) == { d \in todo : IF d.g THEN d.target = count + 1 ELSE d.loc = loc /\ d.target = lc[loc] + 1 }

\* one allocation through the failable allocator at loc; C = the designations it uses up
FAlloc(loc, C, op) ==
    /\ C \subseteq Matching(loc) /\ ((C = {}) <=> (Matching(loc) = {}))
    /\ pending' = Keep(Bump(pending, loc), C)
    /\ count' = count + 1
    /\ lc' = [lc EXCEPT ![loc] = @ + 1]
    /\ todo' = todo \ Hit(loc)
    /\ last' = Outcome(op, IF Matching(loc) # {} THEN "null" ELSE "ok", Hit(loc) # {})

\* alloc_memory called directly, through operator new / new[] (NULL = std::bad_alloc) -- the family does not matter
Alloc(loc, C) == FAlloc(loc, C, "alloc") /\ UNCHANGED cvars

\* checkAllFailedAllocsWereDone: fails the test when a designation is still pending
CheckDone ==
    /\ last' = Outcome("checkdone", IF pending # <<>> THEN "reported" ELSE "ok", todo # {})
    /\ UNCHANGED <<pending, count, todo, lc, cd, oom, sel, cn, cseen, forced, mc>>

\* clearFailedAllocs: forget every designation, restart the numbering
Clear ==
    /\ pending' = <<>> /\ count' = 0 /\ todo' = {} /\ lc' = [x \in Locs |-> 0]
    /\ last' = Outcome("clear", "none", FALSE)
    /\ UNCHANGED cvars

-----------------------------------------------------------------------------
\* cpputest_malloc_set_out_of_memory_countdown(n)
Countdown(n) ==
    /\ cd' = n /\ oom' = (oom \/ n = 0)
    /\ cn' = n /\ cseen' = 0 /\ forced' = oom
    /\ last' = Outcome("countdown", "none", FALSE)
    /\ UNCHANGED <<fvars, sel, mc>>
SetOOM ==
    /\ oom' = TRUE /\ forced' = TRUE /\ last' = Outcome("setoom", "none", FALSE)
    /\ UNCHANGED <<pending, count, todo, lc, cd, sel, cn, cseen, mc>>
\* cpputest_malloc_set_not_out_of_memory: the injection is cleared, the test's allocator (sel, untouched) is back
SetNotOOM ==
    /\ oom' = FALSE /\ cd' = -1 /\ cn' = -1 /\ cseen' = 0 /\ forced' = FALSE
    /\ last' = Outcome("setnotoom", "none", FALSE)
    /\ UNCHANGED <<fvars, sel, mc>>
\* setCurrentMallocAllocator(a) / setCurrentMallocAllocatorToDefault: the test installs its malloc allocator.
\* Outside the simulation only: what installing an allocator over the null allocator means is left open.
Install(a) ==
    /\ ~oom /\ sel' = a
    /\ last' = Outcome("install", "none", FALSE)
    /\ UNCHANGED <<fvars, cd, oom, cn, cseen, forced, mc>>

\* cpputest_malloc / calloc / strdup / strndup at loc: one C allocation
CAlloc(fn, loc, C) ==
    LET cd2 == IF cd > 0 THEN cd - 1 ELSE cd
        oom2 == oom \/ (cd > 0 /\ cd2 = 0) IN
    /\ cd' = cd2 /\ oom' = oom2 /\ cseen' = cseen + 1 /\ mc' = mc + 1 /\ UNCHANGED <<sel, cn, forced>>
    /\ IF oom2 THEN /\ last' = Outcome(fn, "null", forced \/ (cn >= 0 /\ cseen + 1 >= cn))
                    /\ UNCHANGED fvars
               ELSE IF sel = "failable" THEN FAlloc(loc, C, fn)
               ELSE /\ C = {} /\ last' = Outcome(fn, "ok", FALSE)      \* the plain allocator: the designations are not asked
                    /\ UNCHANGED fvars

\* cpputest_malloc_count_reset: the statistics restart; the injection is not touched
CountReset ==
    /\ mc' = 0 /\ last' = Outcome("countreset", "none", FALSE)
    /\ UNCHANGED injvars
\* cpputest_malloc_get_count: reads the statistics (the value read is mc)
GetCount ==
    /\ last' = Outcome("getcount", "none", FALSE)
    /\ UNCHANGED <<injvars, mc>>

Next == \/ \E n \in Ns : Len(pending) < MaxPending /\ (FailNumber(n) \/ \E x \in Locs : FailAt(x, n))
        \/ \E x \in Locs : count < MaxAllocs /\ \E C \in SUBSET Matching(x) : Alloc(x, C)
        \/ CheckDone \/ Clear
        \/ \E n \in Countdowns \cup {-1} : Countdown(n)
        \/ SetOOM \/ SetNotOOM
        \/ \E a \in Allocators : Install(a)
        \/ CountReset \/ GetCount
        \/ \E f \in CFns, x \in Locs : count < MaxAllocs /\ cseen < MaxAllocs /\ mc < MaxCount /\ \E C \in SUBSET Matching(x) : CAlloc(f, x, C)

Spec == Init /\ [][Next]_vars

-----------------------------------------------------------------------------
\* Properties (C15)
AllocOps == {"alloc"} \cup CFns
TypeOK == /\ count \in Nat /\ cd \in Int /\ oom \in BOOLEAN /\ sel \in Allocators /\ forced \in BOOLEAN /\ cseen \in Nat /\ mc \in Nat
          /\ \A i \in 1..Len(pending) : pending[i].seen \in Nat
          /\ last.res \in {"none", "ok", "null", "reported"}
\* exactly the designated allocations fail: the verdict of every allocation is the textbook one
ExactlyDesignated == last.op \in AllocOps => ((last.res = "null") <=> last.want)
\* a designated failure that has not happened is reported when the test asks
ReportsUndone == (last.op = "checkdone" /\ last.want) => last.res = "reported"
\* a pending designation that can still fire stands for a textbook designation that has not occurred
PendingLive == \A i \in 1..Len(pending) :
                  IF pending[i].g THEN pending[i].n > count => [g |-> TRUE, loc |-> 0, target |-> pending[i].n] \in todo
                  ELSE pending[i].seen < pending[i].n =>
                          [g |-> FALSE, loc |-> pending[i].loc, target |-> lc[pending[i].loc] - pending[i].seen + pending[i].n] \in todo
\* after clear nothing is designated any more
ClearRestores == last.op = "clear" => pending = <<>> /\ todo = {} /\ count = 0
\* the countdown: the n-th C allocation after it and all later ones are out of memory, the earlier ones are not
CountdownFires == (cn >= 0 /\ cseen >= cn) => oom
CountdownNotEarly == (cn > 0 /\ cseen < cn /\ ~forced) => ~oom
NotOomRestores == last.op = "setnotoom" => ~oom /\ cd = -1 /\ Current = sel
\* the simulation is a detour: entering it (by any door, any number of times) and leaving it never changes which allocator the test has installed,
\* and outside it a C allocation is served by that allocator - the plain one never fails, the failable one fails exactly its designated allocations
SimulationKeepsAllocator == [][last'.op \in ({"countdown", "setoom", "setnotoom"} \cup CFns) => sel' = sel]_vars
ServedByInstalled == [][(last'.op \in CFns /\ ~oom') => (IF sel = "plain" THEN last'.res = "ok" /\ UNCHANGED fvars ELSE count' = count + 1)]_vars
\* the statistics count every C allocation and nothing else; reading / resetting them does not move the injection
CountResetZeroes == last.op = "countreset" => mc = 0
CountsCAllocs == [][mc' = IF last'.op \in CFns THEN mc + 1 ELSE IF last'.op = "countreset" THEN 0 ELSE mc]_vars
StatsLeaveInjection == [][last'.op \in {"countreset", "getcount"} => UNCHANGED injvars]_vars
OomMeansNull == [][(last'.op \in CFns /\ oom') => last'.res = "null"]_vars
=============================================================================
