-------------------------- MODULE SimpleStrLattice --------------------------
(***************************************************************************)
(* Operand lattices for the pure calls of SimpleStr.tla (C13) and the set  *)
(* of calls (rows) per family.  Every row satisfies Pre.  Rows are built   *)
(* by parameterised operators so that TLC evaluates only what is asked.    *)
(***************************************************************************)
EXTENDS SimpleStr

CONSTANTS A2, L2,      \* alphabet / maximal length for binary and ternary operations
          A1, L1,      \* alphabet / maximal length for unary operations (control bytes, 0x7F, >= 0x80, backslash)
          AC, LC,      \* alphabet / maximal length for the case-insensitive operations
          AN, LN,      \* alphabet / maximal length for AtoI / AtoU
          PMax,        \* positions and lengths 0..PMax
          WL,          \* maximal length of a run of leading white space (drawn from the whole isspace() class) for AtoI / AtoU
          HG,          \* symbolic sizes beyond every string (a subset of HugeNames) used as positions / lengths / counts
          BitPos       \* bit positions for the masked-bit formatter

S2 == SeqsUpTo(A2, L2)
S1 == SeqsUpTo(A1, L1)
SC == SeqsUpTo(AC, LC)
SN == SeqsUpTo(AN, LN)
P == 0..PMax
Chars2 == A2 \cup {120}                     \* a byte that never occurs in the strings as well
Blocks == SeqsUpTo({0, 1, 255}, 2) \cup {<<171, 0, 1>>, <<0, 0, 0>>}
LongBlocks == { Rep(<<171>>, n) : n \in {127, 128, 129} }

ASSUME HG \subseteq HugeNames
NoHg == <<"", "", "">>
Row(fn, s1, s2, s3, n1, n2, n3) == [op |-> "f", fn |-> fn, s1 |-> s1, s2 |-> s2, s3 |-> s3, n1 |-> n1, n2 |-> n2, n3 |-> n3, hg |-> NoHg]
\* a call whose k-th number is the symbolic size hk (hk = "": the number nk)
RowH(fn, s1, s2, s3, n1, n2, n3, h1, h2, h3) ==
    [op |-> "f", fn |-> fn, s1 |-> s1, s2 |-> s2, s3 |-> s3, n1 |-> IF h1 = "" THEN n1 ELSE 0, n2 |-> IF h2 = "" THEN n2 ELSE 0,
     n3 |-> IF h3 = "" THEN n3 ELSE 0, hg |-> <<h1, h2, h3>>]
R1(fn, s1) == Row(fn, s1, <<>>, <<>>, 0, 0, 0)
R2(fn, s1, s2) == Row(fn, s1, s2, <<>>, 0, 0, 0)
RN(fn, n1) == Row(fn, <<>>, <<>>, <<>>, n1, 0, 0)

RECURSIVE SortedSeq(_)
SortedSeq(S) == IF S = {} THEN <<>> ELSE LET m == CHOOSE x \in S : \A y \in S : x <= y IN <<m>> \o SortedSeq(S \ {m})

\* ---- every byte value.  A C string can hold the bytes 1..255, a memory block 0..255.
AllB == 1..255
\* the partners a byte is confronted with in the operations without case: itself, its lower-case form, the bytes 32 below /
\* above it (the would-be case partners of non-letters: '@' and '`', '[' and '{', 0xC1 and 0xE1); in the comparisons: itself,
\* its mirror image 256 - c (the same magnitude as a signed char) and the ends of the signed / unsigned ranges 1, 128, 255
CasePartners(c) == {c, LowerCh(c), c - 32, c + 32} \cap AllB
\* every call in which the byte c is classified or compared: as the first byte of a number, after white space / a sign / a
\* digit, as the argument of the case, escaping, comparing, searching and copying operations
ByteRows(c) ==
    { R1(fn, <<c>> \o t) : fn \in {"atoi", "atou"}, t \in {<<>>, <<52, 50>>, <<45, 55>>} } \cup
    { R1(fn, w \o <<c>> \o <<52, 50>>) : fn \in {"atoi", "atou"}, w \in {<<12>>, <<45>>, <<49>>} } \cup
    { R1(fn, a) : fn \in {"lower", "printable"}, a \in {<<c>>, <<97, c, 90>>} } \cup
    { R1(fn, <<c>>) : fn \in {"strlen", "format"} } \cup
    { R2("strcmp", <<c>>, <<d>>) : d \in {c, 1, 128, 255} } \cup
    { R2("eqnocase", <<c>>, <<d>>) : d \in CasePartners(c) } \cup
    { R2("containsnocase", <<97, c, 98>>, <<d>>) : d \in {c - 32, c + 32} \cap AllB } \cup
    { R2("strstr", <<97, c, 98>>, <<c, 98>>) } \cup
    { Row("strncmp", <<97, c>>, <<97, d>>, <<>>, 2, 0, 0) : d \in {c, 256 - c} } \cup
    { Row("find", <<97, c>>, <<>>, <<>>, d, 0, 0) : d \in {c, 256 - c} } \cup
    { Row("strncpy", <<c>>, <<>>, <<>>, 3, 0, 0), Row("replacech", <<97, c>>, <<>>, <<>>, c, 120, 0),
      Row("at", <<c>>, <<>>, <<>>, 0, 0, 0), Row("copytobuf", <<c>>, <<>>, <<>>, 2, 0, 0), Row("pad", <<97>>, <<98, 98>>, <<>>, c, 0, 0) }
\* numbers as AtoI / AtoU read them: white space from the whole class, a sign, digits, and something after the number
WhiteRuns == SeqsUpTo(SpaceBytes, WL)
NumRows == { R1(fn, w \o sg \o dg \o tr) : fn \in {"atoi", "atou"}, w \in WhiteRuns, sg \in {<<>>, <<45>>, <<43>>},
                                             dg \in {<<>>, <<52, 50>>},
                                             tr \in {<<>>, <<32, 49>>, <<11, 49>>, <<97>>, <<45, 49>>} }

BinFns == {"eq", "ne", "contains", "startswith", "endswith", "count", "strcmp", "strstr", "plus", "append", "appendc", "split", "format2"}
Ints == {0, 1, 9, 10, 11, 99, 100, 101, 255, 256, 4095, 4096, 65535, 65536, 1000000, 2147483646, 2147483647}
Family(f) ==
    CASE f = "bin" -> { R2(fn, a, b) : fn \in BinFns, a \in S2, b \in S2 } \cup
                      { Row("strncmp", a, b, <<>>, n, 0, 0) : a \in S2, b \in S2, n \in 0..(L2 + 1) }
      [] f = "tri" -> { Row("replacestr", a, b, c, 0, 0, 0) : a \in S2, b \in S2, c \in S2 }
      [] f = "case" -> { R2(fn, a, b) : fn \in {"eqnocase", "containsnocase"}, a \in SC, b \in SC } \cup
                       { R1("lower", a) : a \in SC } \cup { RN("tolower", n) : n \in 0..255 }
      [] f = "un" -> { R1(fn, a) : fn \in {"ctor", "copy", "lower", "printable", "size", "isempty", "strlen", "fromornull",
                                             "printableornull", "format"}, a \in S1 } \cup
                     { R1(fn, NULLS) : fn \in {"ctor", "fromornull", "printableornull"} }
      [] f = "pos" -> { Row("substr1", a, <<>>, <<>>, b, 0, 0) : a \in S2, b \in P } \cup
                      { Row("substr2", a, <<>>, <<>>, b, n, 0) : a \in S2, b \in P, n \in P } \cup
                      { Row("find", a, <<>>, <<>>, ch, 0, 0) : a \in S2, ch \in Chars2 } \cup
                      { Row("findfrom", a, <<>>, <<>>, b, ch, 0) : a \in S2, b \in P, ch \in Chars2 } \cup
                      { Row("subfromtill", a, <<>>, <<>>, c1, c2, 0) : a \in S2, c1 \in Chars2, c2 \in Chars2 } \cup
                      { r \in { Row("at", a, <<>>, <<>>, b, 0, 0) : a \in S2, b \in P } : r.n1 <= Len(r.s1) } \cup
                      { Row("copytobuf", a, <<>>, <<>>, n, nul, 0) : a \in S2, n \in P, nul \in {0, 1} } \cup
                      { Row("repeat", a, <<>>, <<>>, n, 0, 0) : a \in S2, n \in 0..3 } \cup
                      { Row("replacech", a, <<>>, <<>>, c1, c2, 0) : a \in S2, c1 \in Chars2, c2 \in Chars2 } \cup
                      { Row("strncpy", a, <<>>, <<>>, n, 0, 0) : a \in S2, n \in P } \cup
                      { Row("pad", a, b, <<>>, 32, 0, 0) : a \in S2, b \in S2 }
      \* positions, lengths and counts beyond every string (size_t values near SIZE_MAX, 2^63, 2^32, 2^31): every operation
      \* for which such an argument is a legal call (HugeSlots), combined with the small positions
      [] f = "huge" -> { RowH("substr1", a, <<>>, <<>>, 0, 0, 0, h, "", "") : a \in S2, h \in HG } \cup
                       { RowH("substr2", a, <<>>, <<>>, b, 0, 0, "", h, "") : a \in S2, b \in P, h \in HG } \cup
                       { RowH("substr2", a, <<>>, <<>>, 0, n, 0, h, "", "") : a \in S2, n \in P, h \in HG } \cup
                       { RowH("substr2", a, <<>>, <<>>, 0, 0, 0, h, g, "") : a \in S2, h \in HG, g \in HG } \cup
                       { RowH("findfrom", a, <<>>, <<>>, 0, ch, 0, h, "", "") : a \in S2, ch \in Chars2, h \in HG } \cup
                       { RowH("strncmp", a, b, <<>>, 0, 0, 0, h, "", "") : a \in S2, b \in S2, h \in HG } \cup
                       { RowH("copytobuf", a, <<>>, <<>>, 0, nul, 0, h, "", "") : a \in S2, nul \in {0, 1}, h \in HG } \cup
                       { RowH("repeat", <<>>, <<>>, <<>>, 0, 0, 0, h, "", "") : h \in HG } \cup
                       { RowH("maskedbits", SortedSeq(V), SortedSeq(M), <<>>, 0, 0, 0, "", "", h) :
                           V \in {{}, {0, 63}}, M \in {{}, {0, 7, 63}, 0..63}, h \in HG }
      [] f = "num" -> { R1(fn, a) : fn \in {"atoi", "atou"}, a \in SN } \cup
                      { R1(fn, a) : fn \in {"atoi", "atou"}, a \in {<<50, 49, 52, 55, 52, 56, 51, 54, 52>>, <<32, 45, 57, 57, 57, 57, 57, 57, 57, 57, 57>>} } \cup
                      { RN("dec", n) : n \in Ints \cup { 0 - k : k \in Ints } } \cup
                      { RN(fn, n) : fn \in {"udec", "hex", "brackets"}, n \in Ints } \cup
                      { RN("hexschar", n) : n \in -128..127 } \cup
                      { RN("bool", n) : n \in {0, 1, 2} } \cup
                      { RN("char", n) : n \in 1..255 } \cup
                      { RN("ordinal", n) : n \in 0..125 \cup {211, 212, 213, 1011, 1012, 1013, 1021, 1111, 2147483647} }
      [] f = "blk" -> { R1(fn, a) : fn \in {"binary", "binaryornull", "binarysize", "binarysizeornull"}, a \in Blocks \cup LongBlocks } \cup
                      { R1(fn, NULLS) : fn \in {"binaryornull", "binarysizeornull"} } \cup
                      { r \in { Row("memcmp", a, b, <<>>, n, 0, 0) : a \in Blocks, b \in Blocks, n \in 0..3 } : r.n1 <= Len(r.s1) /\ r.n1 <= Len(r.s2) }
      [] f = "bits" -> { Row("maskedbits", SortedSeq(V), SortedSeq(M), <<>>, 0, 0, bc) :
                           V \in SUBSET BitPos, M \in SUBSET BitPos, bc \in {1, 2, 4, 8, 9} }
      [] f = "bytes" -> UNION { ByteRows(c) : c \in AllB } \cup
                        { Row("memcmp", <<c, 0>>, <<d, 0>>, <<>>, 2, 0, 0) : c \in 0..255, d \in {0, 1, 128, 255} } \cup
                        { Row("memcmp", <<7, c>>, <<7, c>>, <<>>, 2, 0, 0) : c \in 0..255 }
      [] f = "white" -> NumRows
      [] f = "fmt" -> { R1("format", Rep(<<97>>, n)) : n \in {0, 1, 98, 99, 100, 101, 102, 250} } \cup
                      { R2("format2", Rep(<<97>>, n), Rep(<<98>>, m)) : n \in {0, 49, 50, 99, 100}, m \in {0, 49, 50, 51, 100} } \cup
                      { R2(fn, Rep(<<97>>, n), <<98>>) : fn \in {"plus", "append", "appendc"}, n \in {99, 100, 300} }
Families == {"bin", "tri", "case", "un", "pos", "huge", "num", "blk", "bits", "fmt", "bytes", "white"}
RowsOf(f) == IF f = "all" THEN UNION { Family(g) : g \in Families } ELSE Family(f)
=============================================================================
