---------------------------- MODULE Trace_PluginChain ----------------------------
EXTENDS PluginChain, Json, IOUtils
VARIABLE l
tvars == <<vars, l>>
Tr == ndJsonDeserialize(IOEnv.TRACE)
E == Tr[l]
Is(op) == l <= Len(Tr) /\ Tr[l].op = op /\ l' = l + 1
\* the walks observed after a call run over the chain as the call left it - except that the pre walk in which a plugin removes itself
\* started on the chain as it was
ObsOK == /\ E.count = Count(chain') /\ E.isen = en'[E.name]
         /\ E.pre = (IF E.op = "preremove" THEN PreOrder(chain) ELSE PreOrder(chain'))
         /\ E.post = PostOrder(chain')
         /\ (E.op \in {"enable", "disable"} => E.res = res')
TInit == Init /\ l = 1
TNext == /\ \/ Is("install") /\ Install(E.name)
            \/ Is("remove") /\ Remove(E.name)
            \/ Is("enable") /\ SetEnabled(E.name, TRUE)
            \/ Is("disable") /\ SetEnabled(E.name, FALSE)
            \/ Is("objenable") /\ ObjSetEnabled(E.name, TRUE)
            \/ Is("objdisable") /\ ObjSetEnabled(E.name, FALSE)
            \/ Is("preremove") /\ PreRemove(E.name)
         /\ ObsOK
TReset == Is("reset") /\ chain' = <<>> /\ en' = [n \in Names |-> TRUE] /\ res' = "ok"
TSpec == TInit /\ [][TNext \/ TReset]_tvars
Accepted == TLCGet("stats").diameter - 1 = Len(Tr)
TInv == NoDup /\ PostIsReverseOfPre /\ FlagIsTheObjects
PNext == \/ Is("install") /\ Install(E.name)
         \/ Is("remove") /\ Remove(E.name)
         \/ Is("enable") /\ SetEnabled(E.name, TRUE)
         \/ Is("disable") /\ SetEnabled(E.name, FALSE)
         \/ Is("objenable") /\ ObjSetEnabled(E.name, TRUE)
         \/ Is("objdisable") /\ ObjSetEnabled(E.name, FALSE)
         \/ Is("preremove") /\ PreRemove(E.name)
PSpec == TInit /\ [][PNext \/ TReset]_tvars
Predict == (l > 1 /\ l - 1 >= atoi(IOEnv.FROM_LINE_N)) =>
              PrintT(<<"BEH", ToJson([line |-> l - 1, count |-> Count(chain), pre |-> PreOrder(chain), post |-> PostOrder(chain), res |-> res])>>)
=============================================================================
