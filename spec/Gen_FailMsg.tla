---------------------------- MODULE Gen_FailMsg ----------------------------
(* Table generation for C14 (message part): one initial state per operand pair of the lattice and failure kind the
   pair is legal for; each is printed as a one-call behaviour.  Only the inputs are printed; what the message must say
   is decided by Trace_FailMsg with FailMsg's operators when the recorded messages are validated. *)
EXTENDS FailMsg, Json
CONSTANT Kinds
VARIABLES row
Rows == { r \in [kind : Kinds \ {"bitseq"}, e : Strs, a : Strs] :
             /\ r.kind = "streq" => r.e # r.a
             /\ r.kind = "nocase" => LowerAll(r.e) # LowerAll(r.a)
             /\ r.kind = "bineq" => Len(r.e) = Len(r.a) /\ r.e # r.a }
\* bits-equal kind: every width, operand pairs and masks of the byte lattice for which the check fails (the operands differ
\* under the mask somewhere in the 64 bits - possibly only above the operand width, then the two fields coincide)
BitRows == IF "bitseq" \in Kinds
           THEN { r \in [kind : {"bitseq"}, w : Widths, e : Vals, a : AVals, m : Masks] : And8(r.e, r.m) # And8(r.a, r.m) }
           ELSE {}
GInit == row \in (Rows \cup BitRows) /\ u = 0
GSpec == GInit /\ [][UNCHANGED <<row, u>>]_<<row, u>>
Dump == PrintT(<<"BEH", ToJson(row)>>)
=============================================================================
