---------------------------- MODULE Gen_FailMsg ----------------------------
(* Table generation for C14 (message part): one initial state per operand pair of the lattice and failure kind the
   pair is legal for; each is printed as a one-call behaviour.  Only the inputs are printed; what the message must say
   is decided by Trace_FailMsg with FailMsg's operators when the recorded messages are validated.
   Initial states of GSpec:
   - the lattice of short operands with every content (rows [kind, e, a], operands as symbol sequences)
   - the length grid: for every sum S = 0..MaxSum of the two operand lengths the splits (n, S - n) with n = 0, S, S/2 and
            every n congruent to S modulo Grid, for every kind - so the text of every kind takes every length from its fixed
            part up to that plus MaxSum, with both operands long, one long, one empty (rows [kind, er, ar], operands as runs) *)
EXTENDS FailMsg, Json
CONSTANTS Kinds,
          MaxSum, Grid      \* the length grid
VARIABLES row
Rows == { r \in [kind : Kinds \ {"bitseq"}, e : Strs, a : Strs] :
             /\ r.kind = "streq" => r.e # r.a
             /\ r.kind = "nocase" => LowerAll(r.e) # LowerAll(r.a)
             /\ r.kind = "bineq" => Len(r.e) = Len(r.a) /\ r.e # r.a
             /\ r.kind \in Rendered => AllPrintable(r.e) /\ AllPrintable(r.a)
             /\ r.kind = "contains" => ~HasSub(r.a, r.e)
             /\ r.kind \in OneOperand => r.a = <<>> }
\* bits-equal kind: every width, operand pairs and masks of the byte lattice for which the check fails (the operands differ
\* under the mask somewhere in the 64 bits - possibly only above the operand width, then the two fields coincide)
BitRows == IF "bitseq" \in Kinds
           THEN { r \in [kind : {"bitseq"}, w : Widths, e : Vals, a : AVals, m : Masks] : And8(r.e, r.m) # And8(r.a, r.m) }
           ELSE {}

\* ---- the length grid.  Operands are runs of one symbol (x for expected, y for actual; the last byte of a block differs)
Run(c, n) == IF n = 0 THEN <<>> ELSE <<<<c, n>>>>
SplitsOf(S) == {0, S, S \div 2} \cup { n \in 0..S : n % Grid = S % Grid }
LenRowsOf(k) ==
    IF k \in OneOperand THEN { [kind |-> k, er |-> Run(8, n), ar |-> <<>>] : n \in 0..MaxSum }
    ELSE IF k = "bineq" THEN { [kind |-> k, er |-> Run(8, n), ar |-> Run(8, n - 1) \o Run(9, 1)] : n \in 1..(MaxSum \div 2) }
    ELSE UNION { { [kind |-> k, er |-> Run(8, n), ar |-> Run(9, S - n)] :
                     n \in { m \in SplitsOf(S) : k = "contains" => m > 0 } } :            \* the empty text is contained in every text
                 S \in { T \in 0..MaxSum : k \in {"streq", "nocase"} => T > 0 } }         \* the operands differ
GInit == /\ u = 0
         /\ \/ row \in (Rows \cup BitRows)
            \/ \E k \in Kinds \ {"bitseq"} : row \in LenRowsOf(k)
GSpec == GInit /\ [][UNCHANGED <<row, u>>]_<<row, u>>
Dump == PrintT(<<"BEH", ToJson(row)>>)
=============================================================================
