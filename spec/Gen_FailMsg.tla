---------------------------- MODULE Gen_FailMsg ----------------------------
(* Table generation for C14 (message part): one initial state per operand pair of the lattice and failure kind the
   pair is legal for; each is printed as a one-call behaviour.  Only the inputs are printed; what the message must say
   is decided by Trace_FailMsg with FailMsg's operators when the recorded messages are validated. *)
EXTENDS FailMsg, Json
CONSTANT Kinds
VARIABLES row
Rows == { r \in [kind : Kinds, e : Strs, a : Strs] :
             /\ r.kind = "streq" => r.e # r.a
             /\ r.kind = "nocase" => LowerAll(r.e) # LowerAll(r.a)
             /\ r.kind = "bineq" => Len(r.e) = Len(r.a) /\ r.e # r.a }
GInit == row \in Rows /\ u = 0
GSpec == GInit /\ [][UNCHANGED <<row, u>>]_<<row, u>>
Dump == PrintT(<<"BEH", ToJson(row)>>)
=============================================================================
