------------------------------ MODULE TeamCity ------------------------------
(***************************************************************************)
(* CppUTest TeamCityTestOutput driven by TestRegistry::runAllTests through *)
(* TestResult (property C20).                                              *)
(*                                                                         *)
(* One action per call the registry makes on the reporter:                 *)
(*   TestsStarted, GroupStarted, Skip (test filtered out: no call reaches  *)
(*   the reporter), TestStarted, PrintText, Failure, TestEnded, GroupEnded,    *)
(*   TestsEnded.                                                           *)
(* `phase', `grp', `tst' are the registry's position in its loop (the      *)
(* callback protocol of TestRegistry.cpp:46-74); `out' is the stream of    *)
(* service messages written so far.  A message is                          *)
(*     [kind, wire : attribute -> escaped value, orig : attribute -> text] *)
(* `wire' is what goes over the wire, `orig' is the ghost original.        *)
(* Strings are byte strings (ReportStr).  Free text (UT_PRINT, the summary *)
(* line) is not a service message and does not appear in `out'.            *)
(* The run options that reach a reporter (colour, verbosity: `opt') are    *)
(* part of every run; they may change the free text around the messages,   *)
(* never a message: no action below reads `opt'.                           *)
(***************************************************************************)
EXTENDS Naturals, Integers, Sequences, FiniteSets, TLC, ReportStr

CONSTANTS Names,      \* byte strings used as group and test names (ANY byte string without byte 122 'z': the empty name is a name)
          Files,      \* byte strings used as source paths (the empty path included)
          Msgs,       \* failure messages (the empty message included)
          Texts,      \* texts printed by tests
          LineNos,    \* line numbers
          Opts,       \* run options [color : BOOLEAN, verb : 0..2] (quiet, verbose, very verbose)
          MaxGroups, MaxTests, MaxFails, MaxPrints     \* bounds on a run (model checking / generation only)

VARIABLES phase,   \* "idle" | "run" | "group" | "test" | "done"
          runIgn,  \* run-ignored mode (-ri): ignored tests run like normal ones
          opt,     \* run options given to the reporter [color, verb]; no message depends on them
          grp,     \* name of the open (or of the last closed) group; NoGroup before the first
          tst,     \* the open test [name, file, line, ign]
          out,     \* service messages emitted so far
          scan,    \* reader's view of `out': stack of open suite/test items and whether every message so far fitted
          cnt      \* [g, t, f, p]: groups started, tests passed by in this group, failures and prints in this test (bounds only)

vars == <<phase, runIgn, opt, grp, tst, out, scan, cnt>>

-----------------------------------------------------------------------------
\* The TeamCity escaping rules: | before ' | [ ], |n for LF, |r for CR
Bar     == 124
Special == {39, 124, 91, 93}
Bad     == -1                       \* marks an undecodable position

EscChar(c) == IF c \in Special THEN <<Bar, c>>
              ELSE IF c = 10 THEN <<Bar, 110>>
              ELSE IF c = 13 THEN <<Bar, 114>>
              ELSE <<c>>
Esc(s) == Cat([i \in 1..Len(s) |-> EscChar(s[i])])

\* The reader of a value: one pass, remembering whether the previous byte was the escape bar.
UnescChar(c) == IF c \in Special THEN c ELSE IF c = 110 THEN 10 ELSE IF c = 114 THEN 13 ELSE Bad
UnescStep(st, c) ==
    IF st.esc THEN [o |-> Append(st.o, UnescChar(c)), esc |-> FALSE]           \* unknown escape: undecodable
    ELSE IF c = Bar THEN [st EXCEPT !.esc = TRUE]
    ELSE IF c \in Special \cup {10, 13} THEN [st EXCEPT !.o = Append(@, Bad)]   \* a raw special ends or breaks the message
    ELSE [st EXCEPT !.o = Append(@, c)]
Unesc(w) == LET r == ReadFold(UnescStep, [o |-> <<>>, esc |-> FALSE], w) IN
            IF r.esc THEN Append(r.o, Bad) ELSE r.o                            \* dangling bar
\* a wire value is safe when it decodes completely: no raw ' | [ ] or line break, no dangling or unknown escape
WireSafe(w) == Bad \notin BytesOf(Unesc(w))

\* The escaping theorem the reporter relies on (checked by TLC over all strings up to a length)
EscapeCorrect(A, n) == \A s \in StrUpTo(A, n) : Unesc(Esc(s)) = s /\ WireSafe(Esc(s))

-----------------------------------------------------------------------------
\* location text of a failure, as the reporter composes it (TeamCityTestOutput::printFailure)
TestFailedOpen == <<84, 69, 83, 84, 32, 102, 97, 105, 108, 101, 100, 32, 40>>      \* "TEST failed ("
Colon == <<58>>
IsHelperForm(t, f) == f.file # t.file \/ f.line < t.line        \* isOutsideTestFile \/ isInHelperFunction
Location(t, f) ==
    (IF IsHelperForm(t, f) THEN TestFailedOpen \o t.file \o Colon \o Dec(t.line) \o <<41, 58, 32>> ELSE <<>>)
    \o f.file \o Colon \o Dec(f.line)
\* what the property needs of a decoded location: it names the place of the failure, and the test's own
\* place when that is a different one (wording around them is not specified)
LocationOK(d, t, f) ==
    /\ EndsWith(d, f.file \o Colon \o Dec(f.line))
    /\ IsHelperForm(t, f) => HasSub(d, t.file \o Colon \o Dec(t.line))

\* `ign' is a ghost flag on testStarted messages: the test is an ignored one
MsgI(kind, orig, ign) == [kind |-> kind, wire |-> [a \in DOMAIN orig |-> Esc(orig[a])], orig |-> orig, ign |-> ign]
Msg(kind, orig) == MsgI(kind, orig, FALSE)

\* How a reader of the stream tracks it: a stack of open [kind, name] items (suite, then test)
Name(m) == Unesc(m.wire.name)

Open(kind, n) == [kind |-> kind, name |-> n]
Feed(st, m) ==
    IF ~st.ok \/ "name" \notin DOMAIN m.wire THEN [st EXCEPT !.ok = FALSE]
    ELSE LET s == st.stack  n == Name(m) IN
      CASE m.kind = "testSuiteStarted"  -> IF s = <<>> THEN [st EXCEPT !.stack = <<Open("suite", n)>>] ELSE [st EXCEPT !.ok = FALSE]
        [] m.kind = "testSuiteFinished" -> IF s = <<Open("suite", n)>> THEN [st EXCEPT !.stack = <<>>] ELSE [st EXCEPT !.ok = FALSE]
        [] m.kind = "testStarted"       -> IF Len(s) = 1 THEN [st EXCEPT !.stack = Append(s, Open("test", n))] ELSE [st EXCEPT !.ok = FALSE]
        [] m.kind = "testFinished"      -> IF Len(s) = 2 /\ s[2] = Open("test", n) THEN [st EXCEPT !.stack = <<s[1]>>] ELSE [st EXCEPT !.ok = FALSE]
        [] m.kind \in {"testIgnored", "testFailed"} ->
                                           IF Len(s) = 2 /\ s[2] = Open("test", n) THEN st ELSE [st EXCEPT !.ok = FALSE]
        [] OTHER -> [st EXCEPT !.ok = FALSE]
ScanOf(o) == Fold(Feed, [stack |-> <<>>, ok |-> TRUE], o)

FeedAll(st, ms) == Fold(Feed, st, ms)
\* writing messages: they are appended to the stream and the reader's view follows
Emit(ms) == out' = out \o ms /\ scan' = FeedAll(scan, ms)
Silent == UNCHANGED <<out, scan>>

\* "no test open" / "no group seen yet" are states of their own, not names: the empty byte string is a legal test name and a
\* legal group name, and a test or group so named is started and finished like any other.
NoTest  == [name |-> <<Bad>>, file |-> <<>>, line |-> 0, ign |-> FALSE]
NoGroup == <<Bad>>

NoOpt == [color |-> FALSE, verb |-> 0]
Init == /\ phase = "idle" /\ runIgn = FALSE /\ opt = NoOpt /\ grp = NoGroup /\ tst = NoTest /\ out = <<>>
        /\ scan = [stack |-> <<>>, ok |-> TRUE]
        /\ cnt = [g |-> 0, t |-> 0, f |-> 0, p |-> 0]

\* TestResult::testsStarted -> printTestsStarted (the run-ignored switch and the reporter's colour / verbosity options are
\* fixed before the run)
TestsStarted(ri, o) ==
    /\ phase = "idle" /\ phase' = "run" /\ runIgn' = ri /\ opt' = o
    /\ Silent /\ UNCHANGED <<grp, tst, cnt>>

\* first test of a group (whether it will run or not) -> printCurrentGroupStarted.
\* The registry takes a change of the group name as the group boundary, so the name differs from the previous group's;
\* the first group of a run may have any name (grp = NoGroup differs from every name, the empty one included).
GroupStarted(g) ==
    /\ phase = "run" /\ phase' = "group" /\ g # grp /\ grp' = g
    /\ Emit(<<Msg("testSuiteStarted", [name |-> g])>>)
    /\ cnt' = [cnt EXCEPT !.g = @ + 1, !.t = 0]
    /\ UNCHANGED <<runIgn, opt, tst>>

\* a test rejected by the filters: counted by the registry, the reporter hears nothing
Skip == phase = "group" /\ cnt' = [cnt EXCEPT !.t = @ + 1] /\ Silent /\ UNCHANGED <<phase, runIgn, opt, grp, tst>>

\* printCurrentTestStarted; kind "i" = IGNORE_TEST, which is flagged unless run-ignored mode is on
TestStarted(n, file, line, kind) ==
    /\ phase = "group" /\ phase' = "test"
    /\ LET ign == (kind = "i" /\ ~runIgn) IN
         /\ tst' = [name |-> n, file |-> file, line |-> line, ign |-> ign]
         /\ Emit(<<MsgI("testStarted", [name |-> n], ign)>> \o (IF ign THEN <<Msg("testIgnored", [name |-> n])>> ELSE <<>>))
    /\ cnt' = [cnt EXCEPT !.t = @ + 1, !.f = 0, !.p = 0]
    /\ UNCHANGED <<runIgn, opt, grp>>

\* UT_PRINT inside a test: free text between messages
PrintText(txt) == phase = "test" /\ ~tst.ign /\ cnt' = [cnt EXCEPT !.p = @ + 1] /\ Silent /\ UNCHANGED <<phase, runIgn, opt, grp, tst>>

\* TestResult::addFailure -> printFailure, for a failure of the open test
Failure(file, line, msg) ==
    /\ phase = "test" /\ ~tst.ign
    /\ LET f == [file |-> file, line |-> line] IN
       Emit(<<Msg("testFailed", [name |-> tst.name, message |-> Location(tst, f), details |-> msg])>>)
    /\ cnt' = [cnt EXCEPT !.f = @ + 1]
    /\ UNCHANGED <<phase, runIgn, opt, grp, tst>>

\* printCurrentTestEnded (the duration attribute carries a number of milliseconds; not modelled)
TestEnded ==
    /\ phase = "test" /\ phase' = "group"
    /\ Emit(<<Msg("testFinished", [name |-> tst.name])>>)
    /\ tst' = NoTest
    /\ UNCHANGED <<runIgn, opt, grp, cnt>>

\* last test of the group passed by -> printCurrentGroupEnded
GroupEnded ==
    /\ phase = "group" /\ phase' = "run" /\ cnt.t > 0          \* a group has at least one test (run or filtered out)
    /\ Emit(<<Msg("testSuiteFinished", [name |-> grp])>>)
    /\ UNCHANGED <<runIgn, opt, grp, tst, cnt>>

\* printTestsEnded: the console summary, free text
TestsEnded == phase = "run" /\ phase' = "done" /\ Silent /\ UNCHANGED <<runIgn, opt, grp, tst, cnt>>

Next == \/ \E ri \in BOOLEAN, o \in Opts : TestsStarted(ri, o)
        \/ \E g \in Names : cnt.g < MaxGroups /\ GroupStarted(g)
        \/ \E n \in Names, f \in Files, l \in LineNos, k \in {"n", "i"} : cnt.t < MaxTests /\ TestStarted(n, f, l, k)
        \/ cnt.t < MaxTests /\ Skip
        \/ \E x \in Texts : cnt.p < MaxPrints /\ PrintText(x)
        \/ \E f \in Files, l \in LineNos, m \in Msgs : cnt.f < MaxFails /\ Failure(f, l, m)
        \/ TestEnded \/ GroupEnded \/ TestsEnded

Spec == Init /\ [][Next]_vars

-----------------------------------------------------------------------------
\* Properties (C20), all stated on the message stream

\* every start has (so far) at most one, properly nested, matching finish; failures and ignore flags name the open test
Balanced == scan.ok
\* `scan' is nothing but the fold of the reader's rule over the whole stream
ScanIsFold == scan = ScanOf(out)
\* at the end of the run, and between groups, nothing is left open
ClosedAtEnd == phase \in {"idle", "run", "done"} => scan.stack = <<>>
OpenMatchesPhase ==
    /\ phase = "group" => scan.stack = <<Open("suite", grp)>>
    /\ phase = "test"  => scan.stack = <<Open("suite", grp), Open("test", tst.name)>>

\* an ignored test is flagged right after its start, and only ignored tests are
\* (the ...From(k) forms look at the messages from position k on; the property is the form From(1))
FlagAt(i) == i < Len(out) /\ out[i+1].kind = "testIgnored" /\ Name(out[i+1]) = Name(out[i])
Lo(k) == IF k < 1 THEN 1 ELSE k
IgnoredFlaggedFrom(k) ==
    /\ \A i \in Lo(k)..Len(out) : out[i].kind = "testStarted" => (out[i].ign <=> FlagAt(i))
    /\ \A i \in Lo(k)..Len(out) : out[i].kind = "testIgnored" => i > 1 /\ out[i-1].kind = "testStarted"
IgnoredFlagged == IgnoredFlaggedFrom(1)

\* every value decodes, by the TeamCity rules, to the original text; so none can end its message early
RoundTripFrom(k) == \A i \in Lo(k)..Len(out) : \A a \in DOMAIN out[i].wire :
                       WireSafe(out[i].wire[a]) /\ Unesc(out[i].wire[a]) = out[i].orig[a]
RoundTrip == RoundTripFrom(1)

\* the location text the reporter composes names the places the property asks for
LocationSound == \A tf \in Files, ff \in Files, tl \in LineNos, fl \in LineNos :
                    LET t == [file |-> tf, line |-> tl]  f == [file |-> ff, line |-> fl] IN LocationOK(Location(t, f), t, f)

TypeOK == /\ phase \in {"idle", "run", "group", "test", "done"} /\ runIgn \in BOOLEAN
          /\ cnt.g <= MaxGroups /\ cnt.t <= MaxTests /\ cnt.f <= MaxFails /\ cnt.p <= MaxPrints
=============================================================================
