---------------------------- MODULE Trace_TeamCity ----------------------------
(* Trace validation for C20.  The log has one line per call the registry made on the reporter
   (recorded by a TestResult probe in front of the real TeamCityTestOutput), with the call's
   arguments and `msgs': the service messages found by the independent decoder
   (tools/teamcity_decode.py) in the bytes the reporter wrote during that call - each with its
   kind, the raw (still escaped) attribute values and the decoder's own decoding of them - and
   `bad': the number of fragments that start like a service message but do not parse.
   The log must be a behaviour of TeamCity, and the observed messages must be the messages the
   specification emits for that call: same kinds in the same order, every required attribute present,
   safe on the wire and decoding (by the specification's Unesc) to the original text.  Additional
   attributes (duration) are allowed but must be safe as well.  "start" carries the run options given to the
   reporter (color, verb): whatever they are, the messages must be the same. *)
EXTENDS TeamCity, Json, IOUtils
VARIABLE l
tvars == <<vars, l>>
Tr == ndJsonDeserialize(IOEnv.TRACE)
E == Tr[l]
Is(op) == l <= Len(Tr) /\ Tr[l].op = op /\ l' = l + 1

\* one observed message against one predicted message (t, f: context for the location text)
MsgOK(exp, obs, t, f) ==
    /\ obs.kind = exp.kind
    /\ \A a \in DOMAIN obs.raw : WireSafe(obs.raw[a]) /\ obs.dec[a] = Unesc(obs.raw[a])
    /\ \A a \in DOMAIN exp.orig :
          /\ a \in DOMAIN obs.raw
          /\ IF a = "message" THEN LocationOK(Unesc(obs.raw[a]), t, f)
                              ELSE Unesc(obs.raw[a]) = exp.orig[a]
Matches(exp, obs, t, f) == /\ Len(exp) = Len(obs)
                           /\ \A i \in 1..Len(exp) : MsgOK(exp[i], obs[i], t, f)
NewMsgs(o, o2) == SubSeq(o2, Len(o) + 1, Len(o2))
ObsOK(o2, f) == E.bad = 0 /\ Matches(NewMsgs(out, o2), E.msgs, tst, f)
NoF == [file |-> <<>>, line |-> 0]

TInit == Init /\ l = 1
TNext == \/ Is("start") /\ TestsStarted(E.ri, [color |-> E.color, verb |-> E.verb]) /\ ObsOK(out', NoF)
         \/ Is("group") /\ GroupStarted(E.g) /\ ObsOK(out', NoF)
         \/ Is("skip") /\ Skip /\ ObsOK(out', NoF)
         \/ Is("test") /\ TestStarted(E.n, E.file, E.line, E.kind) /\ ObsOK(out', NoF)
         \/ Is("print") /\ PrintText(E.txt) /\ ObsOK(out', NoF)
         \/ Is("fail") /\ Failure(E.file, E.line, E.msg) /\ ObsOK(out', [file |-> E.file, line |-> E.line])
         \/ Is("endtest") /\ TestEnded /\ ObsOK(out', NoF)
         \/ Is("endgroup") /\ GroupEnded /\ ObsOK(out', NoF)
         \/ Is("end") /\ TestsEnded /\ ObsOK(out', NoF)
\* executions are concatenated with reset lines (fresh registry, reporter and result)
TReset == Is("reset") /\ phase' = "idle" /\ runIgn' = FALSE /\ opt' = NoOpt /\ grp' = NoGroup /\ tst' = NoTest /\ out' = <<>>
          /\ scan' = [stack |-> <<>>, ok |-> TRUE]
          /\ cnt' = [g |-> 0, t |-> 0, f |-> 0, p |-> 0]
TSpec == TInit /\ [][TNext \/ TReset]_tvars
Accepted == TLCGet("stats").diameter - 1 = Len(Tr)
\* Every state of the observed execution is checked, and a call appends at most two messages, so looking at the
\* last four messages in every state examines every message of the stream (and keeps validation linear).
TInv == Balanced /\ ClosedAtEnd /\ OpenMatchesPhase /\ IgnoredFlaggedFrom(Len(out) - 3) /\ RoundTripFrom(Len(out) - 3)

\* diagnostics: the same walk with the observations unbound, printing the messages the specification emits
PNext == \/ Is("start") /\ TestsStarted(E.ri, [color |-> E.color, verb |-> E.verb])
         \/ Is("group") /\ GroupStarted(E.g)
         \/ Is("skip") /\ Skip
         \/ Is("test") /\ TestStarted(E.n, E.file, E.line, E.kind)
         \/ Is("print") /\ PrintText(E.txt)
         \/ Is("fail") /\ Failure(E.file, E.line, E.msg)
         \/ Is("endtest") /\ TestEnded
         \/ Is("endgroup") /\ GroupEnded
         \/ Is("end") /\ TestsEnded
PSpec == TInit /\ [][PNext \/ TReset]_tvars
LastMsgs == LET n == Len(out) IN [i \in 1..(IF n < 2 THEN n ELSE 2) |->
                 [kind |-> out[n - (IF n < 2 THEN n ELSE 2) + i].kind, text |-> out[n - (IF n < 2 THEN n ELSE 2) + i].orig]]
Predict == (l > 1 /\ l - 1 >= atoi(IOEnv.FROM_LINE_N)) =>
              PrintT(<<"BEH", ToJson([line |-> l - 1, phase |-> phase, lastMessages |-> LastMsgs])>>)
=============================================================================
