---------------------------- MODULE Trace_StrCache ----------------------------
(* Trace validation for C18: the ndjson log recorded from the real SimpleStringInternalCache (bare), or from the
   real GlobalSimpleStringCache / SimpleStringCacheAllocator / SimpleString (global), over a recording underlying
   allocator must be a behaviour of StrCache.  Events: new / gnew (Construct), del / gdel (Destroy), alloc / dealloc
   (bare: the cache's own calls; global: alloc_memory / free_memory of the installed adaptor), snew / sdel (global: a
   SimpleString is created / destroyed = Alloc / Dealloc of its buffer), foreign, clearcache, clearall.  Bound per call:
     mem    - number of the underlying allocation the returned pointer lies in (0 = none)
     room   - bytes from the returned pointer to the end of that allocation
     got    - numbers of the underlying allocations obtained during the call (in order)
     ret    - numbers of the underlying allocations returned during the call (0 = not a live allocation)
     warn   - the call printed something (the one-time warning)
     hasfree- hasFreeBlocksOfSize(bound) for every class bound, ascending (bare cache alive; otherwise empty)
     cur    - the string allocator of SimpleString after the call: "under" = the allocator that was installed before
              the cache was constructed, "cache" = the adaptor of the live global cache, "other" = anything else
     intact - every buffer still handed out holds the bytes its owner wrote (no aliasing seen)
     nwarn  - number of unknown-release warnings printed since the cache object was constructed, counted when the script
              call has returned (-1 on lines in the middle of a script call)
     sl     - index of the script call the line belongs to
   Which idle block is reused is the implementation's choice: the spec only demands an idle block of
   the request's class or a newly obtained one.
   Strings that predate a global cache (pnew: created while the previous allocator is installed) are destroyed, assigned
   to or appended to while the cache is installed (script calls pdel / pset / pcat), optionally with a current test whose
   output string predates the cache too (gnew 1).  Such a script call is several calls on the adaptor; each is one line,
   observed by a spy in front of the adaptor: alloc / dealloc (known buffer) / foreign (a pointer the cache did not
   hand out, no call made meanwhile) / wbegin .. wend (a release of such a pointer during which further calls arrived:
   the lines in between).  `end' closes an execution.
   xdealloc = release of a buffer the cache handed out (mem = its allocation) with a size n of another class than the one
   it was requested in: an unknown release too (a wbegin line with mem # 0 when calls arrived meanwhile); the buffer stays
   in use, so the observations of the later calls (hasfree, which block a request of the named class gets, room) bind
   that it was not filed as idle anywhere. *)
EXTENDS StrCache, Json, IOUtils, SequencesExt
VARIABLE l
tvars == <<vars, l>>
Tr == ndJsonDeserialize(IOEnv.TRACE)
E == Tr[l]
Is(op) == l <= Len(Tr) /\ Tr[l].op = op /\ l' = l + 1

SetOf(s) == { s[i] : i \in 1..Len(s) }
NoDup(s) == Cardinality(SetOf(s)) = Len(s)
Bounds == SetToSortSeq(ClassMax, <)

TAlloc == IF E.got = <<>>
          THEN /\ Cached(E.n)
               /\ \E i \in 1..Len(free[ClassOf(E.n)]) : free[ClassOf(E.n)][i].mem = E.mem /\ AllocReuse(E.n, i)
          ELSE AllocNew(E.n, E.mem, SetOf(E.got) \ {E.mem}, E.room)

ObsOK(lst, fr, lf, sa) ==
         /\ (lst.mem = E.mem \/ (E.op \in {"xdealloc", "wbegin"} /\ lst.mem = 0))    \* there mem is the argument of the call
         /\ lst.warn = E.warn /\ E.cur = sa
         /\ (E.nwarn >= 0 => E.nwarn = nwarn' /\ printing' = 0)
         /\ lst.got = SetOf(E.got) /\ NoDup(E.got)
         /\ lst.ret = SetOf(E.ret) /\ NoDup(E.ret)
         /\ E.intact
         /\ Len(E.hasfree) = (IF lf = "bare" THEN Len(Bounds) ELSE 0)
         /\ \A k \in 1..Len(E.hasfree) : E.hasfree[k] = (fr[Bounds[k]] # <<>>)
         /\ (E.op \in {"alloc", "snew"} => E.room >= E.n)

TInit == Init /\ l = 1
TCalls == \/ Is("new") /\ Construct("bare", SetOf(E.got))
          \/ Is("gnew") /\ Construct("global", SetOf(E.got))
          \/ Is("del") /\ life = "bare" /\ Destroy
          \/ Is("gdel") /\ life = "global" /\ Destroy
          \/ Is("alloc") /\ TAlloc
          \/ Is("dealloc") /\ Dealloc(E.mem, E.n)
          \/ Is("snew") /\ life = "global" /\ E.n > 0 /\ TAlloc
          \/ Is("sdel") /\ life = "global" /\ E.mem \in DOMAIN req /\ E.n = req[E.mem] /\ Dealloc(E.mem, E.n)
          \/ Is("foreign") /\ DeallocUnknown
          \/ Is("xdealloc") /\ DeallocElsewhere(E.mem, E.n)
          \/ Is("wbegin") /\ (E.mem = 0 \/ ElsewhereSize(E.mem, E.n)) /\ WarnBegin
          \/ Is("wend") /\ WarnEnd
          \/ Is("clearcache") /\ life = "bare" /\ ClearCache
          \/ Is("clearall") /\ life = "bare" /\ ClearAll
\* lines that are no call on the cache: a string created from the previous allocator before the cache exists; end of execution
TOther == \/ Is("pnew") /\ life = "none" /\ E.cur = "under" /\ UNCHANGED vars
          \/ Is("end") /\ printing = 0 /\ UNCHANGED vars
TNext == (TCalls /\ ObsOK(last', free', life', salloc')) \/ TOther
\* executions are concatenated with reset lines (fresh cache, fresh underlying allocator)
TReset == /\ Is("reset") /\ free' = [c \in ClassMax |-> <<>>] /\ used' = [c \in ClassMax |-> <<>>] /\ uncached' = <<>>
          /\ warned' = FALSE /\ under' = {} /\ nid' = 1 /\ req' = <<>> /\ last' = Outcome("init", 0, FALSE, {}, {})
          /\ life' = "none" /\ salloc' = "under" /\ base' = {} /\ printing' = 0 /\ nwarn' = 0
TSpec == TInit /\ [][TNext \/ TReset]_tvars
Accepted == TLCGet("stats").diameter - 1 = Len(Tr)
TInv == /\ NoAlias /\ HandedOutExact /\ BigEnough /\ ClassStable /\ UnderExact
        /\ AllBackAfterClearAll /\ IdleBackAfterClearCache /\ WarnImpliesWarned
        /\ AllBackAfterDestroy /\ InstalledIffGlobal /\ OneWarning /\ NoNestedWarning

\* diagnostics: the same walk without binding the observations; prints the state the spec is in
PNext == TCalls \/ TOther
PSpec == TInit /\ [][PNext \/ TReset]_tvars
Mems(s) == [i \in 1..Len(s) |-> s[i].mem]
Predict == (l > 1 /\ l - 1 >= atoi(IOEnv.FROM_LINE_N)) =>
              PrintT(<<"BEH", ToJson([line |-> l - 1, free |-> [k \in 1..Len(Bounds) |-> Mems(free[Bounds[k]])],
                                      used |-> [k \in 1..Len(Bounds) |-> Mems(used[Bounds[k]])], uncached |-> Mems(uncached),
                                      warned |-> warned, under |-> under, last |-> last,
                                      life |-> life, salloc |-> salloc, printing |-> printing, nwarn |-> nwarn])>>)
=============================================================================
