------------------------------ MODULE MC_Checks ------------------------------
(* Leg 1 for C03.  (a) The accounting state machine over every call of the operand lattices
   satisfies the clauses of the property (CountedOnce, FailIffFalse, FailuresAreChecks).
   (b) Laws: the predicate definitions of Checks are confronted with independent formulations of
   what the property statement says (trichotomy of the exact integer order, the six relational
   operators, the double rules, NULL rules, zero-length block, mask rules...).  A wrong oracle
   definition fails here, before any code is run. *)
EXTENDS ChecksLattice

\* (rows are enumerated per family inside the action: a zero-arity definition of the whole table would be
\*  normalised eagerly by TLC at start-up, which costs more than the model checking itself)
Next == /\ executed < MaxN
        /\ \E f \in Families : \E c \in Family(f) : Do(c)
Spec == Init /\ [][Next]_vars
AllWellFormed == \A f \in Families : \A c \in Family(f) : WellFormed(c)

NonNegTols == { t \in DblVals : TolNonNegative(t) }
NumD == { d \in DblVals : ~IsNaN(d) }
DInfP == DInf(FALSE)
DZeroP == DFin(FALSE, 0, 0)
\* t1 <= t2 for non-negative tolerances of one scale
TolLeq(t1, t2) == IsInf(t2) \/ (~IsInf(t1) /\ (DIsZero(t1) \/ (NonZeroFin(t2) /\ t1.e = t2.e /\ t1.k <= t2.k)))

IntLaws ==
    /\ \A x, y \in IntLattice : /\ ICmp(x, y) = 0 - ICmp(y, x)
                                /\ (ICmp(x, y) = 0) = (x = y)
    /\ \A x, y, z \in IntLattice : (ICmp(x, y) <= 0 /\ ICmp(y, z) <= 0) => ICmp(x, z) <= 0
    /\ \A x \in IntLattice : IsIntVal(x)
    /\ \A x, y \in IntLattice :
         /\ RelHolds("<", x, y) = ~RelHolds(">=", x, y)
         /\ RelHolds(">", x, y) = ~RelHolds("<=", x, y)
         /\ RelHolds("==", x, y) = ~RelHolds("!=", x, y)
         /\ RelHolds("<=", x, y) = (RelHolds("<", x, y) \/ RelHolds("==", x, y))
         /\ RelHolds("<", x, y) = RelHolds(">", y, x)
    \* the successor of x in the lattice is greater: x + 1 > x (magnitude arithmetic is consistent with the order)
    /\ \A m \in Mags : MagCmp(MagAdd(m, 1), m) = 1
    /\ \A T \in IntTypes : ICmp(TMin(T), TMax(T)) < 0 /\ InRange(T, Zero)
    /\ \A x, y \in IntsOf("int") : IntHolds("BYTES_EQUAL", x, y) = (Mod256(x) = Mod256(y))
    /\ \A x \in IntsOf("int") : Mod256(x) \in 0..255

DblLaws ==
    \* NaN equals nothing
    /\ \A x, t \in DblVals : ~DblEqual(DNaN, x, t) /\ ~DblEqual(x, DNaN, t)
    \* for a non-negative tolerance: same value (incl. the same infinity) => equal
    /\ \A x \in NumD, t \in NonNegTols : DblEqual(x, x, t)
    /\ \A t \in NonNegTols : DblEqual(DFin(TRUE, 0, 0), DZeroP, t)
    \* symmetric
    /\ \A x, y \in DblVals, t \in NonNegTols : WellFormedDbl(x, y, t) => DblEqual(x, y, t) = DblEqual(y, x, t)
    \* opposite infinities / infinite vs finite are equal only for an infinite tolerance
    /\ \A t \in NonNegTols : DblEqual(DInfP, DInf(TRUE), t) = IsInf(t)
    /\ \A x \in NumD, t \in NonNegTols : (IsFin(x) /\ WellFormedDbl(x, DInfP, t)) => DblEqual(x, DInfP, t) = IsInf(t)
    \* tolerance zero: equal iff same value; tolerance +infinity: every pair of numbers is equal
    /\ \A x, y \in NumD : WellFormedDbl(x, y, DZeroP) => DblEqual(x, y, DZeroP) = SameValue(x, y)
    /\ \A x, y \in NumD : DblEqual(x, y, DInfP)
    \* monotone in the tolerance
    /\ \A x, y \in NumD, t1, t2 \in NonNegTols :
         (WellFormedDbl(x, y, t1) /\ WellFormedDbl(x, y, t2) /\ TolLeq(t1, t2) /\ DblEqual(x, y, t1)) => DblEqual(x, y, t2)
    \* exactly at the tolerance counts as equal, one step beyond does not (k = 1, 2 of one scale)
    /\ \A e \in DblExps : /\ DblEqual(DFin(FALSE, 2, e), DFin(FALSE, 1, e), DFin(FALSE, 1, e))
                          /\ ~DblEqual(DFin(FALSE, 2, e), DFin(TRUE, 1, e), DFin(FALSE, 2, e))
                          /\ DblEqual(DFin(FALSE, 1, e), DFin(TRUE, 1, e), DFin(FALSE, 2, e))

StrLaws ==
    /\ \A k \in StrKinds \ {"CHECK_EQUAL_SimpleString"}, n \in 0..(StrMax + 1) :
         /\ StrHolds(k, NULLS, NULLS, n)
         /\ \A x \in Strs : ~StrHolds(k, NULLS, x, n) /\ ~StrHolds(k, x, NULLS, n)
    /\ \A x, y \in Strs :
         /\ StrHolds("STRCMP_EQUAL", x, y, 0) = (CmpSign(x, y) = 0)
         /\ StrHolds("STRCMP_EQUAL", x, y, 0) => (StrHolds("STRCMP_NOCASE_EQUAL", x, y, 0) /\ StrHolds("STRCMP_CONTAINS", x, y, 0))
         /\ StrHolds("STRNCMP_EQUAL", x, y, 0)
         /\ StrHolds("STRNCMP_EQUAL", x, y, StrMax + 1) = (x = y)
         /\ \A n \in 0..StrMax : StrHolds("STRNCMP_EQUAL", x, y, n) = (CmpSignN(x, y, n) = 0)
         /\ \A n \in 0..StrMax : StrHolds("STRNCMP_EQUAL", x, y, n + 1) => StrHolds("STRNCMP_EQUAL", x, y, n)
         /\ StrHolds("STRCMP_NOCASE_EQUAL", x, y, 0) = StrHolds("STRCMP_NOCASE_EQUAL", y, x, 0)
         /\ (StrHolds("STRCMP_CONTAINS", x, y, 0) /\ StrHolds("STRCMP_CONTAINS", y, x, 0)) => x = y
         /\ StrHolds("STRCMP_CONTAINS", x, y, 0) => (Len(x) <= Len(y) /\ StrHolds("STRCMP_NOCASE_CONTAINS", x, y, 0))
         /\ StrHolds("STRCMP_CONTAINS", x, x \o y, 0) /\ StrHolds("STRCMP_CONTAINS", x, y \o x, 0)
         /\ StrHolds("STRCMP_CONTAINS", <<>>, x, 0)
    \* lower-casing touches exactly 'A'..'Z'
    /\ \A c \in 1..255 : LowerCh(c) = (IF c \in 65..90 THEN c + 32 ELSE c)

MemLaws ==
    /\ \A x, y \in BlocksN : MemHolds(x, y, 0)
    /\ \A x \in Blocks, n \in 1..MemMax : ~MemHolds(NULLS, x, n) /\ ~MemHolds(x, NULLS, n) /\ MemHolds(NULLS, NULLS, n)
    /\ \A x, y \in Blocks, n \in 1..MemMax : (n <= Len(x) /\ n <= Len(y)) =>
          MemHolds(x, y, n) = (\A i \in 1..n : x[i] = y[i])

BitLaws ==
    \A w \in {1, 2, 4, 8} : \A x, y \in BitVals(w) :
        /\ BitsHolds(x, y, Zero)
        /\ BitsHolds(x, y, BitsVal({ p \in BitPos : p < 8 * w })) = (x = y)
        /\ \A m \in BitVals(w) : BitsHolds(x, y, m) = BitsHolds(y, x, m)

Laws == IntLaws /\ DblLaws /\ StrLaws /\ MemLaws /\ BitLaws /\ AllWellFormed
ASSUME Laws
=============================================================================
