--------------------------- MODULE CmdLineLattice ---------------------------
(* Token alphabet for C12: every documented option in attached and separated form with identifier-like
   values, bare value tokens, and a set of malformed tokens; vectors of up to MaxLen tokens; the probe registry. *)
EXTENDS CmdLine
CONSTANTS GChars, NChars, Nums,      \* one-letter group values, one-letter name values (byte codes), counts (naturals)
          WithMalformed              \* include the malformed tokens
GVals == { <<c>> : c \in GChars }
NVals == { <<c>> : c \in NChars }
Numbers == { Digits(n) : n \in Nums }

DotVals == { g \o <<46>> \o n : g \in GVals, n \in NVals }
TestForms == { T_TESTL \o g \o T_commasp \o n \o <<41>> : g \in GVals, n \in NVals } \cup
             { T_IGNORE_TESTL \o g \o T_commasp \o n \o <<41>> : g \in GVals, n \in NVals }
Pkg == <<80>>                                                                        \* "P"
DocTokens ==
    ExactFlags \cup {T_dr, T_ds} \cup { p \o n : p \in {T_dr, T_ds}, n \in Numbers } \cup Numbers
    \cup GroupOpts \cup { p \o g : p \in GroupOpts, g \in GVals } \cup GVals
    \cup NameOpts \cup { p \o n : p \in NameOpts, n \in NVals } \cup NVals
    \cup DotOpts \cup { p \o v : p \in DotOpts, v \in DotVals } \cup DotVals
    \cup TestForms
    \cup {T_do} \cup { T_do \o o : o \in OutTypes } \cup OutTypes
    \cup {T_dk, T_dk \o Pkg, Pkg}
\* "TEST(", "TEST(A", "TEST(A,x)", "IGNORE_TEST(", "-tAx", "-tA.x.y", "-t.x", "-tA.", "-ofoo", "", "-", "-r0", "-rx", "-r-3",
\* "-s0", "-sx", "-q", "-pfoo", "-g-v", "-k", "\xC3\xA9", "-g\xE9", "-vvv", "TEST(A, x"
Malformed ==
    { T_TESTL, T_TESTL \o <<65>>, T_TESTL \o <<65, 44, 120, 41>>, T_IGNORE_TESTL, T_dt \o <<65, 120>>, T_dt \o <<65, 46, 120, 46, 121>>,
      T_dt \o <<46, 120>>, T_dt \o <<65, 46>>, T_do \o <<102, 111, 111>>, <<>>, <<45>>, T_dr \o <<48>>, T_dr \o <<120>>, T_dr \o <<45, 51>>,
      T_ds \o <<48>>, T_ds \o <<120>>, <<45, 113>>, T_dp \o <<102, 111, 111>>, T_dg \o <<45, 118>>, <<195, 169>>, T_dg \o <<233>>,
      <<45, 118, 118, 118>>, T_TESTL \o <<65, 44, 32, 120>> }
Tokens == IF WithMalformed THEN DocTokens \cup Malformed ELSE DocTokens
VectorsOfLen(n) == [1..n -> Tokens]

\* the probe registry: groups A, AB, B x names x, xy, y, and two ignored tests
PT(g, n, ign) == [g |-> g, n |-> n, ign |-> ign]
Probe == << PT(<<65>>, <<120>>, FALSE), PT(<<65>>, <<120, 121>>, FALSE), PT(<<65>>, <<121>>, FALSE),
            PT(<<65, 66>>, <<120>>, FALSE), PT(<<65, 66>>, <<121>>, FALSE),
            PT(<<66>>, <<120>>, FALSE), PT(<<66>>, <<120, 121>>, FALSE), PT(<<66>>, <<121>>, FALSE),
            PT(<<65, 66>>, <<105, 120>>, TRUE), PT(<<66>>, <<120>>, TRUE) >>
=============================================================================
