--------------------------- MODULE CmdLineLattice ---------------------------
(* Token alphabet for C12: every documented option in attached and separated form with identifier-like
   values, bare value tokens, and a set of malformed tokens; vectors of up to MaxLen tokens; the probe registry.
   Counts and seeds are digit strings: small ones (Nums, written by Digits) and named texts (NumText) that cover the whole
   documented range 1..2^32-1 - 2^31-1, 2^31, a ten-digit value, 2^32-1, leading zeros - and its outside (2^32, 2^32+5,
   eleven digits, zero).
   Words (GWords, NWords): every non-empty word of up to n letters over the group / name letters, as filter texts and as the
   groups / names of the word registry (WordTests), with the vectors of one filter option over them (WordVectors). *)
EXTENDS CmdLine
CONSTANTS GChars, NChars, Nums,      \* one-letter group values, one-letter name values (byte codes), counts (naturals)
          BigNums,                   \* names of further counts / seeds inside the documented range (NumText)
          OpenNums,                  \* names of digit strings outside it (zero, 2^32 and more): no documented meaning
          WithMalformed              \* include the malformed tokens
GVals == { <<c>> : c \in GChars }
NVals == { <<c>> : c \in NChars }
NumText(n) ==
              CASE n = "007" -> <<48, 48, 55>>
                [] n = "0000000012" -> <<48, 48, 48, 48, 48, 48, 48, 48, 49, 50>>
                [] n = "12" -> <<49, 50>>
                [] n = "2^31-1" -> <<50, 49, 52, 55, 52, 56, 51, 54, 52, 55>>
                [] n = "2^31" -> <<50, 49, 52, 55, 52, 56, 51, 54, 52, 56>>
                [] n = "3000000123" -> <<51, 48, 48, 48, 48, 48, 48, 49, 50, 51>>
                [] n = "2^32-1" -> <<52, 50, 57, 52, 57, 54, 55, 50, 57, 53>>
                [] n = "2^32" -> <<52, 50, 57, 52, 57, 54, 55, 50, 57, 54>>
                [] n = "2^32+5" -> <<52, 50, 57, 52, 57, 54, 55, 51, 48, 49>>
                [] n = "99999999999" -> <<57, 57, 57, 57, 57, 57, 57, 57, 57, 57, 57>>
                [] n = "0" -> <<48>>
                [] n = "00" -> <<48, 48>>
InRangeNames == {"007", "0000000012", "12", "2^31-1", "2^31", "3000000123", "2^32-1"}
OutOfRangeNames == {"2^32", "2^32+5", "99999999999", "0", "00"}
ASSUME BigNums \subseteq InRangeNames /\ OpenNums \subseteq OutOfRangeNames
ASSUME \A n \in InRangeNames : IsNumber(NumText(n))
ASSUME \A n \in OutOfRangeNames : IsDigits(NumText(n)) /\ ~IsNumber(NumText(n))
Numbers == { Digits(n) : n \in Nums } \cup { NumText(n) : n \in BigNums }
OpenNumbers == { NumText(n) : n \in OpenNums }

DotVals == { g \o <<46>> \o n : g \in GVals, n \in NVals }
TestForms == { T_TESTL \o g \o T_commasp \o n \o <<41>> : g \in GVals, n \in NVals } \cup
             { T_IGNORE_TESTL \o g \o T_commasp \o n \o <<41>> : g \in GVals, n \in NVals }
Pkg == <<80>>                                                                        \* "P"
DocTokens ==
    ExactFlags \cup {T_dr, T_ds} \cup { p \o n : p \in {T_dr, T_ds}, n \in Numbers } \cup Numbers
    \cup GroupOpts \cup { p \o g : p \in GroupOpts, g \in GVals } \cup GVals
    \cup NameOpts \cup { p \o n : p \in NameOpts, n \in NVals } \cup NVals
    \cup DotOpts \cup { p \o v : p \in DotOpts, v \in DotVals } \cup DotVals
    \cup TestForms
    \cup {T_do} \cup { T_do \o o : o \in OutTypes } \cup OutTypes
    \cup {T_dk, T_dk \o Pkg, Pkg}
\* "TEST(", "TEST(A", "TEST(A,x)", "IGNORE_TEST(", "-tAx", "-tA.x.y", "-t.x", "-tA.", "-ofoo", "", "-", "-r0", "-rx", "-r-3",
\* "-s0", "-sx", "-q", "-pfoo", "-g-v", "-k", "\xC3\xA9", "-g\xE9", "-vvv", "TEST(A, x"
Malformed ==
    { T_TESTL, T_TESTL \o <<65>>, T_TESTL \o <<65, 44, 120, 41>>, T_IGNORE_TESTL, T_dt \o <<65, 120>>, T_dt \o <<65, 46, 120, 46, 121>>,
      T_dt \o <<46, 120>>, T_dt \o <<65, 46>>, T_do \o <<102, 111, 111>>, <<>>, <<45>>, T_dr \o <<48>>, T_dr \o <<120>>, T_dr \o <<45, 51>>,
      T_ds \o <<48>>, T_ds \o <<120>>, <<45, 113>>, T_dp \o <<102, 111, 111>>, T_dg \o <<45, 118>>, <<195, 169>>, T_dg \o <<233>>,
      <<45, 118, 118, 118>>, T_TESTL \o <<65, 44, 32, 120>> }
\* digit strings outside the documented range, attached, separated and bare
OpenNumTokens == OpenNumbers \cup { p \o n : p \in {T_dr, T_ds}, n \in OpenNumbers }
Tokens == IF WithMalformed THEN DocTokens \cup Malformed \cup OpenNumTokens ELSE DocTokens

\* the numeric vectors: every number text (inside and outside the range) with -r and -s in attached and separated form,
\* alone, before and after one other token
AllNumbers == { NumText(n) : n \in InRangeNames \cup OutOfRangeNames } \cup { Digits(n) : n \in Nums }
NumFollow == {T_dv, T_do \o T_normal, T_dh, <<51>>, T_db, T_ds, T_dr, T_dg \o <<65>>}
NumVectors == UNION { { <<p \o n>>, <<p, n>> } \cup
                      UNION { { <<p \o n, t>>, <<p, n, t>>, <<t, p \o n>>, <<t, p, n>> } : t \in NumFollow }
                      : p \in {T_dr, T_ds}, n \in AllNumbers }
VectorsOfLen(n) == [1..n -> Tokens]

\* ---- the clock as an input of parsing.  Readings (decimal text of the millisecond clock) where a derivation of a seed from it can go
\* wrong: zero, one, the 31 / 32-bit edges, multiples of 2^32 and their neighbours, a present-day epoch reading, the largest 64-bit value;
\* and the vectors whose meaning involves the clock or must not: a seedless -s alone, before and after one other token, before and after
\* a seeded -s; the seeded forms
ClockText(n) == CASE n = "1" -> <<49>>
                  [] n = "2^33" -> <<56, 53, 56, 57, 57, 51, 52, 53, 57, 50>>
                  [] n = "3*2^32" -> <<49, 50, 56, 56, 52, 57, 48, 49, 56, 56, 56>>
                  [] n = "epoch" -> <<49, 55, 57, 48, 57, 56, 53, 56, 48, 49, 50, 54, 57>>
                  [] n = "2^64-1" -> <<49, 56, 52, 52, 54, 55, 52, 52, 48, 55, 51, 55, 48, 57, 53, 53, 49, 54, 49, 53>>
                  [] OTHER -> NumText(n)
ClockNames == {"0", "1", "12", "2^31", "2^32-1", "2^32", "2^32+5", "2^33", "3*2^32", "epoch", "99999999999", "2^64-1"}
Clocks == { ClockText(n) : n \in ClockNames }
ASSUME \A c \in Clocks : IsDigits(c)
SeededForms == { <<T_ds \o <<55>>>>, <<T_ds, <<55>>>> }
ClockFollow == NumFollow \cup {T_dvv, T_dc, T_dlg, T_dr \o <<51>>}
ClockVectors == {<<T_ds>>} \cup SeededForms
                \cup UNION { { <<T_ds, t>>, <<t, T_ds>> } : t \in ClockFollow }
                \cup UNION { { s \o <<T_ds>>, <<T_ds>> \o s } : s \in SeededForms }
ClockRows == { [tok |-> v, clock |-> c] : v \in ClockVectors, c \in Clocks }

\* ---- the substring meaning of the filters: words.  Filter texts and test group / name words are ALL non-empty words of up to
\* n letters over the group (name) letters, so every way a text can lie in a name is present: at the start, in the middle, at
\* the end, twice, overlapping itself, and behind a partial occurrence of itself (text "AAB" in group "AAAB").
GWords(n) == SeqsUpTo(GChars, n) \ {<<>>}
NWords(n) == SeqsUpTo(NChars, n) \ {<<>>}
\* the word registry: one test for every pair of a group word and a name word (as a set; Gen_CmdLine writes it as a sequence)
WordTests(n) == { [g |-> g, n |-> w, ign |-> FALSE] : g \in GWords(n), w \in NWords(n) }
\* vectors of one filter option with a word (pair) as value, attached and separated, and the TEST forms
WordGroupVectors(n) == UNION { { <<p \o g>>, <<p, g>> } : p \in GroupOpts, g \in GWords(n) }
WordNameVectors(n) == UNION { { <<p \o w>>, <<p, w>> } : p \in NameOpts, w \in NWords(n) }
WordDotVectors(n) == UNION { { <<p \o g \o <<46>> \o w>>, <<p, g \o <<46>> \o w>> } : p \in DotOpts, g \in GWords(n), w \in NWords(n) }
WordTestFormVectors(n) == UNION { { <<T_TESTL \o g \o T_commasp \o w \o <<41>>>>, <<T_IGNORE_TESTL \o g \o T_commasp \o w \o <<41>>>> } : g \in GWords(n), w \in NWords(n) }
WordVectors(n) == WordGroupVectors(n) \cup WordNameVectors(n) \cup WordDotVectors(n) \cup WordTestFormVectors(n)

\* the probe registry: groups A, AB, B x names x, xy, y, and two ignored tests
PT(g, n, ign) == [g |-> g, n |-> n, ign |-> ign]
Probe == << PT(<<65>>, <<120>>, FALSE), PT(<<65>>, <<120, 121>>, FALSE), PT(<<65>>, <<121>>, FALSE),
            PT(<<65, 66>>, <<120>>, FALSE), PT(<<65, 66>>, <<121>>, FALSE),
            PT(<<66>>, <<120>>, FALSE), PT(<<66>>, <<120, 121>>, FALSE), PT(<<66>>, <<121>>, FALSE),
            PT(<<65, 66>>, <<105, 120>>, TRUE), PT(<<66>>, <<120>>, TRUE) >>
=============================================================================
