---------------------------- MODULE Gen_OrderedReg ----------------------------
EXTENDS OrderedReg, Json
CONSTANT D
VARIABLES h, done
gvars == <<vars, h, done>>
GInit == Init /\ h = <<>> /\ done = FALSE
GStep == /\ Len(h) < D /\ UNCHANGED done
         /\ \E n \in Names : \/ AddNormal(n) /\ h' = Append(h, [op |-> "normal", name |-> n, level |-> 0])
                             \/ \E l \in Levels : AddOrdered(n, l) /\ h' = Append(h, [op |-> "ordered", name |-> n, level |-> l])
GEnd == (Len(h) = D \/ Cardinality(InReg) = Cardinality(Names)) /\ ~done /\ done' = TRUE /\ UNCHANGED <<vars, h>>
GSpec == GInit /\ [][GStep \/ GEnd]_gvars
Dump == done => PrintT(<<"BEH", ToJson(h)>>)
=============================================================================
