---------------------------- MODULE Gen_JUnit ----------------------------
(* Behaviour generation for C16: JUnit's actions with a history variable of the calls the registry makes
   (op + arguments).  A behaviour is a complete run; after D calls only closing calls stay enabled.
   A filtered-out test ("skip": counted by the registry, no call reaches the reporter) carries a name that contains
   byte 122 'z': the harness installs the name filter "everything but z"; no other generated name contains it.
   The run options of "start" travel in n: colour + 2 * verbosity.  "setpkg" / "fname" (setPackageName, createFileName) occur
   wherever no group is open, "restart" is a further run served by the same reporter. *)
EXTENDS JUnit, Json
CONSTANTS D, NameAlpha, NameLen, FileAlpha, FileLen, MsgAlpha, MsgLen, PkgAlpha, PkgLen,
          RunIgnModes    \* run-ignored modes generated (a subset of BOOLEAN; a bound like D)
GNames == StrUpTo(NameAlpha, NameLen) \ {<<>>}
GFiles == StrUpTo(FileAlpha, FileLen) \ {<<>>}
GMsgs  == StrUpTo(MsgAlpha, MsgLen)
GPkgs  == StrUpTo(PkgAlpha, PkgLen)
GTexts == {<<116>>, <<60, 38, 93, 93, 62, 10>>}
AllOpts == [color : BOOLEAN, verb : 0..2]
PlainOpts == {NoOpt}
OptCode(o) == (IF o.color THEN 1 ELSE 0) + 2 * o.verb
VARIABLES h, fin
gvars == <<vars, h, fin>>

Step(op, a, b, c, n, k) == h' = Append(h, [op |-> op, a |-> a, b |-> b, c |-> c, n |-> n, k |-> k])
E0 == <<>>
More == Len(h) < D

GInit == Init /\ h = <<>> /\ fin = FALSE
GStep == /\ ~fin /\ UNCHANGED fin
         /\ \/ \E ri \in RunIgnModes, p \in Pkgs, o \in Opts : TestsStarted(ri, p, o) /\ Step("start", p, E0, E0, OptCode(o), IF ri THEN "1" ELSE "0")
            \/ \E ri \in RunIgnModes : More /\ cnt.r < MaxRuns /\ NextRun(ri) /\ Step("restart", E0, E0, E0, 0, IF ri THEN "1" ELSE "0")
            \/ \E p \in Pkgs : More /\ cnt.s < MaxSets /\ SetPackage(p) /\ Step("setpkg", p, E0, E0, 0, "")
            \/ \E g \in Names : More /\ cnt.s < MaxSets /\ AskFileName(g) /\ Step("fname", g, E0, E0, 0, "")
            \/ \E g \in Names : More /\ cnt.g < MaxGroups /\ GroupStarted(g) /\ Step("group", g, E0, E0, 0, "")
            \/ \E n \in Names, f \in Files, l \in LineNos, k \in {"n", "i"} :
                  More /\ cnt.t < MaxTests /\ TestStarted(n, f, l, k) /\ Step("test", n, f, E0, l, k)
            \/ \E t \in Texts : More /\ cnt.p < MaxPrints /\ PrintText(t) /\ Step("print", t, E0, E0, 0, "")
            \/ \E f \in Files, l \in LineNos, m \in Msgs :
                  More /\ cnt.f < MaxFails /\ Failure(f, l, m) /\ Step("fail", f, E0, m, l, "")
            \/ More /\ cnt.t < MaxTests /\ Skip /\ Step("skip", <<122, 39>>, <<102>>, E0, 1, "n")
            \/ TestEnded /\ Step("endtest", E0, E0, E0, 0, "")
            \/ GroupEnded(TRUE) /\ Step("endgroup", E0, E0, E0, 0, "")
            \/ EmptyGroupEnded(TRUE, TRUE) /\ Step("endgroup", E0, E0, E0, 0, "")
            \/ TestsEnded /\ Step("end", E0, E0, E0, 0, "")
GEnd == phase = "done" /\ ~fin /\ fin' = TRUE /\ UNCHANGED <<vars, h>>
GNext == GStep \/ GEnd
GSpec == GInit /\ [][GNext]_gvars
Dump == fin => PrintT(<<"BEH", ToJson(h)>>)
=============================================================================
