---------------------------- MODULE Trace_OrderedReg ----------------------------
EXTENDS OrderedReg, Json, IOUtils
VARIABLE l
tvars == <<vars, l>>
Tr == ndJsonDeserialize(IOEnv.TRACE)
E == Tr[l]
Is(op) == l <= Len(Tr) /\ Tr[l].op = op /\ l' = l + 1
OB(s) == SelectSeq(s, LAMBDA t : t.ordered)
ObsOK == E.reg = NamesOf(reg') /\ E.chain = NamesOf(OB(reg')) /\ E.count = Len(reg')
TInit == Init /\ l = 1
Walk == \/ Is("normal") /\ AddNormal(E.name)
        \/ Is("ordered") /\ AddOrdered(E.name, E.level)
TNext == Walk /\ ObsOK
TReset == Is("reset") /\ reg' = <<>> /\ seqno' = 0
TSpec == TInit /\ [][TNext \/ TReset]_tvars
Accepted == TLCGet("stats").diameter - 1 = Len(Tr)
TInv == BlockAtEnd /\ SortedByLevel /\ NothingLost
PSpec == TInit /\ [][Walk \/ TReset]_tvars
Predict == (l > 1 /\ l - 1 >= atoi(IOEnv.FROM_LINE_N)) => PrintT(<<"BEH", ToJson([line |-> l - 1, reg |-> NamesOf(reg), chain |-> NamesOf(OB(reg))])>>)
=============================================================================
