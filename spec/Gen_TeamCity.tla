---------------------------- MODULE Gen_TeamCity ----------------------------
(* Behaviour generation for C20: TeamCity's actions with a history variable recording the calls the
   registry makes (op + arguments, no observations).  A behaviour is a complete run (idle -> done);
   after D calls only the closing calls stay enabled, so every sampled behaviour ends.
   Skipped (filtered-out) tests carry a name starting with byte 122 'z': the harness installs the
   name filter that rejects exactly those. *)
EXTENDS TeamCity, Json
CONSTANTS D, NameAlpha, NameLen, FileAlpha, FileLen, FileMin, MsgAlpha, MsgLen
\* every kind of value ranges over ALL strings up to a length, the empty string and the one-byte strings included
\* (FileMin = 1 drops the empty path in the configurations whose size is spent on the run structure; names always include "")
GNames == StrUpTo(NameAlpha, NameLen)
GFiles == {f \in StrUpTo(FileAlpha, FileLen) : Len(f) >= FileMin}
GMsgs  == StrUpTo(MsgAlpha, MsgLen)
GTexts == {<<>>, <<116>>, <<91, 120, 39, 93, 10>>}
AllOpts == [color : BOOLEAN, verb : 0..2]
PlainOpts == {NoOpt}
OptCode(o) == (IF o.color THEN 1 ELSE 0) + 2 * o.verb          \* the options travel in n of the "start" line
VARIABLES h, done
gvars == <<vars, h, done>>

Step(op, a, b, c, n, k) == h' = Append(h, [op |-> op, a |-> a, b |-> b, c |-> c, n |-> n, k |-> k])
E0 == <<>>
More == Len(h) < D

GInit == Init /\ h = <<>> /\ done = FALSE
GStep == /\ ~done /\ UNCHANGED done
         /\ \/ \E ri \in BOOLEAN, o \in Opts : TestsStarted(ri, o) /\ Step("start", E0, E0, E0, OptCode(o), IF ri THEN "1" ELSE "0")
            \/ \E g \in Names : More /\ cnt.g < MaxGroups /\ GroupStarted(g) /\ Step("group", g, E0, E0, 0, "")
            \/ \E n \in Names, f \in Files, l \in LineNos, k \in {"n", "i"} :
                  More /\ cnt.t < MaxTests /\ TestStarted(n, f, l, k) /\ Step("test", n, f, E0, l, k)
            \/ More /\ cnt.t < MaxTests /\ Skip /\ Step("skip", <<122, 39>>, <<102>>, E0, 1, "n")
            \/ \E t \in Texts : More /\ cnt.p < MaxPrints /\ PrintText(t) /\ Step("print", t, E0, E0, 0, "")
            \/ \E f \in Files, l \in LineNos, m \in Msgs :
                  More /\ cnt.f < MaxFails /\ Failure(f, l, m) /\ Step("fail", f, E0, m, l, "")
            \/ TestEnded /\ Step("endtest", E0, E0, E0, 0, "")
            \/ GroupEnded /\ Step("endgroup", E0, E0, E0, 0, "")
            \/ TestsEnded /\ Step("end", E0, E0, E0, 0, "")
GEnd == phase = "done" /\ ~done /\ done' = TRUE /\ UNCHANGED <<vars, h>>
GNext == GStep \/ GEnd
GSpec == GInit /\ [][GNext]_gvars
Dump == done => PrintT(<<"BEH", ToJson(h)>>)
=============================================================================
