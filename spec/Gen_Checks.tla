----------------------------- MODULE Gen_Checks -----------------------------
(* Table generation for C03 (behaviours of length one): every call of the chosen operand-lattice
   family (IOEnv.FAMILY, or "all") is written as one ndjson row to IOEnv.OUT.  Rows carry the call
   only (kind + operands); the verdict and the counters are predicted by Trace_Checks when the log
   recorded from the real macros is validated, so expected results are never stored outside TLA+. *)
EXTENDS ChecksLattice, Json, IOUtils, SequencesExt
ASSUME ndJsonSerialize(IOEnv.OUT, SetToSeq(RowsOf(IOEnv.FAMILY)))
GSpec == Init /\ [][UNCHANGED vars]_vars
=============================================================================
