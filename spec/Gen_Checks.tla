----------------------------- MODULE Gen_Checks -----------------------------
(* Table generation for C03 (behaviours of length one): every call of the chosen operand-lattice
   families is written as one ndjson row to <IOEnv.OUT>.<family>.ndjson (one file per family: TLC sorts a set
   before enumerating it, and sorting seven small sets is much cheaper than sorting their union).  Rows carry the call
   only (kind + operands); the verdict and the counters are predicted by Trace_Checks when the log
   recorded from the real macros is validated, so expected results are never stored outside TLA+. *)
EXTENDS ChecksLattice, Json, IOUtils, SequencesExt
ASSUME \A f \in Families : ndJsonSerialize(IOEnv.OUT \o "." \o f \o ".ndjson", SetToSeq(Family(f)))
GSpec == Init /\ [][UNCHANGED vars]_vars
=============================================================================
