---------------------------- MODULE Trace_ThreadSafe ----------------------------
(* Trace validation for C10: the totally ordered event log of a real multi-threaded run (lock/unlock from the mutex
   seams, table add/remove/retrieve from hook H3 at the linearization point) must be a behaviour of the lock
   protocol of ThreadSafe.tla: every table operation happens while its own thread owns the detector lock, the lock
   has one owner at a time, removals remove outstanding blocks, and at the end the outstanding set has the size the
   detector reports and the threads still hold. *)
EXTENDS Naturals, Sequences, FiniteSets, TLC, Json, IOUtils
VARIABLES owner, table, l
vars == <<owner, table, l>>
Tr == ndJsonDeserialize(IOEnv.TRACE)
E == Tr[l]
Init == owner = 0 /\ table = {} /\ l = 1
Is(e) == l <= Len(Tr) /\ Tr[l].op = e /\ l' = l + 1
\* o = the owner the seam wrappers believed in when the event was recorded
Lock == Is("lock") /\ owner = 0 /\ owner' = E.t /\ E.o = E.t /\ UNCHANGED table
Unlock == Is("unlock") /\ owner = E.t /\ E.o = E.t /\ owner' = 0 /\ UNCHANGED table
Add == Is("add") /\ owner = E.t /\ E.o = E.t /\ E.a \notin table /\ table' = table \cup {E.a} /\ UNCHANGED owner
Remove == Is("remove") /\ owner = E.t /\ E.o = E.t /\ E.found = (E.a \in table) /\ E.found /\ table' = table \ {E.a} /\ UNCHANGED owner
Retrieve == Is("retrieve") /\ owner = E.t /\ E.o = E.t /\ E.found = (E.a \in table) /\ UNCHANGED <<owner, table>>
\* a = detector total minus its total before the threads started; o = blocks the threads say they still hold
End == Is("end") /\ owner = 0 /\ E.found /\ Cardinality(table) = E.a /\ E.o = E.a /\ UNCHANGED <<owner, table>>
Reset == Is("reset") /\ owner' = 0 /\ table' = {}
Next == Lock \/ Unlock \/ Add \/ Remove \/ Retrieve \/ End \/ Reset
Spec == Init /\ [][Next]_vars
Accepted == TLCGet("stats").diameter - 1 = Len(Tr)
OwnerIsThreadOrNone == owner \in Nat
=============================================================================
