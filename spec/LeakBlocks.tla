---------------------------- MODULE LeakBlocks ----------------------------
(***************************************************************************)
(* CppUTest tracked memory blocks (properties C05 and C06).                *)
(*                                                                         *)
(* The subsystem: the global allocation entry points (operator new /       *)
(* new[] in their plain, debug and nothrow forms, cpputest_malloc, calloc, *)
(* realloc, strdup, strndup; operator delete / delete[], cpputest_free)    *)
(* in front of one MemoryLeakDetector, which obtains memory from the       *)
(* current TestMemoryAllocator of the family (or PlatformSpecificRealloc), *)
(* lays out  user bytes | guard bytes | padding | bookkeeping record       *)
(* inside the underlying block (record kept separately for the malloc      *)
(* family), and on release classifies misuse.                              *)
(*                                                                         *)
(* Two layers, as in LeakTable:                                            *)
(*  - implementation-shaped: per block the allocator OBJECT that produced  *)
(*    it and the current VALUES of the guard bytes; request sizes as       *)
(*    symbolic 64-bit numbers whose arithmetic overflows when it should;   *)
(*  - property-level ghost `last': the facts the property statement talks  *)
(*    about (families, "a guard byte was changed", "cannot be satisfied"), *)
(*    against which the outcome `res' of every call is stated as           *)
(*    invariants.                                                          *)
(* One action per public call.  The underlying allocator is an arena of    *)
(* Slots; which slot serves a request, and whether the request fails       *)
(* (fault point), are arguments of the action.                             *)
(***************************************************************************)
EXTENDS Integers, Sequences, FiniteSets, TLC

CONSTANTS Slots,      \* arena slots (model addresses of underlying blocks), naturals
          Cap,        \* the largest request (bytes) the underlying allocator satisfies
          Guard,      \* number of guard bytes after the user bytes
          Align,      \* sizeof(void*): the record is placed at the next multiple (as coded: always >= 1 byte of padding)
          NodeSize,   \* sizeof(MemoryLeakDetectorNode)
          SepAll,     \* TRUE in builds without guard bytes (CPPUTEST_DISABLE_MEM_CORRUPTION_CHECK): every family keeps its record separately
          GBCode,     \* the guard byte values the detector writes, big-endian base 256 (Guard <= 3; cfg files have no tuples)
          \* --- the finite menus used by Next (model checking / generation); the actions themselves take any value
          SmallSizes, BigSizes, CallocPairs, StrLens, StrNs, Vals, Faults, Variants, Eps, MaxOff

-----------------------------------------------------------------------------
\* Symbolic 64-bit quantities (TLC integers are 32-bit).
\*   S(n)   = n                       (0 <= n, small)
\*   T(k)   = SIZE_MAX - k            (k small)
\*   P(e,d) = 2^e + d                 (31 <= e <= 63, |d| small)
\*   H      = some value above every small number whose exact value is not tracked (only produced by Mul)
\*   O      = "does not fit in 64 bits": the mathematical result overflowed
S(n)    == [t |-> "S", e |-> 0, n |-> n]
T(k)    == [t |-> "T", e |-> 0, n |-> k]
P(e, d) == [t |-> "P", e |-> e, n |-> d]
H       == [t |-> "H", e |-> 0, n |-> 0]
O       == [t |-> "O", e |-> 0, n |-> 0]
IsSmall(x) == x.t = "S"

\* x + m for a small natural m (exact)
Add(x, m) == CASE x.t = "S" -> S(x.n + m)
               [] x.t = "T" -> IF m <= x.n THEN T(x.n - m) ELSE O
               [] x.t = "P" -> P(x.e, x.n + m)
               [] OTHER     -> x            \* H stays "huge or overflowed" (both unsatisfiable), O is absorbing
Pow2Mod(e, a) == IF e >= 3 THEN 0 ELSE (2 ^ e) % a     \* Align <= 8
\* x mod Align
Rem(x) == CASE x.t = "S" -> x.n % Align
            [] x.t = "T" -> (Align - 1 - (x.n % Align)) % Align     \* 2^64 - 1 - k
            [] x.t = "P" -> (Pow2Mod(x.e, Align) + x.n) % Align
            [] OTHER     -> 0
\* size of the underlying request: user + guard, padded to the record's alignment, + the record (inline layout)
WithGuard(x)  == Add(x, Guard)
Padded(x)     == IF Guard = 0 THEN x ELSE Add(WithGuard(x), Align - Rem(WithGuard(x)))    \* (as coded: no padding without guard bytes)
Total(x, sep) == IF sep THEN Padded(x) ELSE Add(Padded(x), NodeSize)
Fits(x)       == IsSmall(x) /\ x.n <= Cap

Log2OfPow(a) == CHOOSE j \in 0..30 : 2 ^ j = a
IsPow2(a)    == \E j \in 0..30 : 2 ^ j = a
\* count x size for calloc: exact on the classes used (anything else is "U", and Calloc is not enabled for it)
Mul(x, y) ==
    CASE (IsSmall(x) /\ x.n = 0) \/ (IsSmall(y) /\ y.n = 0) -> S(0)
      [] IsSmall(x) /\ x.n = 1 -> y
      [] IsSmall(y) /\ y.n = 1 -> x
      [] IsSmall(x) /\ IsSmall(y) -> IF x.n <= 32767 /\ y.n <= 32767 THEN S(x.n * y.n) ELSE [t |-> "U", e |-> 0, n |-> 0]
      [] x.t = "T" \/ y.t = "T" -> O                                  \* (2^64-1-k) * m, m >= 2
      [] x.t = "P" /\ y.t = "P" ->
            IF x.e + y.e >= 65 THEN O
            ELSE IF x.e + y.e = 64 THEN (IF x.n >= 0 /\ y.n >= 0 THEN O
                                         ELSE IF x.n <= 0 /\ y.n <= 0 THEN H ELSE [t |-> "U", e |-> 0, n |-> 0])
            ELSE H
      [] x.t = "P" /\ IsSmall(y) /\ IsPow2(y.n) ->
            LET j == Log2OfPow(y.n) IN IF x.e + j >= 65 THEN O ELSE IF x.e + j = 64 THEN (IF x.n >= 0 THEN O ELSE H) ELSE H
      [] y.t = "P" /\ IsSmall(x) /\ IsPow2(x.n) ->
            LET j == Log2OfPow(x.n) IN IF y.e + j >= 65 THEN O ELSE IF y.e + j = 64 THEN (IF y.n >= 0 THEN O ELSE H) ELSE H
      [] OTHER -> [t |-> "U", e |-> 0, n |-> 0]
MinSym(len, x) == IF IsSmall(x) /\ x.n < len THEN x.n ELSE len     \* min(len, x) for a small len

-----------------------------------------------------------------------------
GB == [i \in 1..Guard |-> (GBCode \div (256 ^ (Guard - i))) % 256]
Families == {"new", "newarr", "malloc"}
AllocEps == {"new", "newdbg", "newnt", "newarr", "newarrdbg", "newarrnt", "malloc"}
\* every form of operator delete / delete[] the library replaces: plain, sized (void*, size_t), nothrow placement (void*, nothrow_t) and
\* the two debug placement forms (void*, const char*, size_t / int) - the placement forms are what the runtime calls when a
\* constructor throws inside the matching new-expression.  A form releases into the family of its operator, whatever its arguments.
DelForms    == {"delete", "deletesz", "deletent", "deletedbg", "deletedbgi"}
DelArrForms == {"deletearr", "deletearrsz", "deletearrnt", "deletearrdbg", "deletearrdbgi"}
RelEps   == DelForms \cup DelArrForms \cup {"free"}
RelGen   == {"delete", "deletearr", "free"}      \* the forms TLC enumerates (the others are substituted for them by the drivers)
FamOf(ep) == CASE ep \in {"new", "newdbg", "newnt"} \cup DelForms -> "new"
               [] ep \in {"newarr", "newarrdbg", "newarrnt"} \cup DelArrForms -> "newarr"
               [] OTHER -> "malloc"
Throws(ep) == ep \in {"new", "newdbg", "newarr", "newarrdbg"}       \* bad_alloc instead of NULL
\* allocator objects: per family a plain one, a distinct object carrying the same name ("twin"), a wrapper around the plain one, and a
\* distinct object carrying the same name but other labels for its allocation and release functions ("relabel": alloc_name() /
\* free_name() are texts for reports - the family of an allocator is its name())
Obj(f, v)  == [fam |-> f, var |-> v]
Actual(o)  == IF o.var = "wrap" THEN Obj(o.fam, "plain") ELSE o     \* actualAllocator()
NameOf(o)  == IF o.var = "wrap" THEN "Wrapper" ELSE o.fam           \* name(): plain and twin share it
NoBlk == [fam |-> "-"]

VARIABLES blk,        \* [Slots -> NoBlk or the tracked block whose underlying memory is this slot]
          typeCheck,  \* allocation type checking enabled
          cur,        \* [Families -> Variants]: the current allocator object of each family
          res,        \* observable outcome of the last call
          last        \* ghost: what the last call was, in the terms of the property statement
vars == <<blk, typeCheck, cur, res, last>>

Live == { s \in Slots : blk[s] # NoBlk }
NLive == Cardinality(Live)
Res(ret, rep, n, over) == [ret |-> ret, rep |-> rep, n |-> n, over |-> over]
Block(o, size, sep) == [fam |-> o.fam, obj |-> o, size |-> size, g |-> GB, sep |-> sep]

\* --- layout of a tracked block inside its underlying block (offsets from the returned pointer)
UserRange(b)  == [lo |-> 0, hi |-> b.size]
GuardRange(b) == [lo |-> b.size, hi |-> b.size + Guard]
NodeRange(b)  == [lo |-> Padded(S(b.size)).n, hi |-> Padded(S(b.size)).n + NodeSize]
Requested(b)  == Total(S(b.size), b.sep).n
Disjoint(r1, r2) == r1.hi <= r2.lo \/ r2.hi <= r1.lo

Init == /\ blk = [s \in Slots |-> NoBlk] /\ typeCheck = TRUE /\ cur = [f \in Families |-> "plain"]
        /\ res = Res("void", "none", -1, "na")
        /\ last = [op |-> "init"]

-----------------------------------------------------------------------------
\* A request for `size' user bytes through entry point ep, served from slot s unless it cannot be satisfied.
\* fault: "none" | "under" (the underlying allocator / platform realloc returns NULL) | "node" (the separately
\* allocated bookkeeping record cannot be obtained)
Satisfiable(size, sep, fault) ==
    /\ size.t \notin {"O", "H"} /\ Fits(Total(size, sep))
    /\ fault # "under" /\ (fault = "node" => ~sep)
FailRet(ep) == IF Throws(ep) THEN "badalloc" ELSE "null"

Obtain(op, ep, s, size, fault, n) ==
    LET sep == SepAll \/ FamOf(ep) = "malloc"
        ok  == Satisfiable(size, sep, fault) IN
    /\ blk[s] = NoBlk
    /\ IF ok THEN /\ blk' = [blk EXCEPT ![s] = Block(Obj(FamOf(ep), cur[FamOf(ep)]), size.n, sep)]
                  /\ res' = Res("ptr", "none", n, "na")
             ELSE /\ UNCHANGED blk
                  /\ res' = Res(FailRet(ep), "none", -1, "na")
    /\ last' = [op |-> op, sat |-> ok, before |-> blk, s |-> s]
    /\ UNCHANGED <<typeCheck, cur>>

\* operator new / new[] (plain, debug, nothrow), cpputest_malloc
Alloc(ep, s, size, fault) == ep \in AllocEps /\ Obtain("alloc", ep, s, size, fault, -1)
\* cpputest_calloc(count, size): zero-filled block of count*size bytes (n = number of leading zero bytes)
Calloc(s, count, size, fault) ==
    LET prod == Mul(count, size) IN
    /\ prod.t # "U"
    /\ Obtain("calloc", "malloc", s, prod, fault, IF IsSmall(prod) THEN prod.n ELSE -1)
\* cpputest_strdup(str) with strlen(str) = len: len+1 bytes, the string and its terminator (n = length of the copy)
Strdup(s, len, fault) == Obtain("strdup", "malloc", s, S(len + 1), fault, len)
\* cpputest_strndup(str, max): min(len, max)+1 bytes
Strndup(s, len, max, fault) == Obtain("strndup", "malloc", s, S(MinSym(len, max) + 1), fault, MinSym(len, max))

\* cpputest_realloc(block in slot s, size): new block in slot s2 (s2 = s: in place) keeping the first min(old,new)
\* bytes (n), or failure with the old block untouched and still tracked.  The old block must be a proper malloc
\* block (family, guard) - what the detector does after reporting misuse on realloc is not specified here.
ProperFor(b, rel) == (~typeCheck \/ b.fam = FamOf(rel)) /\ b.g = GB
Realloc(s, s2, size, fault) ==
    /\ blk[s] # NoBlk /\ ProperFor(blk[s], "free")
    /\ s2 = s \/ blk[s2] = NoBlk
    /\ LET ok == Satisfiable(size, TRUE, fault) IN
       /\ IF ok THEN /\ blk' = [[blk EXCEPT ![s] = NoBlk] EXCEPT ![s2] = Block(Obj("malloc", cur["malloc"]), size.n, TRUE)]
                     /\ res' = Res("ptr", "none", IF blk[s].size < size.n THEN blk[s].size ELSE size.n, "na")
                ELSE /\ UNCHANGED blk
                     /\ res' = Res("null", "none", -1, "na")
       /\ last' = [op |-> "realloc", sat |-> ok, before |-> blk, s |-> s]
    /\ UNCHANGED <<typeCheck, cur>>
\* realloc(NULL, size) behaves as malloc
ReallocNull(s2, size, fault) == Obtain("realloc", "malloc", s2, size, fault, 0)
\* realloc of an address that is not an outstanding block
ReallocUnknown(s) ==
    /\ blk[s] = NoBlk
    /\ res' = Res("null", "nonallocated", -1, "na")
    /\ last' = [op |-> "realloc-unknown", sat |-> FALSE, before |-> blk, s |-> s]
    /\ UNCHANGED <<blk, typeCheck, cur>>

\* the program writes byte value v at offset pos of the block in slot s: user bytes or the guard bytes after them
Write(s, pos, v) ==
    /\ blk[s] # NoBlk /\ pos \in 0..(blk[s].size + Guard - 1)
    /\ blk' = IF pos < blk[s].size THEN blk
              ELSE [blk EXCEPT ![s].g = [@ EXCEPT ![pos - blk[s].size + 1] = v]]
    /\ res' = Res("void", "none", -1, "na")
    /\ last' = [op |-> "write", inUser |-> pos < blk[s].size]
    /\ UNCHANGED <<typeCheck, cur>>

\* --- release through operator delete / delete[] / cpputest_free
\* property-level facts about a release of the outstanding block b through entry point rel
FamiliesDiffer(b, rel) == b.fam # FamOf(rel)
GuardChanged(b) == \E i \in 1..Guard : b.g[i] # GB[i]
\* implementation-shaped decision (checkForCorruption): identity of the actual allocators by name, then the guard pattern
ImplMatching(b, rel) ==
    LET a == Actual(b.obj)
        r == Actual(Obj(FamOf(rel), cur[FamOf(rel)])) IN
    a = r \/ ~typeCheck \/ NameOf(a) = NameOf(r)
ImplOutcome(b, rel) == IF ~ImplMatching(b, rel) THEN "mismatch" ELSE IF b.g # GB THEN "corruption" ELSE "none"

\* release of address (slot s, offset off): outstanding iff a block lives in s and off = 0
Release(rel, s, off) ==
    /\ rel \in RelEps
    /\ IF blk[s] # NoBlk /\ off = 0
       THEN /\ blk' = [blk EXCEPT ![s] = NoBlk]             \* whatever is reported, the block is gone and its memory returned
            /\ res' = Res("void", ImplOutcome(blk[s], rel), -1, "yes")   \* user bytes overwritten before the memory is returned
            /\ last' = [op |-> "release", cls |-> "outstanding", differ |-> FamiliesDiffer(blk[s], rel), tc |-> typeCheck,
                        changed |-> GuardChanged(blk[s])]
       ELSE /\ UNCHANGED blk
            /\ res' = Res("void", "nonallocated", -1, "na")
            /\ last' = [op |-> "release", cls |-> IF blk[s] = NoBlk THEN "stale" ELSE "interior"]
    /\ UNCHANGED <<typeCheck, cur>>
ReleaseForeign(rel) ==
    /\ rel \in RelEps
    /\ res' = Res("void", "nonallocated", -1, "na") /\ last' = [op |-> "release", cls |-> "foreign"]
    /\ UNCHANGED <<blk, typeCheck, cur>>
ReleaseNull(rel) ==
    /\ rel \in RelEps
    /\ res' = Res("void", "none", -1, "na") /\ last' = [op |-> "release", cls |-> "null"]
    /\ UNCHANGED <<blk, typeCheck, cur>>

SetTypeCheck(b) == /\ typeCheck' = b /\ res' = Res("void", "none", -1, "na") /\ last' = [op |-> "config"]
                   /\ UNCHANGED <<blk, cur>>
\* MemoryLeakDetector::enable / disable / startChecking / stopChecking: the period ("disabled" before a MemoryLeakWarningPlugin exists and
\* between disable() and enable(), "enabled" between tests, "checking" inside one) only labels the records made from then on - it decides
\* which blocks a later leak report is about (LeakTable), never how a block is laid out, checked, reported or poisoned: no variable of
\* this module changes, and every action above is enabled and answers the same in every period
SetPeriod(p) == /\ p \in {"disabled", "enabled", "checking"}
                /\ res' = Res("void", "none", -1, "na") /\ last' = [op |-> "config"]
                /\ UNCHANGED <<blk, typeCheck, cur>>
\* setCurrentNewAllocator / NewArrayAllocator / MallocAllocator with another allocator object of the same family
SetAlloc(f, v) == /\ f \in Families
                  /\ cur' = [cur EXCEPT ![f] = v] /\ res' = Res("void", "none", -1, "na") /\ last' = [op |-> "config"]
                  /\ UNCHANGED <<blk, typeCheck>>

AllSizes == { S(n) : n \in SmallSizes } \cup BigSizes
Next == \/ \E ep \in Eps, s \in Slots, z \in AllSizes, f \in Faults : Alloc(ep, s, z, f)
        \/ \E s \in Slots, cp \in CallocPairs, f \in Faults : Calloc(s, cp[1], cp[2], f)
        \/ \E s \in Slots, n \in StrLens, f \in Faults : Strdup(s, n, f)
        \/ \E s \in Slots, n \in StrLens, m \in StrNs, f \in Faults : Strndup(s, n, m, f)
        \/ \E s \in Slots, s2 \in Slots, z \in AllSizes, f \in Faults : Realloc(s, s2, z, f)
        \/ \E s \in Slots, z \in AllSizes, f \in Faults : ReallocNull(s, z, f)
        \/ \E s \in Slots : ReallocUnknown(s)
        \/ \E s \in Slots, v \in Vals : \E pos \in 0..(IF blk[s] = NoBlk THEN 0 ELSE blk[s].size + Guard - 1) : Write(s, pos, v)
        \/ \E rel \in RelGen, s \in Slots, off \in 0..MaxOff : Release(rel, s, off)
        \/ \E rel \in RelGen : ReleaseForeign(rel) \/ ReleaseNull(rel)
        \/ \E b \in BOOLEAN : SetTypeCheck(b)
        \/ \E p \in {"disabled", "enabled", "checking"} : SetPeriod(p)
        \/ \E f \in Families, v \in Variants : SetAlloc(f, v)
Spec == Init /\ [][Next]_vars

-----------------------------------------------------------------------------
\* Properties
TypeOK == /\ typeCheck \in BOOLEAN /\ \A f \in Families : cur[f] \in {"plain", "twin", "wrap", "relabel"}
          /\ res.ret \in {"ptr", "null", "badalloc", "void"}
          /\ res.rep \in {"none", "nonallocated", "mismatch", "corruption"}
          /\ res.over \in {"yes", "na"}
          /\ \A s \in Live : blk[s].size \in Nat /\ DOMAIN blk[s].g = 1..Guard /\ blk[s].fam \in Families

\* ---- C05
\* a live block's user bytes, guard and record lie inside the memory obtained for it, pairwise disjoint,
\* and that memory was obtainable (so blocks in different slots cannot overlap)
LayoutSound == \A s \in Live : LET b == blk[s] IN
    /\ Requested(b) <= Cap
    /\ GuardRange(b).hi <= Requested(b)
    /\ Disjoint(UserRange(b), GuardRange(b))
    /\ ~b.sep => /\ NodeRange(b).hi <= Requested(b) /\ NodeRange(b).lo % Align = 0
                 /\ Disjoint(UserRange(b), NodeRange(b)) /\ Disjoint(GuardRange(b), NodeRange(b))
\* a request fails exactly when it cannot be satisfied, and then nothing changes
IsRequest == last.op \in {"alloc", "calloc", "strdup", "strndup", "realloc", "realloc-unknown"}
FailsIffUnsatisfiable == IsRequest => ((res.ret = "ptr") <=> last.sat)
FailureChangesNothing == (IsRequest /\ res.ret # "ptr") => blk = last.before
SuccessAddsOne == (IsRequest /\ res.ret = "ptr") =>
                     NLive = Cardinality({ s \in Slots : last.before[s] # NoBlk }) + (IF last.op = "realloc" /\ last.before[last.s] # NoBlk THEN 0 ELSE 1)
RequestsAreSilent == (IsRequest /\ last.op # "realloc-unknown") => res.rep = "none"

\* ---- C06
\* the outcome of a release, stated with the property's words only
PropertyOutcome ==
    IF last.cls = "null" THEN "none"
    ELSE IF last.cls # "outstanding" THEN "nonallocated"
    ELSE IF last.tc /\ last.differ THEN "mismatch"
    ELSE IF last.changed THEN "corruption"
    ELSE "none"
ReportExact == last.op = "release" => res.rep = PropertyOutcome
WritesAreSilent == last.op = "write" => res.rep = "none"
Poisoned == (last.op = "release" /\ last.cls = "outstanding") <=> res.over = "yes"
\* the name of the actual allocator is the family for every allocator object (wrappers, twins)
FamilyIsActualName == \A f \in Families, v \in {"plain", "twin", "wrap", "relabel"} : NameOf(Actual(Obj(f, v))) = f
=============================================================================
