---------------------------- MODULE Gen_Mock ----------------------------
(* Behaviour generation for C08/C19: Mock's actions with a history variable recording the calls and their
   arguments only (the results are predicted by Trace_Mock when the log recorded from the real MockSupport is
   validated).  A behaviour ends - with the end-of-test step - after D calls, after the first failure, or
   after checkExpectations.  Expectation sets stay inside the property's domain (Unambiguous).
   With Phases the behaviour is a test with a body and a teardown: in the body a check of the test itself may
   fail (CheckFails); the body ends as above or earlier, then the teardown makes up to TdLen further calls
   (checkExpectations, expectedCallsLeft, actual calls, clear) - in a test that has failed and in one that has not. *)
EXTENDS MC_Mock, Json
CONSTANT D
VARIABLES h, done
gvars == <<vars, h, done>>
Rec(r) == h' = Append(h, r)
GInit == Init /\ h = <<>> /\ done = FALSE
TdLen == 2
TdAt == { i \in 1..Len(h) : h[i].op = "teardown" }
InTd == TdAt # {}
TdSteps == IF InTd THEN Len(h) - Min(TdAt) ELSE 0
BodyStop == Len(h) >= D \/ failed \/ last = "check"
Stop == IF Phases THEN InTd /\ TdSteps >= TdLen ELSE BodyStop
GBody ==
    /\ ~BodyStop /\ ~InTd
    /\ \/ \E s \in Scopes, e \in ExpSet : /\ NExp(s) < MaxExp /\ (LateExpect \/ NCalls = 0)
                                          /\ CopiersPresent(s, e) /\ ComparatorsPresent(s, e) /\ Unambiguous(WouldBe(s, e)) /\ Expect(s, e)
                                          /\ Rec([op |-> "expect", s |-> s, e |-> e])
       \/ \E s \in Scopes, tn \in ObjTNames, md \in CmpExplored : /\ NInst(s) < MaxInst /\ InstallComparator(s, tn, md)
                                                                /\ Rec([op |-> "installcmp", s |-> s, tn |-> tn, md |-> md])
       \/ \E s \in Scopes, tn \in OTypes \ {"raw"}, md \in CpyModes : /\ NInst(s) < MaxInst /\ InstallCopier(s, tn, md)
                                                                       /\ Rec([op |-> "installcpy", s |-> s, tn |-> tn, md |-> md])
       \/ \E s \in Scopes : MaxInst > 0 /\ NoExpectations /\ NInst(s) > 0 /\ RemoveAll(s) /\ Rec([op |-> "removeall", s |-> s])
       \/ \E s \in Scopes, k \in DKeys, v \in DVals : SetData(s, k, v) /\ Rec([op |-> "setdata", s |-> s, k |-> k, v |-> v])
       \/ \E s \in Scopes, k \in DKeys : GetData(s, k) /\ Rec([op |-> "getdata", s |-> s, k |-> k])
       \/ \E s \in Scopes, fn \in Fns : NCalls < MaxCalls /\ Begin(s, fn) /\ Rec([op |-> "begin", s |-> s, fn |-> fn])
       \/ \E s \in Scopes, k \in PNames, v \in Vals : Param(s, k, v) /\ Rec([op |-> "param", s |-> s, k |-> k, v |-> v])
       \/ \E s \in Scopes, k \in ONames, ty \in OTypes : OutParam(s, k, ty) /\ Rec([op |-> "outparam", s |-> s, k |-> k, ty |-> ty])
       \/ \E s \in Scopes, o \in Objs : OnObject(s, o) /\ Rec([op |-> "object", s |-> s, o |-> o])
       \/ \E s \in Scopes, x \in RetGetters : /\ ms[s].live /\ ms[s].cur.phase \in {"open", "ignored"} /\ ReturnValue(s, x.g, x.od, x.d, "support")
                                                /\ Rec([op |-> "ret", s |-> s, g |-> x.g, od |-> x.od, d |-> x.d])
       \/ \E s \in Scopes : Flags /\ StrictOrder(s) /\ ~Touched(s)[s].strict /\ NExp(s) = 0 /\ NCalls = 0 /\ Rec([op |-> "strict", s |-> s])
       \/ Flags /\ IgnoreOtherCalls /\ ~ms[Global].ignoreOthers /\ NCalls = 0 /\ Rec([op |-> "ignoreothers"])
       \/ Toggles /\ Disable /\ ms[Global].enabled /\ Rec([op |-> "disable"])
       \/ Toggles /\ Enable /\ ~ms[Global].enabled /\ Rec([op |-> "enable"])
       \/ AnyOpen /\ Left /\ Rec([op |-> "left"])
       \/ (NCalls > 0 \/ DKeys # {}) /\ Check /\ Rec([op |-> "check"])
       \/ DKeys # {} /\ (\E s \in Scopes : ms[s].data # <<>>) /\ Clear /\ Rec([op |-> "clear"])
       \/ Phases /\ CheckFails /\ Rec([op |-> "failcheck"])
\* the teardown of the test: it begins where the body ends - at any point, at the latest where a behaviour without phases would end
GTeardown ==
    /\ Phases
    /\ \/ ~InTd /\ Teardown /\ Rec([op |-> "teardown"])
       \/ /\ InTd /\ TdSteps < TdLen
          /\ \/ Check /\ Rec([op |-> "check"])
             \/ Left /\ Rec([op |-> "left"])
             \/ \E s \in Scopes, fn \in Fns : Begin(s, fn) /\ Rec([op |-> "begin", s |-> s, fn |-> fn])
             \/ Clear /\ Rec([op |-> "clear"])
GStep == ~done /\ UNCHANGED done /\ (GBody \/ GTeardown)
\* a single deterministic closing step, so that simulation prints each sampled behaviour once
GEnd == Stop /\ ~done /\ done' = TRUE /\ UNCHANGED <<vars, h>>
GNext == GStep \/ GEnd
GSpec == GInit /\ [][GNext]_gvars
Dump == done => PrintT(<<"BEH", ToJson(h)>>)
=============================================================================
