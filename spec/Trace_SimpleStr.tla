-------------------------- MODULE Trace_SimpleStr --------------------------
(* Trace validation for C13: the ndjson log recorded from the real SimpleString (one line per call, with the
   operands really used, the result, the contents of the object pool and the list of string-allocator events the
   call caused) must be a behaviour of SimpleStr.  Results are computed here by the textbook operators. *)
EXTENDS SimpleStr, Json, IOUtils
VARIABLE l
tvars == <<vars, l>>
Tr == ndJsonDeserialize(IOEnv.TRACE)
E == Tr[l]
Is(op) == l <= Len(Tr) /\ Tr[l].op = op /\ l' = l + 1

TInit == Init /\ l = 1
TNext == \/ Is("f") /\ Pure(E, E.res, E.ev)
         \/ Is("o") /\ Obj(E, E.ev) /\ val' = E.vals
TReset == Is("reset") /\ val' = [i \in Objs |-> NoObj] /\ live' = {} /\ res' = <<>>
TSpec == TInit /\ [][TNext \/ TReset]_tvars
Accepted == TLCGet("stats").diameter - 1 = Len(Tr)
TInv == TypeOK /\ UniqueIds /\ QuiescentClean /\ ObjectsHaveBuffers

\* diagnostics: what the specification expects for the call of each line (results / contents), observations unbound
PNext == \/ Is("f") /\ res' = (IF E.fn \in {"printable", "printableornull", "strncpy"} THEN <<>> ELSE Expected(E)) /\ UNCHANGED <<val, live>>
         \/ Is("o") /\ ObjPre(E) /\ val' \in ObjPost(E) /\ res' = <<>> /\ UNCHANGED live
PSpec == TInit /\ [][PNext \/ TReset]_tvars
Predict == (l > 1 /\ l - 1 >= atoi(IOEnv.FROM_LINE_N)) =>
              PrintT(<<"BEH", ToJson([line |-> l - 1, expected_res |-> res, expected_vals |-> val])>>)
=============================================================================
