---------------------------- MODULE Gen_ReportBuffer ----------------------------
(* Behaviour generation for C14 (buffer part): call sequences for the real detector -- clear, misuse messages with
   file names of chosen lengths, batches of leaks of chosen size / file-name length / count, release of all leaks,
   report.  Every call is always possible, so the behaviours are all sequences; the specification is driven along
   with NOMINAL text lengths (title + location lines with the measured base lengths plus the file-name lengths,
   78 characters per 16 dumped bytes) so that each behaviour carries whether it visits the corners: a report begun with the
   fill position above the lowered limit, a truncated listing.  The verdict never uses the nominal lengths:
   Trace_ReportBuffer takes the lengths the real writes return. *)
EXTENDS ReportBuffer, Json
CONSTANTS D, FLens, Sizes, Counts, MKinds, LKinds, MsgBase, ABase, FBase, LBase, UnknownLen
VARIABLES h, done, out, over, cutseen
gvars == <<vars, h, done, out, over, cutseen>>

Call(op, kind, x, y, cnt) == h' = Append(h, [op |-> op, kind |-> kind, x |-> x, y |-> y, cnt |-> cnt])
RECURSIVE NumDigits(_)
NumDigits(n) == IF n < 10 THEN 1 ELSE 1 + NumDigits(n \div 10)
Rem16(x) == x - 16 * (x \div 16)
DumpLen(size) == 78 * (size \div 16) + (IF Rem16(size) > 0 THEN 62 + Rem16(size) ELSE 0)
EntryLen(b) == b.cnt * (LBase + b.flen + DumpLen(b.size))
Total == LET F[i \in 0..Len(out)] == IF i = 0 THEN 0 ELSE F[i - 1] + out[i].cnt IN F[Len(out)]
AnyMalloc == \E i \in 1..Len(out) : out[i].malloc

GInit == Init /\ h = <<>> /\ done = FALSE /\ out = <<>> /\ over = FALSE /\ cutseen = FALSE
GStep == /\ Len(h) < D /\ UNCHANGED <<done, ops>>
         /\ \/ filled > 0 /\ Clear /\ Call("clear", "", 0, 0, 0) /\ UNCHANGED <<out, over, cutseen>>
            \/ \E k \in MKinds, x \in FLens \cup {0}, y \in FLens :
                  /\ (k = "nonalloc" <=> x = 0)
                  /\ Misuse(<<MsgBase, ABase + (IF k = "nonalloc" THEN UnknownLen ELSE x), FBase + y>>)
                  /\ Call("misuse", k, x, y, 0) /\ UNCHANGED <<out, over, cutseen>>
            \/ \E k \in LKinds, s \in Sizes, y \in FLens, c \in Counts :
                  /\ Len(out) < 3 /\ out' = Append(out, [malloc |-> (k = "malloc"), size |-> s, flen |-> y, cnt |-> c])
                  /\ Call("leak", k, s, y, c) /\ UNCHANGED <<vars, over, cutseen>>
            \/ out # <<>> /\ out' = <<>> /\ Call("freeall", "", 0, 0, 0) /\ UNCHANGED <<vars, over, cutseen>>
            \/ /\ Report(Total, IF Total = 0 THEN <<>> ELSE <<HeaderLen>> \o [i \in 1..Len(out) |-> EntryLen(out[i])],
                         NumDigits(Total), AnyMalloc, TRUE)
               /\ over' = (over \/ filled > Low) /\ cutseen' = (cutseen \/ rep'.cut)
               /\ Call("report", "", 0, 0, 0) /\ UNCHANGED out
\* a single deterministic closing step, so that simulation prints each sampled behaviour once
GEnd == Len(h) = D /\ ~done /\ done' = TRUE /\ UNCHANGED <<vars, h, out, over, cutseen>>
GNext == GStep \/ GEnd
GSpec == GInit /\ [][GNext]_gvars
Dump == done => PrintT(<<"BEH", ToJson([calls |-> h, over |-> over, cut |-> cutseen])>>)
=============================================================================
