---------------------------- MODULE LeakTable ----------------------------
(***************************************************************************)
(* CppUTest MemoryLeakDetector accounting (property C04).                  *)
(*                                                                         *)
(* Two layers in one module:                                               *)
(*  - implementation-shaped: `bucket', a hash table of P chains with head  *)
(*    insertion, keyed by address (MemoryLeakDetectorTable/List), the      *)
(*    current period, allocation stage and sequence counter;               *)
(*  - abstract ghost: `live', the set of outstanding records maintained by *)
(*    the textbook rule "allocated through the detector and not released". *)
(* One action per public call of MemoryLeakDetector.  `res' is the         *)
(* observable outcome of the last call (misuse callback yes/no).           *)
(***************************************************************************)
EXTENDS Naturals, Sequences, FiniteSets, TLC

CONSTANTS Addrs,     \* model addresses (naturals); bucket of a = a % P
          P,         \* number of hash buckets in the model
          MaxSeq,    \* bound on allocations (sequence counter)
          Kinds,     \* allocator kinds (alloc_name strings)
          Sizes,     \* block sizes
          MaxStage   \* bound on the allocation stage

Periods == {"disabled", "enabled", "checking"}
Queries == {"all", "disabled", "enabled", "checking"}

VARIABLES bucket,   \* [0..P-1 -> Seq(record)], head insertion
          period,   \* current period
          stage,    \* current allocation stage
          seq,      \* next allocation number
          live,     \* ghost: set of outstanding records
          res       \* outcome of the last call: "ok" | "nonallocated"

vars == <<bucket, period, stage, seq, live, res>>

Rec(a, sz, k, ln, p, st, s) ==
    [addr |-> a, size |-> sz, kind |-> k, line |-> ln, period |-> p, stage |-> st, seq |-> s]

H(a) == a % P

\* MemoryLeakDetectorList::isInPeriod
Visible(r, q) == q = "all" \/ r.period = q \/ (q = "enabled" /\ r.period # "disabled")

InChains == UNION { { bucket[i][j] : j \in 1..Len(bucket[i]) } : i \in 0..P-1 }
LiveAddrs == { r.addr : r \in live }
RecOf(a) == CHOOSE r \in live : r.addr = a

Init == /\ bucket = [i \in 0..P-1 |-> <<>>]
        /\ period = "disabled" /\ stage = 0 /\ seq = 1 /\ live = {} /\ res = "ok"

RemoveFromChain(c, a) == SelectSeq(c, LAMBDA r : r.addr # a)

\* allocMemory: the underlying allocator returned address a (never one that is still outstanding)
Alloc(a, sz, k, ln) ==
    /\ a \notin LiveAddrs /\ seq <= MaxSeq
    /\ LET r == Rec(a, sz, k, ln, period, stage, seq) IN
         /\ bucket' = [bucket EXCEPT ![H(a)] = <<r>> \o @]
         /\ live' = live \cup {r}
    /\ seq' = seq + 1 /\ res' = "ok" /\ UNCHANGED <<period, stage>>

\* deallocMemory of an outstanding block: exactly that record disappears
Free(a) ==
    /\ a \in LiveAddrs
    /\ bucket' = [bucket EXCEPT ![H(a)] = RemoveFromChain(@, a)]
    /\ live' = { r \in live : r.addr # a }
    /\ res' = "ok" /\ UNCHANGED <<period, stage, seq>>

\* deallocMemory of an address that is not outstanding: misuse report, nothing changes
FreeUnknown(a) ==
    /\ a \notin LiveAddrs
    /\ res' = "nonallocated" /\ UNCHANGED <<bucket, period, stage, seq, live>>

\* deallocMemory(NULL): silently ignored
FreeNull == res' = "ok" /\ UNCHANGED <<bucket, period, stage, seq, live>>

\* reallocMemory(a -> a2): old record removed, a new record (new number, current period and stage) added
\* (the block stays with the allocator family it was obtained from)
Realloc(a, a2, sz, ln) ==
    /\ a \in LiveAddrs /\ seq <= MaxSeq
    /\ (a2 = a \/ a2 \notin LiveAddrs)
    /\ LET r == Rec(a2, sz, RecOf(a).kind, ln, period, stage, seq)
           b1 == [bucket EXCEPT ![H(a)] = RemoveFromChain(@, a)] IN
         /\ bucket' = [b1 EXCEPT ![H(a2)] = <<r>> \o @]
         /\ live' = { x \in live : x.addr # a } \cup {r}
    /\ seq' = seq + 1 /\ res' = "ok" /\ UNCHANGED <<period, stage>>

ReallocUnknown(a) ==
    /\ a \notin LiveAddrs
    /\ res' = "nonallocated" /\ UNCHANGED <<bucket, period, stage, seq, live>>

\* enable / disable / startChecking / stopChecking
SetPeriod(p) == /\ period' = p /\ res' = "ok" /\ UNCHANGED <<bucket, stage, seq, live>>
Enable        == SetPeriod("enabled")
Disable       == SetPeriod("disabled")
StartChecking == SetPeriod("checking")
StopChecking  == SetPeriod("enabled")

IncStage == stage < MaxStage /\ stage' = stage + 1 /\ res' = "ok" /\ UNCHANGED <<bucket, period, seq, live>>
DecStage == stage > 0 /\ stage' = stage - 1 /\ res' = "ok" /\ UNCHANGED <<bucket, period, seq, live>>

\* deallocAllMemoryInCurrentAllocationStage: exactly the records stamped with the current stage go
FreeStage ==
    /\ bucket' = [i \in 0..P-1 |-> SelectSeq(bucket[i], LAMBDA r : r.stage # stage)]
    /\ live' = { r \in live : r.stage # stage }
    /\ res' = "ok" /\ UNCHANGED <<period, stage, seq>>

\* clearAllAccounting(q): exactly the records a query for q sees are forgotten
Clear(q) ==
    /\ bucket' = [i \in 0..P-1 |-> SelectSeq(bucket[i], LAMBDA r : ~Visible(r, q))]
    /\ live' = { r \in live : ~Visible(r, q) }
    /\ res' = "ok" /\ UNCHANGED <<period, stage, seq>>

\* markCheckingPeriodLeaksAsNonCheckingPeriod
DemoteRec(r) == IF r.period = "checking" THEN [r EXCEPT !.period = "enabled"] ELSE r
Demote ==
    /\ bucket' = [i \in 0..P-1 |-> [j \in 1..Len(bucket[i]) |-> DemoteRec(bucket[i][j])]]
    /\ live' = { DemoteRec(r) : r \in live }
    /\ res' = "ok" /\ UNCHANGED <<period, stage, seq>>

\* report(q) / totalMemoryLeaks(q): pure queries
Query == res' = "ok" /\ UNCHANGED <<bucket, period, stage, seq, live>>
\* invalidateMemory(a): what operator delete / free call right before deallocMemory - looks the block up and overwrites its user bytes.
\* It is a lookup: for a known, an unknown or an already released address alike the table stays as it is.
Invalidate(a) == res' = "ok" /\ UNCHANGED <<bucket, period, stage, seq, live>>

Next == \/ \E a \in Addrs, sz \in Sizes, k \in Kinds : Alloc(a, sz, k, 100 + seq)
        \/ \E a \in Addrs : Free(a) \/ FreeUnknown(a) \/ ReallocUnknown(a)
        \/ FreeNull
        \/ \E a \in Addrs, a2 \in Addrs, sz \in Sizes : Realloc(a, a2, sz, 100 + seq)
        \/ Enable \/ Disable \/ StartChecking \/ StopChecking
        \/ IncStage \/ DecStage \/ FreeStage
        \/ \E q \in Queries : Clear(q)
        \/ Demote \/ Query
        \/ \E a \in Addrs : Invalidate(a)

Spec == Init /\ [][Next]_vars

-----------------------------------------------------------------------------
\* Observations: iteration order of the report, as getFirstLeak/getNextLeak walk the table
RECURSIVE Concat(_, _, _)
Concat(b, i, q) == IF i = P THEN <<>> ELSE SelectSeq(b[i], LAMBDA r : Visible(r, q)) \o Concat(b, i + 1, q)
ReportOf(b, q) == Concat(b, 0, q)
Report(q) == ReportOf(bucket, q)
Total(q) == Len(Report(q))
Entry(r) == [seq |-> r.seq, size |-> r.size, line |-> r.line, kind |-> r.kind]
EntriesOf(b, q) == [i \in 1..Len(ReportOf(b, q)) |-> Entry(ReportOf(b, q)[i])]
ReportEntries(q) == EntriesOf(bucket, q)

\* Abstract (textbook) answers, computed from the ghost set only
AbsTotal(q) == Cardinality({ r \in live : Visible(r, q) })
AbsEntries(q) == { Entry(r) : r \in { x \in live : Visible(x, q) } }

-----------------------------------------------------------------------------
\* Properties (C04)
TypeOK == /\ period \in Periods /\ stage \in 0..MaxStage /\ seq \in 1..MaxSeq + 1
          /\ res \in {"ok", "nonallocated"}
Refines == InChains = live
NoDupAddr == \A r1, r2 \in live : r1.addr = r2.addr => r1 = r2
ChainsDisjoint == \A i \in 0..P-1 : \A j, k \in 1..Len(bucket[i]) : j # k => bucket[i][j].addr # bucket[i][k].addr
InRightBucket == \A i \in 0..P-1 : \A j \in 1..Len(bucket[i]) : H(bucket[i][j].addr) = i
TotalsExact == \A q \in Queries : Total(q) = AbsTotal(q)
ReportExact == \A q \in Queries :
                  /\ { ReportEntries(q)[i] : i \in 1..Len(Report(q)) } = AbsEntries(q)
                  /\ Len(Report(q)) = Cardinality(AbsEntries(q))     \* no duplicates: seq is unique
SeqUnique == \A r1, r2 \in live : r1.seq = r2.seq => r1 = r2
SeqBelowCounter == \A r \in live : r.seq < seq
=============================================================================
