---------------------------- MODULE Trace_ReportBuffer ----------------------------
(* Trace validation for C14 (buffer part): the ndjson log recorded from the real MemoryLeakDetector must be a
   behaviour of ReportBuffer.  Per call the log carries
     apps    - the bounded writes the detector made into its text buffer, as seen at the PlatformSpecificVSNprintf seam:
               offset of the destination in the buffer, size passed, length returned, write limit at that moment
               (while leaks are listed contiguous untruncated writes are added up by the harness)
     filled, limit, canary - the H2 hooks after the call;  textlen - strnlen(text, Cap);  maxend - highest byte touched
     for report: n (outstanding leaks, counted by the harness), warn (malloc leaks among them), and what the
     text says: stated total, listed entries, notice present.
   The lengths returned by the writes are the inputs of the specification's actions (any file name, any size);
   everything else is bound: every write must start at the fill position with exactly the room the limit leaves
   (so none is made when the buffer is full), fill position / limit / terminator must be the specification's. *)
EXTENDS ReportBuffer, Integers, Json, IOUtils
VARIABLE l
tvars == <<vars, l>>
Tr == ndJsonDeserialize(IOEnv.TRACE)
E == Tr[l]
Is(op) == l <= Len(Tr) /\ Tr[l].op = op /\ l' = l + 1

Rets(apps) == [i \in 1..Len(apps) |-> apps[i].ret]
RECURSIVE NumDigits(_)
NumDigits(n) == IF n < 10 THEN 1 ELSE 1 + NumDigits(n \div 10)
\* replay of the logged writes from fill position f0: -1 if one of them is not the write the specification makes
Replay(apps, f0) ==
    LET F[i \in 0..Len(apps)] ==
          IF i = 0 THEN f0
          ELSE LET f == F[i - 1]
                   a == apps[i] IN
               IF f = -1 \/ f >= a.lim \/ a.off # f \/ a.size # a.lim - f + 1 \/ a.ret < 0 THEN -1
               ELSE Min(a.lim, f + a.ret)
    IN F[Len(apps)]
Listing(apps) == SelectSeq(apps, LAMBDA a : a.lim # Top)

Quiet == UNCHANGED vars          \* calls that build no text (allocations, releases without misuse)

TMisuse == /\ Misuse(Rets(E.apps))
           /\ \A i \in 1..Len(E.apps) : E.apps[i].lim = limit
           /\ Replay(E.apps, filled) = filled'
TReport == /\ \E k \in BOOLEAN : Report(E.n, IF E.n = 0 THEN <<>> ELSE Rets(Listing(E.apps)), NumDigits(E.n), E.warn, k)
           /\ \A i \in 1..Len(E.apps) : E.apps[i].lim \in {Low, Top}
           /\ \A i, j \in 1..Len(E.apps) : (i < j /\ E.apps[i].lim = Top) => E.apps[j].lim = Top
           /\ Replay(E.apps, filled) = filled'
           \* what the text of a report begun on a cleared buffer says
           /\ rep'.fresh => /\ E.stated = E.n
                            /\ (E.listed < E.n => E.notice)
                            /\ (rep'.cut => E.notice)

ObsOK == /\ filled' = E.filled /\ limit' = E.limit
         /\ E.textlen = E.filled           \* terminated, and exactly at the fill position
         /\ E.canary /\ E.maxend <= Cap /\ E.cap = Cap

TInit == Init /\ l = 1
TNext == /\ \/ Is("clear") /\ Clear
            \/ Is("misuse") /\ TMisuse
            \/ Is("leak") /\ Quiet /\ E.apps = <<>>
            \/ Is("freeall") /\ Quiet /\ E.apps = <<>>
            \/ Is("report") /\ TReport
         /\ ObsOK /\ ops' = ops
TReset == Is("reset") /\ filled' = 0 /\ limit' = Top /\ extent' = 0 /\ nul' = 0 /\ rep' = NoRep /\ ops' = 0 /\ listing' = Idle
TSpec == TInit /\ [][TNext \/ TReset]_tvars
Accepted == TLCGet("stats").diameter - 1 = Len(Tr)
TInv == InBounds /\ Terminated /\ TruthfulWhenFresh

\* diagnostics: the walk with only the inputs bound; prints the state the specification is in
PNext == \/ Is("clear") /\ Clear
         \/ Is("misuse") /\ Misuse(Rets(E.apps))
         \/ Is("leak") /\ Quiet
         \/ Is("freeall") /\ Quiet
         \/ Is("report") /\ Report(E.n, IF E.n = 0 THEN <<>> ELSE Rets(Listing(E.apps)), NumDigits(E.n), E.warn, TRUE)
PSpec == TInit /\ [][(PNext /\ ops' = ops) \/ TReset]_tvars
Predict == (l > 1 /\ l - 1 >= atoi(IOEnv.FROM_LINE_N)) =>
              PrintT(<<"BEH", ToJson([line |-> l - 1, filled |-> filled, limit |-> limit, extent |-> extent, rep |-> rep])>>)
=============================================================================
