------------------------------ MODULE ReportStr ------------------------------
(***************************************************************************)
(* Byte strings for the report-writer specifications (TeamCity, JUnit).    *)
(* A string is a sequence of byte codes (naturals); the mapping to the     *)
(* bytes the real code sees is the identity, so the harness needs no       *)
(* symbol table: 39 is ', 124 is |, 10 is LF, and so on.                   *)
(***************************************************************************)
EXTENDS Naturals, Sequences, FiniteSets
LOCAL INSTANCE SequencesExt       \* FoldLeft (evaluated iteratively by TLC, so long strings do not nest evaluations)

\* left fold over a sequence: Fold(op, base, <<a, b>>) = op(op(base, a), b)
Fold(op(_, _), base, s) == FoldLeft(op, base, s)

BytesOf(s) == { s[i] : i \in 1..Len(s) }

\* all strings over alphabet A of length at most n
StrUpTo(A, n) == UNION { [1..k -> A] : k \in 0..n }

\* concatenation of a sequence of strings
Cat(ss) == Fold(LAMBDA acc, x : acc \o x, <<>>, ss)

StartsWith(s, p) == Len(p) <= Len(s) /\ SubSeq(s, 1, Len(p)) = p
EndsWith(s, p)   == Len(p) <= Len(s) /\ SubSeq(s, Len(s) - Len(p) + 1, Len(s)) = p
HasSub(s, p)     == \E i \in 0..(Len(s) - Len(p)) : SubSeq(s, i + 1, i + Len(p)) = p

\* decimal representation of a natural number, as byte codes
RECURSIVE Dec(_)
Dec(n) == IF n < 10 THEN <<48 + n>> ELSE Dec(n \div 10) \o <<48 + (n % 10)>>

\* replace every occurrence of byte c by the string r
Subst(s, c, r) == Cat([i \in 1..Len(s) |-> IF s[i] = c THEN r ELSE <<s[i]>>])
=============================================================================
