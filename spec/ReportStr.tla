------------------------------ MODULE ReportStr ------------------------------
(***************************************************************************)
(* Byte strings for the report-writer specifications (TeamCity, JUnit).    *)
(* A string is a sequence of byte codes (naturals); the mapping to the     *)
(* bytes the real code sees is the identity, so the harness needs no       *)
(* symbol table: 39 is ', 124 is |, 10 is LF, and so on.                   *)
(***************************************************************************)
EXTENDS Naturals, Sequences, FiniteSets
LOCAL INSTANCE SequencesExt       \* FoldLeft (evaluated iteratively by TLC, so long strings do not nest evaluations)

\* left fold over a sequence: Fold(op, base, <<a, b>>) = op(op(base, a), b)
Fold(op(_, _), base, s) == FoldLeft(op, base, s)

BytesOf(s) == { s[i] : i \in 1..Len(s) }

\* all strings over alphabet A of length at most n
StrUpTo(A, n) == UNION { [1..k -> A] : k \in 0..n }

\* concatenation of a sequence of strings: ss[1] \o ss[2] \o ... \o ss[Len(ss)].  Written as a balanced tree of
\* concatenations (depth log n) so that values of tens of thousands of bytes are handled in n log n, not n^2, steps.
RECURSIVE CatRange(_, _, _)
CatRange(ss, lo, hi) == IF lo > hi THEN <<>>
                        ELSE IF lo = hi THEN ss[lo]
                        ELSE LET m == (lo + hi) \div 2 IN CatRange(ss, lo, m) \o CatRange(ss, m + 1, hi)
Cat(ss) == CatRange(ss, 1, Len(ss))

\* A one-pass reader of a string: a left fold whose state is a record with a field `o', the output so far, that
\* step(st, c) only ever appends to and never reads.  ReadFold(step, st0, s) = Fold(step, st0, s); it is evaluated block
\* by block (the output of each block collected separately, then concatenated) so that long strings stay cheap.
ReadBlock == 128
ReadFold(step(_, _), st0, s) ==
    IF Len(s) <= ReadBlock THEN Fold(step, st0, s)
    ELSE LET nb == (Len(s) + ReadBlock - 1) \div ReadBlock
             blk(k) == SubSeq(s, (k - 1) * ReadBlock + 1, IF k * ReadBlock < Len(s) THEN k * ReadBlock ELSE Len(s))
             one(acc, k) == LET r == Fold(step, [acc.st EXCEPT !.o = <<>>], blk(k)) IN [st |-> r, os |-> Append(acc.os, r.o)]
             r == Fold(one, [st |-> st0, os |-> <<st0.o>>], [k \in 1..nb |-> k])
         IN [r.st EXCEPT !.o = Cat(r.os)]

StartsWith(s, p) == Len(p) <= Len(s) /\ SubSeq(s, 1, Len(p)) = p
EndsWith(s, p)   == Len(p) <= Len(s) /\ SubSeq(s, Len(s) - Len(p) + 1, Len(s)) = p
HasSub(s, p)     == \E i \in 0..(Len(s) - Len(p)) : SubSeq(s, i + 1, i + Len(p)) = p

\* decimal representation of a natural number, as byte codes
RECURSIVE Dec(_)
Dec(n) == IF n < 10 THEN <<48 + n>> ELSE Dec(n \div 10) \o <<48 + (n % 10)>>

\* replace every occurrence of byte c by the string r
Subst(s, c, r) == Cat([i \in 1..Len(s) |-> IF s[i] = c THEN r ELSE <<s[i]>>])
=============================================================================
