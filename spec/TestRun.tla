------------------------------ MODULE TestRun ------------------------------
(***************************************************************************)
(* The CppUTest runner: CommandLineTestRunner::runAllTests ->              *)
(* TestRegistry::runAllTests -> UtestShell::runOneTest -> plugins ->       *)
(* Utest::run (setup / body / teardown under setjmp + try/catch) ->        *)
(* TestResult counters -> summary -> return value.  Properties C01, C02,   *)
(* and the pointer-restore / plugin-order clauses of C17.                  *)
(*                                                                         *)
(* A *program* is a registry of tests with scripted phases plus a          *)
(* configuration.  One action per code step; a step that is observable     *)
(* (an output callback, a plugin action, a statement of a scripted test,   *)
(* a printed failure, the summary, the return value) records the event in  *)
(* `ev'; other steps are silent (ev = NoEv).  The jump-buffer stack depth  *)
(* `jmp' follows PlatformSpecificSetJmp / LongJmp / RestoreJumpBuffer.      *)
(***************************************************************************)
EXTENDS Naturals, Integers, Sequences, FiniteSets, TLC

CONSTANTS JmpCapacity,     \* slots in the setjmp stack (10 in UtestPlatform.cpp)
          HaveExceptions,  \* build with C++ exception support?
          MaxSet,          \* SetPointerPlugin::MAX_SET
          Locs,            \* redirectable pointer locations
          OrderStrict      \* TRUE: without shuffling, every repetition runs in the same (possibly reversed) order - the documented
                           \* meaning of -b / -r (C12); FALSE: any permutation is accepted (all that C02 states)

VARIABLES reg,       \* Seq([g, n, ign, after]) : group, name (sequences of characters), IGNORE_TEST?, and the plugin installations /
                     \* removals ([op, name]) made between this test and the next one while the run is going on
          script,    \* [1..Len(reg) -> [setup, body, teardown : Phase] or "unset"]; Phase = [sets : Seq([loc, val]), ev : Seq(outcome)], one outcome per repetition (the last one repeats)
          cfg,       \* [repeat, reverse, shuffle, runIgnored, gf, nf, plugins, list]   (list: "none" or the list mode "lg" / "ln" / "ll")
          order,     \* current linked-list order of the registry: Seq of indices into reg
          rep, pos, pc, ph, k, setupOk, grpStart,
          jmp,       \* depth of the setjmp stack
          cnt,       \* TestResult counters of the current repetition
          hasFailed, \* UtestShell::hasFailed_ of the current test
          accFail, accExec, exitv,
          ptr, table,      \* pointer values / SetPointerPlugin's table of (loc, original value)
          ev,        \* the observable event of the last step, or NoEv
          g          \* ghost record for the invariants (see Ghost0)

vars == <<reg, script, cfg, order, rep, pos, pc, ph, k, setupOk, grpStart, jmp, cnt, hasFailed,
          accFail, accExec, exitv, ptr, table, ev, g>>
prog == <<reg, cfg>>

NoEv == [op |-> "none"]
Unset == [unset |-> TRUE]     \* script of a test not chosen yet
Outcomes == {"ok", "failCpp", "failC", "throwStd", "throwOther"}
Phases == <<"setup", "body", "teardown">>
Cnt0 == [tests |-> 0, run |-> 0, checks |-> 0, ignored |-> 0, filtered |-> 0, failures |-> 0]
\* ghost: what happened in the current test / repetition, for the invariants
Ghost0 == [setupEntered |-> FALSE, setupDone |-> FALSE, bodyEntered |-> FALSE, tdEntered |-> FALSE,
           failEvents |-> 0,          \* "fail" events printed in this repetition
           failAtStart |-> 0,         \* cnt.failures when the current test started
           ranBody |-> <<>>,          \* tests whose runOneTest was entered in this repetition, in order
           jmpAtTest |-> 0,
           ptrAtTest |-> <<>>,
           groupDepth |-> 0,
           allOk |-> TRUE]            \* every finished repetition's summary read OK

-----------------------------------------------------------------------------
\* Filters (TestFilter::match, UtestShell::match / shouldRun)
HasSub(s, p) == \E i \in 0..(Len(s) - Len(p)) : SubSeq(s, i + 1, i + Len(p)) = p
Matches(f, s) == (IF f.strict THEN s = f.pat ELSE HasSub(s, f.pat)) # f.invert
MatchAny(fs, s) == fs = <<>> \/ \E i \in 1..Len(fs) : Matches(fs[i], s)
Selected(t) == MatchAny(cfg.gf, reg[t].g) /\ MatchAny(cfg.nf, reg[t].n)
IsIgnored(t) == reg[t].ign /\ ~cfg.runIgnored

IsPerm(s, t) == /\ Len(s) = Len(t)
                /\ \A i \in 1..Len(s) : Cardinality({j \in 1..Len(s) : s[j] = s[i]}) = Cardinality({j \in 1..Len(t) : t[j] = s[i]})
Reverse(s) == [i \in 1..Len(s) |-> s[Len(s) + 1 - i]]
Cur == order[pos]
EndOfGroup == IF pos = Len(order) THEN TRUE ELSE reg[order[pos + 1]].g # reg[Cur].g

\* TestResult::isFailure and the value CommandLineTestRunner::runAllTests returns
IsFailure(c) == c.failures # 0 \/ c.run + c.ignored = 0
Summary(c) == [ok |-> ~IsFailure(c), tests |-> c.tests, run |-> c.run, checks |-> c.checks,
               ignored |-> c.ignored, filtered |-> c.filtered, failures |-> c.failures]

-----------------------------------------------------------------------------
\* Textbook expectation for one test (independent of the step machine): how many failures it must add
\* and which marks must execute, given the table fill at its start (always 0: post action resets it).
RECURSIVE SetsOverflowAt(_, _, _)
SetsOverflowAt(sets, i, fill) ==    \* index of the first redirection that finds the table full, or 0
    IF i > Len(sets) THEN 0 ELSE IF fill >= MaxSet THEN i ELSE SetsOverflowAt(sets, i + 1, fill + 1)
\* the outcome a phase is scripted to have in the current repetition
EvNow(p) == p.ev[IF rep <= Len(p.ev) THEN rep ELSE Len(p.ev)]
PhaseFails(p, fill) == SetsOverflowAt(p.sets, 1, fill) # 0 \/ EvNow(p) # "ok"
FillAfter(p, fill) == LET o == SetsOverflowAt(p.sets, 1, fill) IN IF o = 0 THEN fill + Len(p.sets) ELSE fill + o - 1
ExpectedFailures(t) ==
    LET s == script[t]
        f1 == PhaseFails(s.setup, 0)
        fillA == FillAfter(s.setup, 0)
        f2 == ~f1 /\ PhaseFails(s.body, fillA)
        fillB == IF f1 THEN fillA ELSE FillAfter(s.body, fillA)
        f3 == PhaseFails(s.teardown, fillB)
        np == Cardinality({i \in 1..Len(cfg.plugins) : cfg.plugins[i].enabled /\ cfg.plugins[i].err})
    IN (IF f1 THEN 1 ELSE 0) + (IF f2 THEN 1 ELSE 0) + (IF f3 THEN 1 ELSE 0) + np

-----------------------------------------------------------------------------
Silent == ev' = NoEv
Emit(e) == ev' = e
Push == jmp' = jmp + 1       \* PlatformSpecificSetJmp: jmp_buf_index++
Pop  == jmp' = jmp - 1       \* normal return, LongJmp, or RestoreJumpBuffer

\* List modes (-lg, -ln, -ll): nothing runs; the registry is listed in its list order (before any reversing) and the runner returns 0.
\* -lg: the group names, each once; -ln: group.name of the tests the filters select, each once; -ll: group.name.file.line of every test.
RECURSIVE Dedup(_, _)
Dedup(s, seen) == IF s = <<>> THEN <<>> ELSE IF Head(s) \in seen THEN Dedup(Tail(s), seen) ELSE <<Head(s)>> \o Dedup(Tail(s), seen \cup {Head(s)})
GroupList == Dedup([i \in 1..Len(order) |-> reg[order[i]].g], {})
NameList == Dedup([i \in 1..Len(SelectSeq(order, Selected)) |-> [g |-> reg[SelectSeq(order, Selected)[i]].g, n |-> reg[SelectSeq(order, Selected)[i]].n]], {})
LocList == [i \in 1..Len(order) |-> [g |-> reg[order[i]].g, n |-> reg[order[i]].n, t |-> order[i], line |-> 1000 * order[i]]]
ListItems == IF cfg.list = "lg" THEN GroupList ELSE IF cfg.list = "ln" THEN NameList ELSE LocList
ListStart ==
    /\ pc = "start" /\ cfg.list # "none"
    /\ pc' = "listed" /\ Emit([op |-> "list", mode |-> cfg.list, items |-> ListItems])
    /\ UNCHANGED <<reg, script, cfg, order, rep, pos, ph, k, setupOk, grpStart, jmp, cnt, hasFailed, accFail, accExec, exitv, ptr, table, g>>
ListReturn ==
    /\ pc = "listed" /\ exitv' = 0 /\ pc' = "done" /\ Emit([op |-> "ret", value |-> 0])
    /\ UNCHANGED <<reg, script, cfg, order, rep, pos, ph, k, setupOk, grpStart, jmp, cnt, hasFailed, accFail, accExec, ptr, table, g>>

\* CommandLineTestRunner::runAllTests: reverse once, then the repetition loop
Start ==
    /\ pc = "start" /\ cfg.list = "none"
    /\ order' = IF cfg.reverse THEN Reverse(order) ELSE order
    /\ pc' = "repBegin" /\ Silent
    /\ UNCHANGED <<reg, script, cfg, rep, pos, ph, k, setupOk, grpStart, jmp, cnt, hasFailed, accFail, accExec, exitv, ptr, table, g>>

\* one repetition begins: optional shuffle (any permutation), fresh TestResult, testsStarted
RepBegin(neworder) ==
    /\ pc = "repBegin" /\ rep < cfg.repeat
    /\ IF cfg.shuffle \/ ~OrderStrict THEN IsPerm(neworder, order) ELSE neworder = order
    /\ order' = neworder /\ rep' = rep + 1 /\ pos' = 1 /\ grpStart' = TRUE /\ cnt' = Cnt0
    /\ g' = [Ghost0 EXCEPT !.allOk = g.allOk]
    /\ pc' = "loop" /\ Emit([op |-> "rep", n |-> rep + 1, order |-> neworder])
    /\ UNCHANGED <<reg, script, cfg, ph, k, setupOk, jmp, hasFailed, accFail, accExec, exitv, ptr, table>>

Return ==
    /\ pc = "repBegin" /\ rep >= cfg.repeat
    /\ exitv' = IF accFail # 0 THEN accFail ELSE accExec
    /\ pc' = "done" /\ Emit([op |-> "ret", value |-> IF accFail # 0 THEN accFail ELSE accExec])
    /\ UNCHANGED <<reg, script, cfg, order, rep, pos, ph, k, setupOk, grpStart, jmp, cnt, hasFailed, accFail, accExec, ptr, table, g>>

\* TestRegistry::runAllTests loop head
LoopGroupStart ==
    /\ pc = "loop" /\ pos <= Len(order) /\ grpStart
    /\ grpStart' = FALSE /\ pc' = "count" /\ Emit([op |-> "groupStart", t |-> Cur])
    /\ g' = [g EXCEPT !.groupDepth = @ + 1]
    /\ UNCHANGED <<reg, script, cfg, order, rep, pos, ph, k, setupOk, jmp, cnt, hasFailed, accFail, accExec, exitv, ptr, table>>
LoopNoGroupStart ==
    /\ pc = "loop" /\ pos <= Len(order) /\ ~grpStart
    /\ pc' = "count" /\ Silent
    /\ UNCHANGED <<reg, script, cfg, order, rep, pos, ph, k, setupOk, grpStart, jmp, cnt, hasFailed, accFail, accExec, exitv, ptr, table, g>>
\* countTest, testShouldRun / countFilteredOut
Count ==
    /\ pc = "count"
    /\ IF Selected(Cur) THEN cnt' = [cnt EXCEPT !.tests = @ + 1] /\ pc' = "tstart"
                        ELSE cnt' = [cnt EXCEPT !.tests = @ + 1, !.filtered = @ + 1] /\ pc' = "gend"
    /\ Silent
    /\ UNCHANGED <<reg, script, cfg, order, rep, pos, ph, k, setupOk, grpStart, jmp, hasFailed, accFail, accExec, exitv, ptr, table, g>>
TestStart ==
    /\ pc = "tstart" /\ pc' = "runone"
    /\ Emit([op |-> "testStart", t |-> Cur, jmp |-> jmp])
    /\ g' = [g EXCEPT !.setupEntered = FALSE, !.setupDone = FALSE, !.bodyEntered = FALSE, !.tdEntered = FALSE,
                      !.failAtStart = cnt.failures, !.jmpAtTest = jmp, !.ptrAtTest = ptr]
    /\ UNCHANGED <<reg, script, cfg, order, rep, pos, ph, k, setupOk, grpStart, jmp, cnt, hasFailed, accFail, accExec, exitv, ptr, table>>
\* IgnoredUtestShell::runOneTest without run-ignored: only counted
RunIgnored ==
    /\ pc = "runone" /\ IsIgnored(Cur)
    /\ cnt' = [cnt EXCEPT !.ignored = @ + 1] /\ pc' = "tend" /\ Silent
    /\ UNCHANGED <<reg, script, cfg, order, rep, pos, ph, k, setupOk, grpStart, jmp, hasFailed, accFail, accExec, exitv, ptr, table, g>>
\* UtestShell::runOneTest: hasFailed_ = false, countRun, PlatformSpecificSetJmp(helperDoRunOneTest...)
RunOne ==
    /\ pc = "runone" /\ ~IsIgnored(Cur)
    /\ script[Cur] # Unset
    /\ hasFailed' = FALSE /\ cnt' = [cnt EXCEPT !.run = @ + 1] /\ Push
    /\ pc' = "pre" /\ k' = 1 /\ Silent
    /\ g' = [g EXCEPT !.ranBody = Append(@, Cur)]
    /\ UNCHANGED <<reg, script, cfg, order, rep, pos, ph, setupOk, grpStart, accFail, accExec, exitv, ptr, table>>
\* plugin chain, head first (the chain head is the plugin installed last); disabled plugins are skipped
Pre ==
    /\ pc = "pre" /\ k <= Len(cfg.plugins)
    /\ k' = k + 1
    /\ IF cfg.plugins[k].enabled THEN Emit([op |-> "pre", p |-> cfg.plugins[k].name, t |-> Cur]) ELSE Silent
    /\ UNCHANGED <<reg, script, cfg, order, rep, pos, pc, ph, setupOk, grpStart, jmp, cnt, hasFailed, accFail, accExec, exitv, ptr, table, g>>
\* save context, createTest, Utest::run begins
Create ==
    /\ pc = "pre" /\ k > Len(cfg.plugins)
    /\ pc' = "phEnter" /\ ph' = 1 /\ setupOk' = FALSE /\ Silent
    /\ UNCHANGED <<reg, script, cfg, order, rep, pos, k, grpStart, jmp, cnt, hasFailed, accFail, accExec, exitv, ptr, table, g>>

CurPhase == script[Cur][Phases[ph]]
\* PlatformSpecificSetJmp(helperDoTest<Phase>): push, first statement of the phase
PhEnter ==
    /\ pc = "phEnter"
    /\ Push /\ pc' = "phSets" /\ k' = 1
    /\ Emit([op |-> "mark", t |-> Cur, ph |-> Phases[ph], w |-> "pre"])
    /\ g' = [g EXCEPT !.setupEntered = @ \/ ph = 1, !.bodyEntered = @ \/ ph = 2, !.tdEntered = @ \/ ph = 3]
    /\ UNCHANGED <<reg, script, cfg, order, rep, pos, ph, setupOk, grpStart, cnt, hasFailed, accFail, accExec, exitv, ptr, table>>
\* next phase after phase ph ended; ok = the phase's SetJmp returned 1 (only consulted after setup)
NextPc(ok) == IF ph = 1 THEN (IF ok THEN "phEnter" ELSE "phEnter") ELSE IF ph = 2 THEN "phEnter" ELSE "afterRun"
NextPh(ok) == IF ph = 1 THEN (IF ok THEN 2 ELSE 3) ELSE IF ph = 2 THEN 3 ELSE ph
\* UT_PTR_SET: CppUTestStore records (loc, original) then the pointer is assigned; a full table fails the test
PhSet ==
    /\ pc = "phSets" /\ k <= Len(CurPhase.sets) /\ Len(table) < MaxSet
    /\ LET s == CurPhase.sets[k] IN
         /\ table' = Append(table, [loc |-> s.loc, orig |-> ptr[s.loc]])
         /\ ptr' = [ptr EXCEPT ![s.loc] = s.val]
         /\ Emit([op |-> "set", t |-> Cur, loc |-> s.loc, val |-> s.val, full |-> FALSE])
    /\ k' = k + 1
    /\ UNCHANGED <<reg, script, cfg, order, rep, pos, pc, ph, setupOk, grpStart, jmp, cnt, hasFailed, accFail, accExec, exitv, g>>
PhSetFull ==   \* FAIL("Maximum number of function pointers installed!") : nothing is written
    /\ pc = "phSets" /\ k <= Len(CurPhase.sets) /\ Len(table) >= MaxSet
    /\ cnt' = [cnt EXCEPT !.checks = @ + 1, !.failures = @ + 1] /\ hasFailed' = TRUE
    /\ Emit([op |-> "fail", t |-> Cur, kind |-> "setlimit", line |-> 0])
    /\ g' = [g EXCEPT !.failEvents = @ + 1]
    /\ pc' = "phUnwind"
    /\ UNCHANGED <<reg, script, cfg, order, rep, pos, ph, k, setupOk, grpStart, jmp, accFail, accExec, exitv, ptr, table>>
\* A test body may itself drive a complete run of another registry with its own result and output (TestTestingFixture does; the harness
\* does so in programs marked "nest"): when that run returns, the outer run is where it was - current test, current result, counters,
\* jump-buffer stack.  No variable of this module changes: a nested run is a stuttering step.
\* Likewise the order in which a program gives its options and its tests to the registry (setRunIgnored before or after addTest) is
\* not part of cfg: the run is the same.
\* the scripted event of the phase
\* Where the failing check of phase p of test t stands (the harness places it there): the test itself is at line 1000*t of its own file.
\*   place 0: in the test's file behind the test's line (the usual case)      -> one location line: the failure's
\*   place 1: in the test's file before the test's line (a helper function)   -> two: the test's, then the failure's
\*   place 2: in another file, at a larger line number than the test's        -> two
\*   place 3: in another file, at a smaller line number than the test's       -> two
\* In every case the failure is printed once, and the location printed for it is the file and line where it happened.
FailPlace(t, p) == (t + p) % 4
FailLine(t, p) == CASE FailPlace(t, p) = 0 -> 1000 * t + 10 * p
                    [] FailPlace(t, p) = 1 -> 1000 * t - 10 * p
                    [] FailPlace(t, p) = 2 -> 1000 * t + 10 * p
                    [] OTHER -> 5 + p
FailInTestFile(t, p) == FailPlace(t, p) \in {0, 1}
FailLocLines(t, p) == IF FailPlace(t, p) = 0 THEN 1 ELSE 2
PhOk ==
    /\ pc = "phSets" /\ k > Len(CurPhase.sets) /\ EvNow(CurPhase) = "ok"
    /\ cnt' = [cnt EXCEPT !.checks = @ + 1]      \* one passing check
    /\ Emit([op |-> "mark", t |-> Cur, ph |-> Phases[ph], w |-> "post"])
    /\ pc' = "phReturn"
    /\ g' = [g EXCEPT !.setupDone = @ \/ ph = 1]
    /\ UNCHANGED <<reg, script, cfg, order, rep, pos, ph, k, setupOk, grpStart, jmp, hasFailed, accFail, accExec, exitv, ptr, table>>
PhFailCheck ==   \* a failing check: counted, recorded, printed, then the terminator leaves the phase
    /\ pc = "phSets" /\ k > Len(CurPhase.sets) /\ EvNow(CurPhase) \in {"failCpp", "failC"}
    /\ cnt' = [cnt EXCEPT !.checks = @ + 1, !.failures = @ + 1] /\ hasFailed' = TRUE
    /\ Emit([op |-> "fail", t |-> Cur, kind |-> "check", line |-> FailLine(Cur, ph), infile |-> FailInTestFile(Cur, ph), nloc |-> FailLocLines(Cur, ph)])
    /\ g' = [g EXCEPT !.failEvents = @ + 1]
    /\ pc' = "phUnwind"
    /\ UNCHANGED <<reg, script, cfg, order, rep, pos, ph, k, setupOk, grpStart, jmp, accFail, accExec, exitv, ptr, table>>
PhThrow ==       \* an escaping exception: Utest::run's handler records it
    /\ pc = "phSets" /\ k > Len(CurPhase.sets) /\ EvNow(CurPhase) \in {"throwStd", "throwOther"} /\ HaveExceptions
    /\ cnt' = [cnt EXCEPT !.failures = @ + 1] /\ hasFailed' = TRUE
    /\ Emit([op |-> "fail", t |-> Cur, kind |-> "exception", line |-> 0])
    /\ g' = [g EXCEPT !.failEvents = @ + 1]
    /\ pc' = "phUnwind"
    /\ UNCHANGED <<reg, script, cfg, order, rep, pos, ph, k, setupOk, grpStart, jmp, accFail, accExec, exitv, ptr, table>>
\* leaving a phase normally: jmp_buf_index--, SetJmp returns 1
PhReturn ==
    /\ pc = "phReturn" /\ Pop /\ Silent
    /\ setupOk' = (IF ph = 1 THEN TRUE ELSE setupOk)
    /\ pc' = NextPc(TRUE) /\ ph' = NextPh(TRUE)
    /\ UNCHANGED <<reg, script, cfg, order, rep, pos, k, grpStart, cnt, hasFailed, accFail, accExec, exitv, ptr, table, g>>
\* leaving a phase by longjmp (LongJmp pops, SetJmp returns 0) or by exception (handler pops with RestoreJumpBuffer):
\* either way exactly one pop, the body is skipped after a failed setup, teardown always follows
PhUnwind ==
    /\ pc = "phUnwind" /\ Pop /\ Silent
    /\ pc' = NextPc(FALSE) /\ ph' = NextPh(FALSE)
    /\ UNCHANGED <<reg, script, cfg, order, rep, pos, k, setupOk, grpStart, cnt, hasFailed, accFail, accExec, exitv, ptr, table, g>>
\* Utest::run returned: restore context, destroyTest, post actions tail first
AfterRun ==
    /\ pc = "afterRun" /\ pc' = "post" /\ k' = Len(cfg.plugins) /\ Silent
    /\ UNCHANGED <<reg, script, cfg, order, rep, pos, ph, setupOk, grpStart, jmp, cnt, hasFailed, accFail, accExec, exitv, ptr, table, g>>
Post ==
    /\ pc = "post" /\ k >= 1
    /\ IF cfg.plugins[k].enabled THEN Emit([op |-> "post", p |-> cfg.plugins[k].name, t |-> Cur]) ELSE Silent
    /\ IF cfg.plugins[k].enabled /\ cfg.plugins[k].err THEN pc' = "postErr" /\ k' = k ELSE pc' = "post" /\ k' = k - 1
    /\ UNCHANGED <<reg, script, cfg, order, rep, pos, ph, setupOk, grpStart, jmp, cnt, hasFailed, accFail, accExec, exitv, ptr, table, g>>
PostErr ==       \* a plugin reports an error with result.addFailure (as the leak plugin does)
    /\ pc = "postErr"
    /\ cnt' = [cnt EXCEPT !.failures = @ + 1]
    /\ Emit([op |-> "fail", t |-> Cur, kind |-> "plugin", line |-> 0])
    /\ g' = [g EXCEPT !.failEvents = @ + 1]
    /\ pc' = "post" /\ k' = k - 1
    /\ UNCHANGED <<reg, script, cfg, order, rep, pos, ph, setupOk, grpStart, jmp, hasFailed, accFail, accExec, exitv, ptr, table>>
\* SetPointerPlugin (installed last by runAllTestsMain, so its post action runs last): restore in reverse, reset
RECURSIVE Restore(_, _)
Restore(p, tb) == IF tb = <<>> THEN p ELSE Restore([p EXCEPT ![tb[Len(tb)].loc] = tb[Len(tb)].orig], SubSeq(tb, 1, Len(tb) - 1))
SetPtrPost ==
    /\ pc = "post" /\ k = 0
    /\ ptr' = Restore(ptr, table) /\ table' = <<>>
    /\ Pop                                   \* helperDoRunOneTest returns: the outer SetJmp pops
    /\ pc' = "tend" /\ Silent
    /\ UNCHANGED <<reg, script, cfg, order, rep, pos, ph, k, setupOk, grpStart, cnt, hasFailed, accFail, accExec, exitv, g>>
\* TestRegistry::installPlugin prepends; removePluginByName removes exactly the plugin with that name wherever it is
RECURSIVE ApplyChainOps(_, _)
ApplyChainOps(chain, ops) ==
    IF ops = <<>> THEN chain
    ELSE LET o == Head(ops) IN
         ApplyChainOps(IF o.op = "install" THEN <<[name |-> o.name, enabled |-> TRUE, err |-> FALSE]>> \o chain
                       ELSE SelectSeq(chain, LAMBDA p : p.name # o.name), Tail(ops))
\* the test is over (currentTestEnded); plugins installed or removed now, in the middle of the run, take effect from the next test on
TestEnd ==
    /\ pc = "tend" /\ pc' = "gend"
    /\ Emit([op |-> "testEnd", t |-> Cur, jmp |-> jmp, cnt |-> cnt, ptr |-> ptr])
    /\ cfg' = [cfg EXCEPT !.plugins = ApplyChainOps(@, reg[Cur].after)]
    /\ UNCHANGED <<reg, script, order, rep, pos, ph, k, setupOk, grpStart, jmp, cnt, hasFailed, accFail, accExec, exitv, ptr, table, g>>
GroupEnd ==
    /\ pc = "gend" /\ EndOfGroup
    /\ grpStart' = TRUE /\ pos' = pos + 1 /\ pc' = "loop" /\ Emit([op |-> "groupEnd", t |-> Cur])
    /\ g' = [g EXCEPT !.groupDepth = @ - 1]
    /\ UNCHANGED <<reg, script, cfg, order, rep, ph, k, setupOk, jmp, cnt, hasFailed, accFail, accExec, exitv, ptr, table>>
NoGroupEnd ==
    /\ pc = "gend" /\ ~EndOfGroup
    /\ pos' = pos + 1 /\ pc' = "loop" /\ Silent
    /\ UNCHANGED <<reg, script, cfg, order, rep, ph, k, setupOk, grpStart, jmp, cnt, hasFailed, accFail, accExec, exitv, ptr, table, g>>
\* testsEnded: the summary, and the runner's accumulation
TestsEnded ==
    /\ pc = "loop" /\ pos > Len(order)
    /\ accFail' = accFail + cnt.failures
    /\ accExec' = accExec + (IF IsFailure(cnt) THEN 1 ELSE 0)
    /\ pc' = "repBegin" /\ Emit([op |-> "testsEnded", s |-> Summary(cnt)])
    /\ g' = [g EXCEPT !.allOk = @ /\ ~IsFailure(cnt)]
    /\ UNCHANGED <<reg, script, cfg, order, rep, pos, ph, k, setupOk, grpStart, jmp, cnt, hasFailed, exitv, ptr, table>>

\* the initial state for a given program
InitWith(r, s, c) ==
    /\ reg = r /\ script = s /\ cfg = c
    /\ order = [i \in 1..Len(r) |-> i]
    /\ rep = 0 /\ pos = 1 /\ pc = "start" /\ ph = 1 /\ k = 1 /\ setupOk = FALSE /\ grpStart = TRUE
    /\ jmp = 0 /\ cnt = Cnt0 /\ hasFailed = FALSE /\ accFail = 0 /\ accExec = 0 /\ exitv = -1
    /\ ptr = [l \in Locs |-> 0] /\ table = <<>> /\ ev = NoEv /\ g = Ghost0

\* the script of a test may be chosen when the test is first run (generation / model checking)
ChooseScript(s) ==
    /\ pc = "runone" /\ ~IsIgnored(Cur) /\ script[Cur] = Unset
    /\ script' = [script EXCEPT ![Cur] = s] /\ Silent
    /\ UNCHANGED <<reg, cfg, order, rep, pos, pc, ph, k, setupOk, grpStart, jmp, cnt, hasFailed, accFail, accExec, exitv, ptr, table, g>>

Step == \/ Start \/ ListStart \/ ListReturn \/ Return \/ LoopGroupStart \/ LoopNoGroupStart \/ Count \/ TestStart \/ RunIgnored \/ RunOne
        \/ Pre \/ Create \/ PhEnter \/ PhSet \/ PhSetFull \/ PhOk \/ PhFailCheck \/ PhThrow \/ PhReturn \/ PhUnwind
        \/ AfterRun \/ Post \/ PostErr \/ SetPtrPost \/ TestEnd \/ GroupEnd \/ NoGroupEnd \/ TestsEnded
Next == Step \/ \E no \in UNION {[1..n -> 1..n] : n \in {Len(order)}} : RepBegin(no)

-----------------------------------------------------------------------------
\* Invariants (C01, C02, C17)
JmpInBounds == jmp >= 0 /\ jmp <= JmpCapacity
\* between tests the stack is back at its pre-test depth (0 when the runner is called from main)
JmpBalanced == pc \in {"repBegin", "loop", "count", "tstart", "gend", "done", "tend"} => jmp = 0
BodyOnlyAfterSetupCompleted == g.bodyEntered => g.setupDone
TeardownIffSetupEntered == (pc \in {"afterRun", "post", "postErr", "tend"}) => (g.tdEntered <=> g.setupEntered)
SetupAlwaysEntered == (pc \in {"afterRun", "post", "postErr"}) => g.setupEntered
\* every failure is recorded and printed exactly once
RecordedOnce == g.failEvents = cnt.failures
\* at the end of a test it has added exactly the failures the textbook rule demands
FailuresAsExpected == (pc = "tend" /\ ~IsIgnored(Cur)) => cnt.failures - g.failAtStart = ExpectedFailures(Cur)
\* counting identity of a repetition and exactly-once execution
CountIdentity == (pc = "loop" /\ pos > Len(order)) =>
                    /\ cnt.run + cnt.ignored + cnt.filtered = cnt.tests /\ cnt.tests = Len(reg)
                    /\ IsPerm(order, [i \in 1..Len(reg) |-> i])
                    /\ g.ranBody = SelectSeq(order, LAMBDA t : Selected(t) /\ ~IsIgnored(t))
GroupsBalanced == g.groupDepth \in {0, 1} /\ ((pc = "loop" /\ pos > Len(order)) => g.groupDepth = 0)
\* pointers are back to their pre-test values after the post actions, and the table never overflows
PointersRestored == pc = "tend" => ptr = g.ptrAtTest
TableBounded == Len(table) <= MaxSet
\* the return value is zero iff every repetition was OK
ExitZeroIff == pc = "done" => (exitv = 0 <=> g.allOk)
\* the summary reads OK exactly when there was no failure and at least one test ran or was ignored
SummaryTrue == \A c \in {cnt} : Summary(c).ok <=> (c.failures = 0 /\ c.run + c.ignored > 0)
=============================================================================
