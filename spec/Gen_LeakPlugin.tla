---------------------------- MODULE Gen_LeakPlugin ----------------------------
(* Behaviour generation for C07: LeakPlugin's steps with a history variable recording the script
   (step, phase, arguments); every test that was begun is ended and the run closes with the final report.
   Besides the arguments of the specification's steps the script says WHERE the real program puts each
   block and which allocation family it uses - choices the specification's verdict must not depend on:
     bk   0 = wherever the real malloc puts it; k > 0 = at an address of the k-th designated bucket of the
          detector's hash table, so that blocks of different tests and periods share chains in every order
     fam  0 = operator new[] / delete[], 1 = malloc / realloc / free
   Steps: alloc id / free id / realloc old -> new id (arg2) / rfail id (realloc that fails) / expect n / ignore /
   fail / begin / end (arg = id of the copy the output keeps of a leak failure, 0 = it keeps none; arg2 = 1 when another
   plugin reports a failure before the leak plugin's post action) / final. *)
EXTENDS LeakPlugin, Json
CONSTANTS D,
          Buckets,   \* placements to choose from (subset of 0..6)
          Fams,      \* allocation families to choose from (subset of {0, 1})
          Keeps      \* whether the output may keep copies of leak failures (subset of BOOLEAN)
VARIABLES h, done,
          mal        \* ids of the malloc family (only those can be re-allocated)
gvars == <<vars, h, done, mal>>
Step(op, ph, arg, arg2, bk, fam) == h' = Append(h, [op |-> op, ph |-> ph, arg |-> arg, arg2 |-> arg2, bk |-> bk, fam |-> fam])
Plain(op, ph, arg) == Step(op, ph, arg, 0, 0, 0) /\ UNCHANGED mal

GInit == Init /\ h = <<>> /\ done = 0 /\ mal = {}
GStep == /\ done = 0 /\ Len(h) < D /\ UNCHANGED done
         /\ \/ ntests < MaxTests /\ Begin /\ Plain("begin", "o", 0)
            \/ \E keep \in Keeps, bk \in Buckets, pf \in BOOLEAN :
                  /\ (keep => nextId <= MaxBlocks) /\ (~keep => bk = CHOOSE b \in Buckets : TRUE)
                  /\ End(keep, pf) /\ Step("end", "o", IF keep THEN nextId ELSE 0, IF pf THEN 1 ELSE 0, bk, 0) /\ UNCHANGED mal
            \/ /\ nops < MaxOps
               /\ \E ph \in OpPhases :
                     \/ \E bk \in Buckets, fm \in Fams :
                           /\ nextId <= MaxBlocks /\ AllocOp(ph) /\ Step("alloc", ph, nextId, 0, bk, fm)
                           /\ mal' = IF fm = 1 THEN mal \cup {nextId} ELSE mal
                     \/ \E id \in Ids(blocks) : FreeOp(ph, id) /\ Plain("free", ph, id)
                     \/ \E id \in Ids(blocks) \cap mal, bk \in Buckets :
                           /\ nextId <= MaxBlocks /\ ReallocOp(ph, id, TRUE) /\ Step("realloc", ph, id, nextId, bk, 1)
                           /\ mal' = mal \cup {nextId}
                     \/ \E id \in Ids(blocks) \cap mal : ReallocOp(ph, id, FALSE) /\ Step("rfail", ph, id, 0, 0, 1) /\ UNCHANGED mal
                     \/ \E n \in Expectations : ExpectOp(ph, n) /\ Plain("expect", ph, n)
                     \/ IgnoreOp(ph) /\ Plain("ignore", ph, 0)
                     \/ FailOp(ph) /\ Plain("fail", ph, 0)
\* closing: end the open test, ask for the final report, print
GClose == \/ done = 0 /\ Len(h) >= D /\ cur # 0 /\ End(FALSE, FALSE) /\ Plain("end", "o", 0) /\ UNCHANGED done
          \/ done = 0 /\ Len(h) >= D /\ cur = 0 /\ Final /\ Plain("final", "o", 0) /\ done' = 1
          \/ done = 1 /\ done' = 2 /\ UNCHANGED <<vars, h, mal>>
GNext == GStep \/ GClose
GSpec == GInit /\ [][GNext]_gvars
Dump == done = 2 => PrintT(<<"BEH", ToJson(h)>>)
=============================================================================
