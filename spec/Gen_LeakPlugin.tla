---------------------------- MODULE Gen_LeakPlugin ----------------------------
(* Behaviour generation for C07: LeakPlugin's steps with a history variable recording the script
   (step, phase, argument); every test that was begun is ended and the run closes with the final report. *)
EXTENDS LeakPlugin, Json
CONSTANT D
VARIABLES h, done
gvars == <<vars, h, done>>
Step(op, ph, arg) == h' = Append(h, [op |-> op, ph |-> ph, arg |-> arg])

GInit == Init /\ h = <<>> /\ done = 0
GStep == /\ done = 0 /\ Len(h) < D /\ UNCHANGED done
         /\ \/ ntests < MaxTests /\ Begin /\ Step("begin", "o", 0)
            \/ End /\ Step("end", "o", 0)
            \/ /\ nops < MaxOps
               /\ \E ph \in OpPhases :
                     \/ nextId <= MaxBlocks /\ AllocOp(ph) /\ Step("alloc", ph, nextId)
                     \/ \E id \in Ids(blocks) : FreeOp(ph, id) /\ Step("free", ph, id)
                     \/ \E n \in Expectations : ExpectOp(ph, n) /\ Step("expect", ph, n)
                     \/ IgnoreOp(ph) /\ Step("ignore", ph, 0)
                     \/ FailOp(ph) /\ Step("fail", ph, 0)
\* closing: end the open test, ask for the final report, print
GClose == \/ done = 0 /\ Len(h) >= D /\ cur # 0 /\ End /\ Step("end", "o", 0) /\ UNCHANGED done
          \/ done = 0 /\ Len(h) >= D /\ cur = 0 /\ Final /\ Step("final", "o", 0) /\ done' = 1
          \/ done = 1 /\ done' = 2 /\ UNCHANGED <<vars, h>>
GNext == GStep \/ GClose
GSpec == GInit /\ [][GNext]_gvars
Dump == done = 2 => PrintT(<<"BEH", ToJson(h)>>)
=============================================================================
