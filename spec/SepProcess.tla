------------------------------ MODULE SepProcess ------------------------------
(***************************************************************************)
(* CppUTest separate-process mode (-p): the parent side of                 *)
(* PlatformSpecificRunTestInASeperateProcess (Platforms/Gcc/UtestPlatform) *)
(* composed with the registry loop that runs one test after the other      *)
(* (property C11).                                                         *)
(*                                                                         *)
(* One action per code step of the parent: StartTest, ForkFail, ForkOk,    *)
(* one action per outcome of a waitpid call (EINTR, other error, exited,   *)
(* signaled, stopped), EndTest, End.                                       *)
(* The environment (kernel + child) chooses the outcomes.  `plan' is the   *)
(* environment model: the status words a child with a given behaviour      *)
(* produces (by the default disposition of the signal it raises); with     *)
(* stubbed fork/waitpid there is no child and every outcome is possible.   *)
(* Ghost `ev' lists the failure-worthy events of the current test.         *)
(***************************************************************************)
EXTENDS Naturals, Integers, Sequences, FiniteSets, TLC

CONSTANTS RetryBound,   \* EINTR results tolerated per test before giving up (measured from the code under test)
          MaxTests,     \* most tests in a run (model bound)
          ExitCodes,    \* exit statuses the environment may report (subset of 0..255)
          Signals,      \* signal numbers (subset of 1..31, or up to 64 with real-time signals)
          MaxStops,     \* stops per child the environment produces (model bound; a child that stops forever never ends)
          Behaviours    \* child behaviours used for generation / model checking (records [act, arg])

\* default dispositions (Linux, signal(7))
IgnSignals  == {17, 18, 23, 28}                 \* SIGCHLD SIGCONT SIGURG SIGWINCH: raising them changes nothing
StopSignals == {19, 20, 21, 22}                 \* SIGSTOP SIGTSTP SIGTTIN SIGTTOU
TtyStops    == {20, 21, 22}                     \* discarded when the process group is orphaned
TermSignals == (1..31) \ (IgnSignals \cup StopSignals)

VARIABLES pc,       \* "idle" | "next" | "fork" | "wait" | "end" | "done"
          n,        \* tests in the run
          ti,       \* number of the test being run
          beh,      \* environment: what the child of this test will do ([act, arg]; act "any" when fork/waitpid are stubs)
          retries,  \* EINTR results seen for this test
          stops,    \* stops seen for this test
          waits,    \* waitpid calls made for this test
          conts,    \* SIGCONT sent for this test
          tfail,    \* failures recorded for this test: sequence of [kind, arg]
          ev,       \* ghost: failure-worthy events of this test: sequence of [kind, arg]
          total,    \* failures recorded in the run
          ran,      \* tests run
          plan,     \* environment: <<"any">> (stubs) or the status words still to come from the child
          tty       \* environment: TRUE when terminal stop signals take effect (process group not orphaned)

vars == <<pc, n, ti, beh, retries, stops, waits, conts, tfail, ev, total, ran, plan, tty>>

F(kind, arg) == [kind |-> kind, arg |-> arg]
Exited(c)   == [st |-> "exited", arg |-> c]
Signaled(s) == [st |-> "signaled", arg |-> s]
Stopped(s)  == [st |-> "stopped", arg |-> s]
AnyPlan == <<[st |-> "any", arg |-> 0]>>

\* what the kernel reports for a child that raises signal s and then behaves as `after'
Raise(s, after, t) ==
    IF s \in TermSignals THEN { <<Signaled(s)>> }
    ELSE IF s \in IgnSignals \/ s \notin 1..31 THEN { after }
    ELSE IF s \in TtyStops /\ ~t THEN { after }
    ELSE { <<Stopped(s)>> \o after }
\* the sequences of status words a child with behaviour b produces.  The child's own exit status is 1 when the
\* test recorded a failure in the child and 0 otherwise; exit(c) reports c modulo 256.
Plans(b, t) ==
    CASE b.act = "any"    -> { AnyPlan }
      [] b.act = "pass"   -> { <<Exited(0)>> }
      [] b.act = "fail"   -> { <<Exited(1)>> }
      [] b.act = "exit"   -> { <<Exited(b.arg % 256)>> }
      [] b.act = "signal" -> Raise(b.arg, <<Exited(0)>>, t)
      [] b.act = "signal-then-fail" -> Raise(b.arg, <<Exited(1)>>, t)
      [] b.act = "stop-twice" -> { <<Stopped(19), Stopped(19), Exited(0)>> }

Allowed(o) == plan = AnyPlan \/ (plan # <<>> /\ Head(plan) = o)
Consume == IF plan = AnyPlan THEN AnyPlan ELSE Tail(plan)

NoBeh == [act |-> "any", arg |-> 0]
Init == /\ pc = "idle" /\ n = 0 /\ ti = 0 /\ beh = NoBeh /\ retries = 0 /\ stops = 0 /\ waits = 0 /\ conts = 0
        /\ tfail = <<>> /\ ev = <<>> /\ total = 0 /\ ran = 0 /\ plan = AnyPlan /\ tty = TRUE

\* TestRegistry::runAllTests with run-in-separate-process set
Begin(k, t) == /\ pc = "idle" /\ pc' = "next" /\ n' = k /\ tty' = t
               /\ UNCHANGED <<ti, beh, retries, stops, waits, conts, tfail, ev, total, ran, plan>>

\* runOneTest: countRun, then the platform runner
StartTest(b) == /\ pc = "next" /\ ti < n /\ pc' = "fork" /\ ti' = ti + 1 /\ ran' = ran + 1 /\ beh' = b
                /\ retries' = 0 /\ stops' = 0 /\ waits' = 0 /\ conts' = 0 /\ tfail' = <<>> /\ ev' = <<>>
                /\ UNCHANGED <<n, total, plan, tty>>

\* fork() = -1: one failure, the test is over (nothing to wait for)
ForkFail == /\ pc = "fork" /\ pc' = "end"
            /\ tfail' = Append(tfail, F("fork", 0)) /\ ev' = Append(ev, F("fork", 0))
            /\ plan' = <<>>
            /\ UNCHANGED <<n, beh, ti, retries, stops, waits, conts, total, ran, tty>>

\* fork() = pid: the child runs its behaviour; the parent starts waiting
ForkOk == /\ pc = "fork" /\ pc' = "wait"
          /\ plan' \in Plans(beh, tty)
          /\ UNCHANGED <<n, beh, ti, retries, stops, waits, conts, tfail, ev, total, ran, tty>>

\* waitpid() = -1, errno EINTR: retried, but not for ever
WaitEintr ==
    /\ pc = "wait" /\ waits' = waits + 1
    /\ IF retries > RetryBound
       THEN /\ tfail' = Append(tfail, F("eintr", 0)) /\ ev' = Append(ev, F("eintr", 0))
            /\ pc' = "end" /\ UNCHANGED retries
       ELSE /\ retries' = retries + 1 /\ UNCHANGED <<pc, tfail, ev>>
    /\ UNCHANGED <<n, beh, ti, stops, conts, total, ran, plan, tty>>

\* waitpid() = -1 with another errno: one failure, the test is over
WaitError ==
    /\ pc = "wait" /\ waits' = waits + 1 /\ pc' = "end"
    /\ tfail' = Append(tfail, F("waitpid", 0)) /\ ev' = Append(ev, F("waitpid", 0))
    /\ UNCHANGED <<n, beh, ti, retries, stops, conts, total, ran, plan, tty>>

\* the child exited: a failure exactly when the status is not 0
WaitExited(c) ==
    /\ pc = "wait" /\ Allowed(Exited(c)) /\ plan' = Consume
    /\ waits' = waits + 1 /\ pc' = "end"
    /\ IF c # 0 THEN tfail' = Append(tfail, F("exit", 0)) /\ ev' = Append(ev, F("exit", c))
                ELSE UNCHANGED <<tfail, ev>>
    /\ UNCHANGED <<n, beh, ti, retries, stops, conts, total, ran, tty>>

\* the child was killed by signal s
WaitSignaled(s) ==
    /\ pc = "wait" /\ Allowed(Signaled(s)) /\ plan' = Consume
    /\ waits' = waits + 1 /\ pc' = "end"
    /\ tfail' = Append(tfail, F("signal", s)) /\ ev' = Append(ev, F("signal", s))
    /\ UNCHANGED <<n, beh, ti, retries, stops, conts, total, ran, tty>>

\* the child was stopped: one failure, SIGCONT, keep waiting for it
WaitStopped(s) ==
    /\ pc = "wait" /\ Allowed(Stopped(s)) /\ plan' = Consume
    /\ waits' = waits + 1 /\ stops' = stops + 1 /\ conts' = conts + 1
    /\ tfail' = Append(tfail, F("stopped", 0)) /\ ev' = Append(ev, F("stopped", s))
    /\ UNCHANGED <<pc, n, beh, ti, retries, total, ran, tty>>

\* back in the registry loop: the failures of this test are in the run's result
EndTest == /\ pc = "end" /\ pc' = "next" /\ total' = total + Len(tfail)
           /\ UNCHANGED <<n, beh, ti, retries, stops, waits, conts, tfail, ev, ran, plan, tty>>

End == /\ pc = "next" /\ ti = n /\ pc' = "done"
       /\ UNCHANGED <<n, beh, ti, retries, stops, waits, conts, tfail, ev, total, ran, plan, tty>>

Next == \/ \E k \in 1..MaxTests, t \in BOOLEAN : Begin(k, t)
        \/ (\E b \in Behaviours : StartTest(b)) \/ ForkFail \/ ForkOk
        \/ WaitEintr \/ WaitError
        \/ \E c \in ExitCodes : WaitExited(c)
        \/ \E s \in Signals : WaitSignaled(s)
        \/ \E s \in Signals : stops < MaxStops /\ WaitStopped(s)
        \/ EndTest \/ End

Spec == Init /\ [][Next]_vars
FairSpec == Spec /\ WF_vars(Next)

-----------------------------------------------------------------------------
\* Properties (C11)

\* recorded as failed once per event, and only for events: the recorded failures mirror the events one to one
OncePerEvent == /\ Len(tfail) = Len(ev)
                /\ \A i \in 1..Len(ev) : tfail[i].kind = ev[i].kind
\* what counts as an event: fork error, wait error, gave up on EINTR, non-zero exit, killed, stopped
EventsAreFailures == \A i \in 1..Len(ev) : ev[i].kind \in {"fork", "waitpid", "eintr", "exit", "signal", "stopped"}
                                           /\ (ev[i].kind = "exit" => ev[i].arg # 0)
                                           /\ (ev[i].kind = "signal" => tfail[i].arg = ev[i].arg)
\* every stop is answered by exactly one SIGCONT
StopsResumed == conts = stops
\* bounded waiting: the waitpid calls of one test are the EINTR results (bounded), the stops, and one last call
WaitsBounded == /\ retries <= RetryBound + 1
                /\ waits <= (RetryBound + 2) + stops + 1
\* the child is not lost: the test only ends after fork failed, the wait failed / was given up, or the child's end was seen
ChildNotLost == pc = "end" => plan \in {<<>>, AnyPlan} \/ (ev # <<>> /\ ev[Len(ev)].kind \in {"waitpid", "eintr"})
\* the run goes on: every test is run, and the overall verdict is a failure exactly when something was recorded
AllRun == pc = "done" => ran = n
RunCounts == ran = ti /\ ti <= n
\* liveness: whatever the environment answers (EINTR for ever included), the run ends
Terminates == <>(pc = "done")

TypeOK == /\ pc \in {"idle", "next", "fork", "wait", "end", "done"} /\ n \in 0..MaxTests /\ ti \in 0..n
          /\ retries \in 0..RetryBound + 1 /\ stops \in 0..MaxStops /\ tty \in BOOLEAN
=============================================================================
