------------------------------ MODULE SepProcess ------------------------------
(***************************************************************************)
(* CppUTest separate-process mode (-p): the parent side of                 *)
(* PlatformSpecificRunTestInASeperateProcess (Platforms/Gcc/UtestPlatform) *)
(* composed with the registry loop that runs one test after the other      *)
(* (property C11).                                                         *)
(*                                                                         *)
(* The registry is an object with a history: tests are added (plain tests  *)
(* and IGNORE_TESTs; the newest test runs first), the options "run tests   *)
(* in a separate process" and "run ignored tests" are set (in any order,   *)
(* before or between runs), and it is run any number of times.  Which      *)
(* tests of a run are executed, and where, follows from that history:      *)
(* an ignored test is only counted unless run-ignored is set; in a run     *)
(* with the separate-process option EVERY executed test goes through fork  *)
(* (`where' = "child": none of its code runs in the runner process).       *)
(*                                                                         *)
(* One action per public call on the registry (AddTest, SetSep,            *)
(* SetRunIgnored, Begin = runAllTests) and per code step of the parent:    *)
(* StartTest, ForkFail, ForkOk,                                            *)
(* one action per outcome of a waitpid call (EINTR, other error, exited,   *)
(* signaled, stopped), EndTest, End.                                       *)
(* The environment (kernel + child) chooses the outcomes.  `plan' is the   *)
(* environment model: the status words a child with a given behaviour      *)
(* produces (by the default disposition of the signal it raises); with     *)
(* stubbed fork/waitpid there is no child and every outcome is possible.   *)
(* A behaviour has two independent parts: what the test itself does (act,  *)
(* arg: pass, fail a check, exit, raise a signal, stop) and `rep', the     *)
(* number of failures that installed plugins report about the test in      *)
(* their pre / post actions (leak report, unmet expectations, ...: added   *)
(* to the result directly, while the test's own checks may all pass).      *)
(* A child that reaches its end has failed when EITHER recorded something. *)
(* Ghost `ev' lists the failure-worthy events of the current test.         *)
(***************************************************************************)
EXTENDS Naturals, Integers, Sequences, FiniteSets, TLC

CONSTANTS RetryBound,   \* EINTR results tolerated per test before giving up (measured from the code under test)
          MaxTests,     \* most tests in the registry (model bound)
          MaxRuns,      \* most runs of one registry (model bound)
          Kinds,        \* kinds of tests that may be added (subset of {"plain", "ignored"}; model bound)
          Options,      \* registry options the user may set (subset of {"sep", "ri"}; model bound)
          ExitCodes,    \* exit statuses the environment may report (subset of 0..255)
          Signals,      \* signal numbers (subset of 1..31, or up to 64 with real-time signals)
          MaxStops,     \* stops per child the environment produces (model bound; a child that stops forever never ends)
          Behaviours    \* child behaviours used for generation / model checking (records [act, arg, rep])

\* default dispositions (Linux, signal(7))
IgnSignals  == {17, 18, 23, 28}                 \* SIGCHLD SIGCONT SIGURG SIGWINCH: raising them changes nothing
StopSignals == {19, 20, 21, 22}                 \* SIGSTOP SIGTSTP SIGTTIN SIGTTOU
TtyStops    == {20, 21, 22}                     \* discarded when the process group is orphaned
TermSignals == (1..31) \ (IgnSignals \cup StopSignals)

VARIABLES pc,       \* "idle" | "next" | "fork" | "wait" | "end" | "done" ("done" = a run has ended and the registry was not touched since)
          sep,      \* registry option: run tests in a separate process (-p)
          ri,       \* registry option: run ignored tests (-ri)
          tests,    \* the registered tests in running order: sequence of kinds "plain" | "ignored"
          runs,     \* runs started on this registry
          where,    \* where the code of the current test executes: "none" (only counted as ignored) | "child" | "runner"
          ign,      \* tests of this run that were only counted as ignored
          n,        \* tests in the run
          ti,       \* number of the test being run
          beh,      \* environment: what the child of this test will do ([act, arg, rep]; act "any" when fork/waitpid are stubs)
          retries,  \* EINTR results seen for this test
          stops,    \* stops seen for this test
          waits,    \* waitpid calls made for this test
          conts,    \* SIGCONT sent for this test
          tfail,    \* failures recorded for this test: sequence of [kind, arg]
          ev,       \* ghost: failure-worthy events of this test: sequence of [kind, arg]
          total,    \* failures recorded in the run
          ran,      \* tests run
          plan,     \* environment: <<"any">> (stubs) or the status words still to come from the child
          tty       \* environment: TRUE when terminal stop signals take effect (process group not orphaned)

vars == <<pc, sep, ri, tests, runs, where, ign, n, ti, beh, retries, stops, waits, conts, tfail, ev, total, ran, plan, tty>>

F(kind, arg) == [kind |-> kind, arg |-> arg]
Exited(c)   == [st |-> "exited", arg |-> c]
Signaled(s) == [st |-> "signaled", arg |-> s]
Stopped(s)  == [st |-> "stopped", arg |-> s]
AnyPlan == <<[st |-> "any", arg |-> 0]>>

\* what the kernel reports for a child that raises signal s and then behaves as `after'
Raise(s, after, t) ==
    IF s \in TermSignals THEN { <<Signaled(s)>> }
    ELSE IF s \in IgnSignals \/ s \notin 1..31 THEN { after }
    ELSE IF s \in TtyStops /\ ~t THEN { after }
    ELSE { <<Stopped(s)>> \o after }
\* failures recorded in the process that executes the test, if it lives to the end of the test: the failed check of the
\* test itself (one: a failed check ends the phase) and what the plugins' pre / post actions report
OwnFailures(b) == IF b.act \in {"fail", "signal-then-fail"} THEN 1 ELSE 0
Recorded(b) == OwnFailures(b) + b.rep
\* the child's own verdict, when it comes to its end: exit status 1 when ANY failure was recorded in the child while the test
\* ran - by a check of the test or by a plugin action about the test - and 0 otherwise
Verdict(b) == <<Exited(IF Recorded(b) > 0 THEN 1 ELSE 0)>>
\* the sequences of status words a child with behaviour b produces; exit(c) ends the child there and reports c modulo 256
\* (whatever was recorded before).
Plans(b, t) ==
    CASE b.act = "any"    -> { AnyPlan }
      [] b.act \in {"pass", "fail"} -> { Verdict(b) }
      [] b.act = "exit"   -> { <<Exited(b.arg % 256)>> }
      [] b.act \in {"signal", "signal-then-fail"} -> Raise(b.arg, Verdict(b), t)
      [] b.act = "stop-twice" -> { <<Stopped(19), Stopped(19)>> \o Verdict(b) }

Allowed(o) == plan = AnyPlan \/ (plan # <<>> /\ Head(plan) = o)
Consume == IF plan = AnyPlan THEN AnyPlan ELSE Tail(plan)

NoBeh == [act |-> "any", arg |-> 0, rep |-> 0]
Init == /\ pc = "idle" /\ sep = FALSE /\ ri = FALSE /\ tests = <<>> /\ runs = 0 /\ where = "none" /\ ign = 0
        /\ n = 0 /\ ti = 0 /\ beh = NoBeh /\ retries = 0 /\ stops = 0 /\ waits = 0 /\ conts = 0
        /\ tfail = <<>> /\ ev = <<>> /\ total = 0 /\ ran = 0 /\ plan = AnyPlan /\ tty = TRUE

\* ---- the registry between runs
AtRest == pc \in {"idle", "done"}
runvars == <<where, ign, n, ti, beh, retries, stops, waits, conts, tfail, ev, total, ran, plan, tty>>

\* TestRegistry::addTest: the new test becomes the first of the list
AddTest(k) == /\ AtRest /\ Len(tests) < MaxTests /\ pc' = "idle" /\ tests' = <<k>> \o tests
              /\ UNCHANGED <<sep, ri, runs, runvars>>
\* TestRegistry::setRunTestsInSeperateProcess / setRunIgnored: sticky options of the registry
SetSep == /\ AtRest /\ ~sep /\ pc' = "idle" /\ sep' = TRUE /\ UNCHANGED <<ri, tests, runs, runvars>>
SetRunIgnored == /\ AtRest /\ ~ri /\ pc' = "idle" /\ ri' = TRUE /\ UNCHANGED <<sep, tests, runs, runvars>>

\* is a test of kind k executed in a run, and where does its code execute (the intended design).  C11 speaks about runs with
\* the separate-process option only: in a run without it, whether an ignored test is executed or only counted is left open here.
WillRun(k) == k = "plain" \/ ri
Place(k) == IF ~WillRun(k) THEN "none" ELSE IF sep THEN "child" ELSE "runner"
Places(k) == IF sep \/ k = "plain" THEN {Place(k)} ELSE {"none", "runner"}

\* TestRegistry::runAllTests (with a fresh TestResult) on whatever the registry holds now
Begin(t) == /\ AtRest /\ tests # <<>> /\ runs < MaxRuns /\ pc' = "next" /\ runs' = runs + 1
            /\ n' = Len(tests) /\ tty' = t /\ ti' = 0 /\ total' = 0 /\ ran' = 0 /\ ign' = 0
            /\ UNCHANGED <<sep, ri, tests, where, beh, retries, stops, waits, conts, tfail, ev, plan>>

\* the next test of the list.  An ignored test that is not to be run is only counted.  Otherwise runOneTest: countRun, then
\* the platform runner when the run is in separate-process mode; without that option the test runs in the runner itself
\* (outside C11; only bodies that pass or fail a check are considered there, with or without failures reported by plugins:
\* every one of them is recorded).
StartTest(b) ==
    /\ pc = "next" /\ ti < n /\ ti' = ti + 1 /\ beh' = b
    /\ retries' = 0 /\ stops' = 0 /\ waits' = 0 /\ conts' = 0
    /\ where' \in Places(tests[ti + 1])
    /\ CASE where' = "none" ->
               /\ pc' = "end" /\ ign' = ign + 1 /\ tfail' = <<>> /\ ev' = <<>> /\ plan' = <<>> /\ UNCHANGED ran
         [] where' = "child" ->
               /\ pc' = "fork" /\ ran' = ran + 1 /\ tfail' = <<>> /\ ev' = <<>> /\ UNCHANGED <<ign, plan>>
         [] where' = "runner" ->
               /\ b.act \in {"pass", "fail"} /\ pc' = "end" /\ ran' = ran + 1 /\ plan' = <<>> /\ UNCHANGED ign
               /\ tfail' = [i \in 1..Recorded(b) |-> F("check", 0)]
               /\ ev' = [i \in 1..Recorded(b) |-> F("check", 0)]
    /\ UNCHANGED <<sep, ri, tests, runs, n, total, tty>>

\* fork() = -1: one failure, the test is over (nothing to wait for)
ForkFail == /\ pc = "fork" /\ pc' = "end"
            /\ tfail' = Append(tfail, F("fork", 0)) /\ ev' = Append(ev, F("fork", 0))
            /\ plan' = <<>>
            /\ UNCHANGED <<sep, ri, tests, runs, where, ign, n, beh, ti, retries, stops, waits, conts, total, ran, tty>>

\* fork() = pid: the child runs its behaviour; the parent starts waiting
ForkOk == /\ pc = "fork" /\ pc' = "wait"
          /\ plan' \in Plans(beh, tty)
          /\ UNCHANGED <<sep, ri, tests, runs, where, ign, n, beh, ti, retries, stops, waits, conts, tfail, ev, total, ran, tty>>

\* waitpid() = -1, errno EINTR: retried, but not for ever
WaitEintr ==
    /\ pc = "wait" /\ waits' = waits + 1
    /\ IF retries > RetryBound
       THEN /\ tfail' = Append(tfail, F("eintr", 0)) /\ ev' = Append(ev, F("eintr", 0))
            /\ pc' = "end" /\ UNCHANGED retries
       ELSE /\ retries' = retries + 1 /\ UNCHANGED <<pc, tfail, ev>>
    /\ UNCHANGED <<sep, ri, tests, runs, where, ign, n, beh, ti, stops, conts, total, ran, plan, tty>>

\* waitpid() = -1 with another errno: one failure, the test is over
WaitError ==
    /\ pc = "wait" /\ waits' = waits + 1 /\ pc' = "end"
    /\ tfail' = Append(tfail, F("waitpid", 0)) /\ ev' = Append(ev, F("waitpid", 0))
    /\ UNCHANGED <<sep, ri, tests, runs, where, ign, n, beh, ti, retries, stops, conts, total, ran, plan, tty>>

\* the child exited: a failure exactly when the status is not 0
WaitExited(c) ==
    /\ pc = "wait" /\ Allowed(Exited(c)) /\ plan' = Consume
    /\ waits' = waits + 1 /\ pc' = "end"
    /\ IF c # 0 THEN tfail' = Append(tfail, F("exit", 0)) /\ ev' = Append(ev, F("exit", c))
                ELSE UNCHANGED <<tfail, ev>>
    /\ UNCHANGED <<sep, ri, tests, runs, where, ign, n, beh, ti, retries, stops, conts, total, ran, tty>>

\* the child was killed by signal s
WaitSignaled(s) ==
    /\ pc = "wait" /\ Allowed(Signaled(s)) /\ plan' = Consume
    /\ waits' = waits + 1 /\ pc' = "end"
    /\ tfail' = Append(tfail, F("signal", s)) /\ ev' = Append(ev, F("signal", s))
    /\ UNCHANGED <<sep, ri, tests, runs, where, ign, n, beh, ti, retries, stops, conts, total, ran, tty>>

\* the child was stopped: one failure, SIGCONT, keep waiting for it
WaitStopped(s) ==
    /\ pc = "wait" /\ Allowed(Stopped(s)) /\ plan' = Consume
    /\ waits' = waits + 1 /\ stops' = stops + 1 /\ conts' = conts + 1
    /\ tfail' = Append(tfail, F("stopped", 0)) /\ ev' = Append(ev, F("stopped", s))
    /\ UNCHANGED <<sep, ri, tests, runs, where, ign, pc, n, beh, ti, retries, total, ran, tty>>

\* back in the registry loop: the failures of this test are in the run's result
EndTest == /\ pc = "end" /\ pc' = "next" /\ total' = total + Len(tfail)
           /\ UNCHANGED <<sep, ri, tests, runs, where, ign, n, beh, ti, retries, stops, waits, conts, tfail, ev, ran, plan, tty>>

End == /\ pc = "next" /\ ti = n /\ pc' = "done"
       /\ UNCHANGED <<sep, ri, tests, runs, where, ign, n, beh, ti, retries, stops, waits, conts, tfail, ev, total, ran, plan, tty>>

Next == \/ \E k \in Kinds : AddTest(k)
        \/ ("sep" \in Options /\ SetSep) \/ ("ri" \in Options /\ SetRunIgnored)
        \/ \E t \in BOOLEAN : Begin(t)
        \/ (\E b \in Behaviours : StartTest(b)) \/ ForkFail \/ ForkOk
        \/ WaitEintr \/ WaitError
        \/ \E c \in ExitCodes : WaitExited(c)
        \/ \E s \in Signals : WaitSignaled(s)
        \/ \E s \in Signals : stops < MaxStops /\ WaitStopped(s)
        \/ EndTest \/ End

Spec == Init /\ [][Next]_vars
FairSpec == Spec /\ WF_vars(Next)

-----------------------------------------------------------------------------
\* Properties (C11)

\* recorded as failed once per event, and only for events: the recorded failures mirror the events one to one
OncePerEvent == /\ Len(tfail) = Len(ev)
                /\ \A i \in 1..Len(ev) : tfail[i].kind = ev[i].kind
\* what counts as an event: fork error, wait error, gave up on EINTR, non-zero exit, killed, stopped
\* (and, in a run without the separate-process option, a failed check of the test itself)
EventsAreFailures == \A i \in 1..Len(ev) : ev[i].kind \in {"fork", "waitpid", "eintr", "exit", "signal", "stopped", "check"}
                                           /\ (ev[i].kind = "exit" => ev[i].arg # 0)
                                           /\ (ev[i].kind = "signal" => tfail[i].arg = ev[i].arg)
                                           /\ (ev[i].kind = "check" => where = "runner")
\* containment: in a run with the separate-process option no test executes in the runner process - whatever the kind of the
\* test, whenever it was added, in whatever order the options were set and however many runs the registry has been through;
\* and the parent only forks / waits for tests that execute in a child
InRun == pc \in {"next", "fork", "wait", "end"}
Contained == /\ (InRun /\ sep /\ ti > 0) => where \in {"child", "none"}
             /\ (pc \in {"fork", "wait"}) => (sep /\ where = "child")
             /\ (InRun /\ ti > 0 /\ pc # "next") => where \in Places(tests[ti])
\* a failure recorded in the child fails the test in the parent, whoever recorded it (a check of the test, a plugin's pre or
\* post action): when the parent has seen the end of a child that came to its own end with something recorded, the test has failed
ChildCameToItsEnd(b) == b.act \in {"pass", "fail", "stop-twice"} \/ (b.act \in {"signal", "signal-then-fail"} /\ b.arg \notin TermSignals)
ChildFailuresCount == (pc = "end" /\ where = "child" /\ plan = <<>> /\ ChildCameToItsEnd(beh) /\ Recorded(beh) > 0) => tfail # <<>>
\* every stop is answered by exactly one SIGCONT
StopsResumed == conts = stops
\* bounded waiting: the waitpid calls of one test are the EINTR results (bounded), the stops, and one last call
WaitsBounded == /\ retries <= RetryBound + 1
                /\ waits <= (RetryBound + 2) + stops + 1
\* the child is not lost: the test only ends after fork failed, the wait failed / was given up, or the child's end was seen
ChildNotLost == pc = "end" => plan \in {<<>>, AnyPlan} \/ (ev # <<>> /\ ev[Len(ev)].kind \in {"waitpid", "eintr"})
\* the run goes on: every test is run, and the overall verdict is a failure exactly when something was recorded
\* (ignored tests are only counted, unless the registry runs ignored tests)
AllRun == pc = "done" => /\ ran + ign = n
                         /\ sep => ran = Cardinality({i \in 1..n : WillRun(tests[i])})
RunCounts == ran + ign = ti /\ ti <= n
\* liveness: whatever the environment answers (EINTR for ever included), the run ends - every run of the registry does
Terminates == <>(pc = "done")
EveryRunEnds == InRun ~> (pc = "done")

TypeOK == /\ pc \in {"idle", "next", "fork", "wait", "end", "done"} /\ n \in 0..MaxTests /\ ti \in 0..n
          /\ sep \in BOOLEAN /\ ri \in BOOLEAN /\ Len(tests) <= MaxTests /\ \A i \in 1..Len(tests) : tests[i] \in {"plain", "ignored"}
          /\ runs \in 0..MaxRuns /\ where \in {"none", "child", "runner"} /\ ign \in 0..n
          /\ retries \in 0..RetryBound + 1 /\ stops \in 0..MaxStops /\ tty \in BOOLEAN /\ beh.rep \in Nat
=============================================================================
