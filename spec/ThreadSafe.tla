---------------------------- MODULE ThreadSafe ----------------------------
(***************************************************************************)
(* Thread-safe allocation mode of the leak detector (property C10).        *)
(* Every threadsafe_* wrapper in MemoryLeakWarningPlugin.cpp is            *)
(*   Acquire -> [Invalidate] -> table operation(s) -> [Report] -> Release  *)
(* under the detector's single non-recursive mutex.  The steps are         *)
(* separate actions so TLC interleaves threads at every lock boundary.     *)
(* The INTENDED design is specified: a misuse found inside the locked      *)
(* region is reported as a test failure and the lock is released before    *)
(* control leaves the wrapper.  AsCoded = TRUE models what the pinned code *)
(* did (leave by longjmp with the lock held) and exists only to document   *)
(* the finding with a TLC counterexample; it is never the oracle.          *)
(***************************************************************************)
EXTENDS Naturals, Sequences, FiniteSets, TLC
CONSTANTS Threads,   \* thread identities
          Script,    \* [Threads -> Seq(op)], op = [k : {"alloc","free","realloc","badfree","allocfail"}, b : block, b2 : block]
          AsCoded

VARIABLES owner,     \* holder of the detector mutex, or "none"
          table,     \* the detector's set of outstanding blocks
          pc, ip,    \* per thread: position inside a wrapper / in its script
          held,      \* per thread: blocks it allocated and has not released (its own model)
          failed,    \* per thread: misuse reports delivered as test failures
          poisoned   \* blocks whose user bytes were overwritten before release
vars == <<owner, table, pc, ip, held, failed, poisoned>>

Op(t) == Script[t][ip[t]]
Done(t) == ip[t] > Len(Script[t])

Init == /\ owner = "none" /\ table = {} /\ poisoned = {}
        /\ pc = [t \in Threads |-> "idle"] /\ ip = [t \in Threads |-> 1]
        /\ held = [t \in Threads |-> {}] /\ failed = [t \in Threads |-> 0]

\* MemLeakScopedMutex constructor
Acquire(t) ==
    /\ pc[t] = "idle" /\ ~Done(t) /\ owner = "none"
    /\ owner' = t
    /\ pc' = [pc EXCEPT ![t] = IF Op(t).k \in {"free", "badfree"} THEN "invalidate" ELSE "table"]
    /\ UNCHANGED <<table, ip, held, failed, poisoned>>
\* invalidateMemory: poison the user bytes of an outstanding block (free / delete paths)
Invalidate(t) ==
    /\ pc[t] = "invalidate"
    /\ poisoned' = IF Op(t).b \in table THEN poisoned \cup {Op(t).b} ELSE poisoned
    /\ pc' = [pc EXCEPT ![t] = "table"]
    /\ UNCHANGED <<owner, table, ip, held, failed>>
\* allocMemory / deallocMemory / reallocMemory on the shared table
TableOp(t) ==
    /\ pc[t] = "table"
    /\ LET o == Op(t) IN
       CASE o.k = "alloc" ->
              /\ table' = table \cup {o.b} /\ held' = [held EXCEPT ![t] = @ \cup {o.b}]
              /\ pc' = [pc EXCEPT ![t] = "release"] /\ UNCHANGED failed
         [] o.k = "free" /\ o.b \in table ->
              /\ table' = table \ {o.b} /\ held' = [held EXCEPT ![t] = @ \ {o.b}]
              /\ pc' = [pc EXCEPT ![t] = "release"] /\ UNCHANGED failed
         [] o.k = "realloc" /\ o.b \in table ->
              /\ table' = (table \ {o.b}) \cup {o.b2} /\ held' = [held EXCEPT ![t] = (@ \ {o.b}) \cup {o.b2}]
              /\ pc' = [pc EXCEPT ![t] = "release"] /\ UNCHANGED failed
         [] OTHER ->      \* a test failure raised inside the locked region: releasing something that is not outstanding (misuse
                          \* report), or an allocator that fails the test because it cannot satisfy the request (k = "allocfail":
                          \* what the default allocator does when the C library returns NULL) - nothing is added to the table
              /\ UNCHANGED <<table, held>>
              /\ failed' = [failed EXCEPT ![t] = @ + 1]
              /\ pc' = [pc EXCEPT ![t] = IF AsCoded THEN "jumped" ELSE "release"]
    /\ UNCHANGED <<owner, ip, poisoned>>
\* MemLeakScopedMutex destructor (intended design: also on the failure path)
Release(t) ==
    /\ pc[t] = "release" /\ owner = t
    /\ owner' = "none" /\ pc' = [pc EXCEPT ![t] = "idle"] /\ ip' = [ip EXCEPT ![t] = @ + 1]
    /\ UNCHANGED <<table, held, failed, poisoned>>
\* as coded: longjmp out of the locked region; the thread goes on with its next operation, lock still held
Jumped(t) ==
    /\ pc[t] = "jumped"
    /\ pc' = [pc EXCEPT ![t] = "idle"] /\ ip' = [ip EXCEPT ![t] = @ + 1]
    /\ UNCHANGED <<owner, table, held, failed, poisoned>>

Next == \E t \in Threads : Acquire(t) \/ Invalidate(t) \/ TableOp(t) \/ Release(t) \/ Jumped(t)
Spec == Init /\ [][Next]_vars
FairSpec == Spec /\ \A t \in Threads : WF_vars(Acquire(t)) /\ WF_vars(Invalidate(t)) /\ WF_vars(TableOp(t))
                                        /\ WF_vars(Release(t)) /\ WF_vars(Jumped(t))

-----------------------------------------------------------------------------
InCritical(t) == pc[t] \in {"invalidate", "table", "release"}
MutualExclusion == \A t \in Threads : InCritical(t) => owner = t
AtMostOneInside == Cardinality({ t \in Threads : InCritical(t) }) <= 1
LockNeverLeaked == \A t \in Threads : pc[t] = "idle" => owner # t
\* once all threads are done the outstanding set is the union of what each still holds
NoLostUpdate == (\A t \in Threads : Done(t)) => table = UNION { held[t] : t \in Threads }
\* every block released was outstanding (otherwise it is a counted misuse, never a silent removal)
HeldAreOutstanding == \A t \in Threads : held[t] \subseteq table
LockFreeAtEnd == (\A t \in Threads : Done(t)) => owner = "none"
\* no hang: every thread finishes its script (checked under FairSpec)
Progress == \A t \in Threads : <>Done(t)
=============================================================================
