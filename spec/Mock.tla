---------------------------- MODULE Mock ----------------------------
(***************************************************************************)
(* CppUTest mocking support (CppUTestExt): expectations and the fluent     *)
(* actual-call interface of MockSupport (properties C08 and C19).          *)
(*                                                                         *)
(* The module describes the intended design at the level of the public     *)
(* API, not the pruning lists of the implementation:                       *)
(*  - a scope (mock("name"), "" = the global one) holds a list of          *)
(*    expectations, a fulfilment count per expectation, strict-order       *)
(*    windows and counters, the ignore-other-calls / enabled flags and the *)
(*    actual call in progress;                                             *)
(*  - an actual call is built step by step (Begin, Param, OutParam,        *)
(*    OnObject); its candidate set - the open expectations that can still  *)
(*    match what has been passed so far - is a function of the arguments   *)
(*    passed in THIS call only; a wrong name / value / object or a surplus *)
(*    call fails at that step, a missing parameter or object fails lazily  *)
(*    when the call is finished (by the next actual call of the scope, by  *)
(*    reading the return value, by expectedCallsLeft or checkExpectations);*)
(*  - finishing consumes the first complete candidate (expectations that   *)
(*    do not ignore other parameters first) and yields its return value    *)
(*    and output-parameter data;                                           *)
(*  - checkExpectations: unfulfilled expectations, then out-of-order calls.*)
(* The first failure ends the test (terminating reporter): after `failed'  *)
(* no call has any effect.  Where the property statement leaves the        *)
(* diagnosis open (several simultaneous deviations) the step yields a SET  *)
(* of admissible categories.                                               *)
(*                                                                         *)
(* Ghost state: `made' (per scope, the completed actual calls in order) -  *)
(* the properties compare the engine's greedy bookkeeping (`used', `ooo')  *)
(* with order-free counts over `made'.                                     *)
(*                                                                         *)
(* Parameter and return values are the value records of MockValueOps;      *)
(* an expectation matches an actual parameter by Eq(expected, actual).     *)
(*                                                                         *)
(* User types (withParameterOfType / withOutputParameterOfType...): every  *)
(* scope owns a repository of comparators and copiers - a list of          *)
(* installations [type name, comparison function, copy function], the most *)
(* recent first; the first entry for a type name that has the wanted       *)
(* function is the one in force.  installComparator / installCopier on a   *)
(* scope adds to that scope only - on the global scope also to every child *)
(* that exists; a child created afterwards starts with a copy of the       *)
(* global repository; removeAllComparatorsAndCopiers empties the scope's   *)
(* repository (the global one: every child's too); clear() destroys the    *)
(* children and keeps the global repository.  The functions are data here: *)
(* a comparison MODE ("whole": all fields of the object, "first": its      *)
(* first field only, "never" / "always": a constant answer, "less": the    *)
(* expected first field below the actual one - comparators need be neither *)
(* reflexive nor symmetric) and a copy MODE ("plain": the bytes, "inv":    *)
(* every byte inverted).  The comparator in force ALONE decides whether an *)
(* actual object matches an expected one, from the two objects it is       *)
(* handed (expected, actual) - also when both are one and the same object  *)
(* (object values carry an identity, id, which nothing here consults).     *)
(* An expectation binds the function in force in its                       *)
(* scope when the parameter is attached (value field cmp / output field    *)
(* cpy); an actual parameter of a user type needs a comparator in its      *)
(* scope ("nocompare" otherwise).  Type names are data (strings).          *)
(*                                                                         *)
(* Objects (onObject): an expectation made on an object is met only by a   *)
(* call on that very object, one made on no object (NoObj) by a call on    *)
(* any object or on none.  Object identities are just that - the null      *)
(* pointer (NullObj) is one of them: onObject(NULL) on an expectation      *)
(* names an object like every other, and so does onObject(NULL) on a call. *)
(*                                                                         *)
(* The test around the scenario: a check of the test that has nothing to   *)
(* do with the mock (CHECK, LONGS_EQUAL ...) may fail in the body          *)
(* (CheckFails): that is then the test's first - and only - failure.  The  *)
(* body of a failed test is left, its teardown still runs (Teardown marks  *)
(* where the body ends): whatever the teardown - or anything else - asks   *)
(* of the mock in a test that has already failed reports nothing more,     *)
(* for whichever reason the test failed.                                   *)
(***************************************************************************)
EXTENDS MockValueOps

CONSTANTS Scopes,     \* scope names in play; "" (the global scope) must be among them
          Fns,        \* function names
          PNames,     \* input parameter names
          Vals,       \* input parameter values (value records)
          ONames,     \* output parameter names
          OData,      \* output parameter payloads: records [ty, data]
          Objs,       \* object identities (integers other than NoObj; NullObj, the null pointer, may be among them)
          Rets,       \* return values (value records; NoVal = no return value)
          MaxExp, Ns, MaxCalls,
          RetGetters,           \* the ways a return value is read in the enumerated domain: records [g, od, d]
          LateExpect, Toggles,  \* model-checking switches: expectations after the first call / disable-enable explored
          Flags,                \* strictOrder / ignoreOtherCalls explored
          Phases,               \* a failing check of the test itself (not a mock check) explored
          MaxInst,              \* enumeration bound: installations (comparators + copiers) per scope; 0 = none explored
          DKeys, DVals          \* data store keys and values explored ({} = the data store is not explored)

NoVal == [t |-> "none"]
Global == ""
\* objects: NoObj - in an expectation: not made on an object (any object will do); in a call: not made on an object.
\* Every other integer is an object identity; NullObj is the null pointer - an identity like every other
NoObj == 0
NullObj == 0 - 1

\* ---------------------------------------------------------------- expectations and calls
\* expectation: [fn, obj (NoObj = any object), ins : name -> value, outs : name -> [ty, data], ign, n, ret, lo, hi]
\* (lo, hi) = strict-order window, (0, 0) when created without strict ordering
\* call (in progress / completed): [fn, obj (NoObj = not called on an object), given : name -> value, gout : name -> ty]
\* ---------------------------------------------------------------- user types: comparators and copiers
\* object value: [t = "obj", tn (type name), c (content: a tuple of fields), id (which object holds that content: 0 = an object
\* of its own, n > 0 = the n-th shared object with that content; may be absent)]; in an expectation: tn, c and cmp, the comparison
\* mode bound when the parameter was attached ("none": no comparator was installed then - such a value equals nothing)
CmpModes == {"whole", "first", "never", "always", "less"}
\* the modes the enumerated domain installs (a configuration may narrow it)
CmpExplored == CmpModes
CpyModes == {"plain", "inv"}
CmpNode(tn, md) == [tn |-> tn, cmp |-> md, cpy |-> "none"]
CpyNode(tn, md) == [tn |-> tn, cmp |-> "none", cpy |-> md]
FirstIdx(S) == CHOOSE i \in S : \A j \in S : i <= j
\* the function in force for a type name: the first entry (most recent first) that has one
CmpOf(repo, tn) == LET I == { i \in 1..Len(repo) : repo[i].tn = tn /\ repo[i].cmp # "none" } IN IF I = {} THEN "none" ELSE repo[FirstIdx(I)].cmp
CpyOf(repo, tn) == LET I == { i \in 1..Len(repo) : repo[i].tn = tn /\ repo[i].cpy # "none" } IN IF I = {} THEN "none" ELSE repo[FirstIdx(I)].cpy
\* a new child scope receives the global scope's entries one by one, each put in front of the previous ones
\* (MockSupport::clone -> installComparatorsAndCopiers): its list is the global list in reverse
Inherited(repo) == [i \in 1..Len(repo) |-> repo[Len(repo) + 1 - i]]
\* the verdict of comparator md on (x: the expected object, y: the actual one): a function of the two contents and of nothing
\* else - not of whether x and y are the same object ("never" says no to an object compared with itself, and so does "less")
ObjEq(md, x, y) == /\ x.tn = y.tn
                   /\ CASE md = "whole" -> x.c = y.c
                        [] md = "first" -> x.c[1] = y.c[1]
                        [] md = "always" -> TRUE
                        [] md = "less" -> x.c[1] < y.c[1]
                        [] OTHER -> FALSE          \* "never"; "none": no comparator bound
\* Doubles as the C++ interface - the reference of C19 - compares them: doubles_equal(expected, actual, tolerance of the
\* expectation).  NaN (a value or the tolerance) equals nothing; an infinity equals the same infinity; otherwise
\* |expected - actual| <= tolerance: tolerance 0 is the exact comparison, a negative tolerance (also -inf) admits nothing -
\* not even the same value -, +inf admits everything.  (For tolerances >= 0 this is MockValueOps!DoubleEq.)  The finite
\* values are integers on a grid fine enough for differences below the interface's default tolerance (the harness
\* takes one unit as 2^-10; the default 0.005 then admits exactly the differences of at most DefaultTolQ units).
DefaultTolQ == 5
DblEq(x, y, tol) == IF x.k = "nan" \/ y.k = "nan" \/ tol.k = "nan" THEN FALSE
                    ELSE (x.k = "inf" /\ y.k = "inf" /\ x.neg = y.neg) \/ DiffWithin(x, y, tol)
\* equals() with the expectation as the receiver: its own comparator decides for objects, its own tolerance for doubles
EqP(a, b) == IF a.t = "obj" THEN b.t = "obj" /\ ObjEq(a.cmp, a, b)
             ELSE IF a.t = "double" /\ b.t = "double" THEN DblEq(a.v, b.v, a.tol)
             ELSE Eq(a, b)
BindIn(repo, v) == IF v.t = "obj" THEN [t |-> "obj", tn |-> v.tn, c |-> v.c, cmp |-> CmpOf(repo, v.tn)] ELSE v
BindOut(repo, o) == [ty |-> o.ty, data |-> o.data, cpy |-> IF o.ty = "raw" THEN "raw" ELSE CpyOf(repo, o.ty)]
Copied(o) == IF o.cpy = "inv" THEN [i \in 1..Len(o.data) |-> 255 - o.data[i]] ELSE o.data

CompatIn(e, k, v) == IF k \in DOMAIN e.ins THEN EqP(e.ins[k], v) ELSE e.ign
CompatOut(e, k, ty) == IF k \in DOMAIN e.outs THEN e.outs[k].ty = ty ELSE e.ign
CompatObj(e, o) == e.obj = NoObj \/ e.obj = o
HasAllParams(e, c) == DOMAIN e.ins \subseteq DOMAIN c.given /\ DOMAIN e.outs \subseteq DOMAIN c.gout
HasObject(e, c) == e.obj # NoObj => c.obj = e.obj
Complete(e, c) == HasAllParams(e, c) /\ HasObject(e, c)

\* a completed call fits an expectation
Fits(e, c) == /\ e.fn = c.fn /\ CompatObj(e, c.obj) /\ Complete(e, c)
              /\ \A k \in DOMAIN c.given : CompatIn(e, k, c.given[k])
              /\ \A k \in DOMAIN c.gout : CompatOut(e, k, c.gout[k])

SameExp(e1, e2) == /\ e1.fn = e2.fn /\ e1.obj = e2.obj /\ e1.ins = e2.ins /\ e1.outs = e2.outs
                   /\ e1.ign = e2.ign /\ e1.ret = e2.ret

\* two values that one actual value could both match
\* (an over-approximation for negative tolerances, which admit nothing: it only keeps such pairs out of the domain)
DoubleMayCoincide(x, y) ==
    /\ x.v.k # "nan" /\ y.v.k # "nan" /\ x.tol.k # "nan" /\ y.tol.k # "nan"
    /\ \/ XSame(x.v, y.v)
       \/ (x.tol.k = "inf" /\ ~x.tol.neg) \/ (y.tol.k = "inf" /\ ~y.tol.neg)
       \/ (x.v.k = "fin" /\ y.v.k = "fin" /\ Abs(x.v.q - y.v.q) <= x.tol.q + y.tol.q)
\* some actual object is accepted by both expected values, each with its own comparator ("whole" / "first" pin the actual
\* object's first field, "less" bounds it from below, "always" leaves it free, "never" / "none" accept nothing)
Pins(md) == md \in {"whole", "first"}
ObjMayCoincide(x, y) == /\ x.tn = y.tn /\ {x.cmp, y.cmp} \cap {"none", "never"} = {}
                        /\ (Pins(x.cmp) /\ Pins(y.cmp)) => x.c[1] = y.c[1]
                        /\ (x.cmp = "whole" /\ y.cmp = "whole") => x.c = y.c
                        /\ (x.cmp = "less" /\ Pins(y.cmp)) => x.c[1] < y.c[1]
                        /\ (y.cmp = "less" /\ Pins(x.cmp)) => y.c[1] < x.c[1]
MayCoincide(x, y) == IF x.t = "double" /\ y.t = "double" THEN DoubleMayCoincide(x, y)
                     ELSE IF x.t = "obj" /\ y.t = "obj" THEN ObjMayCoincide(x, y)
                     ELSE EqP(x, y) \/ EqP(y, x)
\* some call fits both expectations
JointlySatisfiable(e1, e2) ==
    /\ e1.fn = e2.fn
    /\ (e1.obj = NoObj \/ e2.obj = NoObj \/ e1.obj = e2.obj)
    /\ \A k \in DOMAIN e1.ins \cap DOMAIN e2.ins : MayCoincide(e1.ins[k], e2.ins[k])
    /\ \A k \in DOMAIN e1.outs \cap DOMAIN e2.outs : e1.outs[k].ty = e2.outs[k].ty
    /\ (DOMAIN e1.ins \subseteq DOMAIN e2.ins /\ DOMAIN e1.outs \subseteq DOMAIN e2.outs) \/ e2.ign
    /\ (DOMAIN e2.ins \subseteq DOMAIN e1.ins /\ DOMAIN e2.outs \subseteq DOMAIN e1.outs) \/ e1.ign
\* the domain of the property: matching is unambiguous
Unambiguous(es) == \A i, j \in 1..Len(es) : (i < j /\ JointlySatisfiable(es[i], es[j])) => SameExp(es[i], es[j])

\* ---------------------------------------------------------------- one scope
NoCall == [phase |-> "none", fn |-> "", given |-> <<>>, gout |-> <<>>, obj |-> NoObj, cand |-> {}, match |-> 0, order |-> 0]
Scope(live, ign, en, st, repo) ==
    [live |-> live, exps |-> <<>>, used |-> <<>>, ooo |-> {}, strict |-> st, expOrder |-> 0, actOrder |-> 0,
     ignoreOthers |-> ign, enabled |-> en, cur |-> NoCall, made |-> <<>>, data |-> <<>>, repo |-> repo]
Absent == Scope(FALSE, FALSE, TRUE, FALSE, <<>>)

Names(m, fn) == { i \in 1..Len(m.exps) : m.exps[i].fn = fn }
Min(S) == CHOOSE i \in S : \A j \in S : i <= j

\* finishing the call in progress (MockCheckedActualCall::checkExpectations)
Finish(m) ==
    IF m.cur.phase # "open" THEN [m |-> m, cats |-> {}]
    ELSE LET c == m.cur
             full == { i \in c.cand : Complete(m.exps[i], c) }
             pref == IF \E i \in full : ~m.exps[i].ign THEN { i \in full : ~m.exps[i].ign } ELSE full
         IN IF full = {}
            THEN [m |-> [m EXCEPT !.cur.phase = "failed"],
                  cats |-> (IF \E i \in c.cand : ~HasAllParams(m.exps[i], c) THEN {"missingparam"} ELSE {})
                           \cup (IF \E i \in c.cand : ~HasObject(m.exps[i], c) THEN {"missingobject"} ELSE {})]
            ELSE LET e == Min(pref)
                     x == m.exps[e]
                     late == x.lo # 0 /\ (c.order < x.lo \/ c.order > x.hi)
                 IN [m |-> [m EXCEPT !.used[e] = @ + 1,
                                     !.ooo = IF late THEN @ \cup {e} ELSE @,
                                     !.cur.phase = "done", !.cur.match = e,
                                     !.made = Append(@, [fn |-> c.fn, obj |-> c.obj, given |-> c.given, gout |-> c.gout, order |-> c.order])],
                     cats |-> {}]

\* actualCall(fn)
BeginIn(m0, fn) ==
    LET f == Finish(m0) IN
    IF f.cats # {} THEN f
    ELSE LET m == f.m IN
         IF ~m.enabled \/ (m.ignoreOthers /\ Names(m, fn) = {})
         THEN [m |-> [m EXCEPT !.cur = [NoCall EXCEPT !.phase = "ignored", !.fn = fn]], cats |-> {}]
         ELSE LET cand == { i \in Names(m, fn) : m.used[i] < m.exps[i].n }
                  call == [NoCall EXCEPT !.fn = fn, !.order = m.actOrder + 1, !.cand = cand]
              IN IF cand = {}
                 THEN [m |-> [m EXCEPT !.actOrder = @ + 1, !.cur = [call EXCEPT !.phase = "failed"]],
                       cats |-> IF \E i \in Names(m, fn) : m.exps[i].n > 0 THEN {"additional"} ELSE {"unexpected"}]
                 ELSE [m |-> [m EXCEPT !.actOrder = @ + 1, !.cur = [call EXCEPT !.phase = "open"]], cats |-> {}]

\* withParameter(k, v)
ParamIn(m, k, v) ==
    IF m.cur.phase = "ignored" THEN [m |-> m, cats |-> {}]
    ELSE IF v.t = "obj" /\ CmpOf(m.repo, v.tn) = "none" THEN [m |-> [m EXCEPT !.cur.phase = "failed"], cats |-> {"nocompare"}]
    ELSE LET c == m.cur
             c2 == { i \in c.cand : CompatIn(m.exps[i], k, v) }
         IN IF c2 = {}
            THEN [m |-> [m EXCEPT !.cur.phase = "failed"],
                  cats |-> IF ~\E i \in Names(m, c.fn) : k \in DOMAIN m.exps[i].ins THEN {"badname"}
                           ELSE IF \E i \in c.cand : k \in DOMAIN m.exps[i].ins THEN {"badvalue"}
                           ELSE {"badname", "badvalue"}]
            ELSE [m |-> [m EXCEPT !.cur.cand = c2, !.cur.given = @ @@ (k :> v)], cats |-> {}]

\* withOutputParameter(k, buffer) / withOutputParameterOfType(ty, k, buffer)
OutParamIn(m, k, ty) ==
    IF m.cur.phase = "ignored" THEN [m |-> m, cats |-> {}]
    ELSE LET c == m.cur
             c2 == { i \in c.cand : CompatOut(m.exps[i], k, ty) }
         IN IF c2 = {}
            THEN [m |-> [m EXCEPT !.cur.phase = "failed"],
                  cats |-> IF ~\E i \in Names(m, c.fn) : k \in DOMAIN m.exps[i].outs THEN {"badoutname"}
                           ELSE IF \E i \in c.cand : k \in DOMAIN m.exps[i].outs THEN {"badouttype"}
                           ELSE {"badoutname", "badouttype"}]
            ELSE [m |-> [m EXCEPT !.cur.cand = c2, !.cur.gout = @ @@ (k :> ty)], cats |-> {}]

\* onObject(o): o is an object identity - the null pointer as good as any other
ObjectIn(m, o) ==
    IF m.cur.phase = "ignored" THEN [m |-> m, cats |-> {}]
    ELSE LET c2 == { i \in m.cur.cand : CompatObj(m.exps[i], o) }
         IN IF c2 = {} THEN [m |-> [m EXCEPT !.cur.phase = "failed"], cats |-> {"badobject"}]
            ELSE [m |-> [m EXCEPT !.cur.cand = c2, !.cur.obj = o], cats |-> {}]

\* the caller's output buffers are BufLen bytes, pre-filled with FillByte; the expectation's data - for a user type: as its
\* copier (bound by the expectation) writes it - overwrites a prefix
BufLen == 8
FillByte == 238
Filled(d) == d \o [i \in 1..(BufLen - Len(d)) |-> FillByte]
\* what the finished call hands back: return value and the data for the output parameters it was given
RetOf(m) == IF m.cur.phase = "done" THEN m.exps[m.cur.match].ret ELSE NoVal
OutsOf(m) == IF m.cur.phase = "done"
             THEN LET x == m.exps[m.cur.match] IN [k \in DOMAIN m.cur.gout \cap DOMAIN x.outs |-> Filled(Copied(x.outs[k]))]
             ELSE <<>>

-----------------------------------------------------------------------------
VARIABLES ms,       \* [Scopes -> scope state]
          created,  \* child scopes in creation order (checkExpectations visits the global scope, then these)
          failed,   \* a failure has been reported: the test is over
          why,      \* category of that first failure ("" while there is none)
          last,     \* name of the last API call
          res       \* its observable result: [k |-> "ok" | category | "skipped", ...]
vars == <<ms, created, failed, why, last, res>>

FreshScopes == [s \in Scopes |-> IF s = Global THEN Scope(TRUE, FALSE, TRUE, FALSE, <<>>) ELSE Absent]
Init == /\ ms = FreshScopes /\ created = <<>> /\ failed = FALSE /\ why = "" /\ last = "init" /\ res = [k |-> "ok"]

\* mock(s): a child scope is created on first use and inherits the global scope's flags, comparators and copiers
Touched(s) == IF ms[s].live THEN ms
              ELSE [ms EXCEPT ![s] = Scope(TRUE, ms[Global].ignoreOthers, ms[Global].enabled, ms[Global].strict, Inherited(ms[Global].repo))]
CreatedAfter(s) == IF ms[s].live THEN created ELSE Append(created, s)
Ok == [k |-> "ok"]
Passed(okres) == failed' = FALSE /\ why' = "" /\ res' = okres
\* the first failure, with one of the admissible categories
FailedWith(cats) == failed' = TRUE /\ \E c \in cats : why' = c /\ res' = [k |-> c]
\* the outcome o = [m, cats] of a step on scope s
Outcome(s, o, okres) ==
    /\ ms' = [Touched(s) EXCEPT ![s] = o.m] /\ created' = CreatedAfter(s)
    /\ IF o.cats = {} THEN Passed(okres) ELSE FailedWith(o.cats)
\* after the first failure - of the mock or of another check of the test (CheckFails) - nothing has any effect on the test: the
\* rest of the body is not executed, and what is still asked of the mock (in the teardown) reports nothing
Dead(op) == failed /\ last' = op /\ res' = [k |-> "skipped"] /\ UNCHANGED <<ms, created, failed, why>>

\* expectOneCall / expectNCalls / expectNoCall with its parameters, object, return value
Expect(s, e) ==
    \/ Dead("expect")
    \/ /\ ~failed /\ last' = "expect"
       /\ LET m == Touched(s)[s] IN
          IF ~m.enabled THEN Outcome(s, [m |-> m, cats |-> {}], Ok)
          ELSE LET w == IF m.strict THEN [lo |-> m.expOrder + 1, hi |-> m.expOrder + e.n] ELSE [lo |-> 0, hi |-> 0]
                   x == [fn |-> e.fn, obj |-> e.obj, ins |-> [k \in DOMAIN e.ins |-> BindIn(m.repo, e.ins[k])],
                         outs |-> [k \in DOMAIN e.outs |-> BindOut(m.repo, e.outs[k])], ign |-> e.ign, n |-> e.n, ret |-> e.ret,
                         lo |-> w.lo, hi |-> w.hi]
               IN Outcome(s, [m |-> [m EXCEPT !.exps = Append(@, x), !.used = Append(@, 0),
                                              !.expOrder = IF m.strict THEN @ + e.n ELSE @], cats |-> {}], Ok)
Begin(s, fn) ==
    \/ Dead("begin")
    \/ ~failed /\ last' = "begin" /\ Outcome(s, BeginIn(Touched(s)[s], fn), Ok)
Param(s, k, v) ==
    \/ Dead("param")
    \/ /\ ~failed /\ ms[s].live /\ ms[s].cur.phase \in {"open", "ignored"} /\ k \notin DOMAIN ms[s].cur.given
       /\ last' = "param" /\ Outcome(s, ParamIn(ms[s], k, v), Ok)
OutParam(s, k, ty) ==
    \/ Dead("outparam")
    \/ /\ ~failed /\ ms[s].live /\ ms[s].cur.phase \in {"open", "ignored"} /\ k \notin DOMAIN ms[s].cur.gout
       /\ last' = "outparam" /\ Outcome(s, OutParamIn(ms[s], k, ty), Ok)
OnObject(s, o) ==
    \/ Dead("object")
    \/ /\ ~failed /\ ms[s].live /\ ms[s].cur.phase \in {"open", "ignored"} /\ ms[s].cur.obj = NoObj /\ o # NoObj
       /\ last' = "object" /\ Outcome(s, ObjectIn(ms[s], o), Ok)
\* hasReturnValue() / returnValue() of the scope's last actual call, and the output buffers afterwards.
\* g = "value": the generic returnValue().  g = a getter name: the typed getter xxxReturnValue(); with od = TRUE the
\* returnXxxValueOrDefault(d) form, which yields d when the call has no return value.  A call without a return value
\* reads as the integer 0 of type int (a default-constructed value).  A typed getter of an integer type on an integer
\* value behaves as MockValueOps!GetAllowed says (exact or the test fails); on a value of its own type it returns the
\* value; on any other type the test fails.
GetterType == [bool |-> "bool", int |-> "int", uint |-> "unsigned int", long |-> "long int", ulong |-> "unsigned long int",
               llong |-> "long long int", ullong |-> "unsigned long long int", str |-> "const char*", double |-> "double",
               ptr |-> "void*", cptr |-> "const void*", fptr |-> "void (*)()"]
Getters == DOMAIN GetterType
ZeroInt == MkInt("int", P(0, 0, 0, 0))
\* the set of admissible results of reading value sv with the getter of type T: value records, or FailRead
FailRead == [t |-> "fail"]
TypedRead(sv, T) ==
    IF sv.t = T THEN {sv}
    ELSE IF sv.t \in IntTypes /\ T \in IntTypes
         THEN {FailRead} \cup (IF InRange(IntVal(sv), T) THEN {MkInt(T, IntVal(sv))} ELSE {})
         ELSE {FailRead}
\* via = "support": through the MockSupport object (the scope's last actual call, none after an ignored call);
\* via = "call": through the call object actualCall returned - an ignored call then answers with the type's default
\* value (or the caller's default) and never fails
DefaultOf(T) == CASE T \in IntTypes -> MkInt(T, P(0, 0, 0, 0))
                  [] T = "bool" -> [t |-> "bool", b |-> FALSE]
                  [] T = "const char*" -> [t |-> "const char*", s |-> ""]
                  [] T = "double" -> [t |-> "double", v |-> XFin(0)]
                  [] OTHER -> [t |-> T, id |-> 0]
ReturnValue(s, g, od, d, via) ==
    \/ Dead("ret")
    \/ /\ ~failed /\ last' = "ret"
       /\ LET f == Finish(Touched(s)[s])
              rv == RetOf(f.m)
              has == rv # NoVal
              okres(v) == [k |-> "ok", s |-> s, has |-> has, val |-> v, outs |-> OutsOf(f.m)] IN
          IF f.cats # {} \/ g = "value" THEN Outcome(s, f, okres(rv))
          ELSE IF od /\ ~has THEN Outcome(s, f, okres(d))
          ELSE IF via = "call" /\ f.m.cur.phase = "ignored" THEN Outcome(s, f, okres(DefaultOf(GetterType[g])))
          ELSE \E x \in TypedRead(IF has THEN rv ELSE ZeroInt, GetterType[g]) :
                   IF x.t = "fail" THEN Outcome(s, [m |-> f.m, cats |-> {"check"}], Ok)
                   ELSE Outcome(s, f, okres(x))
\* the data store of a scope: setData / getData (a missing entry reads as a default-constructed value)
SetData(s, k, v) ==
    \/ Dead("setdata")
    \/ /\ ~failed /\ last' = "setdata"
       /\ LET m == Touched(s)[s] IN
          Outcome(s, [m |-> [m EXCEPT !.data = [x \in (DOMAIN m.data) \cup {k} |-> IF x = k THEN v ELSE m.data[x]]], cats |-> {}], Ok)
GetData(s, k) ==
    \/ Dead("getdata")
    \/ /\ ~failed /\ last' = "getdata"
       /\ LET m == Touched(s)[s] IN
          Outcome(s, [m |-> m, cats |-> {}], [k |-> "ok", val |-> IF k \in DOMAIN m.data THEN m.data[k] ELSE ZeroInt])

\* checkExpectations / expectedCallsLeft first finish the call in progress of the global scope, then of each child
RECURSIVE FinishAll(_, _, _)
FinishAll(msx, seq, i) ==
    IF i > Len(seq) THEN [ms |-> msx, cats |-> {}]
    ELSE LET o == Finish(msx[seq[i]]) IN
         IF o.cats # {} THEN [ms |-> [msx EXCEPT ![seq[i]] = o.m], cats |-> o.cats]
         ELSE FinishAll([msx EXCEPT ![seq[i]] = o.m], seq, i + 1)
Visit == <<Global>> \o created
Unfulfilled(m) == \E i \in 1..Len(m.exps) : m.used[i] # m.exps[i].n
\* the verdict of checkExpectations on scope states msx whose calls are all finished
VerdictCats(msx) == IF \E s \in Scopes : Unfulfilled(msx[s]) THEN {"unfulfilled"}
                    ELSE IF \E s \in Scopes : msx[s].ooo # {} THEN {"outoforder"} ELSE {}
Check ==
    \/ Dead("check")
    \/ /\ ~failed /\ last' = "check" /\ UNCHANGED created
       /\ LET f == FinishAll(ms, Visit, 1)
              cats == IF f.cats # {} THEN f.cats ELSE VerdictCats(f.ms) IN
          /\ ms' = f.ms
          /\ IF cats # {} THEN FailedWith(cats) ELSE Passed(Ok)
Left ==
    \/ Dead("left")
    \/ /\ ~failed /\ last' = "left" /\ UNCHANGED created
       /\ LET f == FinishAll(ms, Visit, 1) IN
          /\ ms' = f.ms
          /\ IF f.cats # {} THEN FailedWith(f.cats)
             ELSE Passed([k |-> "ok", left |-> \E s \in Scopes : Unfulfilled(f.ms[s])])
\* flags; disable / enable / ignoreOtherCalls on the global scope reach every existing child, strictOrder does not
SetAll(f(_)) == ms' = [s \in Scopes |-> IF ms[s].live THEN f(ms[s]) ELSE ms[s]]
Plain(op) == ~failed /\ last' = op /\ res' = Ok /\ UNCHANGED <<created, failed, why>>
Disable == Dead("disable") \/ (Plain("disable") /\ SetAll(LAMBDA m : [m EXCEPT !.enabled = FALSE]))
Enable == Dead("enable") \/ (Plain("enable") /\ SetAll(LAMBDA m : [m EXCEPT !.enabled = TRUE]))
IgnoreOtherCalls == Dead("ignoreothers") \/ (Plain("ignoreothers") /\ SetAll(LAMBDA m : [m EXCEPT !.ignoreOthers = TRUE]))
StrictOrder(s) == \/ Dead("strict")
                  \/ /\ ~failed /\ last' = "strict" /\ res' = Ok /\ UNCHANGED <<failed, why>>
                     /\ ms' = [Touched(s) EXCEPT ![s].strict = TRUE] /\ created' = CreatedAfter(s)
\* clear(): everything forgotten, child scopes destroyed; the global scope keeps its comparators and copiers
Clear == \/ Dead("clear")
         \/ /\ ~failed /\ last' = "clear" /\ res' = Ok /\ UNCHANGED <<failed, why>> /\ created' = <<>>
            /\ ms' = [FreshScopes EXCEPT ![Global].repo = ms[Global].repo]
\* installComparator / installCopier on scope s: a new entry in front of the scope's list; from the global scope it
\* reaches every child that exists
Install(op, s, node) ==
    \/ Dead(op)
    \/ /\ ~failed /\ last' = op /\ res' = [k |-> "ok", s |-> s] /\ UNCHANGED <<failed, why>> /\ created' = CreatedAfter(s)
       /\ LET t == Touched(s) IN
          ms' = [x \in Scopes |-> IF t[x].live /\ (x = s \/ s = Global) THEN [t[x] EXCEPT !.repo = <<node>> \o @] ELSE t[x]]
InstallComparator(s, tn, md) == Install("installcmp", s, CmpNode(tn, md))
InstallCopier(s, tn, md) == Install("installcpy", s, CpyNode(tn, md))
\* removeAllComparatorsAndCopiers on scope s (from the global scope: every child too)
RemoveAll(s) ==
    \/ Dead("removeall")
    \/ /\ ~failed /\ last' = "removeall" /\ res' = [k |-> "ok", s |-> s] /\ UNCHANGED <<failed, why>> /\ created' = CreatedAfter(s)
       /\ LET t == Touched(s) IN
          ms' = [x \in Scopes |-> IF t[x].live /\ (x = s \/ s = Global) THEN [t[x] EXCEPT !.repo = <<>>] ELSE t[x]]
\* ---------------------------------------------------------------- the test around the scenario
\* a check of the test that is not a mock check fails in the body: the test's first failure (category "check"), the body is left.
\* The mock is not touched
CheckFails == \/ Dead("failcheck")
              \/ /\ ~failed /\ last' = "failcheck" /\ failed' = TRUE /\ why' = "check" /\ res' = [k |-> "check"]
                 /\ UNCHANGED <<ms, created>>
\* the body of the test is over (completed or left) and its teardown begins: nothing changes for the mock.  In a test that has
\* failed - through the mock or through CheckFails - the teardown's calls fall under Dead: they report nothing
Teardown == Dead("teardown") \/ (Plain("teardown") /\ UNCHANGED ms)
\* ---------------------------------------------------------------- how often a deviation is reported
\* A verdict step (checkExpectations, expectedCallsLeft, the end-of-test check of MockSupportPlugin) may run under a
\* reporter that does not end the test (the plugin's reporter adds the failure to the test result, a recording reporter
\* keeps it): the step then goes on after its first report.  What it may deliver is the sequence of the deviations that
\* are present, each ONCE, as a sequence of sets of admissible categories:
\*  - every scope (the global one, then the children in creation order) whose call in progress cannot be completed;
\*  - only if there is no such call: the unfulfilled expectations (one report for all of them) - an expectation that a
\*    failed call was meant for has been reported with that call and is not reported again as unfulfilled;
\*  - the calls out of order (one report) - not after the unfulfilled report, which ends the scenario.
StuckCalls(mss) == LET bad == SelectSeq(Visit, LAMBDA s : Finish(mss[s]).cats # {})
                   IN [i \in 1..Len(bad) |-> Finish(mss[bad[i]]).cats]
Finished(mss) == [s \in Scopes |-> Finish(mss[s]).m]
Deviations(mss) == LET stuck == StuckCalls(mss)
                       fin == Finished(mss)
                       ooo == IF \E s \in Scopes : fin[s].ooo # {} THEN <<{"outoforder"}>> ELSE <<>>
                   IN IF stuck # <<>> THEN stuck \o ooo
                      ELSE IF \E s \in Scopes : Unfulfilled(fin[s]) THEN <<{"unfulfilled"}>> ELSE ooo
\* R (the categories reported, in order) picks deviations of dev in order, each at most once
RECURSIVE Picks(_, _)
Picks(R, dev) == IF R = <<>> THEN TRUE
                 ELSE IF dev = <<>> THEN FALSE
                 ELSE (Head(R) \in Head(dev) /\ Picks(Tail(R), Tail(dev))) \/ Picks(R, Tail(dev))
\* the first deviation is reported - once -, then possibly further ones, each once; nothing is reported when there is none
ReportedOnce(R, dev) == IF dev = <<>> THEN R = <<>>
                        ELSE R # <<>> /\ Head(R) \in Head(dev) /\ Picks(Tail(R), Tail(dev))
\* checkExpectations / expectedCallsLeft in state ms under a reporter that goes on (R: what it received during the step)
CheckReportsOK(R) == ReportedOnce(R, Deviations(ms))
LeftReportsOK(R) == ReportedOnce(R, StuckCalls(ms))
\* the end of the test: the verdict is the first failure, or else what checkExpectations says now (MockSupportPlugin);
\* then everything is cleared for the next test.  R: the failures the test has recorded - the first failure ends a
\* test at once (nothing is checked at the end of a failed test, and nothing its teardown asked of the mock was added),
\* otherwise what the end-of-test check delivers
\* (what may follow the first failure is a failing check of the test itself - e.g. in the teardown a typed getter that reads a
\* value of another type - never a further report of the mock)
EndReportsOK(R) == IF failed THEN R # <<>> /\ R[1] = why /\ \A i \in 2..Len(R) : R[i] = "check" ELSE CheckReportsOK(R)
End == /\ last' = "end" /\ created' = <<>> /\ ms' = FreshScopes /\ failed' = FALSE /\ why' = ""
       /\ IF failed THEN res' = [k |-> why]
          ELSE LET f == FinishAll(ms, Visit, 1)
                   cats == IF f.cats # {} THEN f.cats ELSE VerdictCats(f.ms) IN
               IF cats = {} THEN res' = Ok ELSE \E c \in cats : res' = [k |-> c]

-----------------------------------------------------------------------------
\* Enumerated domain (model checking and generation)
Assign(Ks, Vs) == UNION { [S -> Vs] : S \in SUBSET Ks }
ExpSet == [fn : Fns, obj : {NoObj} \cup Objs, ins : Assign(PNames, Vals), outs : Assign(ONames, OData), ign : BOOLEAN, n : Ns, ret : Rets]
OTypes == { d.ty : d \in OData }
NCalls == LET RECURSIVE S(_) S(T) == IF T = {} THEN 0 ELSE LET s == CHOOSE s \in T : TRUE IN ms[s].actOrder + S(T \ {s}) IN S(Scopes)
NExp(s) == Len(ms[s].exps)
Bound(m, e) == [fn |-> e.fn, obj |-> e.obj, ins |-> [k \in DOMAIN e.ins |-> BindIn(m.repo, e.ins[k])],
                outs |-> [k \in DOMAIN e.outs |-> BindOut(m.repo, e.outs[k])], ign |-> e.ign, n |-> e.n, ret |-> e.ret]
WouldBe(s, e) == Append(Touched(s)[s].exps, Bound(Touched(s)[s], e))
\* the frame of the model: an output parameter of a user type is expected only where a copier for the type is in force
\* (the "No way to copy" failure is not modelled)
CopiersPresent(s, e) == \A k \in DOMAIN e.outs : e.outs[k].ty # "raw" => CpyOf(Touched(s)[s].repo, e.outs[k].ty) # "none"
\* generation only: object parameters are expected where a comparator for the type is in force (an expectation made without one
\* binds none and matches nothing; the sweep covers that case)
ComparatorsPresent(s, e) == \A k \in DOMAIN e.ins : e.ins[k].t = "obj" => CmpOf(Touched(s)[s].repo, e.ins[k].tn) # "none"
\* comparators and copiers are removed only while no expectation (which may have bound one) exists
NoExpectations == \A s \in Scopes : Len(ms[s].exps) = 0
ObjTNames == { v.tn : v \in { x \in Vals : x.t = "obj" } }
NInst(s) == Len(Touched(s)[s].repo)
AnyOpen == \E s \in Scopes : ms[s].cur.phase = "open"
Next ==
    /\ ~failed /\ last # "check"
    /\ \/ \E s \in Scopes, e \in ExpSet : /\ NExp(s) < MaxExp /\ (LateExpect \/ NCalls = 0)
                                          /\ CopiersPresent(s, e) /\ Unambiguous(WouldBe(s, e)) /\ Expect(s, e)
       \/ \E s \in Scopes, tn \in ObjTNames, md \in CmpExplored : NInst(s) < MaxInst /\ InstallComparator(s, tn, md)
       \/ \E s \in Scopes, tn \in OTypes \ {"raw"}, md \in CpyModes : NInst(s) < MaxInst /\ InstallCopier(s, tn, md)
       \/ \E s \in Scopes : MaxInst > 0 /\ NoExpectations /\ NInst(s) > 0 /\ RemoveAll(s)
       \/ \E s \in Scopes, k \in DKeys, v \in DVals : SetData(s, k, v)
       \/ \E s \in Scopes, k \in DKeys : GetData(s, k)
       \/ \E s \in Scopes, fn \in Fns : NCalls < MaxCalls /\ Begin(s, fn)
       \/ \E s \in Scopes, k \in PNames, v \in Vals : Param(s, k, v)
       \/ \E s \in Scopes, k \in ONames, ty \in OTypes : OutParam(s, k, ty)
       \/ \E s \in Scopes, o \in Objs : OnObject(s, o)
       \/ \E s \in Scopes, x \in RetGetters : ms[s].live /\ ms[s].cur.phase \in {"open", "ignored"} /\ ReturnValue(s, x.g, x.od, x.d, "support")
       \/ \E s \in Scopes : Flags /\ StrictOrder(s) /\ ~Touched(s)[s].strict /\ NExp(s) = 0 /\ NCalls = 0
       \/ Flags /\ IgnoreOtherCalls /\ ~ms[Global].ignoreOthers /\ NCalls = 0
       \/ Toggles /\ Disable /\ ms[Global].enabled
       \/ Toggles /\ Enable /\ ~ms[Global].enabled
       \/ AnyOpen /\ Left
       \/ Phases /\ CheckFails
       \/ Check
Spec == Init /\ [][Next]_vars

-----------------------------------------------------------------------------
\* Properties (C08)
SumOver(S, w) == LET F[k \in 0..Len(w)] == IF k = 0 THEN 0 ELSE F[k - 1] + (IF k \in S THEN w[k] ELSE 0) IN F[Len(w)]
Class(m, i) == { j \in 1..Len(m.exps) : SameExp(m.exps[i], m.exps[j]) }
CountFits(m, i) == Cardinality({ j \in 1..Len(m.made) : Fits(m.exps[i], m.made[j]) })
ClassUsed(m, i) == SumOver(Class(m, i), m.used)
ClassN(m, i) == SumOver(Class(m, i), [j \in 1..Len(m.exps) |-> m.exps[j].n])
\* the expectation whose strict-order window holds position p
ExpAt(m, p) == CHOOSE i \in 1..Len(m.exps) : m.exps[i].lo <= p /\ p <= m.exps[i].hi
AllWindowed(m) == \A i \in 1..Len(m.exps) : m.exps[i].lo # 0 \/ m.exps[i].n = 0
OrderAgrees(m) == \A j \in 1..Len(m.made) :
                     /\ \E i \in 1..Len(m.exps) : m.exps[i].lo <= j /\ j <= m.exps[i].hi
                     /\ Fits(m.exps[ExpAt(m, j)], m.made[j])
\* order-free statement of "the multiset of actual calls equals the multiset of expected calls"
MultisetsEqual(m) == /\ \A i \in 1..Len(m.exps) : CountFits(m, i) = ClassN(m, i)
                     /\ \A j \in 1..Len(m.made) : \E i \in 1..Len(m.exps) : Fits(m.exps[i], m.made[j])
GhostPass(m) == MultisetsEqual(m) /\ (AllWindowed(m) /\ m.strict => OrderAgrees(m))

\* user types: every installation is well formed; an expectation holds the function that was in force, or none
ReposOK == \A s \in Scopes :
              /\ \A i \in 1..Len(ms[s].repo) : LET n == ms[s].repo[i] IN
                     /\ n.cmp \in CmpModes \cup {"none"} /\ n.cpy \in CpyModes \cup {"none"} /\ (n.cmp # "none" \/ n.cpy # "none")
              /\ ~ms[s].live => ms[s].repo = <<>>
              /\ \A i \in 1..Len(ms[s].exps) : LET x == ms[s].exps[i] IN
                     /\ \A k \in DOMAIN x.ins : x.ins[k].t = "obj" => x.ins[k].cmp \in CmpModes \cup {"none"}
                     /\ \A k \in DOMAIN x.outs : x.outs[k].cpy \in (IF x.outs[k].ty = "raw" THEN {"raw"} ELSE CpyModes)
\* an installation or removal in a child scope leaves every other scope's comparators and copiers alone, and nothing but
\* clear() / the end of the test / a removal changes what an existing scope has installed
InstallIsLocal ==
    [][(last' \in {"installcmp", "installcpy", "removeall"} /\ res'.k = "ok" /\ res'.s # Global) =>
           \A x \in Scopes \ {res'.s} : ms'[x].repo = ms[x].repo]_vars
BoundFunctionsStay ==
    [][\A s \in Scopes : \A i \in 1..Len(ms[s].exps) :
           Len(ms'[s].exps) >= i => (ms'[s].exps[i].ins = ms[s].exps[i].ins /\ ms'[s].exps[i].outs = ms[s].exps[i].outs)]_vars
TypeOK == /\ failed \in BOOLEAN /\ (failed <=> why # "") /\ \A s \in Scopes : ms[s].live \in BOOLEAN /\ Len(ms[s].used) = Len(ms[s].exps)
          /\ ReposOK
          /\ ms[Global].live /\ \A i \in 1..Len(created) : ms[created[i]].live /\ created[i] # Global
DomainUnambiguous == \A s \in Scopes : Unambiguous(ms[s].exps)
NeverOverConsumed == \A s \in Scopes : \A i \in 1..Len(ms[s].exps) : ms[s].used[i] <= ms[s].exps[i].n
\* the greedy bookkeeping agrees with the order-free count, whatever the order of the calls was
CountsAgree == \A s \in Scopes : \A i \in 1..Len(ms[s].exps) : CountFits(ms[s], i) = ClassUsed(ms[s], i)
\* every completed call consumed an expectation it fits
ConsumedFits == \A s \in Scopes : (ms[s].cur.phase = "done") => Fits(ms[s].exps[ms[s].cur.match], ms[s].made[Len(ms[s].made)])
\* a call in progress always has a candidate; every candidate is open and compatible with what was passed
CandidatesSound == \A s \in Scopes : ms[s].cur.phase = "open" =>
                      /\ ms[s].cur.cand # {}
                      /\ \A i \in ms[s].cur.cand : /\ ms[s].exps[i].fn = ms[s].cur.fn /\ ms[s].used[i] < ms[s].exps[i].n
                                                   /\ \A k \in DOMAIN ms[s].cur.given : CompatIn(ms[s].exps[i], k, ms[s].cur.given[k])
\* verdict: checkExpectations passes iff the multisets are equal (and the order agrees under strict ordering)
VerdictExact == (last = "check" /\ res.k \in {"ok", "unfulfilled", "outoforder"}) =>
                   ((res.k = "ok") <=> (\A s \in Scopes : GhostPass(ms[s])))
UnfulfilledIsCountMismatch == (last = "check" /\ res.k = "unfulfilled") => \E s \in Scopes : ~MultisetsEqual(ms[s])
OutOfOrderIsOrderMismatch == (last = "check" /\ res.k = "outoforder") =>
                                (\A s \in Scopes : MultisetsEqual(ms[s])) /\ \E s \in Scopes : ~OrderAgrees(ms[s])
\* an early failure is a real deviation: judged by the order-free counts, the failing call cannot belong to any
\* scenario that passes (no expectation compatible with what it passed has capacity left, or - lazily - none is complete)
EarlyFailureJustified ==
    (failed /\ last \in {"begin", "param", "outparam", "object"}) =>
        \A s \in Scopes : ms[s].cur.phase = "failed" =>
            LET m == ms[s]  c == m.cur IN
            (last = "begin" /\ res.k \in {"unexpected", "additional"}) =>
                \A i \in Names(m, c.fn) : CountFits(m, i) >= ClassN(m, i)
FailsOnce == failed => res.k \notin {"ok"}
\* the verdict of checkExpectations is the first of the deviations present (none: it passes), whichever reporter listens
VerdictIsFirstDeviation ==
    [][(~failed /\ last' = "check") =>
           LET dev == Deviations(ms) IN IF dev = <<>> THEN res'.k = "ok" ELSE res'.k \in Head(dev)]_vars
\* a value read back from a finished call is the consumed expectation's return value: the same integer for the integer
\* getters, the value itself otherwise (or the caller's default when there is none)
ReturnNeverLies ==
    (last = "ret" /\ res.k = "ok") =>
        LET rv == RetOf(ms[res.s]) IN
        /\ res.has = (rv # NoVal)
        /\ rv # NoVal => IF rv.t \in IntTypes THEN res.val.t \in IntTypes /\ SameInteger(IntVal(res.val), IntVal(rv)) ELSE res.val = rv
=============================================================================
