---------------------------- MODULE Trace_FailMsg ----------------------------
(* Validation of recorded failure messages (C14, message part): every log line = one failure object built by the real
   code for operands e, a (symbol codes; enull/anull = the operand was a NULL pointer) with
     haspos/pos - the "difference starts at position N" the message prints (pos = 0 when absent)
     has_e/has_a - the message shows the operand verbatim between < and > (logged for printable operands, else true)
     raw     - the message contains an operand byte that is not printable, unescaped (0x01)
   bits-equal kind (op bitseq): w = operand width in bytes, e/a/m = the 8 bytes of expected, actual and mask (most significant
   first), has_e/has_a - the message has an "expected <..>" / "but was <..>" field, eb/ab - the symbols of the two fields with
   blanks removed (0, 1, 2 = any other character).
   Memory safety / termination of the construction is observed by ASan and the deadline on the same executions. *)
EXTENDS FailMsg, Json, IOUtils
VARIABLE l
Tr == ndJsonDeserialize(IOEnv.TRACE)
E == Tr[l]
Is(op) == l <= Len(Tr) /\ Tr[l].op = op /\ l' = l + 1

RowOK == LET v == Verdict(E.op, E.e, E.a, E.enull, E.anull) IN
         /\ ~v.free => (E.haspos = v.haspos /\ (v.haspos => E.pos = v.pos))
         /\ (~E.enull /\ AllPrintable(E.e)) => E.has_e
         /\ (~E.anull /\ AllPrintable(E.a)) => E.has_a
         /\ ~E.raw
         /\ E.safe          \* building the message was survived (no sanitizer report, no signal, no deadline)
BitsOK == /\ E.safe /\ E.has_e /\ E.has_a
          /\ E.w \in 1..8 /\ Len(E.e) = 8 /\ Len(E.a) = 8 /\ Len(E.m) = 8
          /\ ShowsOK(E.eb, E.e, E.m, E.w)
          /\ ShowsOK(E.ab, E.a, E.m, E.w)
TInit == l = 1 /\ u = 0
TNext == \/ /\ \/ Is("streq") \/ Is("nocase") \/ Is("checkeq") \/ Is("bineq")
            /\ RowOK /\ UNCHANGED u
         \/ Is("bitseq") /\ BitsOK /\ UNCHANGED u
TReset == Is("reset") /\ UNCHANGED u
TSpec == TInit /\ [][TNext \/ TReset]_<<l, u>>
Accepted == TLCGet("stats").diameter - 1 = Len(Tr)

PNext == (Is("streq") \/ Is("nocase") \/ Is("checkeq") \/ Is("bineq") \/ Is("bitseq")) /\ UNCHANGED u
PSpec == TInit /\ [][PNext \/ TReset]_<<l, u>>
Predict == (l > 1 /\ l - 1 >= atoi(IOEnv.FROM_LINE_N) /\ Tr[l - 1].op # "reset") =>
              PrintT(<<"BEH", ToJson([line |-> l - 1, must |-> IF Tr[l - 1].op = "bitseq"
                                                                 THEN BitsVerdict(Tr[l - 1].e, Tr[l - 1].a, Tr[l - 1].m, Tr[l - 1].w)
                                                                 ELSE Verdict(Tr[l - 1].op, Tr[l - 1].e, Tr[l - 1].a, Tr[l - 1].enull, Tr[l - 1].anull)])>>)
=============================================================================
