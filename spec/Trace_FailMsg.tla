---------------------------- MODULE Trace_FailMsg ----------------------------
(* Validation of recorded failure messages (C14, message part): every log line = one failure object built by the real
   code for operands e, a (runs <<symbol code, count>>; enull/anull = the operand was a NULL pointer; a = no runs for the
   kinds with one operand) with
     haspos/pos - the "difference starts at position N" the message prints (pos = 0 when absent)
     f       - the fields of the message, each as runs: the pieces between < and > (bineq: a piece that is a hex dump is
               logged as the bytes it denotes; exception: the text after the first ": "; unsupported: the pieces between quotes)
     raw     - the message contains an operand byte that is not printable, unescaped (0x01)
   bits-equal kind (op bitseq): w = operand width in bytes, e/a/m = the 8 bytes of expected, actual and mask (most significant
   first), has_e/has_a - the message has an "expected <..>" / "but was <..>" field, eb/ab - the symbols of the two fields with
   blanks removed (0, 1, 2 = any other character).
   Memory safety / termination of the construction is observed by ASan and the deadline on the same executions. *)
EXTENDS FailMsg, Json, IOUtils
VARIABLE l
Tr == ndJsonDeserialize(IOEnv.TRACE)
E == Tr[l]
Is(op) == l <= Len(Tr) /\ Tr[l].op = op /\ l' = l + 1

StrKinds == {"streq", "nocase", "checkeq", "bineq", "equals", "contains", "exception", "unsupported"}
PosKinds == {"streq", "nocase", "checkeq", "bineq"}
Fields(ev) == [i \in 1..Len(ev.f) |-> Expand(ev.f[i])]
RowOK == LET v == Verdict(E.op, Expand(E.e), Expand(E.a), E.enull, E.anull) IN
         /\ E.safe          \* building the message was survived (no sanitizer report, no signal, no deadline)
         /\ (E.op \in PosKinds /\ ~v.free) => (E.haspos = v.haspos /\ (v.haspos => E.pos = v.pos))
         /\ ShowsBoth(E.op, E.e, E.a, E.enull, E.anull, Fields(E))
         /\ ~E.raw
BitsOK == /\ E.safe /\ E.has_e /\ E.has_a
          /\ E.w \in 1..8 /\ Len(E.e) = 8 /\ Len(E.a) = 8 /\ Len(E.m) = 8
          /\ ShowsOK(E.eb, E.e, E.m, E.w)
          /\ ShowsOK(E.ab, E.a, E.m, E.w)
TInit == l = 1 /\ u = 0
TNext == \/ /\ l <= Len(Tr) /\ Tr[l].op \in StrKinds /\ l' = l + 1
            /\ RowOK /\ UNCHANGED u
         \/ Is("bitseq") /\ BitsOK /\ UNCHANGED u
TReset == Is("reset") /\ UNCHANGED u
TSpec == TInit /\ [][TNext \/ TReset]_<<l, u>>
Accepted == TLCGet("stats").diameter - 1 = Len(Tr)

PNext == l <= Len(Tr) /\ Tr[l].op \in (StrKinds \cup {"bitseq"}) /\ l' = l + 1 /\ UNCHANGED u
PSpec == TInit /\ [][PNext \/ TReset]_<<l, u>>
Must(ev) == IF ev.op = "bitseq" THEN BitsVerdict(ev.e, ev.a, ev.m, ev.w)
            ELSE LET F == Fields(ev)
                     Exp == IF ev.op \in OneOperand THEN <<ShownForm(ev.op, ev.e)>> ELSE <<ShownForm(ev.op, ev.e), ShownForm(ev.op, ev.a)>>
                 IN [position |-> IF ev.op \in PosKinds THEN Verdict(ev.op, Expand(ev.e), Expand(ev.a), ev.enull, ev.anull) ELSE [haspos |-> FALSE, pos |-> 0, free |-> TRUE],
                     operands_must_be_fields |-> [i \in 1..Len(Exp) |-> [shown_length |-> Len(Exp[i]), is_a_field |-> \E j \in 1..Len(F) : F[j] = Exp[i]]],
                     field_lengths_observed |-> [j \in 1..Len(F) |-> Len(F[j])]]
Predict == (l > 1 /\ l - 1 >= atoi(IOEnv.FROM_LINE_N) /\ Tr[l - 1].op # "reset") =>
              PrintT(<<"BEH", ToJson([line |-> l - 1, must |-> Must(Tr[l - 1])])>>)
=============================================================================
