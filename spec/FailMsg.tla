------------------------------ MODULE FailMsg ------------------------------
(***************************************************************************)
(* The "difference starts at position N" part of CppUTest's failure        *)
(* messages (property C14, message part).                                  *)
(*                                                                         *)
(* Operands are strings = sequences of symbol codes (the harness owns the  *)
(* code <-> byte mapping: 1 'a', 2 'A', 3 'b', 4 backslash, 5 'n',         *)
(* 6 line feed, 7 byte 0x01); positions are 0-based; the end of a string   *)
(* counts as a terminator symbol 0 that differs from every code.           *)
(* FirstDiff is the textbook definition (least index at which the operands *)
(* differ), FirstDiffRec an independent recursive one; leg 1 checks over   *)
(* the whole operand lattice that they agree and satisfy the              *)
(* characteristic lemmas.  Failure kinds:                                  *)
(*   streq    StringEqualFailure       C strings, differ                   *)
(*   nocase   StringEqualNoCaseFailure C strings, differ ignoring case     *)
(*   checkeq  CheckEqualFailure        printed forms of two objects that   *)
(*                                     compared unequal: MAY BE EQUAL TEXT *)
(*   bineq    BinaryEqualFailure       byte blocks of one length, differ   *)
(* A NULL operand: no position is printed.                                 *)
(*                                                                         *)
(* "Shows both operands": every message delimits each operand it prints;   *)
(* the delimited pieces of the message are its fields.  ShowsBoth says     *)
(* that each (non-NULL) operand is the content of a field of its own, in   *)
(* its shown form: escaped (PrintedR) for the kinds that print C strings,  *)
(* as it is for the kinds whose operands are texts the caller rendered:    *)
(*   equals      EqualsFailure             two rendered texts (may coincide)*)
(*   contains    ContainsFailure           needle e, haystack a             *)
(*   exception   UnexpectedExceptionFailure one operand: the what() text    *)
(*   unsupported FeatureUnsupportedFailure  one operand: the feature name   *)
(* for every operand LENGTH: long operands are run-length encoded          *)
(* (<<symbol, count>> runs), so that lengths of hundreds or thousands of   *)
(* characters cost nothing to state; Expand / PrintedR work on runs.       *)
(* Characters of a message that are not in the operand alphabet have the   *)
(* code 100 + byte ('0' = 148, '1' = 149, blank = 132).                    *)
(***************************************************************************)
EXTENDS Integers, Sequences, FiniteSets, TLC
LOCAL INSTANCE SequencesExt       \* FoldLeft (evaluated iteratively by TLC: long operands do not nest evaluations)

CONSTANTS Syms, MaxLen,
          Widths,        \* operand widths in bytes of the bits-equal kind (subset of 1..8)
          Fills, BV,     \* lattice of 64-bit operands: every byte = a fill byte except one byte taken from BV
          AIdx,          \* byte indexes at which the second operand of a generated pair carries its BV byte
          MV             \* lattice of masks: all bytes 255 except one taken from MV, or all bytes 0 except one 255

Strs == UNION { [1..k -> Syms] : k \in 0..MaxLen }
MinOf(a, b) == IF a < b THEN a ELSE b
At(s, i) == IF i < Len(s) THEN s[i + 1] ELSE 0
Lower(c) == IF c = 2 THEN 1 ELSE c
LowerAll(s) == [i \in 1..Len(s) |-> Lower(s[i])]
Printable(c) == c \in {1, 2, 3, 4, 5, 8, 9}
AllPrintable(s) == \A i \in 1..Len(s) : Printable(s[i])

DiffSet(a, b) == { i \in 0..MinOf(Len(a), Len(b)) : At(a, i) # At(b, i) }
HasDiff(a, b) == DiffSet(a, b) # {}
FirstDiff(a, b) == CHOOSE i \in DiffSet(a, b) : \A j \in DiffSet(a, b) : i <= j
FirstDiffNC(a, b) == FirstDiff(LowerAll(a), LowerAll(b))
RECURSIVE FirstDiffRec(_, _)
FirstDiffRec(a, b) == IF a = <<>> \/ b = <<>> \/ Head(a) # Head(b) THEN 0 ELSE 1 + FirstDiffRec(Tail(a), Tail(b))

\* what a failure of the given kind must say about operands e (expected), a (actual):
\* [haspos, pos]; pos is irrelevant when haspos is FALSE; "free" = the statement does not constrain it
Verdict(kind, e, a, enull, anull) ==
    IF enull \/ anull THEN [haspos |-> FALSE, pos |-> 0, free |-> FALSE]
    ELSE IF kind = "nocase" THEN [haspos |-> TRUE, pos |-> FirstDiffNC(e, a), free |-> ~HasDiff(LowerAll(e), LowerAll(a))]
    ELSE [haspos |-> TRUE, pos |-> IF HasDiff(e, a) THEN FirstDiff(e, a) ELSE 0, free |-> ~HasDiff(e, a)]

-----------------------------------------------------------------------------
\* operands of any length as runs, and how an operand is shown
Rep(c, n) == [i \in 1..n |-> c]
RepSeq(q, n) == [i \in 1..(n * Len(q)) |-> q[((i - 1) % Len(q)) + 1]]
Expand(r) == FoldLeft(LAMBDA acc, run : acc \o Rep(run[1], run[2]), <<>>, r)
Runs(s) == [i \in 1..Len(s) |-> <<s[i], 1>>]
\* the escape of a symbol that is not printable: C notation (line feed -> backslash n, byte 0x01 -> backslash x 0 1); a backslash stays
Esc(c) == IF c = 6 THEN <<4, 5>> ELSE IF c = 7 THEN <<4, 8, 148, 149>> ELSE <<c>>
PrintedR(r) == FoldLeft(LAMBDA acc, run : acc \o RepSeq(Esc(run[1]), run[2]), <<>>, r)
Printed(s) == PrintedR(Runs(s))
Count(s, c) == Cardinality({ i \in 1..Len(s) : s[i] = c })
HasSub(s, t) == \E i \in 0..(Len(s) - Len(t)) : SubSeq(s, i + 1, i + Len(t)) = t        \* t occurs in s

Rendered == {"equals", "contains", "exception", "unsupported"}      \* operands are texts the caller rendered: shown as they are
OneOperand == {"exception", "unsupported"}
\* bineq: a field of a hex dump is compared as the bytes it denotes (the harness decodes "61 0A" into symbols)
ShownForm(kind, r) == IF kind \in Rendered \cup {"bineq"} THEN Expand(r) ELSE PrintedR(r)
\* F = the fields of the message (sequences of symbols); er, ar = the operands as runs
ShowsBoth(kind, er, ar, enull, anull, F) ==
    LET Ie == { i \in 1..Len(F) : F[i] = ShownForm(kind, er) }
        Ia == { i \in 1..Len(F) : F[i] = ShownForm(kind, ar) }
    IN IF kind \in OneOperand THEN Ie # {}
       ELSE /\ enull \/ Ie # {}
            /\ anull \/ Ia # {}
            /\ (~enull /\ ~anull) => \E i \in Ie, j \in Ia : i # j           \* each operand in a field of its own

-----------------------------------------------------------------------------
\* bits-equal kind.  A value: [1..8 -> 0..255], index 1 = most significant byte.  Symbols: 0, 1, X (don't care).
X == 2
BitAt(b, k) == (b \div (2 ^ (8 - k))) % 2                        \* k = 1 is the most significant bit of byte b
ByteIdx(w, p) == (8 - w) + ((p - 1) \div 8) + 1                   \* position p = 1..8w of a w-byte operand, most significant first
BitIdx(p) == ((p - 1) % 8) + 1
ValBit(v, w, p) == BitAt(v[ByteIdx(w, p)], BitIdx(p))
\* the design: what the field of operand v under mask m shows
Shown(v, m, w) == [p \in 1..(8 * w) |-> IF ValBit(m, w, p) = 1 THEN ValBit(v, w, p) ELSE X]
\* what the statement demands of an observed field (sequence of symbols, blanks removed)
ShowsOK(obs, v, m, w) ==
    /\ Len(obs) = 8 * w
    /\ \A p \in 1..(8 * w) : IF ValBit(m, w, p) = 1 THEN obs[p] = ValBit(v, w, p) ELSE obs[p] \in {X, ValBit(v, w, p)}
AndByte(x, y) == LET RECURSIVE S(_)
                     S(k) == IF k = 0 THEN 0 ELSE S(k - 1) + BitAt(x, k) * BitAt(y, k) * (2 ^ (8 - k)) IN S(8)
And8(v, m) == [j \in 1..8 |-> AndByte(v[j], m[j])]
Low(v, w) == SubSeq(v, 9 - w, 8)
Place(f, i, x) == [j \in 1..8 |-> IF j = i THEN x ELSE f]
Vals == { Place(f, i, x) : f \in Fills, i \in 1..8, x \in BV }
AVals == { Place(f, i, x) : f \in Fills, i \in AIdx, x \in BV }
Masks == { Place(255, i, z) : i \in 1..8, z \in MV } \cup { Place(0, i, 255) : i \in 1..8 }
BitsVerdict(e, a, m, w) == [eb |-> Shown(e, m, w), ab |-> Shown(a, m, w)]

-----------------------------------------------------------------------------
\* leg 1: the definitions are what they should be, on every pair of the lattice (a one-state specification)
VARIABLE u
Init == u = 0
Next == UNCHANGED u
Spec == Init /\ [][Next]_u
BitLemmas ==
    /\ \A x \in 0..255 : /\ AndByte(x, 255) = x /\ AndByte(x, 0) = 0
                          /\ x = LET RECURSIVE S(_)
                                     S(k) == IF k = 0 THEN 0 ELSE 2 * S(k - 1) + BitAt(x, k) IN S(8)     \* the 8 bits are the byte
    /\ \A w \in Widths, v1 \in Vals, v2 \in AVals, m \in Masks :
          /\ Len(Shown(v1, m, w)) = 8 * w
          /\ ShowsOK(Shown(v1, m, w), v1, m, w)
          \* the fields of two operands coincide exactly when the operands (low w bytes) agree under the mask:
          \* operands that differ in a compared bit are never printed alike
          /\ (Shown(v1, m, w) = Shown(v2, m, w)) <=> (Low(And8(v1, m), w) = Low(And8(v2, m), w))
          /\ (Low(And8(v1, m), w) # Low(And8(v2, m), w)) => ~ShowsOK(Shown(v1, m, w), v2, m, w)
ShownLemmas ==
    \A s \in Strs :
        /\ Expand(Runs(s)) = s
        /\ Len(Printed(s)) = Len(s) + Count(s, 6) + 3 * Count(s, 7)
        /\ (Printed(s) = s) <=> AllPrintable(s)
        /\ \A i \in 1..Len(Printed(s)) : Printed(s)[i] \notin {6, 7}                    \* nothing unprintable is left
        /\ \A n \in 0..3, c \in Syms : /\ Expand(<<<<c, n>>>> \o Runs(s)) = Rep(c, n) \o s
                                        /\ PrintedR(<<<<c, n>>>> \o Runs(s)) = RepSeq(Esc(c), n) \o Printed(s)
        \* a message that has the two shown forms as separate fields shows both; one that lost a field (or its end) does not
        /\ \A t \in Strs : /\ ShowsBoth("streq", Runs(s), Runs(t), FALSE, FALSE, <<Printed(s), Printed(t)>>)
                            /\ ~ShowsBoth("streq", Runs(s), Runs(t), FALSE, FALSE, <<Printed(s)>>)
                            /\ Printed(s \o t) = Printed(s) \o Printed(t)
Lemmas == BitLemmas /\ ShownLemmas /\ \A a \in Strs, b \in Strs :
             /\ HasDiff(a, b) <=> a # b
             /\ a # b => /\ FirstDiff(a, b) = FirstDiffRec(a, b)
                         /\ FirstDiff(a, b) = FirstDiff(b, a)
                         /\ FirstDiff(a, b) <= MinOf(Len(a), Len(b))
                         /\ \A j \in 0..(FirstDiff(a, b) - 1) : At(a, j) = At(b, j)   \* (empty range when 0)
                         /\ At(a, FirstDiff(a, b)) # At(b, FirstDiff(a, b))
             /\ HasDiff(LowerAll(a), LowerAll(b)) => FirstDiffNC(a, b) >= FirstDiff(a, b)      \* ignoring case can only postpone the difference
=============================================================================
