------------------------------ MODULE FailMsg ------------------------------
(***************************************************************************)
(* The "difference starts at position N" part of CppUTest's failure        *)
(* messages (property C14, message part).                                  *)
(*                                                                         *)
(* Operands are strings = sequences of symbol codes (the harness owns the  *)
(* code <-> byte mapping: 1 'a', 2 'A', 3 'b', 4 backslash, 5 'n',         *)
(* 6 line feed, 7 byte 0x01); positions are 0-based; the end of a string   *)
(* counts as a terminator symbol 0 that differs from every code.           *)
(* FirstDiff is the textbook definition (least index at which the operands *)
(* differ), FirstDiffRec an independent recursive one; leg 1 checks over   *)
(* the whole operand lattice that they agree and satisfy the              *)
(* characteristic lemmas.  Failure kinds:                                  *)
(*   streq    StringEqualFailure       C strings, differ                   *)
(*   nocase   StringEqualNoCaseFailure C strings, differ ignoring case     *)
(*   checkeq  CheckEqualFailure        printed forms of two objects that   *)
(*                                     compared unequal: MAY BE EQUAL TEXT *)
(*   bineq    BinaryEqualFailure       byte blocks of one length, differ   *)
(* A NULL operand: no position is printed.                                 *)
(***************************************************************************)
EXTENDS Integers, Sequences, FiniteSets, TLC

CONSTANTS Syms, MaxLen

Strs == UNION { [1..k -> Syms] : k \in 0..MaxLen }
Min(a, b) == IF a < b THEN a ELSE b
At(s, i) == IF i < Len(s) THEN s[i + 1] ELSE 0
Lower(c) == IF c = 2 THEN 1 ELSE c
LowerAll(s) == [i \in 1..Len(s) |-> Lower(s[i])]
Printable(c) == c \in {1, 2, 3, 4, 5}
AllPrintable(s) == \A i \in 1..Len(s) : Printable(s[i])

DiffSet(a, b) == { i \in 0..Min(Len(a), Len(b)) : At(a, i) # At(b, i) }
HasDiff(a, b) == DiffSet(a, b) # {}
FirstDiff(a, b) == CHOOSE i \in DiffSet(a, b) : \A j \in DiffSet(a, b) : i <= j
FirstDiffNC(a, b) == FirstDiff(LowerAll(a), LowerAll(b))
RECURSIVE FirstDiffRec(_, _)
FirstDiffRec(a, b) == IF a = <<>> \/ b = <<>> \/ Head(a) # Head(b) THEN 0 ELSE 1 + FirstDiffRec(Tail(a), Tail(b))

\* what a failure of the given kind must say about operands e (expected), a (actual):
\* [haspos, pos]; pos is irrelevant when haspos is FALSE; "free" = the statement does not constrain it
Verdict(kind, e, a, enull, anull) ==
    IF enull \/ anull THEN [haspos |-> FALSE, pos |-> 0, free |-> FALSE]
    ELSE IF kind = "nocase" THEN [haspos |-> TRUE, pos |-> FirstDiffNC(e, a), free |-> ~HasDiff(LowerAll(e), LowerAll(a))]
    ELSE [haspos |-> TRUE, pos |-> IF HasDiff(e, a) THEN FirstDiff(e, a) ELSE 0, free |-> ~HasDiff(e, a)]

-----------------------------------------------------------------------------
\* leg 1: the definitions are what they should be, on every pair of the lattice (a one-state specification)
VARIABLE u
Init == u = 0
Next == UNCHANGED u
Spec == Init /\ [][Next]_u
Lemmas == \A a \in Strs, b \in Strs :
             /\ HasDiff(a, b) <=> a # b
             /\ a # b => /\ FirstDiff(a, b) = FirstDiffRec(a, b)
                         /\ FirstDiff(a, b) = FirstDiff(b, a)
                         /\ FirstDiff(a, b) <= Min(Len(a), Len(b))
                         /\ \A j \in 0..(FirstDiff(a, b) - 1) : At(a, j) = At(b, j)   \* (empty range when 0)
                         /\ At(a, FirstDiff(a, b)) # At(b, FirstDiff(a, b))
             /\ HasDiff(LowerAll(a), LowerAll(b)) => FirstDiffNC(a, b) >= FirstDiff(a, b)      \* ignoring case can only postpone the difference
=============================================================================
