---------------------------- MODULE Trace_MemReport ----------------------------
EXTENDS MemReport, Json, IOUtils
VARIABLE l
tvars == <<vars, l>>
Tr == ndJsonDeserialize(IOEnv.TRACE)
E == Tr[l]
Is(op) == l <= Len(Tr) /\ Tr[l].op = op /\ l' = l + 1
Norm(s) == [i \in 1..Len(s) |-> Ev(s[i].k, s[i].g, s[i].fam, s[i].sz)]
TInit == Init /\ l = 1
TTest == Is("test") /\ RunTest(E.g, E.ops, E.nextg) /\ Norm(E.ev) = events' /\ E.restored
TOutside == Is("outside") /\ Outside /\ E.ev = <<>> /\ E.restored
TReset == Is("reset") /\ curGroup' = "" /\ open' = FALSE /\ events' = <<>> /\ wrapped' = FALSE
TSpec == TInit /\ [][TTest \/ TOutside \/ TReset]_tvars
Accepted == TLCGet("stats").diameter - 1 = Len(Tr)
TInv == Bracketed /\ NotWrappedBetweenTests
PTest == Is("test") /\ RunTest(E.g, E.ops, E.nextg)
PSpec == TInit /\ [][PTest \/ (Is("outside") /\ Outside) \/ TReset]_tvars
Predict == (l > 1 /\ l - 1 >= atoi(IOEnv.FROM_LINE_N)) => PrintT(<<"BEH", ToJson([line |-> l - 1, events |-> events])>>)
=============================================================================
