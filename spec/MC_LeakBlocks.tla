---------------------------- MODULE MC_LeakBlocks ----------------------------
(* Model-checking menus for LeakBlocks (configuration files cannot contain records or tuples). *)
EXTENDS LeakBlocks
\* C06: no huge sizes, no faults
NoBig == {}
NoPairs == {}
\* C05: sizes at the top of the range (SIZE_MAX-k for the k around guard/alignment/record overflow), powers of two
BigTop == { T(k) : k \in {0, 1, 2, 3, 4, 7, 8, 10, 11, 63} } \cup {P(63, 0), P(32, 0), P(63, -1)}
BigFew == {T(0), T(2), T(3), T(10), P(63, 0)}
BigSome == {T(0), T(1), T(2), T(3), T(7), T(8), T(10), T(63), P(63, 0), P(32, 0), P(63, -1)}
PairsAll == { <<S(0), S(0)>>, <<S(0), T(0)>>, <<T(0), S(0)>>, <<S(1), S(5)>>, <<S(3), S(3)>>, <<S(2), S(4)>>,
              <<P(63, 0), S(2)>>, <<S(2), P(63, 0)>>, <<P(62, 0), S(4)>>, <<P(32, 0), P(32, 0)>>, <<P(63, 1), S(2)>>,
              <<P(61, 1), S(8)>>, <<T(0), S(2)>>, <<T(5), S(1)>>, <<P(32, -1), P(32, 0)>>, <<P(33, 0), P(31, 0)>>,
              <<P(31, 0), P(32, 0)>> }
PairsFew == { <<S(0), T(0)>>, <<S(2), S(4)>>, <<P(63, 0), S(2)>>, <<P(32, 0), P(32, 0)>> }
PairsSome == PairsFew \cup { <<S(3), S(3)>>, <<P(63, 1), S(2)>>, <<T(0), S(2)>>, <<P(32, -1), P(32, 0)>>, <<S(0), S(0)>>, <<T(5), S(1)>> }
NsAll == {S(0), S(1), S(2), S(5), T(0), P(63, 0)}
NsFew == {S(1), T(0)}
=============================================================================
