---------------------------- MODULE PluginChain ----------------------------
(* TestRegistry's plugin chain (C17, second half): installPlugin prepends, removePluginByName removes exactly
   the plugin with that name wherever it is, enable/disable by name, pre actions run head first over the
   enabled plugins and post actions in the exact reverse. Names are unique (a plugin object is installed at most once). *)
EXTENDS Naturals, Sequences, FiniteSets, TLC
CONSTANTS Names
VARIABLES chain,     \* Seq([name, enabled]), head first
          en,        \* the enabled flag of every plugin OBJECT, installed or not: a fresh TestPlugin is enabled, and the flag belongs to
                     \* the object - installing, removing and re-installing it leave the flag as it is
          res        \* observation of the last call
vars == <<chain, en, res>>

InChain == { chain[i].name : i \in 1..Len(chain) }
Init == chain = <<>> /\ en = [n \in Names |-> TRUE] /\ res = "ok"
Install(n) == n \notin InChain /\ chain' = <<[name |-> n, enabled |-> en[n]]>> \o chain /\ res' = "ok" /\ UNCHANGED en
Remove(n) == chain' = SelectSeq(chain, LAMBDA p : p.name # n) /\ res' = "ok" /\ UNCHANGED en
\* through the registry: getPluginByName(n)->enable() / disable(); reaches installed plugins only
SetEnabled(n, b) ==
    /\ chain' = [i \in 1..Len(chain) |-> IF chain[i].name = n THEN [chain[i] EXCEPT !.enabled = b] ELSE chain[i]]
    /\ en' = IF n \in InChain THEN [en EXCEPT ![n] = b] ELSE en
    /\ res' = IF n \in InChain THEN "found" ELSE "missing"
\* on the object itself (TestPlugin::enable / disable), whether it is installed or not
ObjSetEnabled(n, b) ==
    /\ chain' = [i \in 1..Len(chain) |-> IF chain[i].name = n THEN [chain[i] EXCEPT !.enabled = b] ELSE chain[i]]
    /\ en' = [en EXCEPT ![n] = b] /\ res' = "ok"
\* an installed, enabled plugin removes itself from the registry from inside its own pre action (a one-shot plugin).  The walk that is under
\* way still reaches every plugin installed before it - they are installed, so they see this test's pre action - and the post walk, which
\* starts afterwards, runs over the chain without it.  (A plugin that is not installed or is disabled is never asked: nothing happens.)
PreRemove(n) ==
    /\ chain' = IF \E i \in 1..Len(chain) : chain[i].name = n /\ chain[i].enabled THEN SelectSeq(chain, LAMBDA p : p.name # n) ELSE chain
    /\ res' = "ok" /\ UNCHANGED en
Next == \E n \in Names : \/ Install(n) \/ Remove(n) \/ SetEnabled(n, TRUE) \/ SetEnabled(n, FALSE)
                         \/ ObjSetEnabled(n, TRUE) \/ ObjSetEnabled(n, FALSE) \/ PreRemove(n)
Spec == Init /\ [][Next]_vars

EnabledNames(c) == [i \in 1..Len(SelectSeq(c, LAMBDA p : p.enabled)) |-> SelectSeq(c, LAMBDA p : p.enabled)[i].name]
RevSeq(s) == [i \in 1..Len(s) |-> s[Len(s) + 1 - i]]
PreOrder(c) == EnabledNames(c)
PostOrder(c) == RevSeq(EnabledNames(c))
Count(c) == Len(c)

FlagIsTheObjects == \A i \in 1..Len(chain) : chain[i].enabled = en[chain[i].name]
NoDup == \A i, j \in 1..Len(chain) : i # j => chain[i].name # chain[j].name
PostIsReverseOfPre == PostOrder(chain) = RevSeq(PreOrder(chain))
RemoveExact == [][\A n \in Names : (n \in InChain /\ n \notin { chain'[i].name : i \in 1..Len(chain') })
                       => { chain'[i].name : i \in 1..Len(chain') } = InChain \ {n}]_vars
=============================================================================
