---------------------------- MODULE PluginChain ----------------------------
(* TestRegistry's plugin chain (C17, second half): installPlugin prepends, removePluginByName removes exactly
   the plugin with that name wherever it is, enable/disable by name, pre actions run head first over the
   enabled plugins and post actions in the exact reverse. Names are unique (a plugin object is installed at most once). *)
EXTENDS Naturals, Sequences, FiniteSets, TLC
CONSTANTS Names
VARIABLES chain,     \* Seq([name, enabled]), head first
          res        \* observation of the last call
vars == <<chain, res>>

InChain == { chain[i].name : i \in 1..Len(chain) }
Init == chain = <<>> /\ res = "ok"
Install(n) == n \notin InChain /\ chain' = <<[name |-> n, enabled |-> TRUE]>> \o chain /\ res' = "ok"
Remove(n) == chain' = SelectSeq(chain, LAMBDA p : p.name # n) /\ res' = "ok"
SetEnabled(n, b) ==
    /\ chain' = [i \in 1..Len(chain) |-> IF chain[i].name = n THEN [chain[i] EXCEPT !.enabled = b] ELSE chain[i]]
    /\ res' = IF n \in InChain THEN "found" ELSE "missing"
Next == \E n \in Names : Install(n) \/ Remove(n) \/ SetEnabled(n, TRUE) \/ SetEnabled(n, FALSE)
Spec == Init /\ [][Next]_vars

EnabledNames(c) == [i \in 1..Len(SelectSeq(c, LAMBDA p : p.enabled)) |-> SelectSeq(c, LAMBDA p : p.enabled)[i].name]
RevSeq(s) == [i \in 1..Len(s) |-> s[Len(s) + 1 - i]]
PreOrder(c) == EnabledNames(c)
PostOrder(c) == RevSeq(EnabledNames(c))
Count(c) == Len(c)

NoDup == \A i, j \in 1..Len(chain) : i # j => chain[i].name # chain[j].name
PostIsReverseOfPre == PostOrder(chain) = RevSeq(PreOrder(chain))
RemoveExact == [][\A n \in Names : (n \in InChain /\ n \notin { chain'[i].name : i \in 1..Len(chain') })
                       => { chain'[i].name : i \in 1..Len(chain') } = InChain \ {n}]_vars
=============================================================================
