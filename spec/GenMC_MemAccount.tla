---- MODULE GenMC_MemAccount ----
EXTENDS Gen_MemAccount
CC == {{4}, {4, 8}, {2, 8, 16}}
CCbig == {{4}, {4, 8}, {2, 8, 16}, {1, 3, 5, 64}, {16}, {100, 7, 9}}
====
