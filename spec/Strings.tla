------------------------------- MODULE Strings -------------------------------
(***************************************************************************)
(* Textbook operations on byte strings, shared by Checks (C03),            *)
(* SimpleStr (C13), CmdLine (C12) and the filter semantics of TestRun.     *)
(*                                                                         *)
(* A string is a finite sequence of byte values (naturals 1..255; C        *)
(* strings cannot contain 0, memory blocks may).  Every operator is the    *)
(* plain mathematical definition (quantification over positions), NOT a    *)
(* transcription of CppUTest's loops.  Names avoid the ones defined by     *)
(* SequencesExt (Contains, IsPrefix, IsSuffix, ReplaceAll, Last, Front...) *)
(***************************************************************************)
LOCAL INSTANCE Naturals
LOCAL INSTANCE Integers
LOCAL INSTANCE Sequences
LOCAL INSTANCE FiniteSets

Min2(a, b) == IF a <= b THEN a ELSE b
Max2(a, b) == IF a >= b THEN a ELSE b

\* first n elements (all of s when n >= Len(s)); elements from position n+1 on
TakeN(s, n) == SubSeq(s, 1, Min2(n, Len(s)))
DropN(s, n) == IF n >= Len(s) THEN <<>> ELSE SubSeq(s, n + 1, Len(s))

StartsWith(s, p) == Len(p) <= Len(s) /\ SubSeq(s, 1, Len(p)) = p
EndsWith(s, p)   == Len(p) <= Len(s) /\ SubSeq(s, Len(s) - Len(p) + 1, Len(s)) = p

\* sub occurs in s at (1-based) position i
OccursAt(s, sub, i) == i >= 1 /\ i + Len(sub) - 1 <= Len(s) /\ SubSeq(s, i, i + Len(sub) - 1) = sub
\* positions at which sub occurs
Occurrences(s, sub) == { i \in 1..(Len(s) + 1) : OccursAt(s, sub, i) }
HasSub(s, sub) == \E i \in 1..(Len(s) + 1) : OccursAt(s, sub, i)

\* ASCII lower-casing, bytes outside 'A'..'Z' (incl. >= 0x80) are untouched
LowerCh(c) == IF c >= 65 /\ c <= 90 THEN c + 32 ELSE c
Lower(s) == [i \in 1..Len(s) |-> LowerCh(s[i])]
EqNoCase(s, t) == Lower(s) = Lower(t)
HasSubNoCase(s, sub) == HasSub(Lower(s), Lower(sub))

\* sign of the lexicographic comparison by unsigned byte value (strcmp): -1, 0, 1
CmpSign(s, t) ==
    LET n == Min2(Len(s), Len(t))
        D == { i \in 1..n : s[i] # t[i] } IN
    IF D = {} THEN (IF Len(s) < Len(t) THEN -1 ELSE IF Len(s) > Len(t) THEN 1 ELSE 0)
    ELSE LET i == CHOOSE k \in D : \A j \in D : k <= j IN IF s[i] < t[i] THEN -1 ELSE 1
\* strncmp: comparison of the first n bytes
CmpSignN(s, t, n) == CmpSign(TakeN(s, n), TakeN(t, n))

\* s repeated n times (written without recursion: TLC's stack is shallow)
Rep(s, n) == IF n = 0 \/ s = <<>> THEN <<>> ELSE [i \in 1..(n * Len(s)) |-> s[((i - 1) % Len(s)) + 1]]

\* 0-based position of the first element equal to c at or after 0-based position from; -1 if none
FindFrom(s, from, c) ==
    LET P == { i \in (from + 1)..Len(s) : s[i] = c } IN
    IF P = {} THEN -1 ELSE (CHOOSE i \in P : \A j \in P : i <= j) - 1
Find(s, c) == FindFrom(s, 0, c)

\* every element equal to a replaced by b
ReplaceChar(s, a, b) == [i \in 1..Len(s) |-> IF s[i] = a THEN b ELSE s[i]]

\* Non-overlapping occurrences of `to' (non-empty) scanned left to right: the textbook meaning
\* of "replace every occurrence".  Scan(s, to, i) = positions chosen from position i on.
RECURSIVE ScanFrom(_, _, _)
ScanFrom(s, to, i) ==
    IF i + Len(to) - 1 > Len(s) THEN <<>>
    ELSE IF OccursAt(s, to, i) THEN <<i>> \o ScanFrom(s, to, i + Len(to))
    ELSE ScanFrom(s, to, i + 1)
NonOverlapping(s, to) == ScanFrom(s, to, 1)

RECURSIVE ReplFrom(_, _, _, _)
ReplFrom(s, to, with, i) ==
    IF i > Len(s) THEN <<>>
    ELSE IF OccursAt(s, to, i) THEN with \o ReplFrom(s, to, with, i + Len(to))
    ELSE <<s[i]>> \o ReplFrom(s, to, with, i + 1)
\* replacing the empty pattern leaves the string unchanged
ReplaceSub(s, to, with) == IF to = <<>> THEN s ELSE ReplFrom(s, to, with, 1)

\* CppUTest's count(): number of positions at which sub occurs (overlapping occurrences are
\* counted; the empty pattern occurs once per byte of s) -- fixed by SimpleStringTest.cpp (Count...)
CountSub(s, sub) == IF sub = <<>> THEN Len(s) ELSE Cardinality({ i \in 1..Len(s) : OccursAt(s, sub, i) })

\* CppUTest's split(): pieces end WITH the delimiter (kept), a last piece without delimiter
\* is added when the string does not end with the delimiter.  Pieces are cut at non-overlapping
\* occurrences scanned left to right.
RECURSIVE SplitFrom(_, _, _, _)
SplitFrom(s, d, i, start) ==
    IF i + Len(d) - 1 > Len(s) THEN (IF start > Len(s) THEN <<>> ELSE <<SubSeq(s, start, Len(s))>>)
    ELSE IF OccursAt(s, d, i) THEN <<SubSeq(s, start, i + Len(d) - 1)>> \o SplitFrom(s, d, i + Len(d), i + Len(d))
    ELSE SplitFrom(s, d, i + 1, start)
SplitBy(s, d) == IF d = <<>> THEN (IF s = <<>> THEN <<>> ELSE <<s>>) ELSE SplitFrom(s, d, 1, 1)

\* concatenation of a sequence of sequences (divide and conquer: recursion depth log n, TLC's stack is shallow)
RECURSIVE FlattenSeqs(_)
FlattenSeqs(ss) == IF Len(ss) = 0 THEN <<>>
                   ELSE IF Len(ss) = 1 THEN ss[1]
                   ELSE LET h == Len(ss) \div 2 IN FlattenSeqs(SubSeq(ss, 1, h)) \o FlattenSeqs(SubSeq(ss, h + 1, Len(ss)))

\* all sequences over S of length <= n
SeqsUpTo(S, n) == UNION { [1..k -> S] : k \in 0..n }

\* decimal digits of a natural, as byte values
RECURSIVE Digits(_)
Digits(n) == IF n < 10 THEN <<48 + n>> ELSE Digits(n \div 10) \o <<48 + (n % 10)>>
=============================================================================
