---------------------------- MODULE Gen_FailAlloc ----------------------------
(* Behaviour generation for C15: the calls of FailAlloc with a history variable (calls and arguments
   only).  `via' says through which door the real allocation is made: for the failable allocator
   "direct" (alloc_memory), "new" / "newarray" (operator new / new[] with the allocator installed);
   for the C interface the function name.  Consumption follows the ideal choice (all matching
   designations), which does not change the set of call sequences.  `Ops' = the calls a configuration
   explores (the C interface needs Fns # {} as well), so that one family of calls can be taken deeper.
   For "install", `via' names the allocator the test installs as its malloc allocator. *)
EXTENDS FailAlloc, Json
CONSTANTS D, Vias, Fns, Ops
VARIABLES h, done
gvars == <<vars, h, done>>

Call(op, via, loc, n) == h' = Append(h, [op |-> op, via |-> via, loc |-> loc, n |-> n])

GInit == Init /\ h = <<>> /\ done = FALSE
GStep == /\ Len(h) < D /\ UNCHANGED done
         /\ \/ \E n \in Ns : "failnum" \in Ops /\ Len(pending) < MaxPending /\ FailNumber(n) /\ Call("failnum", "", 0, n)
            \/ \E n \in Ns, x \in Locs : "failat" \in Ops /\ Len(pending) < MaxPending /\ FailAt(x, n) /\ Call("failat", "", x, n)
            \/ \E x \in Locs, v \in Vias : "alloc" \in Ops /\ Alloc(x, Matching(x)) /\ Call("alloc", v, x, 0)
            \/ "checkdone" \in Ops /\ CheckDone /\ Call("checkdone", "", 0, 0)
            \/ "clear" \in Ops /\ (pending # <<>> \/ count > 0) /\ Clear /\ Call("clear", "", 0, 0)
            \/ \E n \in Countdowns \cup {-1} : "countdown" \in Ops /\ Fns # {} /\ Countdown(n) /\ Call("countdown", "", 0, n)
            \* "setoom" = only when not out of memory; "setoom-again" = whenever (a second entry into the simulation before the clear)
            \/ ("setoom-again" \in Ops \/ ("setoom" \in Ops /\ ~oom)) /\ Fns # {} /\ SetOOM /\ Call("setoom", "", 0, 0)
            \* "setnotoom" = only when something is armed; "setnotoom-any" = whenever (a clear with nothing to clear, e.g. a defensive teardown)
            \/ ("setnotoom-any" \in Ops \/ ("setnotoom" \in Ops /\ (oom \/ cd >= 0))) /\ Fns # {} /\ SetNotOOM /\ Call("setnotoom", "", 0, 0)
            \* the test changes its malloc allocator (to the other one)
            \/ \E a \in Allocators : "install" \in Ops /\ Fns # {} /\ a # sel /\ Install(a) /\ Call("install", a, 0, 0)
            \/ \E f \in Fns, x \in Locs : "c" \in Ops /\ CAlloc(f, x, Matching(x)) /\ Call("c", f, x, 0)
            \* the statistics calls (a read not twice in a row)
            \/ "countreset" \in Ops /\ Fns # {} /\ CountReset /\ Call("countreset", "", 0, 0)
            \/ "getcount" \in Ops /\ Fns # {} /\ last.op # "getcount" /\ GetCount /\ Call("getcount", "", 0, 0)
\* a single deterministic closing step, so that simulation prints each sampled behaviour once
GEnd == Len(h) = D /\ ~done /\ done' = TRUE /\ UNCHANGED <<vars, h>>
GNext == GStep \/ GEnd
GSpec == GInit /\ [][GNext]_gvars
Dump == done => PrintT(<<"BEH", ToJson(h)>>)
=============================================================================
