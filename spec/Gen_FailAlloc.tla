---------------------------- MODULE Gen_FailAlloc ----------------------------
(* Behaviour generation for C15: the calls of FailAlloc with a history variable (calls and arguments
   only).  `via' says through which door the real allocation is made: for the failable allocator
   "direct" (alloc_memory), "new" / "newarray" (operator new / new[] with the allocator installed);
   for the C interface the function name.  Consumption follows the ideal choice (all matching
   designations), which does not change the set of call sequences. *)
EXTENDS FailAlloc, Json
CONSTANTS D, Vias, Fns
VARIABLES h, done
gvars == <<vars, h, done>>

Call(op, via, loc, n) == h' = Append(h, [op |-> op, via |-> via, loc |-> loc, n |-> n])

GInit == Init /\ h = <<>> /\ done = FALSE
GStep == /\ Len(h) < D /\ UNCHANGED done
         /\ \/ \E n \in Ns : Len(pending) < MaxPending /\ FailNumber(n) /\ Call("failnum", "", 0, n)
            \/ \E n \in Ns, x \in Locs : Len(pending) < MaxPending /\ FailAt(x, n) /\ Call("failat", "", x, n)
            \/ \E x \in Locs, v \in Vias : Alloc(x, Matching(x)) /\ Call("alloc", v, x, 0)
            \/ CheckDone /\ Call("checkdone", "", 0, 0)
            \/ (pending # <<>> \/ count > 0) /\ Clear /\ Call("clear", "", 0, 0)
            \/ \E n \in Countdowns \cup {-1} : Fns # {} /\ Countdown(n) /\ Call("countdown", "", 0, n)
            \/ Fns # {} /\ ~oom /\ SetOOM /\ Call("setoom", "", 0, 0)
            \/ Fns # {} /\ (oom \/ cd >= 0) /\ SetNotOOM /\ Call("setnotoom", "", 0, 0)
            \/ \E f \in Fns, x \in Locs : CAlloc(f, x, Matching(x)) /\ Call("c", f, x, 0)
\* a single deterministic closing step, so that simulation prints each sampled behaviour once
GEnd == Len(h) = D /\ ~done /\ done' = TRUE /\ UNCHANGED <<vars, h>>
GNext == GStep \/ GEnd
GSpec == GInit /\ [][GNext]_gvars
Dump == done => PrintT(<<"BEH", ToJson(h)>>)
=============================================================================
