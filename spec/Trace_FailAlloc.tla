---------------------------- MODULE Trace_FailAlloc ----------------------------
(* Trace validation for C15: the ndjson log recorded from the real FailableMemoryAllocator and the real
   cpputest_malloc_* interface must be a behaviour of FailAlloc.  Bound per call: res = what the caller
   saw ("ok" = non-NULL, "null" = NULL or std::bad_alloc, "reported" = the were-all-done check failed the
   test, "none").  The value cpputest_malloc_get_count returns after the call is logged too (count) and predicted (Predict: count_read) as a
   diagnostic, but not bound: C15 fixes which allocations fail, not what the statistics counter counts (e.g. whether failed requests count).  Which of several coinciding designations an allocation uses up is not logged: TLC
   searches the choices the specification leaves open.  Which allocator is the current malloc allocator after the call is logged (cur) and
   predicted (Predict: current) as a diagnostic, not bound either: the statement fixes the results of the allocations, not the mechanism (an
   implementation may simulate out-of-memory without swapping allocators).  The harness never re-installs an allocator on its own: only `install'
   lines (and reset) do, so which allocator serves the allocations after set_not_out_of_memory is the code's doing. *)
EXTENDS FailAlloc, Json, IOUtils
VARIABLE l
tvars == <<vars, l>>
Tr == ndJsonDeserialize(IOEnv.TRACE)
E == Tr[l]
Is(op) == l <= Len(Tr) /\ Tr[l].op = op /\ l' = l + 1

Walk == \/ Is("failnum") /\ FailNumber(E.n)
        \/ Is("failat") /\ FailAt(E.loc, E.n)
        \/ Is("alloc") /\ \E C \in SUBSET Matching(E.loc) : Alloc(E.loc, C)
        \/ Is("checkdone") /\ CheckDone
        \/ Is("clear") /\ Clear
        \/ Is("countdown") /\ Countdown(E.n)
        \/ Is("setoom") /\ SetOOM
        \/ Is("setnotoom") /\ SetNotOOM
        \/ Is("install") /\ E.via \in Allocators /\ Install(E.via)
        \/ Is("countreset") /\ CountReset
        \/ Is("getcount") /\ GetCount
        \/ Is("c") /\ E.via \in CFns /\ \E C \in SUBSET Matching(E.loc) : CAlloc(E.via, E.loc, C)

TInit == Init /\ l = 1
ObsOK(res, cnt) == res = E.res
TNext == Walk /\ ObsOK(last'.res, mc')
\* executions are concatenated with reset lines (fresh allocator, injections cleared, statistics reset)
TReset == /\ Is("reset") /\ pending' = <<>> /\ count' = 0 /\ todo' = {} /\ lc' = [x \in Locs |-> 0]
          /\ cd' = -1 /\ oom' = FALSE /\ sel' = "failable" /\ cn' = -1 /\ cseen' = 0 /\ forced' = FALSE /\ mc' = 0
          /\ last' = Outcome("init", "none", FALSE)
TSpec == TInit /\ [][TNext \/ TReset]_tvars
Accepted == TLCGet("stats").diameter - 1 = Len(Tr)
TInv == /\ ExactlyDesignated /\ ReportsUndone /\ PendingLive /\ ClearRestores
        /\ CountdownFires /\ CountdownNotEarly /\ NotOomRestores /\ CountResetZeroes

\* diagnostics: the same walk without binding the observations; prints what the specification predicts
PSpec == TInit /\ [][Walk \/ TReset]_tvars
Predict == (l > 1 /\ l - 1 >= atoi(IOEnv.FROM_LINE_N)) =>
              PrintT(<<"BEH", ToJson([line |-> l - 1, last |-> last, pending |-> pending, count |-> count, cd |-> cd, oom |-> oom, current |-> Current, count_read |-> mc])>>)
=============================================================================
