SPECIFICATION Spec
CONSTANTS
  Addrs = {0, 3, 6, 1}
  P = 3
  MaxSeq = 3
  Kinds = {"new", "malloc"}
  Sizes = {1}
  MaxStage = 1
INVARIANTS TypeOK Refines NoDupAddr ChainsDisjoint InRightBucket TotalsExact ReportExact SeqUnique SeqBelowCounter
CHECK_DEADLOCK FALSE
