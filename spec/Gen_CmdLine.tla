------------------------------ MODULE Gen_CmdLine ------------------------------
(* Generation for C12 (behaviours of length one): every argument vector of exactly IOEnv.LEN tokens over the token
   alphabet is written as one ndjson row to IOEnv.OUT (the vector only; its meaning is computed by Trace_CmdLine when
   the log recorded from the real parser and runner is validated); IOEnv.PROBE receives the probe registry. *)
EXTENDS CmdLineLattice, Json, IOUtils, SequencesExt
\* IOEnv.LEN = "num": the numeric vectors (counts and seeds over the whole documented range and outside it)
\* IOEnv.LEN = "words": the word registry (every pair of words of <= IOEnv.WLEN letters) as probe, and every vector of one filter
\*                      option whose text is a word (pair of words) of <= IOEnv.FLEN letters
\*                    that run also writes IOEnv.CLOCKOUT: rows [tok, clock] - the vectors whose meaning involves the clock, each at
\*                    every clock reading (ClockRows)
IsWords == IOEnv.LEN = "words"
ASSUME IOEnv.LEN # "num" \/ ndJsonSerialize(IOEnv.CLOCKOUT, SetToSeq(ClockRows))
ASSUME ndJsonSerialize(IOEnv.PROBE, <<[tests |-> IF IsWords THEN SetToSeq(WordTests(atoi(IOEnv.WLEN))) ELSE Probe]>>)
ASSUME ndJsonSerialize(IOEnv.OUT, SetToSeq({ [tok |-> v] : v \in (IF IOEnv.LEN = "num" THEN NumVectors
                                                                  ELSE IF IsWords THEN WordVectors(atoi(IOEnv.FLEN))
                                                                  ELSE VectorsOfLen(atoi(IOEnv.LEN))) }))
GSpec == Start(<<>>) /\ [][UNCHANGED vars]_vars
=============================================================================
