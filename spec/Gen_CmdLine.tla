------------------------------ MODULE Gen_CmdLine ------------------------------
(* Generation for C12 (behaviours of length one): every argument vector of exactly IOEnv.LEN tokens over the token
   alphabet is written as one ndjson row to IOEnv.OUT (the vector only; its meaning is computed by Trace_CmdLine when
   the log recorded from the real parser and runner is validated); IOEnv.PROBE receives the probe registry. *)
EXTENDS CmdLineLattice, Json, IOUtils, SequencesExt
ASSUME ndJsonSerialize(IOEnv.PROBE, <<[tests |-> Probe]>>)
\* IOEnv.LEN = "num": the numeric vectors (counts and seeds over the whole documented range and outside it)
ASSUME ndJsonSerialize(IOEnv.OUT, SetToSeq({ [tok |-> v] : v \in (IF IOEnv.LEN = "num" THEN NumVectors ELSE VectorsOfLen(atoi(IOEnv.LEN))) }))
GSpec == Start(<<>>) /\ [][UNCHANGED vars]_vars
=============================================================================
