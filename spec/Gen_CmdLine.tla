------------------------------ MODULE Gen_CmdLine ------------------------------
(* Generation for C12 (behaviours of length one): every argument vector of exactly IOEnv.LEN tokens over the token
   alphabet is written as one ndjson row to IOEnv.OUT (the vector only; its meaning is computed by Trace_CmdLine when
   the log recorded from the real parser and runner is validated); IOEnv.PROBE receives the probe registry. *)
EXTENDS CmdLineLattice, Json, IOUtils, SequencesExt
ASSUME ndJsonSerialize(IOEnv.PROBE, <<[tests |-> Probe]>>)
ASSUME ndJsonSerialize(IOEnv.OUT, SetToSeq({ [tok |-> v] : v \in VectorsOfLen(atoi(IOEnv.LEN)) }))
GSpec == Start(<<>>) /\ [][UNCHANGED vars]_vars
=============================================================================
