---------------------------- MODULE Gen_SepProcess ----------------------------
(* Behaviour generation for C11 (stubbed fork/waitpid): SepProcess's actions with a history variable of the calls and
   the outcomes the environment hands to the parent.  EINTR results come in bursts whose lengths are taken from
   Bursts (0, 1, and around the retry bound), chosen after fork and after every stop - otherwise the interleavings of
   up to RetryBound+2 interruptions with stops would swamp the enumeration.
   The history starts with the calls on the registry (tests of every kind added, options set, in every order), and after a
   run the registry may be changed and run again (up to MaxRuns runs); a history ends after a run.  Where the specification
   leaves a choice (ignored tests in a run without the separate-process option) the scripts follow the intended design.
   A test that executes in the runner passes or fails a check, and plugins report r more failures about it (r in Reps); with
   stubbed fork/waitpid the code of a forked test never runs, so there its behaviour is NoBeh. *)
EXTENDS SepProcess, Json
CONSTANTS Bursts,   \* lengths of EINTR bursts
          Faults,   \* BOOLEAN: fork / waitpid errors are generated too
          Reps      \* numbers of failures reported by plugin actions about one test
VARIABLES h, fin, burst
gvars == <<vars, h, fin, burst>>

Step(op, a, b) == h' = Append(h, [op |-> op, a |-> a, b |-> b])

GInit == Init /\ h = <<>> /\ fin = FALSE /\ burst = 0
GStep == /\ ~fin /\ UNCHANGED fin
         /\ \/ \E k \in Kinds : runs < MaxRuns /\ AddTest(k) /\ Step("addtest", k, 0) /\ UNCHANGED burst
            \/ "sep" \in Options /\ runs < MaxRuns /\ SetSep /\ Step("setsep", "", 0) /\ UNCHANGED burst
            \/ "ri" \in Options /\ runs < MaxRuns /\ SetRunIgnored /\ Step("setri", "", 0) /\ UNCHANGED burst
            \/ Begin(TRUE) /\ Step("begin", "", Len(tests)) /\ UNCHANGED burst
            \/ pc = "next" /\ ti < n /\ Place(tests[ti + 1]) # "runner" /\ StartTest(NoBeh) /\ where' = Place(tests[ti + 1])
                                    /\ Step("teststart", "any", 0) /\ UNCHANGED burst
            \/ \E a \in {"pass", "fail"}, r \in Reps : pc = "next" /\ ti < n /\ Place(tests[ti + 1]) = "runner"
                                            /\ StartTest([act |-> a, arg |-> 0, rep |-> r]) /\ where' = "runner" /\ Step("teststart", a, r) /\ UNCHANGED burst
            \/ Faults /\ ForkFail /\ Step("fork", "fail", 0) /\ UNCHANGED burst
            \/ ForkOk /\ Step("fork", "ok", 0) /\ burst' \in Bursts
            \/ burst > 0 /\ WaitEintr /\ Step("wait", "eintr", 0) /\ burst' = (IF pc' = "wait" THEN burst - 1 ELSE 0)
            \/ burst = 0 /\ Faults /\ WaitError /\ Step("wait", "error", 0) /\ UNCHANGED burst
            \/ \E c \in ExitCodes : burst = 0 /\ WaitExited(c) /\ Step("wait", "exited", c) /\ UNCHANGED burst
            \/ \E s \in Signals : burst = 0 /\ WaitSignaled(s) /\ Step("wait", "signaled", s) /\ UNCHANGED burst
            \/ \E s \in Signals : burst = 0 /\ stops < MaxStops /\ WaitStopped(s) /\ Step("wait", "stopped", s) /\ burst' \in Bursts
            \/ EndTest /\ Step("endtest", "", 0) /\ UNCHANGED burst
            \/ End /\ Step("end", "", 0) /\ UNCHANGED burst
GEnd == pc = "done" /\ ~fin /\ fin' = TRUE /\ UNCHANGED <<vars, h, burst>>
GNext == GStep \/ GEnd
GSpec == GInit /\ [][GNext]_gvars
Dump == fin => PrintT(<<"BEH", ToJson(h)>>)
=============================================================================
