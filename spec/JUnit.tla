------------------------------ MODULE JUnit ------------------------------
(***************************************************************************)
(* CppUTest JUnitTestOutput driven by TestRegistry::runAllTests through    *)
(* TestResult, tests of a group consecutive (property C16).                *)
(*                                                                         *)
(* Two layers:                                                             *)
(*  - implementation-shaped: `rep', the reporter's own bookkeeping for the *)
(*    open group (test counter, failed-test counter, list of result nodes  *)
(*    with the FIRST failure of each test, captured output), flushed to a  *)
(*    document when the group ends (JUnitTestOutput.cpp:34-148, 304-310);  *)
(*  - abstract ghost: `cur', what really happened in the open group        *)
(*    (every test with all its failures) and the text printed.             *)
(* `files' is the sequence of documents written, each in decoded form      *)
(* (what a conforming XML parser reports) together with `wire': every      *)
(* string as it is written into the file (XmlEnc of the original).         *)
(* Strings are byte strings (ReportStr).                                   *)
(* A group / name filter may keep tests from running (Skip): the report of *)
(* a group is about the tests that ran.  The registry reports start and    *)
(* end also for a group none of whose tests ran (EmptyGroupEnded): nothing *)
(* is asked for such a group, but what is written for it must not replace  *)
(* the report of a group that ran (NoOverwrite, LastContentFaithful).      *)
(*                                                                         *)
(* The reporter is an object with a life of its own: its package name is   *)
(* state that setPackageName may change whenever no group is open          *)
(* (SetPackage: between two groups, before the first, after the last,      *)
(* between two runs), createFileName is a public query (AskFileName), and  *)
(* one reporter may serve several runs, each with its own registry and     *)
(* result (NextRun).  The file of a group is named after the package in    *)
(* force when the group ends.  The run options that reach a reporter       *)
(* (colour, verbosity: `opt') are part of every run; nothing in a report   *)
(* depends on them.                                                        *)
(***************************************************************************)
EXTENDS Naturals, Integers, Sequences, FiniteSets, TLC, ReportStr

CONSTANTS Names, Files, Msgs, Texts, LineNos, Pkgs,
          Opts,                                          \* run options [color : BOOLEAN, verb : 0..2] (quiet, verbose, very verbose)
          MaxGroups, MaxTests, MaxFails, MaxPrints,      \* bounds (model checking / generation only): per run / group / test
          MaxRuns, MaxSets                               \* runs served by one reporter; setPackageName + createFileName calls

VARIABLES phase,    \* "idle" | "run" | "group" | "test" | "done"
          runIgn,   \* run-ignored mode
          pkg,      \* the reporter's package name (setPackageName: before the run, and whenever no group is open)
          opt,      \* run options given to the reporter [color, verb]; no observable depends on them
          grp,      \* name of the open (or last) group
          rep,      \* reporter bookkeeping: [group, tests, failures, nodes, stdout]
          cur,      \* ghost: tests of the open group [name, file, line, ign, fails]
          printed,  \* ghost: [group |-> text printed during the open group, all |-> text printed since the reporter was created]
          files,    \* documents written so far, in the order of writing; `of' = index in `done' of the group it was written for
          done,     \* ghost: for each closed group [grp, tests, printedGroup, printedAll]; tests = <<>>: none of its tests ran
          cnt

vars == <<phase, runIgn, pkg, opt, grp, rep, cur, printed, files, done, cnt>>

-----------------------------------------------------------------------------
\* XML 1.0 escaping as the writer applies it (one encoder for attribute values and character data)
Amp == 38  Quot == 34  Lt == 60  Gt == 62  CR == 13  LF == 10
Bad == -1
E_amp  == <<38, 97, 109, 112, 59>>          \* &amp;
E_quot == <<38, 113, 117, 111, 116, 59>>    \* &quot;
E_lt   == <<38, 108, 116, 59>>              \* &lt;
E_gt   == <<38, 103, 116, 59>>              \* &gt;
E_apos == <<38, 97, 112, 111, 115, 59>>     \* &apos;
E_cr   == <<38, 35, 49, 51, 59>>            \* &#13;
E_lf   == <<38, 35, 49, 48, 59>>            \* &#10;
EncChar(c) == IF c = Amp THEN E_amp ELSE IF c = Quot THEN E_quot ELSE IF c = Lt THEN E_lt ELSE IF c = Gt THEN E_gt
              ELSE IF c = CR THEN E_cr ELSE IF c = LF THEN E_lf ELSE <<c>>
XmlEnc(s) == Cat([i \in 1..Len(s) |-> EncChar(s[i])])

\* What a conforming parser makes of a written value.  ctx = "attr": a double-quoted attribute value
\* (raw < & " are not allowed; literal CR, LF, TAB are normalised to a space);  ctx = "text": character data
\* (raw < & are not allowed, nor is > when it ends "]]>"; a literal CR becomes LF).
Named == << <<E_amp, Amp>>, <<E_quot, Quot>>, <<E_lt, Lt>>, <<E_gt, Gt>>, <<E_apos, 39>> >>
HexVal(c) == IF c \in 48..57 THEN c - 48 ELSE IF c \in 97..102 THEN c - 87 ELSE IF c \in 65..70 THEN c - 55 ELSE -1
NumVal(ds, base) == Fold(LAMBDA acc, d : acc * base + HexVal(d), 0, ds)
\* r is a complete reference "&...;": the character it stands for, or Bad.  Only the five predefined entities are
\* declared; a character reference must denote a legal XML Char.
Resolve(r) ==
    LET hits == { i \in 1..Len(Named) : Named[i][1] = r } IN
    IF hits # {} THEN Named[CHOOSE i \in hits : TRUE][2]
    ELSE IF Len(r) >= 4 /\ r[2] = 35
         THEN LET hex == r[3] = 120
                  ds == SubSeq(r, IF hex THEN 4 ELSE 3, Len(r) - 1)
                  okd == /\ Len(ds) > 0 /\ Len(ds) <= 6
                         /\ \A i \in 1..Len(ds) : IF hex THEN HexVal(ds[i]) >= 0 ELSE ds[i] \in 48..57
                  v == NumVal(ds, IF hex THEN 16 ELSE 10) IN
              IF okd /\ (v \in {9, 10, 13} \/ v >= 32) THEN v ELSE Bad
         ELSE Bad
\* the parser's reading of a value: one pass, collecting a pending reference in `ref'
DecStep(ctx, st, c) ==
    IF st.ref # <<>> THEN
         IF c = 59 THEN [o |-> Append(st.o, Resolve(Append(st.ref, c))), ref |-> <<>>]
         ELSE IF Len(st.ref) >= 9 \/ c \in {Amp, Lt} THEN [o |-> Append(st.o, Bad), ref |-> <<>>]   \* a bare &
         ELSE [st EXCEPT !.ref = Append(@, c)]
    ELSE IF c = Amp THEN [st EXCEPT !.ref = <<Amp>>]
    ELSE IF c = Lt THEN [st EXCEPT !.o = Append(@, Bad)]
    ELSE IF ctx = "attr" /\ c = Quot THEN [st EXCEPT !.o = Append(@, Bad)]
    ELSE IF ctx = "attr" /\ c \in {CR, LF, 9} THEN [st EXCEPT !.o = Append(@, 32)]
    ELSE IF ctx = "text" /\ c = CR THEN [st EXCEPT !.o = Append(@, LF)]
    ELSE [st EXCEPT !.o = Append(@, c)]
XmlDec(ctx, w) == LET r == ReadFold(LAMBDA st, c : DecStep(ctx, st, c), [o |-> <<>>, ref |-> <<>>], w) IN
                  IF r.ref # <<>> THEN Append(r.o, Bad) ELSE r.o
\* "]]>" must not appear literally in character data
NoCdataEnd(w) == ~HasSub(w, <<93, 93, 62>>)
XmlSafe(ctx, w) == Bad \notin BytesOf(XmlDec(ctx, w)) /\ (ctx = "text" => NoCdataEnd(w))
\* the written value w is safe and a parser reads it as the text s (one decoding pass: values may be very long)
ReadsAs(ctx, w, s) == LET d == XmlDec(ctx, w) IN Bad \notin BytesOf(d) /\ (ctx = "text" => NoCdataEnd(w)) /\ d = s

\* the encoding theorem the writer relies on (checked by TLC over all strings up to a length)
EncodeCorrect(A, n) == \A s \in StrUpTo(A, n) : \A ctx \in {"attr", "text"} : XmlSafe(ctx, XmlEnc(s)) /\ XmlDec(ctx, XmlEnc(s)) = s

-----------------------------------------------------------------------------
\* file name: "cpputest_" [package "_"] group, characters that are illegal in file names replaced, ".xml"
Forbidden == {47, 92, 63, 37, 42, 58, 124, 34, 60, 62}       \*  / \ ? % * : | " < >
Portable  == (48..57) \cup (65..90) \cup (97..122) \cup {45, 46, 95}
Prefix    == <<99, 112, 112, 117, 116, 101, 115, 116, 95>>   \* "cpputest_"
DotXml    == <<46, 120, 109, 108>>
RawFileName(p, g) == Prefix \o (IF p = <<>> THEN <<>> ELSE p \o <<95>>) \o g
Sanitize(s) == [i \in 1..Len(s) |-> IF s[i] \in Forbidden THEN 95 ELSE s[i]]
FileName(p, g) == Sanitize(RawFileName(p, g)) \o DotXml
\* what the property asks of a file name d for package p and group g: same shape, no illegal character left,
\* and the portable characters (letters, digits, . _ -) kept, so that the name is still derived from p and g
FileNameOK(d, p, g) ==
    LET r == RawFileName(p, g) IN
    /\ Len(d) = Len(r) + 4 /\ EndsWith(d, DotXml)
    /\ \A i \in 1..Len(r) : d[i] \notin Forbidden /\ (r[i] \in Portable => d[i] = r[i])

-----------------------------------------------------------------------------
NoRep == [group |-> <<>>, tests |-> 0, failures |-> 0, nodes |-> <<>>]

NoOpt == [color |-> FALSE, verb |-> 0]
NoCnt == [g |-> 0, t |-> 0, f |-> 0, p |-> 0, r |-> 0, s |-> 0]
Init == /\ phase = "idle" /\ runIgn = FALSE /\ pkg = <<>> /\ opt = NoOpt /\ grp = <<>>
        /\ rep = NoRep @@ [stdout |-> <<>>]
        /\ cur = <<>> /\ printed = [group |-> <<>>, all |-> <<>>] /\ files = <<>> /\ done = <<>>
        /\ cnt = NoCnt

\* a new reporter: setPackageName(p), colour / verbosity o; then TestResult::testsStarted of its first run
TestsStarted(ri, p, o) ==
    /\ phase = "idle" /\ phase' = "run" /\ runIgn' = ri /\ pkg' = p /\ opt' = o
    /\ cnt' = [cnt EXCEPT !.r = 1]
    /\ UNCHANGED <<grp, rep, cur, printed, files, done>>

\* the same reporter serves another run (a new registry and result): TestResult::testsStarted again.  No group is open
\* and none has been seen in this run, so its first group may carry any name.
NextRun(ri) ==
    /\ phase = "done" /\ phase' = "run" /\ runIgn' = ri /\ grp' = <<>>
    /\ cnt' = [cnt EXCEPT !.r = @ + 1, !.g = 0, !.t = 0]
    /\ UNCHANGED <<pkg, opt, rep, cur, printed, files, done>>

\* setPackageName while no group is open: the files written from now on are named after p
SetPackage(p) ==
    /\ phase \in {"run", "done"} /\ pkg' = p
    /\ cnt' = [cnt EXCEPT !.s = @ + 1]
    /\ UNCHANGED <<phase, runIgn, opt, grp, rep, cur, printed, files, done>>

\* createFileName(g), a public query: answers with the name a report of group g would get now, FileName(pkg, g)
\* (what the property asks of the answer: FileNameOK(answer, pkg, g)); it changes nothing
AskFileName(g) ==
    /\ phase \in {"run", "done"}
    /\ cnt' = [cnt EXCEPT !.s = @ + 1]
    /\ UNCHANGED <<phase, runIgn, pkg, opt, grp, rep, cur, printed, files, done>>

\* printCurrentGroupStarted does nothing in this reporter
GroupStarted(g) ==
    /\ phase = "run" /\ phase' = "group" /\ g # grp /\ grp' = g
    /\ cur' = <<>> /\ printed' = [printed EXCEPT !.group = <<>>]
    /\ cnt' = [cnt EXCEPT !.g = @ + 1, !.t = 0]
    /\ UNCHANGED <<runIgn, pkg, opt, rep, files, done>>

\* printCurrentTestStarted: a new result node at the tail
TestStarted(n, file, line, kind) ==
    /\ phase = "group" /\ phase' = "test"
    /\ LET ign == (kind = "i" /\ ~runIgn) IN
         /\ rep' = [rep EXCEPT !.tests = @ + 1, !.group = grp,
                               !.nodes = Append(@, [name |-> n, file |-> file, line |-> line, ignored |-> ign, failure |-> <<>>])]
         /\ cur' = Append(cur, [name |-> n, file |-> file, line |-> line, ign |-> ign, fails |-> <<>>])
    /\ cnt' = [cnt EXCEPT !.t = @ + 1, !.f = 0, !.p = 0]
    /\ UNCHANGED <<runIgn, pkg, opt, grp, printed, files, done>>

\* TestResult::print -> JUnitTestOutput::print appends to the captured output
PrintText(txt) ==
    /\ phase = "test" /\ ~cur[Len(cur)].ign
    /\ rep' = [rep EXCEPT !.stdout = @ \o txt]
    /\ printed' = [group |-> printed.group \o txt, all |-> printed.all \o txt]
    /\ cnt' = [cnt EXCEPT !.p = @ + 1]
    /\ UNCHANGED <<phase, runIgn, pkg, opt, grp, cur, files, done>>

\* printFailure: only the first failure of a test is kept, and counted
Failure(file, line, msg) ==
    /\ phase = "test" /\ ~cur[Len(cur)].ign
    /\ LET f == [file |-> file, line |-> line, msg |-> msg]   k == Len(rep.nodes) IN
         /\ rep' = IF rep.nodes[k].failure = <<>>
                   THEN [rep EXCEPT !.failures = @ + 1, !.nodes[k].failure = <<f>>]
                   ELSE rep
         /\ cur' = [cur EXCEPT ![Len(cur)].fails = Append(@, f)]
    /\ cnt' = [cnt EXCEPT !.f = @ + 1]
    /\ UNCHANGED <<phase, runIgn, pkg, opt, grp, printed, files, done>>

\* a test that the registry counts but a group / name filter keeps from running: no call reaches the reporter
Skip == /\ phase = "group" /\ cnt' = [cnt EXCEPT !.t = @ + 1]
        /\ UNCHANGED <<phase, runIgn, pkg, opt, grp, rep, cur, printed, files, done>>

TestEnded == /\ phase = "test" /\ phase' = "group"
             /\ UNCHANGED <<runIgn, pkg, opt, grp, rep, cur, printed, files, done, cnt>>

\* the document the reporter writes for its bookkeeping
FailText(f) == f.file \o <<58>> \o Dec(f.line) \o <<58, 32>> \o f.msg          \* "<file>:<line>: <message>"
CaseOf(nd) == [name |-> nd.name, file |-> nd.file, line |-> nd.line,
               failed |-> nd.failure # <<>>,
               skipped |-> (nd.failure = <<>> /\ nd.ignored),
               message |-> IF nd.failure = <<>> THEN <<>> ELSE FailText(nd.failure[1])]
W(ctx, s) == [ctx |-> ctx, w |-> XmlEnc(s), orig |-> s]
DocOf(r, p) ==
    LET cs == [i \in 1..Len(r.nodes) |-> CaseOf(r.nodes[i])] IN
    [ fname  |-> FileName(p, r.group),
      suite  |-> [name |-> r.group, tests |-> r.tests, failures |-> r.failures],
      cases  |-> cs,
      sysout |-> r.stdout,
      wire   |-> <<W("attr", r.group), W("text", r.stdout)>>
                 \o Cat([i \in 1..Len(cs) |-> <<W("attr", cs[i].name), W("attr", cs[i].file), W("attr", cs[i].message)>>]) ]

\* printCurrentGroupEnded: write the file, forget the group.  The property does not say whether the captured
\* output belongs to one group or to the run so far; both policies are allowed (keep = output not forgotten).
GroupEnded(keep) ==
    /\ phase = "group" /\ phase' = "run" /\ Len(cur) > 0
    /\ files' = Append(files, DocOf(rep, pkg) @@ [of |-> Len(done) + 1])
    /\ done' = Append(done, [grp |-> grp, tests |-> cur, printedGroup |-> printed.group, printedAll |-> printed.all, pkg |-> pkg])
    /\ rep' = NoRep @@ [stdout |-> IF keep THEN rep.stdout ELSE <<>>]
    /\ UNCHANGED <<runIgn, pkg, opt, grp, cur, printed, cnt>>

\* The registry reports start and end also for a group all of whose tests are filtered out.  The property says nothing
\* about a report for such a group: the reporter may write none (wrote = FALSE) or flush its (empty) bookkeeping - a
\* document that is not the report of any group.  Because the bookkeeping was forgotten when the previous group ended,
\* that document carries no group name and cannot land on the file of a group that ran (NoOverwrite below).
EmptyGroupEnded(wrote, keep) ==
    /\ phase = "group" /\ phase' = "run" /\ Len(cur) = 0 /\ cnt.t > 0
    /\ files' = IF wrote THEN Append(files, DocOf(rep, pkg) @@ [of |-> Len(done) + 1]) ELSE files
    /\ done' = Append(done, [grp |-> grp, tests |-> <<>>, printedGroup |-> printed.group, printedAll |-> printed.all, pkg |-> pkg])
    /\ rep' = IF wrote THEN NoRep @@ [stdout |-> IF keep THEN rep.stdout ELSE <<>>] ELSE rep
    /\ UNCHANGED <<runIgn, pkg, opt, grp, cur, printed, cnt>>

TestsEnded == /\ phase = "run" /\ phase' = "done"
              /\ UNCHANGED <<runIgn, pkg, opt, grp, rep, cur, printed, files, done, cnt>>

Next == \/ \E ri \in BOOLEAN, p \in Pkgs, o \in Opts : TestsStarted(ri, p, o)
        \/ \E ri \in BOOLEAN : cnt.r < MaxRuns /\ NextRun(ri)
        \/ \E p \in Pkgs : cnt.s < MaxSets /\ SetPackage(p)
        \/ \E g \in Names : cnt.s < MaxSets /\ AskFileName(g)
        \/ \E g \in Names : cnt.g < MaxGroups /\ GroupStarted(g)
        \/ \E n \in Names, f \in Files, l \in LineNos, k \in {"n", "i"} : cnt.t < MaxTests /\ TestStarted(n, f, l, k)
        \/ \E x \in Texts : cnt.p < MaxPrints /\ PrintText(x)
        \/ \E f \in Files, l \in LineNos, m \in Msgs : cnt.f < MaxFails /\ Failure(f, l, m)
        \/ cnt.t < MaxTests /\ Skip
        \/ TestEnded \/ TestsEnded
        \/ \E keep \in BOOLEAN : GroupEnded(keep)
        \/ \E wrote, keep \in BOOLEAN : EmptyGroupEnded(wrote, keep)

Spec == Init /\ [][Next]_vars

-----------------------------------------------------------------------------
\* Properties (C16).  Every document written (files[i]) belongs to the group done[files[i].of]; a group RAN when at
\* least one of its tests ran.  For a group that ran, the document is compared with what really happened in the group.

Ran(k) == done[k].tests # <<>>
For(i) == done[files[i].of]
RanDoc(i) == Ran(files[i].of)
Lo(k) == IF k < 1 THEN 1 ELSE k
\* (the ...From(k) forms look at the documents / groups from position k on; the property is the form From(1))

\* a group that ran produces exactly one document; nothing is asked for a group none of whose tests ran
OneFilePerGroupFrom(k) == \A g \in Lo(k)..Len(done) :
    LET n == Cardinality({ i \in 1..Len(files) : files[i].of = g }) IN IF Ran(g) THEN n = 1 ELSE n <= 1
OneFilePerGroup == OneFilePerGroupFrom(1)

Failed(t) == t.fails # <<>>
NFailed(ts) == Cardinality({ i \in 1..Len(ts) : Failed(ts[i]) })

SuiteCountsTrueFrom(k) == \A i \in Lo(k)..Len(files) : RanDoc(i) =>
    /\ files[i].suite.name = For(i).grp
    /\ files[i].suite.tests = Len(For(i).tests)
    /\ files[i].suite.failures = NFailed(For(i).tests)
SuiteCountsTrue == SuiteCountsTrueFrom(1)

\* one test case element per test, in run order, with name, file and line; skipped exactly for ignored tests,
\* a failure element exactly for failed tests, carrying the message of one of the test's failures
CaseOK(c, t) ==
    /\ c.name = t.name /\ c.file = t.file /\ c.line = t.line
    /\ c.skipped <=> t.ign
    /\ c.failed <=> Failed(t)
    /\ c.failed => \E j \in 1..Len(t.fails) : EndsWith(c.message, t.fails[j].msg)
CasesFaithfulFrom(k) == \A i \in Lo(k)..Len(files) : RanDoc(i) =>
    /\ Len(files[i].cases) = Len(For(i).tests)
    /\ \A n \in 1..Len(files[i].cases) : CaseOK(files[i].cases[n], For(i).tests[n])
CasesFaithful == CasesFaithfulFrom(1)

SysoutOK(text, d) == text = d.printedGroup \/ text = d.printedAll
OutputFaithfulFrom(k) == \A i \in Lo(k)..Len(files) : RanDoc(i) => SysoutOK(files[i].sysout, For(i))
OutputFaithful == OutputFaithfulFrom(1)

\* every string is written so that a conforming parser accepts it and reads back the original (every file, also one
\* written for a group that did not run, must stay well-formed)
WellFormedRoundTripFrom(k) == \A i \in Lo(k)..Len(files) : \A n \in 1..Len(files[i].wire) :
    LET e == files[i].wire[n] IN ReadsAs(e.ctx, e.w, e.orig)
WellFormedRoundTrip == WellFormedRoundTripFrom(1)

FileNamesOKFrom(k) == \A i \in Lo(k)..Len(files) : RanDoc(i) => FileNameOK(files[i].fname, For(i).pkg, For(i).grp)
FileNamesOK == FileNamesOKFrom(1)

\* whatever is written for a group that did not run must not go to (a name of) the file of a group that ran before it:
\* it would replace that group's report.  (Asked among the groups reported under one package name: under different
\* package names two file names may coincide, as they may for two group names that differ in illegal characters only.)
NoOverwriteFrom(k) == \A j \in Lo(k)..Len(files) : ~RanDoc(j) =>
    \A g \in 1..(files[j].of - 1) : Ran(g) /\ done[g].pkg = For(j).pkg => ~FileNameOK(files[j].fname, done[g].pkg, done[g].grp)
NoOverwrite == NoOverwriteFrom(1)

\* the property in terms of the file system after the run: for every group that ran, the LAST content written under
\* the name of its file is the report of a group that ran (faithful by the clauses above), not a left-over
LastContentFaithful == \A i \in 1..Len(files) : RanDoc(i) =>
    LET same == { j \in i..Len(files) : files[j].fname = files[i].fname /\ For(j).pkg = For(i).pkg }
        last == CHOOSE j \in same : \A m \in same : m <= j IN RanDoc(last)

\* the reporter's bookkeeping for the open group agrees with what happened
BookkeepingOK ==
    /\ rep.tests = Len(rep.nodes)
    /\ phase \in {"group", "test"} => /\ Len(rep.nodes) = Len(cur)
                                      /\ rep.failures = NFailed(cur)
                                      /\ \A k \in 1..Len(cur) : (rep.nodes[k].failure # <<>>) <=> Failed(cur[k])

TypeOK == /\ phase \in {"idle", "run", "group", "test", "done"} /\ runIgn \in BOOLEAN
          /\ cnt.g <= MaxGroups /\ cnt.t <= MaxTests /\ cnt.f <= MaxFails /\ cnt.p <= MaxPrints
=============================================================================
