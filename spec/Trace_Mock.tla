---------------------------- MODULE Trace_Mock ----------------------------
(* Trace validation for C08/C19: the ndjson log recorded from the real MockSupport (one line per API call of
   a scenario: the call with its arguments, and what came back - "ok" / failure category / "skipped" after the
   test has been left, returned value, output-buffer bytes, expectedCallsLeft, end-of-test verdict) must be a
   behaviour of Mock.  Unlogged choices (category among admissible ones) are left to TLC. *)
EXTENDS Mock, Json, IOUtils
VARIABLE l
tvars == <<vars, l>>
Tr == ndJsonDeserialize(IOEnv.TRACE)
E == Tr[l]
Is(o) == l <= Len(Tr) /\ Tr[l].op = o /\ l' = l + 1
\* what the step reported to its test: "ok" (with what came back), a failure category, "skipped" (not executed: the test had
\* been left), or "muted": executed - in the teardown - although the test had already failed, and nothing was added to the test's
\* failures; for the specification a muted step is one without effect on the test, like a skipped one.  A step of a failed
\* test that does add a failure is logged with that failure's category - and is no behaviour of Mock
Rk == IF E.r = "muted" THEN "skipped" ELSE E.r
\* a typed getter checks the type of the value it reads with a check of the test itself (category "check"), not through the mock's
\* reporter: in a test that has already failed such a read may fail once more - that is no report of the mock (Mock!EndReportsOK
\* admits these further failures, and only these)
RkRead == IF failed /\ E.r = "check" THEN "skipped" ELSE Rk

\* a returned value denotes the expectation's return value (a returned double carries no tolerance)
SameValue(x, y) == /\ x.t = y.t
                   /\ CASE x.t \in IntTypes -> SameInteger(IntVal(x), IntVal(y))
                        [] x.t = "bool" -> x.b = y.b
                        [] x.t \in PtrTypes -> x.id = y.id
                        [] x.t = "const char*" -> x.s = y.s
                        [] x.t = "double" -> XSame(x.v, y.v)
                        [] x.t = "obj" -> x.c = y.c /\ ("tn" \in DOMAIN y => x.tn = y.tn)    \* (the C tagged union carries no type name)
                        [] OTHER -> x = y
\* the expectation stays inside the domain of the property
InDomain(s, e) == CopiersPresent(s, e) /\ Unambiguous(WouldBe(s, e))

\* a recording reporter (mode rec) does not end the test: the log line of a failing step carries everything the step
\* reported (reps: the categories in order).  One deviation is reported once; actualCall may meet two (the previous call of
\* the scope cannot be completed, and the new call is itself unexpected)
Reps(max) == "reps" \in DOMAIN E => Len(E.reps) \in 1..max
StuckBefore(s) == ~failed /\ ms[s].live /\ Finish(ms[s]).cats # {}

TNext ==
    \/ Is("expect") /\ (failed \/ InDomain(E.s, E.e)) /\ Expect(E.s, E.e) /\ res'.k = Rk
    \/ Is("begin") /\ Begin(E.s, E.fn) /\ res'.k = Rk /\ Reps(IF StuckBefore(E.s) THEN 2 ELSE 1)
    \/ Is("param") /\ Param(E.s, E.k, E.v) /\ res'.k = Rk /\ Reps(1)
    \/ Is("outparam") /\ OutParam(E.s, E.k, E.ty) /\ res'.k = Rk /\ Reps(1)
    \/ Is("object") /\ OnObject(E.s, E.o) /\ res'.k = Rk /\ Reps(1)
    \/ /\ Is("ret") /\ ReturnValue(E.s, E.g, E.od, E.d, E.via) /\ res'.k = RkRead /\ Reps(1)
       /\ E.r = "ok" => /\ res'.has = E.has
                        /\ (E.has \/ E.g # "value") => SameValue(res'.val, E.val)
                        \* the data of the consumed expectation must be in the caller's buffer; what stands BEHIND that data (FillByte in the
                        \* prediction) is not fixed by the statement: when a provisional match of an expectation with longer data is narrowed
                        \* later, the pinned code leaves the tail of the provisional copy there, in both interfaces alike
                        /\ \A k \in DOMAIN res'.outs : /\ k \in DOMAIN E.outs /\ Len(E.outs[k]) = Len(res'.outs[k])
                                                       /\ \A i \in 1..Len(res'.outs[k]) : res'.outs[k][i] # FillByte => E.outs[k][i] = res'.outs[k][i]
    \/ Is("left") /\ Left /\ res'.k = Rk /\ (E.r = "ok" => res'.left = E.left) /\ ((~failed /\ "reps" \in DOMAIN E) => LeftReportsOK(E.reps))
    \/ Is("setdata") /\ SetData(E.s, E.k, E.v) /\ res'.k = Rk
    \/ Is("getdata") /\ GetData(E.s, E.k) /\ res'.k = Rk /\ (E.r = "ok" => SameValue(res'.val, E.val))
    \/ Is("check") /\ Check /\ res'.k = Rk /\ ((~failed /\ "reps" \in DOMAIN E) => CheckReportsOK(E.reps))
    \/ Is("clear") /\ Clear /\ res'.k = Rk
    \/ Is("disable") /\ Disable /\ res'.k = Rk
    \/ Is("enable") /\ Enable /\ res'.k = Rk
    \/ Is("ignoreothers") /\ IgnoreOtherCalls /\ res'.k = Rk
    \/ Is("strict") /\ StrictOrder(E.s) /\ res'.k = Rk
    \/ Is("installcmp") /\ E.md \in CmpModes /\ InstallComparator(E.s, E.tn, E.md) /\ res'.k = Rk
    \/ Is("installcpy") /\ E.md \in CpyModes /\ InstallCopier(E.s, E.tn, E.md) /\ res'.k = Rk
    \/ Is("removeall") /\ RemoveAll(E.s) /\ res'.k = Rk
    \* the test around the scenario: a failing check of the test itself; the end of the body / the beginning of the teardown
    \/ Is("failcheck") /\ CheckFails /\ res'.k = Rk
    \/ Is("teardown") /\ Teardown /\ res'.k = Rk
    \* the end of the test: the verdict, and the failures the test recorded (inside a real test: in its TestResult), in order
    \/ Is("end") /\ End /\ res'.k = Rk /\ Len(E.reps) = E.vcount /\ EndReportsOK(E.reps)
\* executions are concatenated with reset lines (cleared mock)
TReset == Is("reset") /\ ms' = FreshScopes /\ created' = <<>> /\ failed' = FALSE /\ why' = "" /\ last' = "init" /\ res' = Ok
TSpec == (Init /\ l = 1) /\ [][TNext \/ TReset]_tvars
Accepted == TLCGet("stats").diameter - 1 = Len(Tr)
TInv == /\ TypeOK /\ NeverOverConsumed /\ CountsAgree /\ ConsumedFits /\ CandidatesSound /\ VerdictExact
        /\ UnfulfilledIsCountMismatch /\ OutOfOrderIsOrderMismatch /\ FailsOnce /\ ReturnNeverLies

\* diagnostics: the same walk with the observations unbound, printing what the specification predicts
PNext ==
    \/ Is("expect") /\ Expect(E.s, E.e)
    \/ Is("begin") /\ Begin(E.s, E.fn)
    \/ Is("param") /\ Param(E.s, E.k, E.v)
    \/ Is("outparam") /\ OutParam(E.s, E.k, E.ty)
    \/ Is("object") /\ OnObject(E.s, E.o)
    \/ Is("ret") /\ ReturnValue(E.s, E.g, E.od, E.d, E.via)
    \/ Is("setdata") /\ SetData(E.s, E.k, E.v)
    \/ Is("getdata") /\ GetData(E.s, E.k)
    \/ Is("left") /\ Left
    \/ Is("check") /\ Check
    \/ Is("clear") /\ Clear
    \/ Is("disable") /\ Disable
    \/ Is("enable") /\ Enable
    \/ Is("ignoreothers") /\ IgnoreOtherCalls
    \/ Is("strict") /\ StrictOrder(E.s)
    \/ Is("installcmp") /\ InstallComparator(E.s, E.tn, E.md)
    \/ Is("installcpy") /\ InstallCopier(E.s, E.tn, E.md)
    \/ Is("removeall") /\ RemoveAll(E.s)
    \/ Is("failcheck") /\ CheckFails
    \/ Is("teardown") /\ Teardown
    \/ Is("end") /\ End
PSpec == (Init /\ l = 1) /\ [][PNext \/ TReset]_tvars
Predict == (l > 1 /\ l - 1 >= atoi(IOEnv.FROM_LINE_N)) => PrintT(<<"BEH", ToJson([line |-> l - 1, op |-> last, predicted |-> res])>>)
=============================================================================
