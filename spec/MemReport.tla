---------------------------- MODULE MemReport ----------------------------
(* MemoryReporterPlugin (CppUTestExt): while a test runs the three current allocators are wrapped so that every allocation
   and release made through them is reported to the formatter, in order, with the family of the real allocator; outside
   tests nothing is reported and the real allocators are current again; group start is reported when the group changes,
   group end after the last test before a test of another group (or the end of the registry).  Not one of the listed
   properties: part of growing the specification (DESIGN.md section 10). *)
EXTENDS Naturals, Sequences, TLC
CONSTANTS Groups, Fams, Sizes, MaxOps
VARIABLES curGroup,   \* the plugin's memory of the group it reported last ("" = none yet)
          open,       \* ghost: a group start without its end is outstanding
          events,     \* events reported for the last test
          wrapped     \* are the reporting allocators current? (between tests: no)
vars == <<curGroup, open, events, wrapped>>
Init == curGroup = "" /\ open = FALSE /\ events = <<>> /\ wrapped = FALSE
Ev(k, g, fam, sz) == [k |-> k, g |-> g, fam |-> fam, sz |-> sz]
\* op = [k : {"alloc", "free"}, fam, sz]
OpEvents(ops) == [i \in 1..Len(ops) |-> Ev(ops[i].k, "", ops[i].fam, IF ops[i].k = "alloc" THEN ops[i].sz ELSE 0)]
Expected(g, ops, nextg) ==
    (IF g # curGroup THEN <<Ev("gs", g, "", 0)>> ELSE <<>>) \o <<Ev("ts", g, "", 0)>> \o OpEvents(ops)
    \o <<Ev("te", g, "", 0)>> \o (IF nextg # g THEN <<Ev("ge", g, "", 0)>> ELSE <<>>)
\* one test: pre action, body (its allocations and releases), post action
RunTest(g, ops, nextg) ==
    /\ events' = Expected(g, ops, nextg)
    /\ curGroup' = g
    /\ open' = (nextg = g)
    /\ wrapped' = FALSE            \* restored by the post action
\* an allocation between tests goes to the real allocator unreported
Outside == events' = <<>> /\ UNCHANGED <<curGroup, open, wrapped>>
OpSeqs == UNION { [1..n -> [k : {"alloc", "free"}, fam : Fams, sz : Sizes]] : n \in 0..MaxOps }
Next == (\E g \in Groups, ops \in OpSeqs, ng \in Groups \cup {""} : RunTest(g, ops, ng)) \/ Outside
Spec == Init /\ [][Next]_vars
\* well-bracketed in the default order: a group is reported open exactly while its tests are running consecutively
Bracketed == \A i \in 1..Len(events) : events[i].k \in {"alloc", "free"} => (\E j \in 1..(i - 1) : events[j].k = "ts") /\ (\E j \in (i + 1)..Len(events) : events[j].k = "te")
NotWrappedBetweenTests == ~wrapped
=============================================================================
