---------------------------- MODULE Gen_PluginChain ----------------------------
EXTENDS PluginChain, Json
CONSTANT D
VARIABLES h, done
gvars == <<vars, h, done>>
St(op, n) == h' = Append(h, [op |-> op, name |-> n])
GInit == Init /\ h = <<>> /\ done = FALSE
GStep == /\ Len(h) < D /\ UNCHANGED done
         /\ \E n \in Names : \/ Install(n) /\ St("install", n)
                             \/ Remove(n) /\ St("remove", n)
                             \/ SetEnabled(n, TRUE) /\ St("enable", n)
                             \/ SetEnabled(n, FALSE) /\ St("disable", n)
                             \/ ObjSetEnabled(n, TRUE) /\ en[n] = FALSE /\ St("objenable", n)
                             \/ ObjSetEnabled(n, FALSE) /\ en[n] = TRUE /\ St("objdisable", n)
                             \/ PreRemove(n) /\ n \in InChain /\ St("preremove", n)
GEnd == Len(h) = D /\ ~done /\ done' = TRUE /\ UNCHANGED <<vars, h>>
GSpec == GInit /\ [][GStep \/ GEnd]_gvars
Dump == done => PrintT(<<"BEH", ToJson(h)>>)
=============================================================================
