---------------------------- MODULE MockValue ----------------------------
(***************************************************************************)
(* CppUTest MockNamedValue: the typed value a mock parameter / return      *)
(* value carries, its comparison and its integer getters (property C09).   *)
(*                                                                         *)
(* 64-bit quantities are never TLC integers (TLC integers are 32 bit).  A  *)
(* mathematical integer in [-2^63, 2^64) is a record                       *)
(*     [neg : BOOLEAN, m : <<h3, h2, h1, h0>>]                             *)
(* sign and magnitude, the magnitude as four 16-bit limbs, most            *)
(* significant first, canonical (zero is not negative).  Order and         *)
(* equality are structural, so the module is total over the whole 64-bit   *)
(* value space; the property's boundary lattice is only the domain over    *)
(* which it is enumerated (Lattice, symbolic points [tag, d] = base + d).  *)
(*                                                                         *)
(* Three layers:                                                           *)
(*  - the mathematical oracle: Eq(a, b) and GetAllowed(s, g);              *)
(*  - the intended design of the code: Conv (C integer conversion as two's *)
(*    complement wrap on limbs), EqDesign (sign guard + conversion to the  *)
(*    common unsigned type) and GetDesign (widening table + range guard),  *)
(*    shown by TLC to refine the oracle;                                   *)
(*  - GetUnguarded: the same getter table without the range guard, used    *)
(*    only to show that the refinement invariant is not vacuous.           *)
(* One action per public call: Compare (equals in both directions) and     *)
(* Read (one integer getter inside a running test).                        *)
(***************************************************************************)
EXTENDS MockValueOps

-----------------------------------------------------------------------------
VARIABLES op, a, b, res
vars == <<op, a, b, res>>
None == [t |-> "none"]

Init == op = "init" /\ a = None /\ b = None /\ res = None
\* a.equals(b) and b.equals(a)
Compare(x, y) == op' = "eq" /\ a' = x /\ b' = y /\ res' = [ab |-> Eq(x, y), ba |-> Eq(y, x)]
\* getter g on the stored integer x, inside a running test
Read(x, g) == /\ IsInt(x) /\ g \in IntTypes
              /\ op' = "get" /\ a' = x /\ b' = [t |-> g] /\ res' \in GetAllowed(x, g)
\* every call is independent of the previous ones (values are immutable): the model explores each call once
Next == /\ op = "init"
        /\ \/ \E x, y \in IntValues : Compare(x, y)
           \/ \E x, y \in OtherValues \cup FewInts : Compare(x, y)
           \/ \E x \in IntValues, g \in IntTypes : Read(x, g)
Spec == Init /\ [][Next]_vars

-----------------------------------------------------------------------------
\* Properties (C09)
\* integers: equal iff the same integer (stated through the order, independently of the record equality in Eq)
EqualIffSameInteger == (op = "eq" /\ IsInt(a) /\ IsInt(b)) =>
                          (res.ab <=> (BigLe(IntVal(a), IntVal(b)) /\ BigLe(IntVal(b), IntVal(a))))
Symmetric == (op = "eq" /\ IsInt(a) /\ IsInt(b)) => res.ab = res.ba
DifferentTypesNeverEqual == (op = "eq" /\ a.t # b.t /\ ~(IsInt(a) /\ IsInt(b))) => (~res.ab /\ ~res.ba)
NanEqualsNothing == (op = "eq" /\ a.t = "double" /\ b.t = "double" /\ (a.v.k = "nan" \/ b.v.k = "nan")) => (~res.ab /\ ~res.ba)
ExpectationTolerance == (op = "eq" /\ a.t = "double" /\ b.t = "double") =>
                           /\ res.ab = DoubleEq(a.v, b.v, a.tol)
                           /\ res.ba = DoubleEq(b.v, a.v, b.tol)
Reflexive == (op = "eq" /\ a = b /\ ~(a.t = "double" /\ (a.v.k = "nan" \/ a.tol.k = "nan"))) => res.ab
GetterNeverLies == op = "get" => (res.k = "ret" => (SameInteger(res, IntVal(a)) /\ InRange(IntVal(a), b.t)))
\* the design refines the oracle
ConvIdentityInRange == (op = "get" /\ InRange(IntVal(a), b.t)) => Conv(IntVal(a), b.t) = IntVal(a)
ConvAlwaysInRange == op = "get" => InRange(Conv(IntVal(a), b.t), b.t)
EqDesignRefines == (op = "eq" /\ IsInt(a) /\ IsInt(b)) => (EqDesign(a, b) = Eq(a, b) /\ EqDesign(b, a) = Eq(b, a))
GetterDesignRefines == op = "get" => GetDesign(a, b.t) \in GetAllowed(a, b.t)
GetterUnguardedRefines == op = "get" => GetUnguarded(a, b.t) \in GetAllowed(a, b.t)   \* expected to FAIL
TypeOK == /\ op \in {"init", "eq", "get"}
          /\ op = "eq" => res \in [ab : BOOLEAN, ba : BOOLEAN]
          /\ op = "get" => (IsBig(IntVal(a)) /\ res.k \in {"ret", "fail"})
\* transitivity across the six types (evaluated once, on the initial state)
Transitive == op = "init" => \A x, y, z \in { v \in IntValues : IntVal(v) \in {P(0, 0, 0, 1), P(0, 0, 32768, 0), N(0, 0, 0, 1)} } :
                                (Eq(x, y) /\ Eq(y, z)) => Eq(x, z)
=============================================================================
