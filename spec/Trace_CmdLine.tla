----------------------------- MODULE Trace_CmdLine -----------------------------
(* Trace validation for C12: one log line per argument vector, recorded from the real CommandLineArguments (getters)
   and the real CommandLineTestRunner on a probe registry.  The meaning of the vector is computed here by Meaning();
   for documented vectors every observation is bound (configuration, output kind, package, separate-process use,
   how often each probe test ran - the probe registry is whatever the `probe' line in force says: the 10-test registry, the
   word registry, a seeded random one; what the runner applied to every output it created and to the registry: verbosity level,
   colour, number of test runs, shuffle seed, crash / rethrow switches); the clock the parser reads is whatever the `clock' line
   in force says (none: the real clock); for every vector the safety clause is checked: a rejected vector prints usage or
   help and runs nothing. *)
EXTENDS CmdLine, Json, IOUtils
VARIABLES l, probe, obs, clock
tvars == <<vars, l, probe, obs, clock>>
Tr == ndJsonDeserialize(IOEnv.TRACE)
E == Tr[l]
Is(op) == l <= Len(Tr) /\ Tr[l].op = op /\ l' = l + 1

RECURSIVE SumSeq(_)
SumSeq(s) == IF s = <<>> THEN 0 ELSE Head(s) + SumSeq(Tail(s))
FSet(fs) == { Filt(fs[k].p, fs[k].s, fs[k].x) : k \in 1..Len(fs) }
ConfigOK(c, e) ==
    /\ e.verbose = c.verbose /\ e.vv = c.vv /\ e.color = c.color /\ e.sep = c.sep /\ e.lg = c.lg /\ e.ln = c.ln /\ e.ll = c.ll
    /\ e.ri = c.ri /\ e.rev = c.rev /\ e.crash = c.crash /\ e.rethrow = c.rethrow /\ e.shuffle = c.shuffle
    \* seed and repeat count are logged exactly, as the decimal text of the configured size_t value
    /\ (c.shuffle => IF c.seed = <<>> THEN ClockSeedOK(e.seed) ELSE e.seed = c.seed)           \* no seed given: from the clock, > 0 whatever it reads
    /\ e.repeat = c.repeat /\ e.out = c.out /\ e.pkg = c.pkg
    /\ FSet(e.gf) = GF(c) /\ FSet(e.nf) = NF(c)
    /\ ~e.help
OutKind(c) == CASE c.out = "junit" -> (IF c.verbose \/ c.vv THEN "junit+console" ELSE "junit")
                [] c.out = "teamcity" -> "teamcity" [] OTHER -> "console"
\* What the run gets (e.outs: every output the runner created, in order, with the level / colour it holds - `same': also at the
\* start of every test run -, and the test runs started on it; e.shuf: the shuffleTests calls on the registry).  The JUnit half
\* of a composite writes files: verbosity and colour have no documented meaning there.  In the list modes no test runs: only
\* "nothing is started, nothing is shuffled" is bound.  clk: the reading of the stubbed clock (<<>>: the real clock) - at the
\* same reading the runner's parser and the parser observed through the getters configure the same seed.
AppliedOK(c, e, clk) ==
    LET a == Applied(c) IN
    /\ \A k \in 1..Len(e.outs) : LET o == e.outs[k] IN
         /\ o.starts = a.runs
         /\ (a.runs > 0 /\ ~(o.k = "junit" /\ Len(e.outs) > 1)) => (o.level = a.level /\ o.color = a.color /\ o.same)
    /\ a.runs > 0 => (e.arethrow = a.rethrow /\ e.acrash = a.crash)
    /\ (e.shuf.n > 0) = (a.shuffle /\ a.runs > 0)
    /\ (a.shuffle /\ a.runs > 0) => /\ e.shuf.same
                                     /\ IF a.seed # <<>> THEN e.shuf.seed = a.seed
                                        ELSE ClockSeedOK(e.shuf.seed) /\ (clk # <<>> => e.shuf.seed = e.seed)
\* (the harness does not run the probe registry for repeat counts above 100: lvl2 false, nothing to compare)
RunOK(c, e, p, clk) ==
    IF ~IsSmallNumber(c.repeat) THEN ~e.lvl2 ELSE
    /\ e.lvl2 /\ e.printed = "none"
    /\ e.outkind = OutKind(c) /\ (c.out = "junit" => e.outpkg = c.pkg)
    /\ Len(e.ran) = Len(p)
    /\ \A k \in 1..Len(p) : SelectionKnown(p[k], c) => e.ran[k] = Runs(p[k], c)
    /\ e.seps = (IF c.sep THEN SumSeq(e.ran) ELSE 0)
    /\ AppliedOK(c, e, clk)
Silent(e) == \A k \in 1..Len(e.ran) : e.ran[k] = 0
\* what the statement requires of every vector
Safe(e) == /\ (~e.acc => (e.printed \in {"usage", "help"} /\ Silent(e) /\ e.seps = 0))
           /\ (e.acc /\ e.lvl2) => e.printed = "none"
ObsOK(m, e, p, clk) ==
    /\ Safe(e)
    /\ CASE m.k = "accept" -> e.acc /\ ConfigOK(m.cfg, e) /\ RunOK(m.cfg, e, p, clk)
         [] m.k = "help" -> ~e.acc /\ e.help /\ e.printed = "help"
         [] m.k = "invalid" -> ~e.acc                                   \* a value the help text declares invalid: rejected (Safe: usage or help, nothing runs)
         [] OTHER -> TRUE

TInit == Start(<<>>) /\ l = 1 /\ probe = <<>> /\ obs = [acc |-> TRUE, printed |-> "none", ran |-> <<>>] /\ clock = <<>>
TArgv == /\ Is("argv")
         /\ LET m == Meaning(E.tok) IN
              /\ (ObsOK(m, E, probe, clock)) = TRUE
              /\ argv' = E.tok /\ cfg' = m.cfg /\ status' = m.k /\ i' = 1 /\ steps' = 0 /\ inv' = (m.k = "invalid")
         /\ obs' = [acc |-> E.acc, printed |-> E.printed, ran |-> E.ran]
         /\ UNCHANGED <<probe, clock>>
TProbe == Is("probe") /\ probe' = E.tests /\ UNCHANGED <<vars, obs, clock>>
\* the clock reads E.ms (decimal text; empty: the real clock) from here on
TClock == Is("clock") /\ clock' = E.ms /\ UNCHANGED <<vars, obs, probe>>
TReset == Is("reset") /\ probe' = <<>> /\ clock' = <<>> /\ UNCHANGED <<vars, obs>>
TSpec == TInit /\ [][TArgv \/ TProbe \/ TClock \/ TReset]_tvars
Accepted == TLCGet("stats").diameter - 1 = Len(Tr)
\* the safety clause as an invariant over the observed outcome of the last vector
RejectedRunsNothing == ~obs.acc => (obs.printed \in {"usage", "help"} /\ \A k \in 1..Len(obs.ran) : obs.ran[k] = 0)
HelpMeansHelp == status = "help" => (~obs.acc /\ obs.printed = "help")
InvalidIsRejected == status = "invalid" => ~obs.acc
TInv == RejectedRunsNothing /\ HelpMeansHelp /\ InvalidIsRejected

\* diagnostics: the meaning of each vector, observations unbound
PArgv == /\ Is("argv")
         /\ LET m == Meaning(E.tok) IN argv' = E.tok /\ cfg' = m.cfg /\ status' = m.k /\ i' = 1 /\ steps' = 0 /\ inv' = (m.k = "invalid")
         /\ UNCHANGED <<probe, obs, clock>>
PSpec == TInit /\ [][PArgv \/ TProbe \/ TClock \/ TReset]_tvars
Predict == (l > 1 /\ l - 1 >= atoi(IOEnv.FROM_LINE_N)) =>
              PrintT(<<"BEH", ToJson([line |-> l - 1, meaning |-> status, cfg |-> cfg, clock |-> clock,
                                      applied |-> IF IsSmallNumber(cfg.repeat) THEN Applied(cfg) ELSE <<>>,
                                      runs |-> IF probe = <<>> \/ ~IsSmallNumber(cfg.repeat) THEN <<>> ELSE [k \in 1..Len(probe) |-> Runs(probe[k], cfg)]])>>)
=============================================================================
