---------------------------- MODULE Gen_StrCache ----------------------------
(* Behaviour generation for C18: the calls of StrCache with a history variable.  Only the calls are
   recorded; what the real classes answer is validated afterwards by Trace_StrCache.  Calls:
     new / gnew            construct a bare SimpleStringInternalCache / a GlobalSimpleStringCache
     alloc k n             buffer request (bare: cache.alloc; global: through the adaptor SimpleStringCacheAllocator)
     dealloc k m           release of the k-th allocation with a size of the same class
     xdealloc k m          release of the k-th allocation with a size of another class (cached or not): an unknown release,
                           the buffer stays in use (bare: one call; global: like pdel, the printing of the warning makes calls)
     snew k n / sdel k n   (global) a SimpleString with an n-byte buffer is created / destroyed
     foreign / clearcache / clearall   (bare) release of a foreign pointer, clearCache, clearAll
     del / gdel            destroy the bare cache (after it was cleared) / the global cache (buffers may be in use)
     pnew k n              (no cache yet) the k-th string that predates the cache is created with an n-byte buffer
     gnew 1                the global cache is constructed and the calls up to gdel run inside a test whose output string
                           predates the cache: the unknown-release warning is appended to that string
     pdel k / pcat k m / pset k n   (global) that string is destroyed / m characters are appended / an n-byte text is
                           assigned: its buffer (unknown to the cache as long as it is the original one) is released
   One of these calls is several calls on the cache: the call step only records the call and loads `pend' with the
   calls it consists of (a = request, d = release of a known buffer, u = release of an unknown one - the first of
   which is WarnBegin, the append to the output string [o, U: request + unknown release while the warning is printed],
   WarnEnd); the following steps execute them.  How many temporary strings the printing itself uses is left out.
   Buffers are named by the index of the alloc call that produced them, so that a behaviour means the
   same on any implementation of the cache.  Alloc follows AllocImpl (the internal choice does not
   change which call sequences exist).  A behaviour may contain several life cycles. *)
EXTENDS StrCache, Json
CONSTANTS D,            \* number of calls per behaviour
          ForeignSizes, \* sizes passed with releases of foreign pointers
          Kinds,        \* kinds of cache object to construct: subset of {"bare", "global"}
          MaxPre,       \* number of strings that predate the cache
          PreSizes,     \* their buffer sizes / the sizes assigned / the numbers of characters appended
          FixModes,     \* subset of {0, 1}: 1 = a current test whose output string predates the cache
          OutN          \* size of the buffer the output string gets when the warning is appended to it
VARIABLES h, done, hid, na, sown,
          np, pre,      \* strings that predate the cache: number created, [k -> [sz, mem]] (mem = 0: still the original buffer)
          fix,          \* the calls of this global cache run inside a test with an older output string
          pend, tmp,    \* calls on the cache still to be made for the current script call; buffer of its temporary
          hidden, nh    \* buffers that no alloc / snew call produced (not addressable by dealloc / sdel); how many so far
gvars == <<vars, h, done, hid, na, sown, np, pre, fix, pend, tmp, hidden, nh>>
PreSame == UNCHANGED <<np, pre, fix, pend, tmp, hidden, nh>>

Call(op, a, n) == h' = Append(h, [op |-> op, a |-> a, n |-> n])
Room == Cardinality(DOMAIN req) < MaxLive
Named == hid' = [m \in DOMAIN req' |-> IF m \in DOMAIN req THEN hid[m] ELSE na + 1]

MA(n, k) == [t |-> "a", n |-> n, k |-> k, mem |-> 0]          \* request n bytes: for string k, or (k = 0) for a temporary
MD(mem)  == [t |-> "d", n |-> 0, k |-> 0, mem |-> mem]        \* release the known buffer mem
MT(t)    == [t |-> t, n |-> 0, k |-> 0, mem |-> 0]
Release(k) == IF pre[k].mem = 0 THEN MT("u") ELSE MD(pre[k].mem)   \* string k gives its buffer back
Forget(k) == [x \in DOMAIN pre \ {k} |-> pre[x]]

GInit == Init /\ h = <<>> /\ done = FALSE /\ hid = <<>> /\ na = 0 /\ sown = {}
         /\ np = 0 /\ pre = <<>> /\ fix = FALSE /\ pend = <<>> /\ tmp = 0 /\ hidden = {} /\ nh = 0
GStep == /\ Len(h) < D /\ pend = <<>> /\ UNCHANGED done
         /\ \/ /\ "bare" \in Kinds /\ pre = <<>> /\ Construct("bare", {}) /\ Call("new", 0, 0)
               /\ UNCHANGED <<hid, na, sown>> /\ PreSame
            \/ \E fx \in FixModes : /\ "global" \in Kinds /\ Construct("global", {}) /\ Call("gnew", fx, 0) /\ fix' = (fx = 1)
                                   /\ UNCHANGED <<hid, na, sown, np, pre, pend, tmp, hidden, nh>>
            \/ \E n \in PreSizes : /\ life = "none" /\ "global" \in Kinds /\ Cardinality(DOMAIN pre) < MaxPre
                                  /\ Call("pnew", np + 1, n) /\ np' = np + 1 /\ pre' = pre @@ ((np + 1) :> [sz |-> n, mem |-> 0])
                                  /\ UNCHANGED <<vars, hid, na, sown, fix, pend, tmp, hidden, nh>>
            \/ \E k \in DOMAIN pre : /\ life = "global" /\ Call("pdel", k, 0) /\ pend' = <<Release(k)>> /\ pre' = Forget(k)
                                     /\ UNCHANGED <<vars, hid, na, sown, np, fix, tmp, hidden, nh>>
            \/ \E k \in DOMAIN pre, m \in PreSizes :
                  /\ life = "global" /\ Call("pcat", k, m) /\ pend' = <<MA(pre[k].sz + m, k), Release(k)>>
                  /\ pre' = [pre EXCEPT ![k].sz = @ + m] /\ UNCHANGED <<vars, hid, na, sown, np, fix, tmp, hidden, nh>>
            \/ \E k \in DOMAIN pre, n \in PreSizes :
                  /\ life = "global" /\ Call("pset", k, n) /\ pend' = <<MA(n, 0), Release(k), MA(n, k), MT("dt")>>
                  /\ pre' = [pre EXCEPT ![k].sz = n] /\ UNCHANGED <<vars, hid, na, sown, np, fix, tmp, hidden, nh>>
            \/ \E n \in Sizes : /\ Room /\ AllocImpl(n) /\ Call("alloc", na + 1, n)
                                /\ na' = na + 1 /\ Named /\ UNCHANGED sown /\ PreSame
            \/ \E n \in Sizes \ {0} : /\ life = "global" /\ Room /\ AllocImpl(n) /\ Call("snew", na + 1, n)
                                      /\ na' = na + 1 /\ Named /\ sown' = sown \cup {na + 1} /\ PreSame
            \/ \E mem \in DOMAIN req, m \in Sizes : /\ hid[mem] \notin sown \cup hidden /\ Dealloc(mem, m) /\ Call("dealloc", hid[mem], m)
                                                    /\ hid' = [x \in DOMAIN req' |-> hid[x]] /\ UNCHANGED <<na, sown>> /\ PreSame
            \/ \E mem \in DOMAIN req, m \in Sizes :
                  /\ hid[mem] \notin sown \cup hidden /\ ElsewhereSize(mem, m) /\ Call("xdealloc", hid[mem], m)
                  /\ UNCHANGED <<hid, na, sown, np, pre, fix, tmp, hidden, nh>>
                  /\ IF life = "bare" THEN DeallocElsewhere(mem, m) /\ UNCHANGED pend
                                      ELSE pend' = <<MT("u")>> /\ UNCHANGED vars
            \/ \E mem \in DOMAIN req : /\ hid[mem] \in sown /\ Dealloc(mem, req[mem]) /\ Call("sdel", hid[mem], req[mem])
                                       /\ hid' = [x \in DOMAIN req' |-> hid[x]] /\ UNCHANGED <<na, sown>> /\ PreSame
            \/ \E m \in ForeignSizes : life = "bare" /\ DeallocUnknown /\ Call("foreign", 1, m) /\ UNCHANGED <<hid, na, sown>> /\ PreSame
            \/ life = "bare" /\ Idle # {} /\ ClearCache /\ Call("clearcache", 0, 0) /\ UNCHANGED <<hid, na, sown>> /\ PreSame
            \/ life = "bare" /\ AllBlocks # {} /\ ClearAll /\ Call("clearall", 0, 0) /\ hid' = <<>> /\ UNCHANGED <<na, sown>> /\ PreSame
            \/ /\ Destroy /\ Call(IF life = "bare" THEN "del" ELSE "gdel", 0, 0)
               /\ hid' = <<>> /\ UNCHANGED <<na, sown, np, pend, tmp, nh>> /\ pre' = <<>> /\ fix' = FALSE /\ hidden' = {}
\* the calls on the cache a script call consists of, one per step (no call is recorded)
\* (they get negative names so that the numbering of the alloc / snew calls is not disturbed)
NamedHidden == /\ UNCHANGED na /\ nh' = nh + 1 /\ hidden' = hidden \cup {0 - (nh + 1)}
               /\ hid' = [m \in DOMAIN req' |-> IF m \in DOMAIN req THEN hid[m] ELSE 0 - (nh + 1)]
GMicro == /\ pend # <<>> /\ UNCHANGED <<h, done, sown, np, fix>>
          /\ LET m == pend[1] IN
             CASE m.t = "a"  -> /\ AllocImpl(m.n) /\ NamedHidden /\ pend' = Tail(pend)
                                /\ IF m.k = 0 THEN tmp' = last'.mem /\ UNCHANGED pre
                                              ELSE pre' = [pre EXCEPT ![m.k].mem = last'.mem] /\ UNCHANGED tmp
               [] m.t = "d"  -> /\ Dealloc(m.mem, req[m.mem]) /\ hid' = [x \in DOMAIN req' |-> hid[x]] /\ pend' = Tail(pend)
                                /\ UNCHANGED <<na, pre, tmp, hidden, nh>>
               [] m.t = "dt" -> /\ Dealloc(tmp, req[tmp]) /\ hid' = [x \in DOMAIN req' |-> hid[x]] /\ pend' = Tail(pend)
                                /\ UNCHANGED <<na, pre, tmp, hidden, nh>>
               [] m.t = "u"  -> /\ UNCHANGED <<hid, na, pre, tmp, hidden, nh>>
                                /\ IF warned THEN DeallocUnknown /\ pend' = Tail(pend)
                                   ELSE WarnBegin /\ pend' = (IF fix THEN <<MT("o"), MT("U")>> ELSE <<>>) \o <<MT("e")>> \o Tail(pend)
               [] m.t = "o"  -> AllocImpl(OutN) /\ NamedHidden /\ pend' = Tail(pend) /\ UNCHANGED <<pre, tmp>>
               [] m.t = "U"  -> DeallocUnknown /\ pend' = Tail(pend) /\ UNCHANGED <<hid, na, pre, tmp, hidden, nh>>
               [] m.t = "e"  -> WarnEnd /\ pend' = Tail(pend) /\ UNCHANGED <<hid, na, pre, tmp, hidden, nh>>
\* every behaviour ends with everything given back: clearAll of a bare cache, destruction of a global cache
\* (with whatever is still in use); then the closing step prints it
GEnd == /\ Len(h) = D /\ pend = <<>> /\ ~done /\ done' = TRUE /\ UNCHANGED <<na, sown, np, pre, fix, pend, tmp, hidden, nh>>
        /\ CASE life = "bare"   -> ClearAll /\ Call("clearall", 0, 0) /\ hid' = <<>>
             [] life = "global" -> Destroy /\ Call("gdel", 0, 0) /\ hid' = <<>>
             [] OTHER           -> UNCHANGED <<vars, h, hid>>
GNext == GStep \/ GMicro \/ GEnd
GSpec == GInit /\ [][GNext]_gvars
Dump == done => PrintT(<<"BEH", ToJson(h)>>)
=============================================================================
