---------------------------- MODULE Gen_StrCache ----------------------------
(* Behaviour generation for C18: the calls of StrCache with a history variable.  Only the calls are
   recorded; what the real classes answer is validated afterwards by Trace_StrCache.  Calls:
     new / gnew            construct a bare SimpleStringInternalCache / a GlobalSimpleStringCache
     alloc k n             buffer request (bare: cache.alloc; global: through the adaptor SimpleStringCacheAllocator)
     dealloc k m           release of the k-th allocation with a size of the same class
     snew k n / sdel k n   (global) a SimpleString with an n-byte buffer is created / destroyed
     foreign / clearcache / clearall   (bare) release of a foreign pointer, clearCache, clearAll
     del / gdel            destroy the bare cache (after it was cleared) / the global cache (buffers may be in use)
   Buffers are named by the index of the alloc call that produced them, so that a behaviour means the
   same on any implementation of the cache.  Alloc follows AllocImpl (the internal choice does not
   change which call sequences exist).  A behaviour may contain several life cycles. *)
EXTENDS StrCache, Json
CONSTANTS D,            \* number of calls per behaviour
          ForeignSizes, \* sizes passed with releases of foreign pointers
          Kinds         \* kinds of cache object to construct: subset of {"bare", "global"}
VARIABLES h, done, hid, na, sown
gvars == <<vars, h, done, hid, na, sown>>

Call(op, a, n) == h' = Append(h, [op |-> op, a |-> a, n |-> n])
Room == Cardinality(DOMAIN req) < MaxLive
Named == hid' = [m \in DOMAIN req' |-> IF m \in DOMAIN req THEN hid[m] ELSE na + 1]

GInit == Init /\ h = <<>> /\ done = FALSE /\ hid = <<>> /\ na = 0 /\ sown = {}
GStep == /\ Len(h) < D /\ UNCHANGED done
         /\ \/ \E k \in Kinds : /\ Construct(k, {}) /\ Call(IF k = "bare" THEN "new" ELSE "gnew", 0, 0)
                                /\ UNCHANGED <<hid, na, sown>>
            \/ \E n \in Sizes : /\ Room /\ AllocImpl(n) /\ Call("alloc", na + 1, n)
                                /\ na' = na + 1 /\ Named /\ UNCHANGED sown
            \/ \E n \in Sizes \ {0} : /\ life = "global" /\ Room /\ AllocImpl(n) /\ Call("snew", na + 1, n)
                                      /\ na' = na + 1 /\ Named /\ sown' = sown \cup {na + 1}
            \/ \E mem \in DOMAIN req, m \in Sizes : /\ hid[mem] \notin sown /\ Dealloc(mem, m) /\ Call("dealloc", hid[mem], m)
                                                    /\ hid' = [x \in DOMAIN req' |-> hid[x]] /\ UNCHANGED <<na, sown>>
            \/ \E mem \in DOMAIN req : /\ hid[mem] \in sown /\ Dealloc(mem, req[mem]) /\ Call("sdel", hid[mem], req[mem])
                                       /\ hid' = [x \in DOMAIN req' |-> hid[x]] /\ UNCHANGED <<na, sown>>
            \/ \E m \in ForeignSizes : life = "bare" /\ DeallocUnknown /\ Call("foreign", 1, m) /\ UNCHANGED <<hid, na, sown>>
            \/ life = "bare" /\ Idle # {} /\ ClearCache /\ Call("clearcache", 0, 0) /\ UNCHANGED <<hid, na, sown>>
            \/ life = "bare" /\ AllBlocks # {} /\ ClearAll /\ Call("clearall", 0, 0) /\ hid' = <<>> /\ UNCHANGED <<na, sown>>
            \/ /\ Destroy /\ Call(IF life = "bare" THEN "del" ELSE "gdel", 0, 0)
               /\ hid' = <<>> /\ UNCHANGED <<na, sown>>
\* every behaviour ends with everything given back: clearAll of a bare cache, destruction of a global cache
\* (with whatever is still in use); then the closing step prints it
GEnd == /\ Len(h) = D /\ ~done /\ done' = TRUE /\ UNCHANGED <<na, sown>>
        /\ CASE life = "bare"   -> ClearAll /\ Call("clearall", 0, 0) /\ hid' = <<>>
             [] life = "global" -> Destroy /\ Call("gdel", 0, 0) /\ hid' = <<>>
             [] OTHER           -> UNCHANGED <<vars, h, hid>>
GNext == GStep \/ GEnd
GSpec == GInit /\ [][GNext]_gvars
Dump == done => PrintT(<<"BEH", ToJson(h)>>)
=============================================================================
