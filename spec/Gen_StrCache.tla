---------------------------- MODULE Gen_StrCache ----------------------------
(* Behaviour generation for C18: the calls of StrCache with a history variable.  Only the calls are
   recorded (alloc size / dealloc of the k-th allocation with a size of the same class / release of a
   foreign pointer / clearCache / clearAll); what the real cache answers is validated afterwards by
   Trace_StrCache.  Buffers are named by the index of the alloc call that produced them, so that a
   behaviour means the same on any implementation of the cache.  Alloc follows AllocImpl (the internal
   choice does not change which call sequences exist). *)
EXTENDS StrCache, Json
CONSTANTS D,           \* number of calls per behaviour
          ForeignSizes \* sizes passed with releases of foreign pointers
VARIABLES h, done, hid, na
gvars == <<vars, h, done, hid, na>>

Call(op, a, n) == h' = Append(h, [op |-> op, a |-> a, n |-> n])

GInit == Init /\ h = <<>> /\ done = FALSE /\ hid = <<>> /\ na = 0
GStep == /\ Len(h) < D /\ UNCHANGED done
         /\ \/ \E n \in Sizes : /\ Cardinality(DOMAIN req) < MaxLive /\ AllocImpl(n) /\ Call("alloc", na + 1, n)
                                /\ na' = na + 1 /\ hid' = [m \in DOMAIN req' |-> IF m \in DOMAIN req THEN hid[m] ELSE na + 1]
            \/ \E mem \in DOMAIN req, m \in Sizes : /\ Dealloc(mem, m) /\ Call("dealloc", hid[mem], m)
                                                    /\ hid' = [x \in DOMAIN req' |-> hid[x]] /\ UNCHANGED na
            \/ \E m \in ForeignSizes : DeallocUnknown /\ Call("foreign", 1, m) /\ UNCHANGED <<hid, na>>
            \/ Idle # {} /\ ClearCache /\ Call("clearcache", 0, 0) /\ UNCHANGED <<hid, na>>
            \/ AllBlocks # {} /\ ClearAll /\ Call("clearall", 0, 0) /\ hid' = <<>> /\ UNCHANGED na
\* every behaviour ends with clearAll (everything must come back), then one closing step prints it
GEnd == /\ Len(h) = D /\ ~done /\ done' = TRUE /\ ClearAll /\ Call("clearall", 0, 0) /\ hid' = <<>> /\ UNCHANGED na
GNext == GStep \/ GEnd
GSpec == GInit /\ [][GNext]_gvars
Dump == done => PrintT(<<"BEH", ToJson(h)>>)
=============================================================================
