---------------------------- MODULE Gen_MockValue ----------------------------
(* Table generation for C09: every call of MockValue over the enumerated domain (boundary lattice x 36
   integer type pairs, the non-integer types, six getters per stored integer), one behaviour of length
   one per call.  Only the call is printed; the expected results are predicted by Trace_MockValue when the
   log recorded from the real MockNamedValue is validated. *)
EXTENDS MockValue, Json
VARIABLES h, done
gvars == <<vars, h, done>>
GInit == Init /\ h = <<>> /\ done = FALSE
GStep == /\ h = <<>> /\ UNCHANGED done
         /\ \/ \E x, y \in IntValues : Compare(x, y) /\ h' = <<[op |-> "eq", a |-> x, b |-> y]>>
            \/ \E x, y \in OtherValues \cup FewInts : Compare(x, y) /\ h' = <<[op |-> "eq", a |-> x, b |-> y]>>
            \/ \E x \in IntValues, g \in IntTypes : Read(x, g) /\ res' = Fail /\ h' = <<[op |-> "get", a |-> x, b |-> [t |-> g]]>>
GEnd == h # <<>> /\ ~done /\ done' = TRUE /\ UNCHANGED <<vars, h>>
GNext == GStep \/ GEnd
GSpec == GInit /\ [][GNext]_gvars
Dump == done => PrintT(<<"BEH", ToJson(h)>>)
=============================================================================
