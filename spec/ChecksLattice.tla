--------------------------- MODULE ChecksLattice ---------------------------
(***************************************************************************)
(* Operand lattices for the check kinds of Checks.tla (C03) and the set    *)
(* of calls (rows) built from them.  Every row satisfies WellFormed.       *)
(* Used by MC_Checks (laws + accounting) and Gen_Checks (table).           *)
(***************************************************************************)
EXTENDS Checks

CONSTANTS IntExps,    \* boundary exponents n: values 2^n + d and -(2^n + d)
          IntD,       \* |d| <= IntD
          DblK,       \* finite doubles k * 2^e, k <= DblK
          DblExps,    \* exponents e (far apart: subnormal, unit, huge)
          StrAlpha,   \* bytes used in strings
          StrMax,     \* maximal string length
          MemBytes,   \* bytes used in memory blocks
          MemMax,     \* maximal block length
          BitPos,     \* bit positions used in masked-bit operands
          CmpTypes    \* operand types swept for the relational check

Deltas == (0 - IntD)..IntD
Mags == { <<0, 0, d>> : d \in 0..IntD } \cup
        { MagAdd(Pow2Mag(n), d) : n \in IntExps, d \in Deltas }
IntLattice == { Pos(m) : m \in Mags } \cup { Neg(m) : m \in Mags }
IntsOf(T) == { v \in IntLattice : InRange(T, v) }

DblVals == {DNaN, DInf(TRUE), DInf(FALSE), DFin(FALSE, 0, 0), DFin(TRUE, 0, 0)} \cup
           { DFin(s, k, e) : s \in BOOLEAN, k \in 1..DblK, e \in DblExps }

Strs == SeqsUpTo(StrAlpha, StrMax)
StrsN == Strs \cup {NULLS}
Blocks == SeqsUpTo(MemBytes, MemMax)
BlocksN == Blocks \cup {NULLS}

\* a set of bit positions as an exact value
RECURSIVE SumPow(_, _, _)
SumPow(S, lo, hi) == IF S = {} THEN 0 ELSE LET p == CHOOSE q \in S : TRUE IN
                        (IF p >= lo /\ p < hi THEN 2^(p - lo) ELSE 0) + SumPow(S \ {p}, lo, hi)
BitsVal(S) == Pos(<<SumPow(S, 48, 72), SumPow(S, 24, 48), SumPow(S, 0, 24)>>)
BitVals(w) == { BitsVal(S) : S \in SUBSET { p \in BitPos : p < 8 * w } }

\* Rows are built per family by a parameterised operator, so that TLC evaluates only the family asked for.
IntRows(k) == LET T == IntKinds[k] IN
    CASE k = "CHECK_EQUAL_ZERO" -> { [op |-> "int", k |-> k, x |-> Zero, y |-> y] : y \in IntsOf(T) }
      [] k = "CHECK_EQUAL_bool" -> { [op |-> "int", k |-> k, x |-> x, y |-> y] :
                                       x \in {Zero, IV(FALSE, 0, 0, 1)}, y \in {Zero, IV(FALSE, 0, 0, 1)} }
      [] OTHER -> { [op |-> "int", k |-> k, x |-> x, y |-> y] : x \in IntsOf(T), y \in IntsOf(T) }
CmpRows(t) == { [op |-> "cmp", k |-> "CHECK_COMPARE", t |-> t, rel |-> r, x |-> x, y |-> y] :
                  r \in RelOps, x \in IntsOf(t), y \in IntsOf(t) }
BoolRows(d) == { [op |-> "bool", k |-> k, x |-> x] : k \in BoolKinds, x \in IntsOf("int") }
FailRows(d) == { [op |-> "fail", k |-> k] : k \in FailKinds }
ThrowRows(d) == { [op |-> "throws", k |-> "CHECK_THROWS", x |-> x] : x \in {"expected", "other", "none"} }
StrRows(k) == CASE k = "STRNCMP_EQUAL" ->
                     { [op |-> "str", k |-> k, x |-> x, y |-> y, n |-> n] : x \in StrsN, y \in StrsN, n \in 0..(StrMax + 1) }
                [] k = "CHECK_EQUAL_SimpleString" ->
                     { [op |-> "str", k |-> k, x |-> x, y |-> y, n |-> 0] : x \in Strs, y \in Strs }
                [] OTHER -> { [op |-> "str", k |-> k, x |-> x, y |-> y, n |-> 0] : x \in StrsN, y \in StrsN }
MemRows(k) == { c \in { [op |-> "mem", k |-> k, x |-> x, y |-> y, n |-> n] : x \in BlocksN, y \in BlocksN, n \in 0..MemMax } :
                  MemWellFormed(c.x, c.y, c.n) }
BitsRows(k) == UNION { { [op |-> "bits", k |-> k, x |-> x, y |-> y, mask |-> m, w |-> w] :
                           x \in BitVals(w), y \in BitVals(w), m \in BitVals(w) } :
                       w \in (IF k = "BITS_EQUAL" THEN {1, 2, 4, 8} ELSE {1, 2, 4}) }
PtrRows(d) == { [op |-> "ptr", k |-> k, x |-> x, y |-> y] : k \in PtrKinds, x \in 0..2, y \in 0..2 }
DblRows(k) == IF k = "CHECK_EQUAL_double"
              THEN { c \in { [op |-> "dbl", k |-> k, x |-> x, y |-> y, t |-> DFin(FALSE, 0, 0)] : x \in DblVals, y \in DblVals } :
                       WellFormedDbl(c.x, c.y, c.t) }
              ELSE { c \in { [op |-> "dbl", k |-> k, x |-> x, y |-> y, t |-> t] : x \in DblVals, y \in DblVals, t \in DblVals } :
                       WellFormedDbl(c.x, c.y, c.t) }

Family(f) == CASE f = "int" -> UNION { IntRows(k) : k \in IntKindNames }
               [] f = "cmp" -> UNION { CmpRows(t) : t \in CmpTypes }
               [] f = "misc" -> BoolRows(0) \cup FailRows(0) \cup ThrowRows(0) \cup PtrRows(0)
               [] f = "str" -> UNION { StrRows(k) : k \in StrKinds }
               [] f = "mem" -> UNION { MemRows(k) : k \in MemKinds }
               [] f = "bits" -> UNION { BitsRows(k) : k \in BitsKinds }
               [] f = "dbl" -> UNION { DblRows(k) : k \in DblKinds }
Families == {"int", "cmp", "misc", "str", "mem", "bits", "dbl"}
\* a family name, or several joined by "+" is not supported: "all" stands for every family
RowsOf(f) == IF f = "all" THEN UNION { Family(g) : g \in Families } ELSE Family(f)
=============================================================================
