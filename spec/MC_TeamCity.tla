---------------------------- MODULE MC_TeamCity ----------------------------
(* Leg 1 for C20: the reporter state machine over representative names (all strings over small
   alphabets INCLUDING the empty string, cfg files cannot write tuples), plus the escaping theorem over ALL byte strings up
   to EscLen over EscAlphabet (ASSUME: evaluated once, before the search). *)
EXTENDS TeamCity
CONSTANTS NameAlpha, NameLen, FileAlpha, FileLen, FileMin, MsgAlpha, MsgLen, EscAlphabet, EscLen
MCNames == StrUpTo(NameAlpha, NameLen)       \* the empty name, path and message are values like any other
MCFiles == {f \in StrUpTo(FileAlpha, FileLen) : Len(f) >= FileMin}
MCMsgs  == StrUpTo(MsgAlpha, MsgLen)
MCTexts == {<<116>>}
AllOpts == [color : BOOLEAN, verb : 0..2]
PlainOpts == {NoOpt}
ASSUME EscapeCorrect(EscAlphabet, EscLen)
ASSUME LocationSound
\* no two texts share a wire form: Esc is injective on the checked strings
ASSUME \A s1, s2 \in StrUpTo(EscAlphabet, EscLen - 1) : Esc(s1) = Esc(s2) => s1 = s2
=============================================================================
