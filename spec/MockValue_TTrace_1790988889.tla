---- MODULE MockValue_TTrace_1790988889 ----
EXTENDS Sequences, TLCExt, Toolbox, MockValue, Naturals, TLC

_expression ==
    LET MockValue_TEExpression == INSTANCE MockValue_TEExpression
    IN MockValue_TEExpression!expression
----

_trace ==
    LET MockValue_TETrace == INSTANCE MockValue_TETrace
    IN MockValue_TETrace!trace
----

_inv ==
    ~(
        TLCGet("level") = Len(_TETrace)
        /\
        a = ([neg |-> TRUE, m |-> <<0, 0, 0, 1>>, t |-> "int"])
        /\
        op = ("get")
        /\
        res = ([neg |-> FALSE, m |-> <<0, 0, 0, 0>>, k |-> "fail"])
        /\
        b = ([t |-> "unsigned int"])
    )
----

_init ==
    /\ a = _TETrace[1].a
    /\ b = _TETrace[1].b
    /\ op = _TETrace[1].op
    /\ res = _TETrace[1].res
----

_next ==
    /\ \E i,j \in DOMAIN _TETrace:
        /\ \/ /\ j = i + 1
              /\ i = TLCGet("level")
        /\ a  = _TETrace[i].a
        /\ a' = _TETrace[j].a
        /\ b  = _TETrace[i].b
        /\ b' = _TETrace[j].b
        /\ op  = _TETrace[i].op
        /\ op' = _TETrace[j].op
        /\ res  = _TETrace[i].res
        /\ res' = _TETrace[j].res

\* Uncomment the ASSUME below to write the states of the error trace
\* to the given file in Json format. Note that you can pass any tuple
\* to `JsonSerialize`. For example, a sub-sequence of _TETrace.
    \* ASSUME
    \*     LET J == INSTANCE Json
    \*         IN J!JsonSerialize("MockValue_TTrace_1790988889.json", _TETrace)

=============================================================================

 Note that you can extract this module `MockValue_TEExpression`
  to a dedicated file to reuse `expression` (the module in the 
  dedicated `MockValue_TEExpression.tla` file takes precedence 
  over the module `MockValue_TEExpression` below).

---- MODULE MockValue_TEExpression ----
EXTENDS Sequences, TLCExt, Toolbox, MockValue, Naturals, TLC

expression == 
    [
        \* To hide variables of the `MockValue` spec from the error trace,
        \* remove the variables below.  The trace will be written in the order
        \* of the fields of this record.
        a |-> a
        ,b |-> b
        ,op |-> op
        ,res |-> res
        
        \* Put additional constant-, state-, and action-level expressions here:
        \* ,_stateNumber |-> _TEPosition
        \* ,_aUnchanged |-> a = a'
        
        \* Format the `a` variable as Json value.
        \* ,_aJson |->
        \*     LET J == INSTANCE Json
        \*     IN J!ToJson(a)
        
        \* Lastly, you may build expressions over arbitrary sets of states by
        \* leveraging the _TETrace operator.  For example, this is how to
        \* count the number of times a spec variable changed up to the current
        \* state in the trace.
        \* ,_aModCount |->
        \*     LET F[s \in DOMAIN _TETrace] ==
        \*         IF s = 1 THEN 0
        \*         ELSE IF _TETrace[s].a # _TETrace[s-1].a
        \*             THEN 1 + F[s-1] ELSE F[s-1]
        \*     IN F[_TEPosition - 1]
    ]

=============================================================================



Parsing and semantic processing can take forever if the trace below is long.
 In this case, it is advised to uncomment the module below to deserialize the
 trace from a generated binary file.

\*
\*---- MODULE MockValue_TETrace ----
\*EXTENDS IOUtils, MockValue, TLC
\*
\*trace == IODeserialize("MockValue_TTrace_1790988889.bin", TRUE)
\*
\*=============================================================================
\*

---- MODULE MockValue_TETrace ----
EXTENDS MockValue, TLC

trace == 
    <<
    ([a |-> [t |-> "none"],op |-> "init",res |-> [t |-> "none"],b |-> [t |-> "none"]]),
    ([a |-> [neg |-> TRUE, m |-> <<0, 0, 0, 1>>, t |-> "int"],op |-> "get",res |-> [neg |-> FALSE, m |-> <<0, 0, 0, 0>>, k |-> "fail"],b |-> [t |-> "unsigned int"]])
    >>
----


=============================================================================

---- CONFIG MockValue_TTrace_1790988889 ----

INVARIANT
    _inv

CHECK_DEADLOCK
    \* CHECK_DEADLOCK off because of PROPERTY or INVARIANT above.
    FALSE

INIT
    _init

NEXT
    _next

CONSTANT
    _TETrace <- _trace

ALIAS
    _expression
=============================================================================
\* Generated on Sat Oct 03 00:54:54 UTC 2026