---------------------------- MODULE MC_SimpleStr ----------------------------
(* Leg 1 for C13.
   (a) The object-level machine of SimpleStr with the allocator events of the intended design (every object owns
       exactly one buffer of Len+1 bytes; a call that changes an object obtains the new buffer and returns the old
       one with its recorded size) satisfies the buffer clauses: ids unique, owners = live buffers (refinement of
       the ownership layer by the ghost set), nothing outstanding when no object exists.
   (b) Laws: the textbook operators are confronted with independent characterisations over small lattices
       (length of a replacement, pieces of a split concatenate to the string, escaping length, ...). *)
EXTENDS SimpleStrLattice
CONSTANTS GA, GL, GH, MaxId
VARIABLES own, nextid
mvars == <<vars, own, nextid>>
None == <<0, 0>>
GS == SeqsUpTo(GA, GL)
GP == 0..(GL + 1)
\* sizes of the object-level `sub': the small positions and the symbolic sizes GH, as pairs <<number, name>>
GSz == { <<p, "">> : p \in GP } \cup { <<0, hn>> : hn \in GH }
OC(fn, i, j, k, s1, s2, n1, n2) == [op |-> "o", fn |-> fn, i |-> i, j |-> j, k |-> k, s1 |-> s1, s2 |-> s2, n1 |-> n1, n2 |-> n2, hg |-> <<"", "">>]
OCH(fn, i, j, b, n) == [op |-> "o", fn |-> fn, i |-> i, j |-> j, k |-> 0, s1 |-> <<>>, s2 |-> <<>>, n1 |-> b[1], n2 |-> n[1], hg |-> <<b[2], n[2]>>]

MInit == Init /\ own = [i \in Objs |-> None] /\ nextid = 1

\* events of the intended design for the transition val -> post: objects in increasing order
RECURSIVE EvFor(_, _, _)
EvFor(post, i, nid) ==
    IF i > NObj THEN <<>>
    ELSE IF post[i] = val[i] THEN EvFor(post, i + 1, nid)
    ELSE (IF post[i] # NoObj THEN <<<<1, nid, Len(post[i]) + 1>>>> ELSE <<>>) \o
         (IF val[i] # NoObj THEN <<<<2, own[i][1], own[i][2]>>>> ELSE <<>>) \o
         EvFor(post, i + 1, IF post[i] # NoObj THEN nid + 1 ELSE nid)
RECURSIVE OwnFor(_, _, _)
OwnFor(post, i, nid) ==
    IF i > NObj THEN <<>>
    ELSE IF post[i] = val[i] THEN <<own[i]>> \o OwnFor(post, i + 1, nid)
    ELSE IF post[i] # NoObj THEN <<<<nid, Len(post[i]) + 1>>>> \o OwnFor(post, i + 1, nid + 1)
    ELSE <<None>> \o OwnFor(post, i + 1, nid)
Created(post) == Cardinality({ i \in Objs : post[i] # val[i] /\ post[i] # NoObj })

MObj(o) == /\ nextid + NObj <= MaxId
           /\ ObjPre(o)
           /\ \E post \in ObjPost(o) :
                /\ Obj(o, EvFor(post, 1, nextid)) /\ val' = post
                /\ own' = OwnFor(post, 1, nextid)
                /\ nextid' = nextid + Created(post)
MNext == \/ \E i \in Objs, s \in GS : MObj(OC("new", i, 0, 0, s, <<>>, 0, 0))
         \/ \E i \in Objs : MObj(OC("del", i, 0, 0, <<>>, <<>>, 0, 0))
         \/ \E i \in Objs, j \in Objs : \/ MObj(OC("assign", i, j, 0, <<>>, <<>>, 0, 0))
                                        \/ MObj(OC("append", i, j, 0, <<>>, <<>>, 0, 0))
                                        \/ MObj(OC("lower", i, j, 0, <<>>, <<>>, 0, 0))
                                        \/ MObj(OC("printable", i, j, 0, <<>>, <<>>, 0, 0))
                                        \/ MObj(OC("pad", i, j, 0, <<>>, <<>>, 32, 0))
         \/ \E i \in Objs, j \in Objs, b \in GSz, n \in GSz : MObj(OCH("sub", i, j, b, n))
         \/ \E i \in Objs, s \in GS : MObj(OC("appendlit", i, 0, 0, s, <<>>, 0, 0))
         \/ \E i \in Objs, a \in GA, b \in GA : MObj(OC("replacech", i, 0, 0, <<>>, <<>>, a, b))
         \/ \E i \in Objs, s \in GS, t \in GS : MObj(OC("replacestr", i, 0, 0, s, t, 0, 0))
         \/ \E i \in Objs, j \in Objs, k \in Objs : MObj(OC("plus", i, j, k, <<>>, <<>>, 0, 0))
         \/ MObj(OC("end", 0, 0, 0, <<>>, <<>>, 0, 0))
MSpec == MInit /\ [][MNext]_mvars

\* strings grow without bound (s += s): the model is explored up to a length bound
Bounded == \A i \in Objs : val[i] = NoObj \/ Len(val[i]) <= 4 * GL

OwnRefines == { own[i] : i \in { q \in Objs : Exists(q) } } = live /\ \A i \in Objs : ~Exists(i) => own[i] = None
OneBufferEach == Cardinality(live) = Cardinality({ i \in Objs : Exists(i) })
SizesFit == \A i \in Objs : Exists(i) => own[i][2] = Len(val[i]) + 1

-----------------------------------------------------------------------------
Concat(ss) == FlattenSeqs(ss)
StrLaws ==
    /\ \A s \in S2, t \in S2 :
         /\ HasSub(s, t) = (\E u \in S2, v \in S2 : s = u \o t \o v)
         /\ StartsWith(s, t) = (\E v \in S2 : s = t \o v)
         /\ EndsWith(s, t) = (\E u \in S2 : s = u \o t)
         /\ (StrStrPos(s, t) >= 0) = HasSub(s, t)
         /\ (StrStrPos(s, t) >= 0) => OccursAt(s, t, StrStrPos(s, t) + 1)
         /\ CmpSign(s, t) = 0 - CmpSign(t, s) /\ ((CmpSign(s, t) = 0) = (s = t))
         /\ (t # <<>>) => CountSub(s, t) >= Len(NonOverlapping(s, t))
         /\ (t # <<>>) => (CountSub(s, t) > 0) = HasSub(s, t)
         \* split: the pieces concatenate to the string; all but possibly the last end with the delimiter
         /\ (t # <<>>) => LET ps == SplitBy(s, t) IN
                            /\ Concat(ps) = s
                            /\ \A i \in 1..Len(ps) : ps[i] # <<>> /\ (i < Len(ps) => EndsWith(ps[i], t))
                            \* one piece per (non-overlapping) delimiter, plus the remainder when it is not empty;
                            \* the remainder contains no delimiter
                            /\ LET n == Len(NonOverlapping(s, t)) IN
                                 /\ Len(ps) \in {n, n + 1}
                                 /\ (Len(ps) = n + 1) => ~HasSub(ps[Len(ps)], t)
                                 /\ (Len(ps) = n /\ s # <<>>) => EndsWith(s, t)
    /\ \A s \in S2, t \in S2, w \in S2 :
         \* replace: length law and "nothing to replace => unchanged"
         /\ (t # <<>>) => Len(ReplaceSub(s, t, w)) = Len(s) + Len(NonOverlapping(s, t)) * (Len(w) - Len(t))
         /\ (~HasSub(s, t) \/ t = <<>>) => ReplaceSub(s, t, w) = s
         /\ ReplaceSub(s, t, t) = s
         \* when the replacement shares no byte with the pattern, no occurrence of the pattern is left
         /\ (t # <<>> /\ \A x \in ToSetOf(w) : x \notin ToSetOf(t)) => ~HasSub(ReplaceSub(s, t, w), t)
    \* the symbolic sizes: every number >= the length of the string behaves like Beyond, in every operation that takes one
    /\ \A s \in S2, t \in S2, b \in P, c \in Chars2 : \A big \in {Len(s), Len(s) + 1, Len(s) + Len(t) + 7, 2147483646} :
         /\ SubStr1(s, Beyond) = <<>> /\ SubStr1(s, big) = <<>>
         /\ SubStr2(s, b, Beyond) = SubStr1(s, b) /\ SubStr2(s, b, big) = SubStr1(s, b)
         /\ SubStr2(s, Beyond, b) = <<>> /\ SubStr2(s, big, b) = <<>> /\ SubStr2(s, Beyond, Beyond) = <<>>
         /\ FindFrom(s, Beyond, c) = -1 /\ FindFrom(s, big, c) = -1
         /\ CmpSignN(s, t, Beyond) = CmpSign(s, t) /\ CmpSignN(s, t, Max2(Len(s), Len(t)) + 1) = CmpSign(s, t)
         /\ TakeN(s, Beyond - 1) = s /\ TakeN(s, big) = s
         /\ Rep(<<>>, Beyond) = <<>>
    /\ \A V \in SUBSET BitPos, M \in SUBSET BitPos : MaskedBits(V, M, Beyond) = MaskedBits(V, M, 8)
    /\ \A s \in S2, b \in P, n \in P :
         /\ SubStr2(s, b, n) = [i \in 1..Min2(n, Max2(Len(s) - b, 0)) |-> s[b + i]]
         /\ SubStr1(s, b) = SubStr2(s, b, Len(s) + 1)
         /\ HasSub(s, SubStr2(s, b, n))
    /\ \A s \in S1 : \A hi \in BOOLEAN :
         LET p == PrintableWith(s, hi)
             short == Cardinality({ i \in 1..Len(s) : s[i] \in 7..13 })
             hex == Cardinality({ i \in 1..Len(s) : (s[i] < 32 /\ s[i] \notin 7..13) \/ s[i] = 127 \/ (hi /\ s[i] >= 128) })
         IN /\ Len(p) = Len(s) + short + 3 * hex
            /\ \A i \in 1..Len(p) : p[i] >= 32 /\ p[i] # 127 /\ (hi => p[i] < 128)
    /\ \A s \in SC : Lower(Lower(s)) = Lower(s) /\ Len(Lower(s)) = Len(s)
    /\ \A s \in S2, t \in S2 : LET p == Padded(s, t, 32) IN Len(p[1]) = Len(p[2]) /\ EndsWith(p[1], s) /\ EndsWith(p[2], t)
                                                        /\ (p[1] = s \/ p[2] = t)
    /\ \A n \in 0..130 : LET o == Ordinal(n) IN Len(o) = Len(Digits(n)) + 2
    /\ Ordinal(111)[4] = 116 /\ Ordinal(112)[4] = 116 /\ Ordinal(113)[4] = 116 /\ Ordinal(121)[4] = 115 /\ Ordinal(101)[4] = 115
    /\ AtoI(<<32, 45, 49, 57, 97>>) = -19 /\ AtoU(<<9, 49, 57, 97, 49>>) = 19 /\ AtoI(<<43>>) = 0 /\ AtoI(<<45, 32, 49>>) = 0
    \* the character classes, byte by byte: the range tests of the operators against the extensional classes of <ctype.h>
    /\ \A c \in 0..255 :
         /\ IsSpaceCh(c) = (c \in SpaceBytes) /\ IsDigitCh(c) = (c \in DigitBytes)
         /\ (LowerCh(c) # c) = (c \in UpperBytes) /\ (c \in UpperBytes => LowerCh(c) = c + 32 /\ LowerCh(c) \notin UpperBytes)
         /\ \A hi \in BOOLEAN : Len(Esc(c, hi)) = (IF c \in LetterEscBytes THEN 2
                                                   ELSE IF c \in ControlBytes \/ (hi /\ c >= 128) THEN 4 ELSE 1)
         /\ (c \in ControlBytes \ LetterEscBytes) => Esc(c, FALSE) = <<92, 120, HexU(c \div 16), HexU(c % 16)>>
         /\ (c \notin ControlBytes /\ c < 128) => Esc(c, TRUE) = <<c>>
    /\ SpaceBytes \cap DigitBytes = {} /\ LetterEscBytes \subseteq ControlBytes /\ (SpaceBytes \ {32}) \subseteq LetterEscBytes
    /\ Cardinality(SpaceBytes) = 6 /\ Cardinality(DigitBytes) = 10 /\ Cardinality(UpperBytes) = 26 /\ Cardinality(ControlBytes) = 33
    \* AtoI / AtoU characterised without SkipSpaces / DigitRun: white space of the whole class in front of the decimal text of n,
    \* any byte that is no digit after it; a first byte that is neither white space, sign nor digit makes the number 0
    /\ \A w \in WhiteRuns, n \in {0, 7, 42, 1203} :
         /\ AtoI(w \o Digits(n)) = n /\ AtoU(w \o Digits(n)) = n
         /\ AtoI(w \o <<45>> \o Digits(n)) = 0 - n /\ AtoI(w \o <<43>> \o Digits(n)) = n
         /\ AtoU(w \o <<45>> \o Digits(n)) = 0 /\ AtoU(w \o <<43>> \o Digits(n)) = 0
         /\ AtoI(w \o <<45>> \o w \o Digits(n)) = (IF w = <<>> THEN 0 - n ELSE 0)
         /\ NumLen(w \o <<45>> \o Digits(n) \o w) = Len(Digits(n))
    /\ \A c \in AllB, n \in {0, 42} :
         /\ (c \notin DigitBytes) => (AtoI(Digits(n) \o <<c, 57>>) = n /\ AtoU(<<32>> \o Digits(n) \o <<c, 57>>) = n)
         /\ (c \in DigitBytes) => AtoI(Digits(n) \o <<c>>) = 10 * n + (c - 48)
         /\ (c \notin (SpaceBytes \cup DigitBytes \cup {43, 45})) => (AtoI(<<c>> \o Digits(n)) = 0 /\ AtoI(<<11, c>> \o Digits(n)) = 0)
         /\ (c \notin (SpaceBytes \cup DigitBytes)) => (AtoU(<<c>> \o Digits(n)) = 0 /\ AtoU(<<12, c>> \o Digits(n)) = 0)
         /\ (c \in SpaceBytes) => (AtoI(<<c, 45>> \o Digits(n)) = 0 - n /\ AtoU(<<c, c>> \o Digits(n)) = n)
    /\ MaskedBits({0, 7}, {0, 1, 7, 8}, 2) = <<120, 120, 120, 120, 120, 120, 120, 48, 32, 49, 120, 120, 120, 120, 120, 48, 49>>
    /\ BinaryText(<<0, 171, 255>>) = <<48, 48, 32, 65, 66, 32, 70, 70>>
ASSUME StrLaws
=============================================================================
