---------------------------- MODULE Trace_LeakTable ----------------------------
(* Trace validation for C04: the ndjson log recorded from the real MemoryLeakDetector
   (one line per public call, with its arguments and the observations made after it)
   must be a behaviour of LeakTable.  Every logged observation is bound:
   totals for the four period queries, misuse callback, and for report lines the parsed
   entries as a multiset (the property speaks of the SET of outstanding blocks; the
   order predicted by the implementation-shaped layer is a diagnostic, see Predict). *)
EXTENDS LeakTable, Json, IOUtils, Bags
VARIABLE l
tvars == <<vars, l>>
Tr == ndJsonDeserialize(IOEnv.TRACE)
E == Tr[l]
Is(op) == l <= Len(Tr) /\ Tr[l].op = op /\ l' = l + 1

SeqToBag(s) == LET F[i \in 0..Len(s)] == IF i = 0 THEN EmptyBag ELSE F[i-1] (+) SetToBag({s[i]}) IN F[Len(s)]
NormEntry(e) == [seq |-> e.seq, size |-> e.size, line |-> e.line, kind |-> e.kind]
ObsOK == /\ \A q \in Queries : Total(q)' = E.tot[q]
         /\ res' = E.res
         /\ ("rep" \in DOMAIN E) =>
               LET obs == [i \in 1..Len(E.rep) |-> NormEntry(E.rep[i])]
                   exp == EntriesOf(bucket', E.q) IN
               IF E.trunc THEN BagToSet(SeqToBag(obs)) \subseteq BagToSet(SeqToBag(exp)) /\ E.stated = Len(exp)
               ELSE SeqToBag(obs) = SeqToBag(exp) /\ E.stated = Len(exp)

TInit == Init /\ l = 1
TNext == /\ \/ Is("alloc") /\ Alloc(E.a, E.sz, E.k, E.ln)
            \/ Is("free") /\ (Free(E.a) \/ FreeUnknown(E.a))
            \/ Is("freenull") /\ FreeNull
            \/ Is("realloc") /\ (Realloc(E.a, E.a2, E.sz, E.ln) \/ ReallocUnknown(E.a))
            \/ Is("enable") /\ Enable
            \/ Is("disable") /\ Disable
            \/ Is("startchecking") /\ StartChecking
            \/ Is("stopchecking") /\ StopChecking
            \/ Is("incstage") /\ IncStage
            \/ Is("decstage") /\ DecStage
            \/ Is("freestage") /\ FreeStage
            \/ Is("clear") /\ Clear(E.q)
            \/ Is("demote") /\ Demote
            \/ Is("report") /\ Query
            \/ Is("inval") /\ Invalidate(E.a)
         /\ ObsOK
\* executions are concatenated with reset lines (fresh detector)
TReset == Is("reset") /\ bucket' = [i \in 0..P-1 |-> <<>>] /\ period' = "disabled" /\ stage' = 0
          /\ seq' = 1 /\ live' = {} /\ res' = "ok"
TSpec == TInit /\ [][TNext \/ TReset]_tvars
Accepted == TLCGet("stats").diameter - 1 = Len(Tr)
TInv == Refines /\ NoDupAddr /\ ChainsDisjoint /\ InRightBucket /\ TotalsExact /\ ReportExact /\ SeqUnique

\* diagnostics: the same walk without binding the observations, printing what the spec predicts
PNext == /\ \/ Is("alloc") /\ Alloc(E.a, E.sz, E.k, E.ln)
            \/ Is("free") /\ (Free(E.a) \/ FreeUnknown(E.a))
            \/ Is("freenull") /\ FreeNull
            \/ Is("realloc") /\ (Realloc(E.a, E.a2, E.sz, E.ln) \/ ReallocUnknown(E.a))
            \/ Is("enable") /\ Enable
            \/ Is("disable") /\ Disable
            \/ Is("startchecking") /\ StartChecking
            \/ Is("stopchecking") /\ StopChecking
            \/ Is("incstage") /\ IncStage
            \/ Is("decstage") /\ DecStage
            \/ Is("freestage") /\ FreeStage
            \/ Is("clear") /\ Clear(E.q)
            \/ Is("demote") /\ Demote
            \/ Is("report") /\ Query
            \/ Is("inval") /\ Invalidate(E.a)
PSpec == TInit /\ [][PNext \/ TReset]_tvars
Predict == (l > 1 /\ l - 1 >= atoi(IOEnv.FROM_LINE_N)) =>
              PrintT(<<"BEH", ToJson([line |-> l - 1, tot |-> [q \in Queries |-> Total(q)], res |-> res,
                                      rep |-> ReportEntries("all")])>>)
=============================================================================
