---------------------------- MODULE OrderedReg ----------------------------
(* TEST_ORDERED (CppUTestExt/OrderedTest.cpp): ordered tests are kept as one block at the end of the registry's list,
   sorted by level, installation order among equal levels; ordinary tests are prepended as always.  Not one of the
   listed properties: part of growing the specification over the registry (DESIGN.md section 10). *)
EXTENDS Naturals, Sequences, FiniteSets, TLC
CONSTANTS Names, Levels
VARIABLES reg,      \* the registry's linked list, as a sequence of [name, ordered, level]
          seqno     \* installation counter
vars == <<reg, seqno>>
Init == reg = <<>> /\ seqno = 0
InReg == { reg[i].name : i \in 1..Len(reg) }
T(n, o, l) == [name |-> n, ordered |-> o, level |-> l]
\* TestRegistry::addTest through TestInstaller: prepend
AddNormal(n) == n \notin InReg /\ reg' = <<T(n, FALSE, 0)>> \o reg /\ seqno' = seqno + 1
\* OrderedTestInstaller: into the ordered block, before the first ordered test with a greater level
Ordinary == SelectSeq(reg, LAMBDA t : ~t.ordered)
OrderedBlock == SelectSeq(reg, LAMBDA t : t.ordered)
RECURSIVE InsertByLevel(_, _)
InsertByLevel(s, t) == IF s = <<>> THEN <<t>> ELSE IF Head(s).level > t.level THEN <<t>> \o s ELSE <<Head(s)>> \o InsertByLevel(Tail(s), t)
AddOrdered(n, l) == n \notin InReg /\ reg' = Ordinary \o InsertByLevel(OrderedBlock, T(n, TRUE, l)) /\ seqno' = seqno + 1
Next == \E n \in Names : AddNormal(n) \/ \E l \in Levels : AddOrdered(n, l)
Spec == Init /\ [][Next]_vars
NamesOf(s) == [i \in 1..Len(s) |-> s[i].name]
\* invariants
BlockAtEnd == \A i, j \in 1..Len(reg) : (reg[i].ordered /\ ~reg[j].ordered) => j < i
SortedByLevel == \A i, j \in 1..Len(reg) : (i < j /\ reg[i].ordered /\ reg[j].ordered) => reg[i].level <= reg[j].level
NothingLost == Len(reg) = seqno /\ Cardinality(InReg) = seqno
=============================================================================
