------------------------------ MODULE StrCache ------------------------------
(***************************************************************************)
(* CppUTest SimpleStringInternalCache (property C18).                      *)
(*                                                                         *)
(* The cache serves buffer requests for SimpleString.  Requests up to the  *)
(* largest class bound are served from size classes: each class keeps a    *)
(* list of idle blocks (`free') and a list of handed-out blocks (`used');  *)
(* larger requests get a block of their own that is kept on the            *)
(* `uncached' list while handed out and given back on release.             *)
(* A block is a piece of storage obtained from the underlying allocator:   *)
(* the memory handed to the caller (`mem', capacity `cap') plus whatever   *)
(* auxiliary allocations the cache needs to keep it (`aux': today one list *)
(* node per block).  Underlying allocations are identified by the numbers  *)
(* the underlying allocator gives them (ghost `nid'); `under' is the ghost *)
(* set of allocations obtained and not yet returned.                       *)
(*                                                                         *)
(* One action per public call.  `last' is what a caller / the underlying   *)
(* allocator can observe of the last call: the block handed out, whether   *)
(* the unknown-release warning was printed, the underlying allocations     *)
(* obtained and returned during the call.                                  *)
(*                                                                         *)
(* Life cycle (the "cleared (or destroyed)" clause).  A cache object is    *)
(* constructed and destroyed: `life' is "none" (no cache), "bare" (a       *)
(* SimpleStringInternalCache owned by somebody who clears it) or "global"  *)
(* (a GlobalSimpleStringCache: the cache plus its allocator adaptor,       *)
(* installed as the string allocator of SimpleString over the allocator    *)
(* that was installed before = the underlying allocator).  `salloc' says   *)
(* which allocator SimpleString uses: "under" (the previous / underlying   *)
(* one) or "cache" (the adaptor).  Under a global cache every string       *)
(* buffer request / release is an Alloc / Dealloc of this module.          *)
(* Destroying a global cache with buffers still in use (static or longer   *)
(* lived strings) returns EVERYTHING obtained from the underlying          *)
(* allocator, exactly once, and restores the previous string allocator.    *)
(* A bare cache leaves clearing to its owner: its destruction is only      *)
(* specified after everything was cleared (Destroy is not enabled          *)
(* otherwise - the property statement does not say who has to clear).      *)
(* `base' = underlying allocations the cache object holds for itself       *)
(* (today none: the class table comes from the default malloc allocator).  *)
(*                                                                         *)
(* Unknown releases.  Releasing a buffer the cache never handed out gives   *)
(* the warning the first time and changes nothing.  When the cache is the   *)
(* string allocator of SimpleString (global), PRINTING the warning is      *)
(* itself a client of the cache: the text is built from strings (requests  *)
(* and releases of known buffers) and may release further unknown buffers  *)
(* - e.g. the output string of the current test, created before the cache  *)
(* was installed, is appended to: a new buffer is requested, the old one   *)
(* (unknown) is released.  Such an unknown release therefore has a         *)
(* beginning (WarnBegin: the decision to warn, taken once) and an end      *)
(* (WarnEnd); `printing' counts the warnings being printed, the calls in   *)
(* between are ordinary calls.  An unknown release that arrives while the  *)
(* warning is printed is silent: still exactly one warning (`nwarn'), the  *)
(* lists untouched, no nesting (a nested warning would print itself again  *)
(* and never terminate: NoNestedWarning).                                  *)
(*                                                                         *)
(* A release names a buffer AND a size.  With a size of the class the       *)
(* buffer was requested in it is a proper release (Dealloc).  With a size   *)
(* of any other class - another cached class, or across the cached /        *)
(* non-cached border - the cache is asked for a buffer it does not keep     *)
(* there: an unknown release like that of a foreign pointer                 *)
(* (DeallocElsewhere / WarnBegin), the buffer stays handed out.             *)
(*                                                                         *)
(* The property leaves open WHICH idle block of the class is reused and    *)
(* whether one is reused at all: Alloc is nondeterministic there.          *)
(* AllocImpl is the choice the code makes today (head of the free list,    *)
(* new block only when the list is empty) and is used for generation.      *)
(***************************************************************************)
EXTENDS Naturals, Sequences, FiniteSets, TLC

CONSTANTS ClassMax,    \* the upper bounds of the size classes (measured from the code: {32,64,96,128,256})
          Sizes,       \* request sizes explored by the model
          MaxIds,      \* bound on the number of underlying allocations in the model
          MaxLive,     \* bound on simultaneously handed-out buffers in the model
          AuxCounts    \* how many auxiliary underlying allocations a new block may take (model: {1}, or {0,1})

VARIABLES free,      \* [ClassMax -> Seq(Block)]  idle blocks, head insertion
          used,      \* [ClassMax -> Seq(Block)]  handed-out blocks, head insertion
          uncached,  \* Seq(Block)                handed-out blocks above the largest class
          warned,    \* the one-time warning has been given
          under,     \* ghost: underlying allocations currently held by the cache
          nid,       \* ghost: number the underlying allocator gives to its next allocation
          req,       \* ghost: [mem -> requested size] of the buffers currently handed out
          last,      \* observable outcome of the last call
          life,      \* "none" | "bare" | "global": which cache object exists
          salloc,    \* "under" | "cache": the string allocator SimpleString uses
          base,      \* ghost: underlying allocations held by the cache object itself (not by a block)
          printing,  \* number of unknown-release warnings being printed right now (calls may arrive meanwhile)
          nwarn      \* ghost: number of warnings given since the cache object was constructed

vars == <<free, used, uncached, warned, under, nid, req, last, life, salloc, base, printing, nwarn>>

Limit == CHOOSE m \in ClassMax : \A c \in ClassMax : c <= m
Cached(n) == n <= Limit
\* the class of a request: the smallest class that can hold it; 0 = not cached
ClassOf(n) == IF Cached(n) THEN CHOOSE c \in ClassMax : n <= c /\ \A d \in ClassMax : n <= d => c <= d ELSE 0

Block(mem, aux, cap, cls) == [mem |-> mem, aux |-> aux, cap |-> cap, cls |-> cls]
Store(b) == {b.mem} \cup b.aux
SeqSet(s) == { s[i] : i \in 1..Len(s) }
StoreAll(S) == UNION { Store(b) : b \in S }
RemoveAt(s, i) == SubSeq(s, 1, i - 1) \o SubSeq(s, i + 1, Len(s))
Idle == UNION { SeqSet(free[c]) : c \in ClassMax }
InUse == UNION { SeqSet(used[c]) : c \in ClassMax } \cup SeqSet(uncached)
AllBlocks == Idle \cup InUse
MaxOf(S) == CHOOSE m \in S : \A x \in S : x <= m
Without(f, x) == [y \in DOMAIN f \ {x} |-> f[y]]
Outcome(op, mem, warn, got, ret) == [op |-> op, mem |-> mem, warn |-> warn, got |-> got, ret |-> ret]

Init == /\ free = [c \in ClassMax |-> <<>>] /\ used = [c \in ClassMax |-> <<>>] /\ uncached = <<>>
        /\ warned = FALSE /\ under = {} /\ nid = 1 /\ req = <<>>
        /\ last = Outcome("init", 0, FALSE, {}, {})
        /\ life = "none" /\ salloc = "under" /\ base = {} /\ printing = 0 /\ nwarn = 0
Alive == life # "none"
LifeSame == UNCHANGED <<life, salloc, base>>
Calm == UNCHANGED <<printing, nwarn>>

-----------------------------------------------------------------------------
\* alloc(n) served by a block freshly obtained from the underlying allocator
AllocNew(n, mem, aux, cap) ==
    /\ Alive /\ LifeSame /\ Calm
    /\ mem \notin under /\ mem \notin aux /\ aux \cap under = {} /\ mem # 0 /\ 0 \notin aux
    /\ cap >= n /\ (Cached(n) => cap >= ClassOf(n))     \* big enough for every later request of its class
    /\ LET b == Block(mem, aux, cap, ClassOf(n)) IN
         /\ IF Cached(n) THEN used' = [used EXCEPT ![ClassOf(n)] = <<b>> \o @] /\ UNCHANGED uncached
                         ELSE uncached' = <<b>> \o uncached /\ UNCHANGED used
         /\ under' = under \cup Store(b)
         /\ nid' = MaxOf({nid} \cup { x + 1 : x \in Store(b) })
         /\ last' = Outcome("alloc", mem, FALSE, Store(b), {})
    /\ req' = req @@ (mem :> n)
    /\ UNCHANGED <<free, warned>>

\* alloc(n) served by the i-th idle block of the request's own class
AllocReuse(n, i) ==
    /\ Alive /\ LifeSame /\ Calm
    /\ Cached(n) /\ i \in 1..Len(free[ClassOf(n)])
    /\ LET c == ClassOf(n)
           b == free[c][i] IN
         /\ free' = [free EXCEPT ![c] = RemoveAt(@, i)]
         /\ used' = [used EXCEPT ![c] = <<b>> \o @]
         /\ req' = req @@ (b.mem :> n)
         /\ last' = Outcome("alloc", b.mem, FALSE, {}, {})
    /\ UNCHANGED <<uncached, warned, under, nid>>

\* the numbering of the model's underlying allocator: auxiliary allocations first, then the memory
FreshNew(n, k) == /\ nid + k < MaxIds
                  /\ AllocNew(n, nid + k, nid..(nid + k - 1), IF Cached(n) THEN ClassOf(n) ELSE n)

Alloc(n) == \/ \E i \in 1..(IF Cached(n) THEN Len(free[ClassOf(n)]) ELSE 0) : AllocReuse(n, i)
            \/ \E k \in AuxCounts : FreshNew(n, k)

\* the policy of the code today: reuse the head of the free list, create only when it is empty
AllocImpl(n) == IF Cached(n) /\ free[ClassOf(n)] # <<>> THEN AllocReuse(n, 1)
                ELSE \E k \in AuxCounts : FreshNew(n, k)

\* dealloc(p, m) of a handed-out buffer, m in the class the buffer was requested in
Dealloc(mem, m) ==
    /\ Alive /\ LifeSame /\ Calm
    /\ mem \in DOMAIN req /\ ClassOf(m) = ClassOf(req[mem])
    /\ IF Cached(m)
       THEN LET c == ClassOf(m)
                i == CHOOSE j \in 1..Len(used[c]) : used[c][j].mem = mem IN
              /\ \E j \in 1..Len(used[c]) : used[c][j].mem = mem
              /\ free' = [free EXCEPT ![c] = <<used[c][i]>> \o @]
              /\ used' = [used EXCEPT ![c] = RemoveAt(@, i)]
              /\ last' = Outcome("dealloc", mem, FALSE, {}, {})
              /\ UNCHANGED <<uncached, under>>
       ELSE LET i == CHOOSE j \in 1..Len(uncached) : uncached[j].mem = mem IN
              /\ \E j \in 1..Len(uncached) : uncached[j].mem = mem
              /\ uncached' = RemoveAt(uncached, i)
              /\ under' = under \ Store(uncached[i])
              /\ last' = Outcome("dealloc", mem, FALSE, {}, Store(uncached[i]))
              /\ UNCHANGED <<free, used>>
    /\ req' = Without(req, mem)
    /\ UNCHANGED <<warned, nid>>

\* dealloc of a pointer the cache never handed out: warn the first time, change nothing else.  (Atomic form: printing
\* the warning makes no call on this cache - a bare cache, or any later unknown release, also one that arrives while
\* the warning is being printed.)
DeallocUnknown ==
    /\ Alive /\ LifeSame
    /\ warned' = TRUE /\ nwarn' = IF warned THEN nwarn ELSE nwarn + 1
    /\ last' = Outcome("dealloc", 0, ~warned, {}, {})
    /\ UNCHANGED <<free, used, uncached, under, nid, req, printing>>

\* dealloc(p, m) of a handed-out buffer with a size of ANOTHER class than the one the buffer was requested in: another
\* cached class, a size above the largest class for a cached buffer, a cached size for a buffer above the largest class.
\* The size says where the cache keeps the buffer; it is not there: to the cache this is a buffer it does not know.
\* So the release is an unknown release (the one-time warning, nothing changes): in particular the buffer is still handed
\* out - its owner may release it properly later - and it never becomes an idle block of the class the size named
\* (it would be reused for requests of a class that is not its own, possibly too small for them).
ElsewhereSize(mem, m) == mem \in DOMAIN req /\ ClassOf(m) # ClassOf(req[mem])
DeallocElsewhere(mem, m) == ElsewhereSize(mem, m) /\ DeallocUnknown

\* the first unknown release on a cache that is the string allocator: the warning is decided (once and for all) and its
\* printing begins; until WarnEnd the printing code requests / releases buffers like any other client
WarnBegin ==
    /\ Alive /\ LifeSame /\ salloc = "cache"
    /\ ~warned /\ warned' = TRUE /\ nwarn' = nwarn + 1 /\ printing' = printing + 1
    /\ last' = Outcome("wbegin", 0, TRUE, {}, {})
    /\ UNCHANGED <<free, used, uncached, under, nid, req>>
WarnEnd ==
    /\ Alive /\ LifeSame /\ printing > 0 /\ printing' = printing - 1
    /\ last' = Outcome("wend", 0, FALSE, {}, {})
    /\ UNCHANGED <<free, used, uncached, under, nid, req, warned, nwarn>>

\* clearCache: every idle block goes back to the underlying allocator
ClearCache ==
    /\ Alive /\ LifeSame /\ Calm /\ printing = 0
    /\ free' = [c \in ClassMax |-> <<>>]
    /\ under' = under \ StoreAll(Idle)
    /\ last' = Outcome("clearcache", 0, FALSE, {}, StoreAll(Idle))
    /\ UNCHANGED <<used, uncached, warned, nid, req>>

\* clearAllIncludingCurrentlyUsedMemory: everything goes back, handed-out buffers included
ClearAll ==
    /\ Alive /\ LifeSame /\ Calm /\ printing = 0
    /\ free' = [c \in ClassMax |-> <<>>] /\ used' = [c \in ClassMax |-> <<>>] /\ uncached' = <<>>
    /\ under' = under \ StoreAll(AllBlocks)
    /\ req' = <<>>
    /\ last' = Outcome("clearall", 0, FALSE, {}, StoreAll(AllBlocks))
    /\ UNCHANGED <<warned, nid>>

\* construction of a cache object of kind k ("bare" | "global"); tbl = what it obtains for itself.
\* A global cache installs its adaptor as the string allocator (the previous one becomes the underlying allocator).
Construct(k, tbl) ==
    /\ life = "none" /\ k \in {"bare", "global"}
    /\ tbl \cap under = {} /\ 0 \notin tbl
    /\ life' = k /\ salloc' = IF k = "global" THEN "cache" ELSE salloc
    /\ base' = tbl /\ under' = under \cup tbl
    /\ nid' = MaxOf({nid} \cup { x + 1 : x \in tbl })
    /\ warned' = FALSE /\ printing' = 0 /\ nwarn' = 0
    /\ last' = Outcome("construct", 0, FALSE, tbl, {})
    /\ UNCHANGED <<free, used, uncached, req>>

\* destruction: everything the cache obtained goes back to the underlying allocator - idle blocks, blocks still
\* handed out (their owners outlive the cache), the object's own allocations - and the previous string allocator is
\* back in place.  A bare cache is only destroyed after its owner cleared it.
Destroy ==
    /\ Alive /\ Calm /\ printing = 0
    /\ life = "bare" => AllBlocks = {}
    /\ free' = [c \in ClassMax |-> <<>>] /\ used' = [c \in ClassMax |-> <<>>] /\ uncached' = <<>>
    /\ under' = under \ (StoreAll(AllBlocks) \cup base)
    /\ req' = <<>> /\ base' = {} /\ warned' = FALSE
    /\ life' = "none" /\ salloc' = "under"
    /\ last' = Outcome("destroy", 0, FALSE, {}, StoreAll(AllBlocks) \cup base)
    /\ UNCHANGED nid

Next == \/ \E k \in {"bare", "global"} : Construct(k, {})
        \/ Destroy
        \/ \E n \in Sizes : Cardinality(DOMAIN req) < MaxLive /\ Alloc(n)
        \/ \E mem \in DOMAIN req, m \in Sizes : Dealloc(mem, m)
        \/ \E mem \in DOMAIN req, m \in Sizes : DeallocElsewhere(mem, m)
        \/ DeallocUnknown \/ WarnBegin \/ WarnEnd     \* (WarnBegin: of a foreign pointer or of a buffer with a size of another class)
        \/ ClearCache \/ ClearAll

Spec == Init /\ [][Next]_vars

-----------------------------------------------------------------------------
\* Properties (C18)
Pos == UNION { { <<"f", c, i>> : i \in 1..Len(free[c]) } : c \in ClassMax } \cup
       UNION { { <<"u", c, i>> : i \in 1..Len(used[c]) } : c \in ClassMax } \cup
       { <<"n", 0, i>> : i \in 1..Len(uncached) }
At(p) == IF p[1] = "f" THEN free[p[2]][p[3]] ELSE IF p[1] = "u" THEN used[p[2]][p[3]] ELSE uncached[p[3]]
HandedOut == { p \in Pos : p[1] # "f" }

TypeOK == /\ warned \in BOOLEAN /\ nid \in Nat /\ under \subseteq 1..(nid - 1)
          /\ \A p \in Pos : At(p).mem \in Nat /\ At(p).cap \in Nat /\ At(p).cls \in ClassMax \cup {0}
          /\ last.op \in {"init", "alloc", "dealloc", "clearcache", "clearall", "construct", "destroy", "wbegin", "wend"} /\ last.warn \in BOOLEAN
          /\ printing \in Nat /\ nwarn \in Nat
          /\ life \in {"none", "bare", "global"} /\ salloc \in {"under", "cache"} /\ base \subseteq under

\* no two blocks the cache holds (idle or handed out) share storage: in particular a buffer handed out
\* never overlaps another buffer still in use, and an idle block is never at the same time in use
NoAlias == /\ \A p, q \in Pos : p # q => Store(At(p)) \cap Store(At(q)) = {}
           /\ \A p \in Pos : At(p).mem \notin At(p).aux /\ Store(At(p)) \cap base = {}
\* the buffers the callers hold are exactly the blocks on the used / uncached lists
HandedOutExact == /\ DOMAIN req = { At(p).mem : p \in HandedOut }
                  /\ Cardinality(DOMAIN req) = Cardinality(HandedOut)
\* every handed-out buffer has at least the requested size
BigEnough == \A p \in HandedOut : req[At(p).mem] <= At(p).cap
\* a block stays in the class it was created for, and serves only requests of that class
ClassStable == /\ \A p \in Pos : At(p).cls = p[2]
               /\ \A p \in HandedOut : ClassOf(req[At(p).mem]) = p[2]
\* the cache holds exactly what it obtained from the underlying allocator and has not returned
UnderExact == under = StoreAll(AllBlocks) \cup base
\* after clearAll everything obtained for buffers has been returned; after clearCache only handed-out buffers are held
AllBackAfterClearAll == last.op = "clearall" => under = base /\ Pos = {}
IdleBackAfterClearCache == last.op = "clearcache" => under = StoreAll(InUse) \cup base /\ Idle = {}
\* after the cache is destroyed nothing obtained from the underlying allocator is outstanding - whether or not
\* buffers were still in use - and nobody holds a buffer of it any more
AllBackAfterDestroy == /\ last.op = "destroy" => life = "none"
                       /\ life = "none" => under = {} /\ Pos = {} /\ req = <<>> /\ base = {}
\* SimpleString allocates through the cache exactly while a global cache exists; afterwards the previous allocator is back
InstalledIffGlobal == (salloc = "cache") <=> (life = "global")
\* the warning is given at most once (action property) and only by a release
WarnImpliesWarned == last.warn => warned /\ last.op \in {"dealloc", "wbegin"}
WarnOnce == [][last'.warn => ~warned]_vars
\* ... also when unknown releases arrive while the warning is being printed: one warning per cache object, the printing
\* of a warning never starts another one (it would not terminate), and whoever prints has set the one-time flag first
OneWarning == nwarn <= 1 /\ (Alive => (warned <=> nwarn = 1))
NoNestedWarning == printing <= 1 /\ (printing > 0 => warned)
\* whatever is returned to the underlying allocator was held (exactly-once return), and what is obtained is new
ReturnsOwned == [][last'.ret \subseteq under \cup last'.got /\ last'.got \cap under = {}
                   /\ under' = (under \cup last'.got) \ last'.ret]_vars
\* an unknown release leaves the lists alone
UnknownReleaseHarmless == [][((last'.op = "dealloc" /\ last'.mem = 0) \/ last'.op \in {"wbegin", "wend"})
                             => UNCHANGED <<free, used, uncached, under, req>>]_vars
=============================================================================
