SPECIFICATION Spec
INVARIANT OwnerIsThreadOrNone
POSTCONDITION Accepted
CHECK_DEADLOCK FALSE
