---------------------------- MODULE Gen_LeakBlocks ----------------------------
(* Behaviour generation for C05/C06: LeakBlocks' actions with a history variable recording the calls
   and their arguments only (the observations are predicted by Trace_LeakBlocks when the log recorded
   from the real entry points is validated).  The menus (sizes, faults, byte values, entry points) are
   chosen by the configuration through MC_LeakBlocks' definitions. *)
EXTENDS MC_LeakBlocks, Json
CONSTANT D
VARIABLES h, done
gvars == <<vars, h, done>>
Z == S(0)
Step(op, ep, s, s2, sz, sz2, fault, pos, val, var) ==
    h' = Append(h, [op |-> op, ep |-> ep, s |-> s, s2 |-> s2, sz |-> sz, sz2 |-> sz2, fault |-> fault,
                    pos |-> pos, val |-> val, var |-> var])

GInit == Init /\ h = <<>> /\ done = FALSE
GStep == /\ Len(h) < D /\ UNCHANGED done
         /\ \/ \E ep \in Eps, s \in Slots, z \in AllSizes, f \in Faults :
                  Alloc(ep, s, z, f) /\ Step("alloc", ep, s, 0, z, Z, f, 0, 0, "")
            \/ \E s \in Slots, cp \in CallocPairs, f \in Faults :
                  Calloc(s, cp[1], cp[2], f) /\ Step("calloc", "", s, 0, cp[1], cp[2], f, 0, 0, "")
            \/ \E s \in Slots, n \in StrLens, f \in Faults :
                  Strdup(s, n, f) /\ Step("strdup", "", s, 0, S(n), Z, f, 0, 0, "")
            \/ \E s \in Slots, n \in StrLens, m \in StrNs, f \in Faults :
                  Strndup(s, n, m, f) /\ Step("strndup", "", s, 0, S(n), m, f, 0, 0, "")
            \/ \E s \in Slots, s2 \in Slots, z \in AllSizes, f \in Faults :
                  Realloc(s, s2, z, f) /\ Step("realloc", "", s, s2, z, Z, f, 0, 0, "")
            \/ \E s \in Slots, z \in AllSizes, f \in Faults :
                  ReallocNull(s, z, f) /\ Step("realloc", "", -1, s, z, Z, f, 0, 0, "")
            \/ \E s \in Slots : ReallocUnknown(s) /\ Step("realloc", "", s, s, S(1), Z, "none", 0, 0, "")
            \/ \E s \in Slots, v \in Vals : \E pos \in 0..(IF blk[s] = NoBlk THEN 0 ELSE blk[s].size + Guard - 1) :
                  Write(s, pos, v) /\ Step("write", "", s, 0, Z, Z, "none", pos, v, "")
            \/ \E rel \in RelGen, s \in Slots, off \in 0..MaxOff :
                  Release(rel, s, off) /\ Step("release", rel, s, 0, Z, Z, "none", off, 0, "")
            \/ \E rel \in RelGen : ReleaseForeign(rel) /\ Step("release", rel, -2, 0, Z, Z, "none", 0, 0, "")
            \/ \E rel \in RelGen : ReleaseNull(rel) /\ Step("release", rel, -1, 0, Z, Z, "none", 0, 0, "")
            \/ SetTypeCheck(~typeCheck) /\ Step("typecheck", "", 0, 0, Z, Z, "none", 0, IF typeCheck THEN 0 ELSE 1, "")
            \/ \E f \in Families, v \in Variants :
                  v # cur[f] /\ SetAlloc(f, v) /\ Step("setalloc", f, 0, 0, Z, Z, "none", 0, 0, v)
\* a single deterministic closing step, so that simulation prints each sampled behaviour once
GEnd == Len(h) = D /\ ~done /\ done' = TRUE /\ UNCHANGED <<vars, h>>
GNext == GStep \/ GEnd
GSpec == GInit /\ [][GNext]_gvars
Dump == done => PrintT(<<"BEH", ToJson(h)>>)
=============================================================================
