---------------------------- MODULE Trace_TestRun ----------------------------
(* Trace validation for C01/C02/C17: the event log recorded from the real CommandLineTestRunner must be a
   behaviour of TestRun.  The first line of every execution carries the program; every later line is one
   observable event and must equal the event the specification emits next (silent steps of the
   specification consume no line).  All invariants of TestRun are evaluated on every state. *)
EXTENDS TestRun, Json, IOUtils
VARIABLE l
tvars == <<vars, l>>
Tr == ndJsonDeserialize(IOEnv.TRACE)
O == Tr[l]

PtrOK(p, o) == \A x \in Locs : p[x] = o[x]
EvMatches(e, o) ==
    /\ o.op = e.op
    /\ CASE e.op = "rep" -> o.n = e.n /\ o.order = e.order
         [] e.op = "groupStart" -> o.t = e.t
         [] e.op = "groupEnd" -> TRUE        \* the output callback does not say at which test the group ended
         [] e.op = "testStart" -> o.t = e.t /\ o.jmp = e.jmp
         [] e.op \in {"pre", "post"} -> o.p = e.p /\ o.t = e.t
         [] e.op = "mark" -> o.t = e.t /\ o.ph = e.ph /\ o.w = e.w
         [] e.op = "set" -> o.t = e.t /\ o.loc = e.loc /\ o.val = e.val
         [] e.op = "fail" -> /\ o.t = e.t /\ o.kind = e.kind
                             \* printed once with the file and line where it happened
                             \* (when the check stands outside the test's file, or before the test's line, the test's own
                             \*  location line comes first: o.first)
                             \* (e.nloc, the number of location lines the pinned code prints, is a diagnostic: the statement fixes the
                             \*  location printed for the failure, not whether the test's own location line precedes it)
                             /\ (e.kind = "check" => /\ (o.infile = 1) = e.infile /\ o.line = e.line /\ o.nloc \in {1, 2}
                                                     /\ (o.nloc = 2 => o.first = 1))
                             /\ (e.kind \in {"exception", "plugin"} => o.infile = 1 /\ o.line = 1000 * e.t /\ o.nloc = 1)
         [] e.op = "testEnd" -> o.t = e.t /\ o.jmp = e.jmp /\ o.cnt = e.cnt /\ PtrOK(e.ptr, o.ptr)
         [] e.op = "testsEnded" -> o.txt = e.s /\ o.res = e.s
         \* the property fixes only whether the value is zero; the exact number is a diagnostic
         [] e.op = "list" -> o.mode = e.mode /\ o.items = e.items
         [] e.op = "ret" -> (o.value = 0 <=> e.value = 0) /\ o.jmp = 0
         [] OTHER -> FALSE

HaveLine == l <= Len(Tr)
TInit == /\ l = 2 /\ Tr[1].op = "prog" /\ InitWith(Tr[1].reg, Tr[1].script, Tr[1].cfg) /\ TLCSet(1, 2)
\* the order of a repetition is taken from the log (it must be a permutation: RepBegin checks it)
TStep == \/ Step
         \/ (HaveLine /\ O.op = "rep" /\ RepBegin(O.order))
TVisible == TStep /\ ev' # NoEv /\ HaveLine /\ EvMatches(ev', O) /\ l' = l + 1
TSilent == TStep /\ ev' = NoEv /\ l' = l
\* executions are concatenated: reset line, then the next program line
TReset == /\ pc = "done" /\ l + 1 <= Len(Tr) /\ O.op = "reset" /\ Tr[l + 1].op = "prog"
          /\ l' = l + 2
          /\ reg' = Tr[l + 1].reg /\ script' = Tr[l + 1].script /\ cfg' = Tr[l + 1].cfg
          /\ order' = [i \in 1..Len(Tr[l + 1].reg) |-> i]
          /\ rep' = 0 /\ pos' = 1 /\ pc' = "start" /\ ph' = 1 /\ k' = 1 /\ setupOk' = FALSE /\ grpStart' = TRUE
          /\ jmp' = 0 /\ cnt' = Cnt0 /\ hasFailed' = FALSE /\ accFail' = 0 /\ accExec' = 0 /\ exitv' = -1
          /\ ptr' = [x \in Locs |-> 0] /\ table' = <<>> /\ ev' = NoEv /\ g' = Ghost0
TNext == TVisible \/ TSilent \/ TReset
TSpec == TInit /\ [][TNext]_tvars

\* acceptance with silent steps: remember the furthest line reached (needs -workers 1)
Track == TLCSet(1, IF l > TLCGet(1) THEN l ELSE TLCGet(1))
Accepted == /\ PrintT(<<"MATCHED", TLCGet(1) - 1>>)
            /\ TLCGet(1) = Len(Tr) + 1

TInv == /\ JmpInBounds /\ JmpBalanced /\ BodyOnlyAfterSetupCompleted /\ TeardownIffSetupEntered /\ SetupAlwaysEntered
        /\ RecordedOnce /\ FailuresAsExpected /\ CountIdentity /\ GroupsBalanced /\ PointersRestored /\ TableBounded
        /\ ExitZeroIff /\ SummaryTrue

\* diagnostics: what the specification emits, without binding to the log
PVisible == TStep /\ ev' # NoEv /\ HaveLine /\ l' = l + 1
PNext == PVisible \/ TSilent
PSpec == TInit /\ [][PNext]_tvars
Predict == (ev # NoEv /\ l - 2 >= atoi(IOEnv.FROM_LINE_N)) => PrintT(<<"BEH", ToJson([line |-> l - 1, ev |-> ev])>>)
=============================================================================
