SPECIFICATION GSpec
CONSTANTS
  Addrs = {0, 3, 1}
  P = 3
  MaxSeq = 3
  Kinds = {"new"}
  Sizes = {1}
  MaxStage = 1
  D = 4
INVARIANTS Dump
CHECK_DEADLOCK FALSE
