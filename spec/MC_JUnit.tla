---------------------------- MODULE MC_JUnit ----------------------------
(* Leg 1 for C16: the reporter state machine over representative strings (all strings over small
   alphabets), plus the XML encoding theorem over ALL byte strings up to EncLen over EncAlphabet. *)
EXTENDS JUnit
CONSTANTS NameAlpha, NameLen, FileAlpha, FileLen, MsgAlpha, MsgLen, PkgAlpha, PkgLen, EncAlphabet, EncLen
MCNames == StrUpTo(NameAlpha, NameLen) \ {<<>>}
MCFiles == StrUpTo(FileAlpha, FileLen) \ {<<>>}
MCMsgs  == StrUpTo(MsgAlpha, MsgLen)
MCPkgs  == StrUpTo(PkgAlpha, PkgLen)
MCTexts == {<<116>>, <<60, 93, 93, 62>>}
AllOpts == [color : BOOLEAN, verb : 0..2]
PlainOpts == {NoOpt}
ASSUME EncodeCorrect(EncAlphabet, EncLen)
\* the file-name rule of the writer satisfies what the property asks of file names
ASSUME \A p \in StrUpTo({112, 47, 34}, 2), g \in StrUpTo({103, 58, 60, 39, 10}, 2) : FileNameOK(FileName(p, g), p, g)
=============================================================================
