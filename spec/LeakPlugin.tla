---------------------------- MODULE LeakPlugin ----------------------------
(***************************************************************************)
(* CppUTest per-test leak verdict (property C07): MemoryLeakWarningPlugin  *)
(* in front of a MemoryLeakDetector, over a run of tests.                  *)
(*                                                                         *)
(* A run is a sequence of script steps: tests are opened by Begin and      *)
(* closed by End; between them the test performs operations in its three   *)
(* phases setup ("s"), body ("b"), teardown ("t"): allocate a fresh        *)
(* tracked block, release any outstanding block (its own or an earlier     *)
(* test's), declare an expected number of leaks, ask to ignore leaks, or   *)
(* fail one of its own checks - which leaves the current phase (and skips  *)
(* the body when it happens in setup; teardown always runs).  Operations   *)
(* may also happen between tests ("o").  Final asks for the final report.  *)
(* A tracked block may also be re-allocated (realloc): when that succeeds  *)
(* the old block is gone and the result is a block freshly allocated by    *)
(* whoever re-allocated it; when it fails (out of memory) the old block    *)
(* stays exactly what it was.  The test output may keep a tracked copy of  *)
(* a leak failure it is given (End(keep), as the JUnit output does): that  *)
(* copy is allocated after the end of the test and belongs to no test.     *)
(* Where a block lies in memory, and hence where its record sits in the    *)
(* detector's hash table, is no part of this specification: the verdicts   *)
(* must be the ones below for every placement (the generated programs      *)
(* choose placements; see Gen_LeakPlugin).                                 *)
(*                                                                         *)
(* Two layers:                                                             *)
(*  - implementation-shaped: every block carries the detector's period     *)
(*    stamp ("checking" while its test runs, demoted to "enabled" by the   *)
(*    post-test action); the verdict is computed from the stamps, the      *)
(*    remembered failure count and the two flags, as the plugin does;      *)
(*  - property-level ghost: every block carries the number of the test     *)
(*    that allocated it (`owner'), every finished test a record of what    *)
(*    the property statement talks about; the invariants compare the two.  *)
(***************************************************************************)
EXTENDS Naturals, Sequences, FiniteSets, TLC

CONSTANTS MaxTests,     \* bound on the number of tests in a run        (menus of Next only;
          MaxBlocks,    \* bound on blocks allocated in a run             the actions take any value)
          MaxOps,       \* bound on operations per test
          Expectations  \* the numbers a test may declare as expected leaks

Phases == {"s", "b", "t"}
PhaseNo(p) == CASE p = "o" -> 0 [] p = "s" -> 1 [] p = "b" -> 2 [] p = "t" -> 3

VARIABLES blocks,     \* outstanding tracked blocks: [id, period, owner]
          nextId,     \* block ids are never reused
          period,     \* the detector's current period: "enabled" between tests, "checking" inside one
          cur,        \* number of the running test (1, 2, ...), 0 between tests
          ntests,     \* tests started so far
          phase,      \* phase of the last operation of the running test ("o" between tests)
          aborted,    \* phases of the running test that were left by a failing check
          expected,   \* plugin: expected leaks declared by the running test
          ignore,     \* plugin: ignore-all-leaks requested by the running test
          failures,   \* failure count of the test result
          failAtStart,\* plugin: failure count remembered by the pre-test action
          nops,       \* operations of the running test so far (bound for Next only)
          out,        \* observable outcome of the last step
          hist        \* ghost: one record per finished test
vars == <<blocks, nextId, period, cur, ntests, phase, aborted, expected, ignore, failures, failAtStart, nops, out, hist>>

Ids(bs) == { b.id : b \in bs }
Checking == { b \in blocks : b.period = "checking" }
\* an operation of phase ph of the running test is executed unless a failing check made the test leave that phase
Runs(ph) == ph = "o" \/ (ph \notin aborted /\ ~(ph = "b" /\ "s" \in aborted))
\* script order: phases follow each other; "o" only between tests
InOrder(ph) == IF cur = 0 THEN ph = "o" ELSE ph \in Phases /\ PhaseNo(ph) >= PhaseNo(phase)

Out(ran) == [ran |-> ran, chk |-> Cardinality(Checking), all |-> Cardinality(blocks)]

Init == /\ blocks = {} /\ nextId = 1 /\ period = "enabled" /\ cur = 0 /\ ntests = 0 /\ phase = "o" /\ aborted = {}
        /\ expected = 0 /\ ignore = FALSE /\ failures = 0 /\ failAtStart = 0 /\ nops = 0
        /\ out = [ran |-> TRUE, chk |-> 0, all |-> 0] /\ hist = <<>>

\* the registry starts the next test: pre-test action of the plugin
Begin ==
    /\ cur = 0
    /\ cur' = ntests + 1 /\ ntests' = ntests + 1
    /\ period' = "checking" /\ failAtStart' = failures
    /\ phase' = "s" /\ aborted' = {} /\ nops' = 0
    /\ out' = [ran |-> TRUE, failures |-> failures]
    /\ UNCHANGED <<blocks, nextId, expected, ignore, failures, hist>>

Skipped(ph) == /\ out' = [ran |-> FALSE, chk |-> Cardinality(Checking), all |-> Cardinality(blocks)]
               /\ UNCHANGED <<blocks, expected, ignore, failures, aborted>>
Common(ph) == /\ InOrder(ph) /\ phase' = ph /\ nops' = nops + 1
              /\ UNCHANGED <<period, cur, ntests, failAtStart, hist>>

\* new / new[] / malloc of a fresh block (the script numbers its allocation steps, executed or not)
AllocOp(ph) ==
    /\ Common(ph) /\ nextId' = nextId + 1
    /\ IF Runs(ph)
       THEN LET b == [id |-> nextId, period |-> period, owner |-> cur] IN
            /\ blocks' = blocks \cup {b}
            /\ out' = [ran |-> TRUE, chk |-> Cardinality(Checking) + (IF period = "checking" THEN 1 ELSE 0), all |-> Cardinality(blocks) + 1]
            /\ UNCHANGED <<expected, ignore, failures, aborted>>
       ELSE Skipped(ph)
\* paired release of an outstanding block (of this or an earlier test, or allocated between tests)
FreeOp(ph, id) ==
    /\ Common(ph)
    /\ id \in Ids(blocks)
    /\ IF Runs(ph)
       THEN LET gone == { b \in blocks : b.id = id } IN
            /\ blocks' = blocks \ gone
            /\ out' = [ran |-> TRUE, chk |-> Cardinality(Checking \ gone), all |-> Cardinality(blocks) - 1]
            /\ UNCHANGED <<expected, ignore, failures, aborted>>
       ELSE Skipped(ph)
    /\ UNCHANGED nextId
\* realloc of an outstanding block.  ok: the block moves - the old block is released and the result is a block
\* allocated now (a successful step is numbered like an allocation step);  ~ok: out of memory, nothing changes.
ReallocOp(ph, id, ok) ==
    /\ Common(ph)
    /\ id \in Ids(blocks)
    /\ nextId' = IF ok THEN nextId + 1 ELSE nextId
    /\ IF Runs(ph)
       THEN IF ok
            THEN LET gone == { b \in blocks : b.id = id }
                     nb == [id |-> nextId, period |-> period, owner |-> cur] IN
                 /\ blocks' = (blocks \ gone) \cup {nb}
                 /\ out' = [ran |-> TRUE, chk |-> Cardinality(Checking \ gone) + (IF period = "checking" THEN 1 ELSE 0), all |-> Cardinality(blocks)]
                 /\ UNCHANGED <<expected, ignore, failures, aborted>>
            ELSE /\ out' = Out(TRUE) /\ UNCHANGED <<blocks, expected, ignore, failures, aborted>>
       ELSE Skipped(ph)
\* EXPECT_N_LEAKS(n)
ExpectOp(ph, n) ==
    /\ Common(ph) /\ ph # "o"
    /\ IF Runs(ph) THEN /\ expected' = n /\ out' = Out(TRUE) /\ UNCHANGED <<blocks, ignore, failures, aborted>>
                   ELSE Skipped(ph)
    /\ UNCHANGED nextId
\* IGNORE_ALL_LEAKS_IN_TEST()
IgnoreOp(ph) ==
    /\ Common(ph) /\ ph # "o"
    /\ IF Runs(ph) THEN /\ ignore' = TRUE /\ out' = Out(TRUE) /\ UNCHANGED <<blocks, expected, failures, aborted>>
                   ELSE Skipped(ph)
    /\ UNCHANGED nextId
\* a failing check of the test itself: counted, and the rest of the phase is not executed
FailOp(ph) ==
    /\ Common(ph) /\ ph # "o"
    /\ IF Runs(ph) THEN /\ failures' = failures + 1 /\ aborted' = aborted \cup {ph} /\ out' = Out(TRUE)
                        /\ UNCHANGED <<blocks, expected, ignore>>
                   ELSE Skipped(ph)
    /\ UNCHANGED nextId

\* the test ends: post-test action of the plugin (as coded: count the blocks stamped "checking").
\* keep: the test output keeps a tracked copy of a leak failure it is given - allocated while the failure is being
\* reported, i.e. after the end of the test (a step with keep is numbered like an allocation step)
\* pf: another plugin whose post action runs before the leak plugin's (MockSupportPlugin installed before RunAllTests, for
\* instance) reports a failure straight into the result - the test has then "already failed" when the leak verdict is taken
FailedBefore(pf) == failures + (IF pf THEN 1 ELSE 0)
LeakVerdict(pf) == ~ignore /\ expected # Cardinality(Checking) /\ FailedBefore(pf) = failAtStart
\* ghost: the finished test in the words of the property statement
EndRecord(pf) == [t |-> cur, leakFailure |-> LeakVerdict(pf), listed |-> IF LeakVerdict(pf) THEN Ids(Checking) ELSE {},
                  mine |-> { b.id : b \in { x \in blocks : x.owner = cur } },   \* allocated by this test, still outstanding
                  expected |-> expected, ignore |-> ignore, ownFailed |-> FailedBefore(pf) # failAtStart]
\* everything but the ghost history (runs of any length: the verdict of a test depends on nothing but the stamps, the two
\* flags and the remembered failure count - not on how many tests ran before it, nor on how long a block has been outstanding)
EndStep(keep, pf) ==
    /\ cur # 0
    /\ LET leaks == Checking
           fb == FailedBefore(pf)
           lf == LeakVerdict(pf)
           copy == IF keep /\ lf THEN {[id |-> nextId, period |-> "enabled", owner |-> 0]} ELSE {} IN
       /\ failures' = fb + (IF lf THEN 1 ELSE 0)
       /\ out' = [ran |-> TRUE, leakfail |-> lf, listed |-> IF lf THEN Ids(leaks) ELSE {}, own |-> fb - failAtStart,
                  failures |-> fb + (IF lf THEN 1 ELSE 0), kept |-> Cardinality(copy)]
       /\ blocks' = { IF b.period = "checking" THEN [b EXCEPT !.period = "enabled"] ELSE b : b \in blocks } \cup copy
    /\ nextId' = IF keep THEN nextId + 1 ELSE nextId
    /\ period' = "enabled" /\ expected' = 0 /\ ignore' = FALSE
    /\ cur' = 0 /\ phase' = "o" /\ aborted' = {} /\ nops' = 0
    /\ UNCHANGED <<ntests, failAtStart>>
End(keep, pf) == EndStep(keep, pf) /\ hist' = Append(hist, EndRecord(pf))

\* FinalReport(0): everything still outstanding that was allocated while the plugin was active
Final ==
    /\ cur = 0
    /\ out' = [ran |-> TRUE, listed |-> Ids(blocks)]
    /\ UNCHANGED <<blocks, nextId, period, cur, ntests, phase, aborted, expected, ignore, failures, failAtStart, nops, hist>>

OpPhases == IF cur = 0 THEN {"o"} ELSE Phases
Next == \/ ntests < MaxTests /\ Begin
        \/ \E keep \in BOOLEAN, pf \in BOOLEAN : (keep => nextId <= MaxBlocks) /\ End(keep, pf)
        \/ /\ nops < MaxOps
           /\ \E ph \in OpPhases :
                 \/ nextId <= MaxBlocks /\ AllocOp(ph)
                 \/ \E id \in Ids(blocks) : FreeOp(ph, id)
                 \/ \E id \in Ids(blocks) : ReallocOp(ph, id, FALSE) \/ (nextId <= MaxBlocks /\ ReallocOp(ph, id, TRUE))
                 \/ \E n \in Expectations : ExpectOp(ph, n)
                 \/ IgnoreOp(ph)
                 \/ FailOp(ph)
Spec == Init /\ [][Next]_vars

-----------------------------------------------------------------------------
TypeOK == /\ period \in {"enabled", "checking"} /\ cur \in 0..ntests /\ phase \in {"o", "s", "b", "t"} /\ aborted \subseteq Phases
          /\ ignore \in BOOLEAN /\ expected \in Nat /\ failures >= failAtStart
          /\ \A b \in blocks : b.period \in {"enabled", "checking"} /\ b.owner \in 0..ntests /\ b.id < nextId
\* the detector's stamps say exactly "allocated by the running test"
Refines == /\ Checking = { b \in blocks : cur # 0 /\ b.owner = cur }
           /\ (cur = 0) <=> (period = "enabled")
UniqueIds == \A b1, b2 \in blocks : b1.id = b2.id => b1 = b2
\* C07, clause by clause, over the finished tests
Finished == { hist[i] : i \in 1..Len(hist) }
VerdictExact == \A r \in Finished :
    r.leakFailure <=> (~r.ownFailed /\ ~r.ignore /\ Cardinality(r.mine) # r.expected)
ReportListsExactlyOwn == \A r \in Finished : r.leakFailure => r.listed = r.mine
NeverChargedToLaterTest == \A r1, r2 \in Finished : r1.t < r2.t => r1.mine \cap r2.listed = {}
FailedTestGetsNoLeakFailure == \A r \in Finished : r.ownFailed => ~r.leakFailure
\* one record per finished test, in order
HistShape == /\ Len(hist) = (IF cur = 0 THEN ntests ELSE ntests - 1) /\ \A i \in 1..Len(hist) : hist[i].t = i
=============================================================================
