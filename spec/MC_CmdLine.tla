------------------------------ MODULE MC_CmdLine ------------------------------
(* Leg 1 for C12: (a) the parser state machine started on every vector of up to MaxLen tokens keeps its index inside
   the vector, makes progress, terminates within one step per token and ends in the outcome Meaning() defines;
   (b) laws of the documented language: attached = separated form, flags commute and are idempotent, -h wins,
   strict selects a subset of substring, exclusion is the complement, TEST(g, n) = -st g.n, -o synonyms; the substring
   meaning on words over the group letters (prefix \o text \o suffix). *)
EXTENDS CmdLineLattice
CONSTANT MaxLen
Init == \E n \in 0..MaxLen : \E v \in VectorsOfLen(n) : Start(v)
Spec == Init /\ [][Next]_vars /\ WF_vars(Next)

Doc1 == { <<t>> : t \in DocTokens }
Sel(v) == { k \in 1..Len(Probe) : Selected(Probe[k], Meaning(v).cfg) }
Flags == ExactFlags \ {T_dh}
Laws ==
    /\ Meaning(<<>>) = [k |-> "accept", cfg |-> Default]
    \* attached value = separated value
    /\ \A p \in GroupOpts, g \in GVals : Meaning(<<p \o g>>) = Meaning(<<p, g>>) /\ Meaning(<<p, g>>).k = "accept"
    /\ \A p \in NameOpts, n \in NVals : Meaning(<<p \o n>>) = Meaning(<<p, n>>) /\ Meaning(<<p, n>>).k = "accept"
    /\ \A p \in DotOpts, v \in DotVals : Meaning(<<p \o v>>) = Meaning(<<p, v>>) /\ Meaning(<<p, v>>).k = "accept"
    /\ \A p \in {T_dr, T_ds}, n \in Numbers : Meaning(<<p \o n>>) = Meaning(<<p, n>>) /\ Meaning(<<p, n>>).k = "accept"
    /\ \A o \in OutTypes : Meaning(<<T_do \o o>>) = Meaning(<<T_do, o>>) /\ Meaning(<<T_do, o>>).k = "accept"
    /\ Meaning(<<T_dk \o Pkg>>) = Meaning(<<T_dk, Pkg>>) /\ Meaning(<<T_dk, Pkg>>).cfg.pkg = Pkg
    /\ Meaning(<<T_do \o T_normal>>) = Meaning(<<T_do \o T_eclipse>>)
    /\ Meaning(<<T_dr>>).cfg.repeat = <<50>> /\ Meaning(<<T_dr, T_dv>>).cfg.repeat = <<50>> /\ Meaning(<<T_dr, T_dv>>).cfg.verbose
    /\ Meaning(<<T_ds>>).cfg.shuffle /\ Meaning(<<T_ds>>).cfg.seed = <<>>
    \* a seedless -s is documented wherever it stands: alone, last, before another option, after a seeded one (the last -s counts)
    /\ \A v \in ClockVectors : (v[1] # <<51>> /\ \A k \in 1..Len(v) : v[k] # T_dh) =>
          /\ Meaning(v).k = "accept" /\ Meaning(v).cfg.shuffle
          /\ v[Len(v)] = T_ds => Meaning(v).cfg.seed = <<>>
    /\ \A t \in ClockFollow \ {<<51>>, T_dh} : Meaning(<<T_ds, t>>).cfg.seed = <<>>
    /\ Meaning(<<T_ds \o <<55>>, T_ds>>).cfg.seed = <<>> /\ Meaning(<<T_ds, T_ds \o <<55>>>>).cfg.seed = <<55>>
    /\ \A c \in Clocks \ {<<48>>} : ClockSeedOK(c)
    /\ ~ClockSeedOK(<<48>>) /\ ~ClockSeedOK(<<>>)
    \* what the run gets: one verbosity level, the stronger option wins whatever the order and multiplicity
    /\ \A f \in Flags : LET a == Applied(Meaning(<<f>>).cfg) IN
          /\ a.level = (IF f = T_dvv THEN 2 ELSE IF f = T_dv THEN 1 ELSE 0) /\ a.color = (f = T_dc) /\ a.sep = (f = T_dp)
          /\ a.runs = (IF f \in {T_dlg, T_dln, T_dll} THEN 0 ELSE 1)
    /\ \A f1, f2 \in Flags : LET a == Applied(Meaning(<<f1, f2>>).cfg) IN
          /\ a.level = Max2(Level(Meaning(<<f1>>).cfg), Level(Meaning(<<f2>>).cfg))
          /\ a = Applied(Meaning(<<f2, f1>>).cfg)
    /\ Level(Meaning(<<T_dv, T_dvv>>).cfg) = 2 /\ Level(Meaning(<<T_dvv, T_dv, T_dv>>).cfg) = 2
    /\ Applied(Meaning(<<T_dr \o <<51>>, T_dvv>>).cfg).runs = 3 /\ Applied(Meaning(<<T_dr>>).cfg).runs = 2
    \* numbers are data: the configured count / seed is the digit string without its leading zeros, over the whole range 1..2^32-1
    /\ \A nm \in InRangeNames : LET n == NumText(nm) IN
         /\ Meaning(<<T_ds \o n>>).k = "accept" /\ Meaning(<<T_ds \o n>>).cfg.seed = Canon(n) /\ Meaning(<<T_ds \o n>>).cfg.shuffle
         /\ Meaning(<<T_dr \o n>>).k = "accept" /\ Meaning(<<T_dr \o n>>).cfg.repeat = Canon(n)
         /\ Meaning(<<T_ds, n>>) = Meaning(<<T_ds \o n>>) /\ Meaning(<<T_dr, n>>) = Meaning(<<T_dr \o n>>)
         /\ Meaning(<<T_ds \o <<48, 48>> \o n>>) = Meaning(<<T_ds \o n>>)                         \* leading zeros do not change the number
         /\ Canon(Canon(n)) = Canon(n) /\ (Canon(n) = n) = (n[1] # 48)
    /\ Meaning(<<T_ds \o NumText("2^32-1")>>).cfg.seed = T_MaxCount /\ Meaning(<<T_ds \o NumText("2^31")>>).cfg.seed = NumText("2^31")
    \* outside the range: no documented meaning - except the attached zero seed, which the help text declares invalid
    /\ \A nm \in OutOfRangeNames : LET n == NumText(nm) IN
         /\ Meaning(<<T_dr \o n>>).k = "undoc" /\ Meaning(<<T_dr, n>>).k = "undoc" /\ Meaning(<<T_ds, n>>).k = "undoc"
         /\ Meaning(<<T_ds \o n>>).k = (IF IsZeroNumber(n) THEN "invalid" ELSE "undoc")
    /\ Meaning(<<T_ds \o <<48>>, T_do \o T_normal>>).k = "invalid" /\ Meaning(<<T_dv, T_ds \o <<48>>, T_dst, <<65, 46, 120>>>>).k = "invalid"
    /\ Meaning(<<T_ds \o <<48>>, T_dh>>).k = "invalid" /\ Meaning(<<T_dh, T_ds \o <<48>>>>).k = "help"
    /\ Meaning(<<T_ds \o <<48>>, <<45, 113>>>>).k = "undoc" /\ Meaning(<<<<45, 113>>, T_ds \o <<48>>>>).k = "undoc"
    \* the order of canonical digit strings is the order of the numbers
    /\ \A a \in 1..120, b \in 1..120 : DecLeq(Digits(a), Digits(b)) = (a <= b)
    /\ \A a \in 0..120 : IntVal(Digits(a)) = a /\ IsSmallNumber(Digits(a)) = (a <= 100)
    /\ DecLeq(NumText("2^31-1"), NumText("2^31")) /\ ~DecLeq(NumText("2^32"), T_MaxCount) /\ DecLeq(NumText("3000000123"), T_MaxCount)
    /\ Meaning(<<T_de>>) = Meaning(<<T_dci>>)
    \* flags: order and multiplicity do not matter; -h anywhere among documented tokens means help
    /\ \A f1, f2 \in Flags : Meaning(<<f1, f2>>) = Meaning(<<f2, f1>>) /\ Meaning(<<f1, f1>>) = Meaning(<<f1>>)
    /\ \A t \in ExactFlags : Meaning(<<t, T_dh>>).k = "help" /\ Meaning(<<T_dh, t>>).k = "help"
    /\ \A t \in Malformed : Meaning(<<T_dh, t>>).k = "help"
    \* every malformed token leaves the documented language, wherever it stands
    /\ \A t \in Malformed \ {<<>>, T_ds \o <<48>>} : Meaning(<<t>>).k = "undoc" /\ Meaning(<<T_dv, t>>).k = "undoc"
    /\ Meaning(<<T_ds \o <<48>>>>).k = "invalid" /\ Meaning(<<T_dv, T_ds \o <<48>>>>).k = "invalid"
    \* a bare value is not an option
    /\ \A t \in GVals \cup NVals \cup Numbers \cup DotVals \cup OutTypes : Meaning(<<t>>).k = "undoc"
    \* a missing value is not documented
    /\ \A p \in GroupOpts \cup NameOpts \cup DotOpts \cup {T_do, T_dk} : Meaning(<<p>>).k = "undoc" /\ Meaning(<<p, T_dv>>).k = "undoc"
    \* selection: strict is a subset of substring; exclusion is the complement; TEST(g, n) = -st g.n
    /\ \A g \in GVals : /\ Sel(<<T_dsg, g>>) \subseteq Sel(<<T_dg, g>>)
                        /\ Sel(<<T_dxg, g>>) = (1..Len(Probe)) \ Sel(<<T_dg, g>>)
                        /\ Sel(<<T_dxsg, g>>) = (1..Len(Probe)) \ Sel(<<T_dsg, g>>)
    /\ \A n \in NVals : /\ Sel(<<T_dsn, n>>) \subseteq Sel(<<T_dn, n>>)
                        /\ Sel(<<T_dxn, n>>) = (1..Len(Probe)) \ Sel(<<T_dn, n>>)
    /\ \A g \in GVals, n \in NVals :
         /\ Sel(<<T_dt, g \o <<46>> \o n>>) = Sel(<<T_dg, g, T_dn, n>>)
         /\ Sel(<<T_dst, g \o <<46>> \o n>>) = Sel(<<T_dsg, g, T_dsn, n>>)
         /\ Sel(<<T_TESTL \o g \o T_commasp \o n \o <<41>>>>) = Sel(<<T_dst, g \o <<46>> \o n>>)
         /\ Sel(<<T_IGNORE_TESTL \o g \o T_commasp \o n \o <<41>>>>) = Sel(<<T_dst, g \o <<46>> \o n>>)
         /\ Sel(<<T_dxt, g \o <<46>> \o n>>) = (1..Len(Probe)) \ Sel(<<T_dt, g \o <<46>> \o n>>)
         /\ Sel(<<T_dxst, g \o <<46>> \o n>>) = (1..Len(Probe)) \ Sel(<<T_dst, g \o <<46>> \o n>>)
    /\ Sel(<<>>) = 1..Len(Probe)
    \* the substring meaning on words, stated without HasSub: a text lies in a word iff the word is some prefix \o text \o some suffix;
    \* a text behind a partial occurrence of itself is found; exclusion is the complement, strict is equality
    /\ \A f \in GWords(3), s \in GWords(4) :
         /\ Match(Filt(f, FALSE, FALSE), s) = (\E a \in SeqsUpTo(GChars, 3), b \in SeqsUpTo(GChars, 3) : s = a \o f \o b)
         /\ Match(Filt(f, FALSE, TRUE), s) = ~Match(Filt(f, FALSE, FALSE), s)
         /\ Match(Filt(f, TRUE, FALSE), s) = (s = f)
    /\ \A f \in GWords(3) : \A k \in 1..Len(f) : Match(Filt(f, FALSE, FALSE), SubSeq(f, 1, k) \o f)
    \* what every reading of a lone -xt agrees on covers the tests of which both halves or neither half match
    /\ \A g \in GWords(2), n \in NWords(2) : LET c == Meaning(<<T_dxt, g \o <<46>> \o n>>).cfg IN
         \A t \in WordTests(2) : XtAgreed(t, c) = ((HasSub(t.g, g) /\ HasSub(t.n, n)) \/ (~HasSub(t.g, g) /\ ~HasSub(t.n, n)))
ASSUME Laws
=============================================================================
