--------------------------- MODULE Gen_SimpleStr ---------------------------
(* Generation for C13.
   (a) Table (behaviours of length one): every pure call of the family IOEnv.FAMILY ("all", a family name, or
       "none") is written as one ndjson row to IOEnv.OUT - the call only; results and allocator discipline are
       predicted by Trace_SimpleStr when the log recorded from the real code is validated.
   (b) Object behaviours: sequences of D calls on the pool of NObj string objects (history variable h of the calls
       only, closed by the `end' call that destroys every object), by BFS for small D and by simulation. *)
EXTENDS SimpleStrLattice, Json, IOUtils, SequencesExt
CONSTANTS D, GA, GL, GH
ASSUME IOEnv.FAMILY = "none" \/ ndJsonSerialize(IOEnv.OUT, SetToSeq(RowsOf(IOEnv.FAMILY)))

VARIABLES h, done
gvars == <<vars, h, done>>
GS == SeqsUpTo(GA, GL)
GP == 0..(GL + 1)
GSz == { <<p, "">> : p \in GP } \cup { <<0, hn>> : hn \in GH }     \* sizes of `sub': small positions and symbolic sizes
OC(fn, i, j, k, s1, s2, n1, n2) == [op |-> "o", fn |-> fn, i |-> i, j |-> j, k |-> k, s1 |-> s1, s2 |-> s2, n1 |-> n1, n2 |-> n2, hg |-> <<"", "">>]
OCH(fn, i, j, b, n) == [op |-> "o", fn |-> fn, i |-> i, j |-> j, k |-> 0, s1 |-> <<>>, s2 |-> <<>>, n1 |-> b[1], n2 |-> n[1], hg |-> <<b[2], n[2]>>]
Do(o) == Obj(o, <<>>) /\ h' = Append(h, o)
GInit == Init /\ h = <<>> /\ done = FALSE
GStep == /\ Len(h) < D /\ UNCHANGED done
         /\ \/ \E i \in Objs, s \in GS : Do(OC("new", i, 0, 0, s, <<>>, 0, 0))
            \/ \E i \in Objs : Do(OC("del", i, 0, 0, <<>>, <<>>, 0, 0))
            \/ \E i \in Objs, j \in Objs : \/ Do(OC("assign", i, j, 0, <<>>, <<>>, 0, 0))
                                           \/ Do(OC("append", i, j, 0, <<>>, <<>>, 0, 0))
                                           \/ Do(OC("lower", i, j, 0, <<>>, <<>>, 0, 0))
                                           \/ Do(OC("printable", i, j, 0, <<>>, <<>>, 0, 0))
                                           \/ Do(OC("pad", i, j, 0, <<>>, <<>>, 32, 0))
            \/ \E i \in Objs, j \in Objs, b \in GSz, n \in GSz : Do(OCH("sub", i, j, b, n))
            \/ \E i \in Objs, s \in GS : Do(OC("appendlit", i, 0, 0, s, <<>>, 0, 0))
            \/ \E i \in Objs, a \in GA, b \in GA : Do(OC("replacech", i, 0, 0, <<>>, <<>>, a, b))
            \/ \E i \in Objs, s \in GS, t \in GS : Do(OC("replacestr", i, 0, 0, s, t, 0, 0))
            \/ \E i \in Objs, j \in Objs, k \in Objs : Do(OC("plus", i, j, k, <<>>, <<>>, 0, 0))
\* a single deterministic closing step: destroy every object
GEnd == /\ Len(h) = D /\ ~done /\ done' = TRUE
        /\ Obj(OC("end", 0, 0, 0, <<>>, <<>>, 0, 0), <<>>)
        /\ h' = Append(h, OC("end", 0, 0, 0, <<>>, <<>>, 0, 0))
GNext == GStep \/ GEnd
GSpec == GInit /\ [][GNext]_gvars
Dump == done => PrintT(<<"BEH", ToJson(h)>>)
=============================================================================
