---------------------------- MODULE Trace_MemAccount ----------------------------
EXTENDS MemAccount, Json, IOUtils
VARIABLE l
tvars == <<vars, l>>
Tr == ndJsonDeserialize(IOEnv.TRACE)
E == Tr[l]
Is(op) == l <= Len(Tr) /\ Tr[l].op = op /\ l' = l + 1
ToSet(s) == { s[i] : i \in 1..Len(s) }
BucketOf(cm, cs, sz) == IF cm THEN (IF { c \in cs : sz <= c } = {} THEN 0 ELSE Min({ c \in cs : sz <= c })) ELSE sz
StatOf(st, b) == IF b \in DOMAIN st THEN st[b] ELSE Zero
\* every logged observation is bound: totals, per-size answers for every probed size, the report rows in order
ObsOK == /\ E.ta = TotalA(stats') /\ E.td = TotalD(stats')
         /\ \A i \in 1..Len(E.probe) : LET p == E.probe[i] r == StatOf(stats', BucketOf(cacheMode', cache', p.sz)) IN
                                         p.a = r.a /\ p.d = r.d /\ p.max = r.max
         /\ E.rows = Rows(stats', cacheMode')
TInit == Init /\ l = 1
Walk == \/ Is("cache") /\ UseCache(ToSet(E.cs))
        \/ Is("alloc") /\ Alloc(E.sz)
        \/ Is("dealloc") /\ Dealloc(E.sz)
        \/ Is("clear") /\ Clear
TNext == Walk /\ ObsOK
TReset == Is("reset") /\ stats' = << >> /\ cache' = {} /\ cacheMode' = FALSE
TSpec == TInit /\ [][TNext \/ TReset]_tvars
Accepted == TLCGet("stats").diameter - 1 = Len(Tr)
TInv == Sane /\ CacheRows
PSpec == TInit /\ [][Walk \/ TReset]_tvars
Predict == (l > 1 /\ l - 1 >= atoi(IOEnv.FROM_LINE_N)) =>
             PrintT(<<"BEH", ToJson([line |-> l - 1, ta |-> TotalA(stats), td |-> TotalD(stats), rows |-> Rows(stats, cacheMode)])>>)
=============================================================================
