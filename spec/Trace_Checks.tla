---------------------------- MODULE Trace_Checks ----------------------------
(* Trace validation for C03: the ndjson log recorded from the real check macros (one line per
   executed check, with the operands really passed and the cumulative check / failure counters of
   the private TestResult) must be a behaviour of Checks.  The verdict of every line is computed
   here from the exact operand values by Holds; nothing is judged by the harness. *)
EXTENDS Checks, Json, IOUtils
VARIABLE l
tvars == <<vars, l>>
Tr == ndJsonDeserialize(IOEnv.TRACE)
E == Tr[l]
Is(op) == l <= Len(Tr) /\ Tr[l].op = op /\ l' = l + 1

ObsOK == checks' = E.cc /\ failures' = E.fc

TInit == Init /\ l = 1
TNext == /\ \E op \in Ops : Is(op) /\ Do(E)
         /\ ObsOK
TReset == Is("reset") /\ Reset
TSpec == TInit /\ [][TNext \/ TReset]_tvars
Accepted == TLCGet("stats").diameter - 1 = Len(Tr)
TInv == CountedOnce /\ FailIffFalse /\ FailuresAreChecks

\* diagnostics: the same walk with the observations unbound, printing what the specification allows
PNext == \E op \in Ops : Is(op) /\ Do(E)
PSpec == TInit /\ [][PNext \/ TReset]_tvars
Predict == (l > 1 /\ l - 1 >= atoi(IOEnv.FROM_LINE_N)) =>
              PrintT(<<"BEH", ToJson([line |-> l - 1, checks |-> checks, failures |-> failures])>>)
=============================================================================
