---------------------------- MODULE MC_SepProcess ----------------------------
(* Leg 1 for C11: behaviours of the child (cfg files cannot write records) *)
EXTENDS SepProcess
CONSTANT Reps   \* numbers of failures reported by plugin actions about one test
MCBehaviours == {[act |-> "any", arg |-> 0, rep |-> 0]}
                \cup {[act |-> a, arg |-> 0, rep |-> r] : a \in {"pass", "fail", "stop-twice"}, r \in Reps}
                \cup {[act |-> "exit", arg |-> c, rep |-> r] : c \in ExitCodes \cup {256}, r \in Reps}
                \cup {[act |-> a, arg |-> s, rep |-> r] : a \in {"signal", "signal-then-fail"}, s \in Signals, r \in Reps}
=============================================================================
