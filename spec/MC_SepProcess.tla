---------------------------- MODULE MC_SepProcess ----------------------------
(* Leg 1 for C11: behaviours of the child (cfg files cannot write records) *)
EXTENDS SepProcess
MCBehaviours == {[act |-> "any", arg |-> 0]}
                \cup {[act |-> a, arg |-> 0] : a \in {"pass", "fail", "stop-twice"}}
                \cup {[act |-> "exit", arg |-> c] : c \in ExitCodes \cup {256}}
                \cup {[act |-> a, arg |-> s] : a \in {"signal", "signal-then-fail"}, s \in Signals}
=============================================================================
