------------------------------- MODULE CmdLine -------------------------------
(***************************************************************************)
(* CppUTest command line (property C12).                                   *)
(*                                                                         *)
(* An argument vector is a sequence of tokens, a token a sequence of bytes.*)
(* The meaning of a vector is defined from the help text, not from the     *)
(* parser's dispatch chain: a token is an exact flag, or the longest       *)
(* documented option name that prefixes it followed by an attached value   *)
(* (the value is the next token when nothing is attached), or the          *)
(* "[IGNORE_]TEST(group, name)" form.  Values are identifier-like words.    *)
(* Repeat counts and shuffle seeds are DATA: decimal digit strings, kept   *)
(* and compared as digit sequences (TLC integers are 32-bit), leading      *)
(* zeros do not change the number.  The documented range is 1..2^32-1: the *)
(* runner derives its own seed from the clock as an unsigned int, prints   *)
(* it, and the documented way to repeat an order is to feed that number    *)
(* back with -s; numbers of 2^32 and more are left open.                   *)
(* Parsing goes left to right (index i); one step consumes one or two      *)
(* tokens.                                                                 *)
(*   Step = "ok" (configuration updated), "help" (-h: help is printed, no  *)
(*   test runs), "invalid" (the one value the help text itself declares    *)
(*   invalid: "-s [<seed>] ... must be greater than 0", i.e. an attached   *)
(*   seed of zero: the vector must be rejected) or "undoc": the vector     *)
(*   leaves the documented language (malformed value, missing value,       *)
(*   unknown option, plugin argument...).                                  *)
(* For undocumented vectors the statement only requires safety: the        *)
(* parser terminates and either rejects (usage or help printed, no test    *)
(* runs) or accepts with some configuration.  The help text names no other *)
(* value as an error (-o<unknown kind>, -t without a dot, -r0 ... have no  *)
(* documented meaning at all), so those stay open.                         *)
(* Selection follows C02's rule (a test runs iff its group is accepted by  *)
(* at least one group filter, when any are given, and its name by at least *)
(* one name filter) - except for the one case the help text defines by     *)
(* itself: a single -xt / -xst option excludes exactly the tests whose     *)
(* group AND name match (XtDocumented).  Where that reading is left open,   *)
(* the tests every reading agrees on stay bound (XtAgreed).  "Contains" is  *)
(* the textbook HasSub of Strings.tla for EVERY text and EVERY name - in     *)
(* particular a text that overlaps itself, behind a partial occurrence of   *)
(* itself ("oop" in "Looop"); CmdLineLattice supplies the word registry.    *)
(* The configuration is what the RUN gets, not only what the getters say:  *)
(* Applied(cfg) is what the runner hands to the output(s) and the registry *)
(* it works with - one verbosity level (quiet < verbose < very verbose:     *)
(* -vv prints what -v prints and the internal information, so -vv with or  *)
(* without -v, in any order, is very verbose), colour, separate process,   *)
(* run-ignored, crash-on-failure, rethrow, the shuffle seed, the number of *)
(* test runs.                                                              *)
(* The millisecond clock is an INPUT of parsing: a seedless -s takes its   *)
(* seed from it.  Whatever the clock reads - 0, a multiple of 2^32, ... -   *)
(* the option is documented, the vector is accepted and the seed obeys the *)
(* constraint the help text puts on seeds ("must be greater than 0").  How *)
(* the seed is derived from the reading is left open; that the same vector *)
(* at the same reading yields the same seed is not.                        *)
(***************************************************************************)
EXTENDS Integers, Sequences, FiniteSets, TLC, Strings

CONSTANTS XtDocumented      \* TRUE: a lone -xt/-xst means what the help text says; FALSE: leave that selection open

\* byte-sequence constants (generated; the name after T_ spells the text, '-' written as d)
T_dh == <<45, 104>>
T_dv == <<45, 118>>
T_dvv == <<45, 118, 118>>
T_dc == <<45, 99>>
T_dp == <<45, 112>>
T_db == <<45, 98>>
T_dlg == <<45, 108, 103>>
T_dln == <<45, 108, 110>>
T_dll == <<45, 108, 108>>
T_dri == <<45, 114, 105>>
T_df == <<45, 102>>
T_de == <<45, 101>>
T_dci == <<45, 99, 105>>
T_dxsg == <<45, 120, 115, 103>>
T_dxsn == <<45, 120, 115, 110>>
T_dxst == <<45, 120, 115, 116>>
T_dxg == <<45, 120, 103>>
T_dxn == <<45, 120, 110>>
T_dxt == <<45, 120, 116>>
T_dsg == <<45, 115, 103>>
T_dsn == <<45, 115, 110>>
T_dst == <<45, 115, 116>>
T_dg == <<45, 103>>
T_dn == <<45, 110>>
T_dt == <<45, 116>>
T_dr == <<45, 114>>
T_ds == <<45, 115>>
T_do == <<45, 111>>
T_dk == <<45, 107>>
T_TESTL == <<84, 69, 83, 84, 40>>
T_IGNORE_TESTL == <<73, 71, 78, 79, 82, 69, 95, 84, 69, 83, 84, 40>>
T_normal == <<110, 111, 114, 109, 97, 108>>
T_eclipse == <<101, 99, 108, 105, 112, 115, 101>>
T_junit == <<106, 117, 110, 105, 116>>
T_teamcity == <<116, 101, 97, 109, 99, 105, 116, 121>>
T_commasp == <<44, 32>>
ExactFlags == {T_dh, T_dv, T_dvv, T_dc, T_dp, T_db, T_dlg, T_dln, T_dll, T_dri, T_df, T_de, T_dci}
PrefixOptions == {T_dxsg, T_dxsn, T_dxst, T_dxg, T_dxn, T_dxt, T_dsg, T_dsn, T_dst, T_dg, T_dn, T_dt, T_dr, T_ds, T_do, T_dk, T_dp}
OutTypes == {T_normal, T_eclipse, T_junit, T_teamcity}

-----------------------------------------------------------------------------
(* lexical classes *)
IsIdentCh(c) == (c >= 48 /\ c <= 57) \/ (c >= 65 /\ c <= 90) \/ (c >= 97 /\ c <= 122) \/ c = 95
IsIdent(t) == t # <<>> /\ \A k \in 1..Len(t) : IsIdentCh(t[k])
\* numbers as digit strings.  Canon = the number without leading zeros (<<>> for zero); canonical numbers are ordered by
\* length, then digit by digit.
IsDigits(t) == t # <<>> /\ \A k \in 1..Len(t) : t[k] >= 48 /\ t[k] <= 57
Canon(t) == LET NZ == { k \in 1..Len(t) : t[k] # 48 } IN
            IF NZ = {} THEN <<>> ELSE SubSeq(t, CHOOSE k \in NZ : \A j \in NZ : k <= j, Len(t))
DecLeq(a, b) == Len(a) < Len(b) \/ (Len(a) = Len(b) /\ CmpSign(a, b) <= 0)
T_MaxCount == <<52, 50, 57, 52, 57, 54, 55, 50, 57, 53>>                          \* "4294967295" = 2^32 - 1
IsZeroNumber(t) == IsDigits(t) /\ Canon(t) = <<>>
IsNumber(t) == IsDigits(t) /\ Canon(t) # <<>> /\ DecLeq(Canon(t), T_MaxCount)      \* a documented count / seed: 1..2^32-1
NumVal(t) == Canon(t)                                                            \* the number a digit string denotes, canonical
\* small numbers as integers (how often the probe tests run)
IsSmallNumber(d) == Len(d) <= 2 \/ d = <<49, 48, 48>>                             \* canonical d <= 100
RECURSIVE IntVal(_)
IntVal(t) == IF t = <<>> THEN 0 ELSE 10 * IntVal(SubSeq(t, 1, Len(t) - 1)) + (t[Len(t)] - 48)
DotPositions(t) == { k \in 1..Len(t) : t[k] = 46 }
IsGroupDotName(t) == \E k \in DotPositions(t) : IsIdent(SubSeq(t, 1, k - 1)) /\ IsIdent(SubSeq(t, k + 1, Len(t)))
DotAt(t) == CHOOSE k \in DotPositions(t) : TRUE             \* unique when IsGroupDotName(t)
\* the longest documented option name that is a prefix of the token (<<>> if none)
OptionOf(t) == LET C == { p \in PrefixOptions : StartsWith(t, p) } IN
               IF C = {} THEN <<>> ELSE CHOOSE p \in C : \A q \in C : Len(q) <= Len(p)
LooksLikeOption(t) == StartsWith(t, <<45>>) \/ StartsWith(t, T_TESTL) \/ StartsWith(t, T_IGNORE_TESTL)
\* inside of "TEST(G, N)": documented iff it is  G ", " N  with identifier-like G and N
TestFormInner(t) == IF StartsWith(t, T_IGNORE_TESTL) THEN DropN(t, Len(T_IGNORE_TESTL)) ELSE DropN(t, Len(T_TESTL))
IsTestForm(t) == /\ (StartsWith(t, T_TESTL) \/ StartsWith(t, T_IGNORE_TESTL)) /\ EndsWith(t, <<41>>)
                 /\ LET inner == TestFormInner(t)
                        body == SubSeq(inner, 1, Len(inner) - 1) IN
                    \E k \in 1..(Len(body) - 1) : /\ SubSeq(body, k, k + 1) = T_commasp
                                                  /\ IsIdent(SubSeq(body, 1, k - 1)) /\ IsIdent(SubSeq(body, k + 2, Len(body)))
TestFormParts(t) == LET inner == TestFormInner(t)
                        body == SubSeq(inner, 1, Len(inner) - 1)
                        k == CHOOSE q \in 1..Len(body) : body[q] = 44
                    IN <<SubSeq(body, 1, k - 1), SubSeq(body, k + 2, Len(body))>>

-----------------------------------------------------------------------------
(* configuration *)
Default == [verbose |-> FALSE, vv |-> FALSE, color |-> FALSE, sep |-> FALSE, lg |-> FALSE, ln |-> FALSE, ll |-> FALSE,
            ri |-> FALSE, rev |-> FALSE, crash |-> FALSE, rethrow |-> TRUE, shuffle |-> FALSE, seed |-> <<>>, repeat |-> <<49>>,     \* seed <<>>: none / from the clock
            out |-> "eclipse", pkg |-> <<>>, fo |-> <<>>]
\* filter options in the order given: kind "g" (group), "n" (name), "t" (group.name / TEST form)
FOpt(kind, g, n, strict, invert) == [kind |-> kind, g |-> g, n |-> n, strict |-> strict, invert |-> invert]
Filt(p, s, x) == [p |-> p, s |-> s, x |-> x]
GF(cfg) == { Filt(cfg.fo[k].g, cfg.fo[k].strict, cfg.fo[k].invert) : k \in { q \in 1..Len(cfg.fo) : cfg.fo[q].kind \in {"g", "t"} } }
NF(cfg) == { Filt(cfg.fo[k].n, cfg.fo[k].strict, cfg.fo[k].invert) : k \in { q \in 1..Len(cfg.fo) : cfg.fo[q].kind \in {"n", "t"} } }

FlagEffect(t, cfg) ==
    CASE t = T_dv -> [cfg EXCEPT !.verbose = TRUE] [] t = T_dvv -> [cfg EXCEPT !.vv = TRUE]
      [] t = T_dc -> [cfg EXCEPT !.color = TRUE] [] t = T_dp -> [cfg EXCEPT !.sep = TRUE]
      [] t = T_db -> [cfg EXCEPT !.rev = TRUE] [] t = T_dlg -> [cfg EXCEPT !.lg = TRUE]
      [] t = T_dln -> [cfg EXCEPT !.ln = TRUE] [] t = T_dll -> [cfg EXCEPT !.ll = TRUE]
      [] t = T_dri -> [cfg EXCEPT !.ri = TRUE] [] t = T_df -> [cfg EXCEPT !.crash = TRUE]
      [] t \in {T_de, T_dci} -> [cfg EXCEPT !.rethrow = FALSE]

GroupOpts == {T_dg, T_dsg, T_dxg, T_dxsg}
NameOpts == {T_dn, T_dsn, T_dxn, T_dxsn}
DotOpts == {T_dt, T_dst, T_dxt, T_dxst}
StrictOpts == {T_dsg, T_dxsg, T_dsn, T_dxsn, T_dst, T_dxst}
InvertOpts == {T_dxg, T_dxsg, T_dxn, T_dxsn, T_dxt, T_dxst}
OutName(v) == CASE v \in {T_normal, T_eclipse} -> "eclipse" [] v = T_junit -> "junit" [] v = T_teamcity -> "teamcity"

R(k, cfg, i) == [k |-> k, cfg |-> cfg, i |-> i]
\* One parsing step at index i (1-based, i <= Len(argv)).  Never looks beyond argv[i + 1], and at that only if it exists.
Step(argv, i, cfg) ==
    LET t == argv[i]
        hasNext == i < Len(argv)
        nxt == IF hasNext THEN argv[i + 1] ELSE <<>>
        p == OptionOf(t)
        rest == DropN(t, Len(p))
        \* value of an option: attached, else the next token
        val == IF rest # <<>> THEN rest ELSE nxt
        hasVal == rest # <<>> \/ hasNext
        after == IF rest # <<>> THEN i + 1 ELSE i + 2
    IN
    IF t = T_dh THEN R("help", cfg, i + 1)
    ELSE IF t \in ExactFlags THEN R("ok", FlagEffect(t, cfg), i + 1)
    ELSE IF StartsWith(t, T_TESTL) \/ StartsWith(t, T_IGNORE_TESTL) THEN
         (IF IsTestForm(t) THEN LET gn == TestFormParts(t) IN
                R("ok", [cfg EXCEPT !.fo = Append(@, FOpt("t", gn[1], gn[2], TRUE, FALSE))], i + 1)
          ELSE R("undoc", cfg, i))
    ELSE IF p = <<>> THEN R("undoc", cfg, i)
    ELSE IF p \in {T_dr, T_ds} THEN
         (IF rest # <<>> THEN
              (IF IsNumber(rest) THEN R("ok", IF p = T_dr THEN [cfg EXCEPT !.repeat = NumVal(rest)]
                                                          ELSE [cfg EXCEPT !.shuffle = TRUE, !.seed = NumVal(rest)], i + 1)
               ELSE IF p = T_ds /\ IsZeroNumber(rest) THEN R("invalid", cfg, i + 1)   \* "-s0": the seed "must be greater than 0"
               ELSE R("undoc", cfg, i))
          ELSE IF hasNext /\ IsNumber(nxt) THEN
               R("ok", IF p = T_dr THEN [cfg EXCEPT !.repeat = NumVal(nxt)] ELSE [cfg EXCEPT !.shuffle = TRUE, !.seed = NumVal(nxt)], i + 2)
          ELSE IF ~hasNext \/ LooksLikeOption(nxt) THEN                       \* no count given: twice / time-based seed
               R("ok", IF p = T_dr THEN [cfg EXCEPT !.repeat = <<50>>] ELSE [cfg EXCEPT !.shuffle = TRUE, !.seed = <<>>], i + 1)
          ELSE R("undoc", cfg, i))
    ELSE IF p \in GroupOpts \cup NameOpts THEN
         (IF hasVal /\ IsIdent(val) THEN
              R("ok", [cfg EXCEPT !.fo = Append(@, IF p \in GroupOpts THEN FOpt("g", val, <<>>, p \in StrictOpts, p \in InvertOpts)
                                                                         ELSE FOpt("n", <<>>, val, p \in StrictOpts, p \in InvertOpts))], after)
          ELSE R("undoc", cfg, i))
    ELSE IF p \in DotOpts THEN
         (IF hasVal /\ IsGroupDotName(val) THEN
              LET k == DotAt(val) IN
              R("ok", [cfg EXCEPT !.fo = Append(@, FOpt("t", SubSeq(val, 1, k - 1), SubSeq(val, k + 1, Len(val)), p \in StrictOpts, p \in InvertOpts))], after)
          ELSE R("undoc", cfg, i))
    ELSE IF p = T_do THEN (IF hasVal /\ val \in OutTypes THEN R("ok", [cfg EXCEPT !.out = OutName(val)], after) ELSE R("undoc", cfg, i))
    ELSE IF p = T_dk THEN (IF hasVal /\ IsIdent(val) THEN R("ok", [cfg EXCEPT !.pkg = val], after) ELSE R("undoc", cfg, i))
    ELSE R("undoc", cfg, i)                                                   \* -p<plugin argument>

\* the meaning of a whole vector: "accept" with a configuration, "help", "invalid" (documented as an error: must be
\* rejected - only when the rest of the vector stays inside the documented language) or "undoc"
RECURSIVE Run(_, _, _, _)
Run(argv, i, cfg, inv) == IF i > Len(argv) THEN [k |-> IF inv THEN "invalid" ELSE "accept", cfg |-> cfg]
                          ELSE LET s == Step(argv, i, cfg) IN
                               IF s.k = "ok" THEN Run(argv, s.i, s.cfg, inv)
                               ELSE IF s.k = "invalid" THEN Run(argv, s.i, s.cfg, TRUE)
                               ELSE IF s.k = "help" THEN [k |-> IF inv THEN "invalid" ELSE "help", cfg |-> cfg]
                               ELSE [k |-> s.k, cfg |-> cfg]
Meaning(argv) == Run(argv, 1, Default, FALSE)

-----------------------------------------------------------------------------
(* selection of tests; a test is [g, n, ign] *)
Match(f, s) == (IF f.s THEN s = f.p ELSE HasSub(s, f.p)) # f.x
MatchAny(F, s) == F = {} \/ \E f \in F : Match(f, s)
HasXt(cfg) == \E k \in 1..Len(cfg.fo) : cfg.fo[k].kind = "t" /\ cfg.fo[k].invert
XtOnly(cfg) == Len(cfg.fo) = 1 /\ HasXt(cfg)
SelectionSpecified(cfg) == ~HasXt(cfg) \/ (XtOnly(cfg) /\ XtDocumented)
\* Even when the selection of a lone -xt/-xst is left open, its substring / strict meaning is not: every reading of "exclude
\* group.name" excludes a test whose group AND name match and keeps a test of which neither matches.  Only the tests of which
\* exactly one half matches are open.
XtAgreed(t, cfg) == XtOnly(cfg) /\ LET o == cfg.fo[1] IN Match(Filt(o.g, o.strict, FALSE), t.g) = Match(Filt(o.n, o.strict, FALSE), t.n)
SelectionKnown(t, cfg) == SelectionSpecified(cfg) \/ XtAgreed(t, cfg)
Selected(t, cfg) ==
    IF XtOnly(cfg) THEN LET o == cfg.fo[1] IN
         ~(Match(Filt(o.g, o.strict, FALSE), t.g) /\ Match(Filt(o.n, o.strict, FALSE), t.n))     \* "exclude tests whose group and name ..."
    ELSE MatchAny(GF(cfg), t.g) /\ MatchAny(NF(cfg), t.n)
\* how often the body of probe test t runs
ListMode(cfg) == cfg.lg \/ cfg.ln \/ cfg.ll
Runs(t, cfg) == IF ListMode(cfg) THEN 0
                ELSE IF Selected(t, cfg) /\ (~t.ign \/ cfg.ri) THEN IntVal(cfg.repeat) ELSE 0      \* asked only for small repeat counts

-----------------------------------------------------------------------------
(* what the run gets: the options the runner applies to the output(s) it creates, to the registry and to the test shells *)
Level(cfg) == IF cfg.vv THEN 2 ELSE IF cfg.verbose THEN 1 ELSE 0         \* 0 quiet, 1 verbose (-v), 2 very verbose (-vv, with or without -v)
TestRuns(cfg) == IF ListMode(cfg) THEN 0 ELSE IntVal(cfg.repeat)        \* test runs started (asked only for small repeat counts)
Applied(cfg) == [level |-> Level(cfg), color |-> cfg.color, sep |-> cfg.sep, ri |-> cfg.ri, crash |-> cfg.crash, rethrow |-> cfg.rethrow,
                 shuffle |-> cfg.shuffle, seed |-> cfg.seed, runs |-> TestRuns(cfg)]
\* a seed taken from the clock (cfg.seed = <<>>), for every reading of the clock: a number greater than 0
ClockSeedOK(seed) == IsDigits(seed) /\ Canon(seed) # <<>>

-----------------------------------------------------------------------------
(* The parser as a state machine: one action per step *)
VARIABLES argv, i, cfg, status, steps, inv
vars == <<argv, i, cfg, status, steps, inv>>
Start(v) == argv = v /\ i = 1 /\ cfg = Default /\ status = "parsing" /\ steps = 0 /\ inv = FALSE
ParseStep == /\ status = "parsing" /\ i <= Len(argv)
             /\ LET s == Step(argv, i, cfg) IN
                  /\ cfg' = s.cfg
                  /\ i' = IF s.k \in {"ok", "invalid"} THEN s.i ELSE i
                  /\ inv' = (inv \/ s.k = "invalid")
                  /\ status' = CASE s.k \in {"ok", "invalid"} -> "parsing"
                                  [] s.k = "help" -> (IF inv THEN "invalid" ELSE "help") [] OTHER -> "undoc"
             /\ steps' = steps + 1 /\ UNCHANGED argv
ParseEnd == /\ status = "parsing" /\ i > Len(argv)
            /\ status' = (IF inv THEN "invalid" ELSE "accept") /\ UNCHANGED <<argv, i, cfg, steps, inv>>
Next == ParseStep \/ ParseEnd

\* properties of the parser
IndexInBounds == i >= 1 /\ i <= Len(argv) + 1                      \* never an index beyond the vector (plus the end position)
BoundedSteps == steps <= Len(argv)                                 \* terminates: at most one step per token
AgreesWithMeaning == status # "parsing" => (status = Meaning(argv).k /\ (status = "accept" => cfg = Meaning(argv).cfg))
Progress == [][(status = "parsing" /\ status' = "parsing") => i' > i]_vars
Terminates == <>(status # "parsing")
=============================================================================
