---- MODULE MC_MemAccount ----
(* constant menus for MemAccount (cfg files cannot hold sets of sets) and counter bounds for exhaustive search *)
EXTENDS MemAccount
CC == {{4}, {4, 8}, {2, 8, 16}}
Bound3 == \A b \in DOMAIN stats : stats[b].a + stats[b].d <= 3
Bound4 == \A b \in DOMAIN stats : stats[b].a + stats[b].d <= 4
====
