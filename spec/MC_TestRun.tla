---------------------------- MODULE MC_TestRun ----------------------------
(* Exhaustive configurations of TestRun for TLC (leg 1).  Mode selects which dimension of the
   program space is enumerated completely:
     "life"   : every outcome in every phase (lifecycle, counting, exit value)        - C01
     "life2"  : outcomes that differ between repetitions (exit value over all repetitions)
     "select" : registries x filters x ignore x reverse/shuffle x repeat               - C02
     "ptr"    : pointer redirections around the table limit, plugin chains             - C17 *)
EXTENDS TestRun
CONSTANTS Mode, MaxTests, Evs

A == <<"A">>
AB == <<"A", "B">>
B == <<"B">>
X == <<"x">>
XY == <<"x", "y">>
Y == <<"y">>
Ph(sets, e) == [sets |-> sets, ev |-> <<e>>]
Ph2(sets, e, e2) == [sets |-> sets, ev |-> IF e = e2 THEN <<e>> ELSE <<e, e2>>]
OkScript == [setup |-> Ph(<<>>, "ok"), body |-> Ph(<<>>, "ok"), teardown |-> Ph(<<>>, "ok")]
F(p, s, i) == [pat |-> p, strict |-> s, invert |-> i]
Pl(n, en, er) == [name |-> n, enabled |-> en, err |-> er]
Cfg(rp, rv, sh, ri, gf, nf, pl) == [repeat |-> rp, reverse |-> rv, shuffle |-> sh, runIgnored |-> ri, gf |-> gf, nf |-> nf, plugins |-> pl, list |-> "none"]
CfgL(rv, gf, nf, lm) == [repeat |-> 1, reverse |-> rv, shuffle |-> FALSE, runIgnored |-> FALSE, gf |-> gf, nf |-> nf, plugins |-> <<>>, list |-> lm]
T(gg, nn, ig) == [g |-> gg, n |-> nn, ign |-> ig, after |-> <<>>]
TA(gg, nn, ig, af) == [g |-> gg, n |-> nn, ign |-> ig, after |-> af]
ChainOps == { <<>>, <<[op |-> "install", name |-> "Q1"]>>, <<[op |-> "remove", name |-> "P1"]>>, <<[op |-> "remove", name |-> "P3"], [op |-> "install", name |-> "Q2"]>> }

Regs ==
    IF Mode \in {"life", "life2"} THEN { [i \in 1..n |-> T(A, <<"t", ToString(i)>>, FALSE)] : n \in 0..MaxTests }
    ELSE IF Mode \in {"select", "list"} THEN
        UNION { [1..n -> { T(gg, nn, ig) : gg \in {A, AB, B}, nn \in {X, XY}, ig \in BOOLEAN }] : n \in 0..MaxTests }
    \* "ptr": plugins are also installed / removed between the tests of the run (what is done after the last test of a single
    \* repetition nobody observes: none there - it only multiplies the states)
    ELSE UNION { { [i \in 1..n |-> TA(A, <<"t", ToString(i)>>, FALSE, af[i])] : af \in { f \in [1..n -> ChainOps] : f[n] = <<>> } } : n \in 1..MaxTests }
Cfgs ==
    IF Mode = "life" THEN { Cfg(rp, FALSE, FALSE, FALSE, <<>>, <<>>, pl) : rp \in 1..2, pl \in { <<>>, <<Pl("P1", TRUE, TRUE)>> } }
    ELSE IF Mode = "life2" THEN { Cfg(rp, FALSE, FALSE, FALSE, <<>>, <<>>, <<>>) : rp \in 2..3 }
    ELSE IF Mode = "select" THEN
        { Cfg(rp, rv, sh, ri, gf, nf, <<>>) : rp \in 1..2, rv \in BOOLEAN, sh \in BOOLEAN, ri \in BOOLEAN,
              gf \in { <<>>, <<F(A, FALSE, FALSE)>>, <<F(A, TRUE, FALSE)>>, <<F(B, FALSE, TRUE), F(A, TRUE, FALSE)>> },
              nf \in { <<>>, <<F(X, TRUE, TRUE)>>, <<F(Y, FALSE, FALSE)>> } }
    ELSE IF Mode = "list" THEN
        { CfgL(rv, gf, nf, lm) : rv \in BOOLEAN, lm \in {"lg", "ln", "ll"},
              gf \in { <<>>, <<F(A, TRUE, FALSE)>>, <<F(B, FALSE, TRUE)>> }, nf \in { <<>>, <<F(Y, FALSE, FALSE)>> } }
    ELSE { Cfg(1, FALSE, FALSE, FALSE, <<>>, <<>>, pl) :
              pl \in { <<>>, <<Pl("P1", TRUE, FALSE), Pl("P2", FALSE, FALSE), Pl("P3", TRUE, TRUE)>> } }
SetSeqs == UNION { [1..n -> { [loc |-> l, val |-> l + n] : l \in Locs }] : n \in 0..3 }
Scripts ==
    IF Mode = "life" THEN { [setup |-> Ph(<<>>, e1), body |-> Ph(<<>>, e2), teardown |-> Ph(<<>>, e3)] : e1 \in Evs, e2 \in Evs, e3 \in Evs }
    \* outcomes that differ between repetitions (a test that fails only in some repetition)
    ELSE IF Mode = "life2" THEN { [setup |-> Ph2(<<>>, e1, e1b), body |-> Ph2(<<>>, e2, e2b), teardown |-> Ph(<<>>, "ok")] :
                                     e1 \in Evs, e1b \in Evs, e2 \in Evs, e2b \in Evs }
    ELSE IF Mode \in {"select", "list"} THEN { OkScript }
    ELSE { [setup |-> Ph(s1, "ok"), body |-> Ph(s2, e2), teardown |-> Ph(<<>>, "ok")] : s1 \in SetSeqs, s2 \in SetSeqs, e2 \in {"ok", "failCpp"} }

MCInit == \E r \in Regs, c \in Cfgs : InitWith(r, [i \in 1..Len(r) |-> Unset], c)
MCNext == Next \/ \E s \in Scripts : ChooseScript(s)
MCSpec == MCInit /\ [][MCNext]_vars
=============================================================================
