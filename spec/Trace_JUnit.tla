---------------------------- MODULE Trace_JUnit ----------------------------
(* Trace validation for C16.  The log has one line per call the registry made on the reporter (recorded by
   a TestResult probe in front of the real JUnitTestOutput) with the call's arguments, `nfiles' = number of
   files the reporter opened during that call and, for the end of a group, `doc': the projection of the
   file written, produced by tools/junit_project.py with Python's expat as the independent XML parser:
     wellformed / structure (one <testsuite> root, no repeated failure/skipped) / closed, fname, suite [name, tests, failures], cases [name, file, line, skipped, failed, message],
     sysout, and `raw': every attribute value / text as it stands in the file, with expat's reading of it.
   The log must be a behaviour of JUnit and the projected document must agree with the document the
   specification writes - in the terms of the property: counts, order, markers, texts after unescaping, and a
   file name that satisfies FileNameOK.  The specification's own XML decoder is cross-checked against expat
   on every raw value.
   "setpkg" = setPackageName between groups / runs; "fname" = a call of the public createFileName(g) with its answer, which must
   be a name derived from the package in force and g (FileNameOK); "restart" = testsStarted of a further run served by the same
   reporter; "start" carries the run options given to the reporter (color, verb).
   "skip" = a test the registry counted and the filter kept from running.  At the end of a group none of whose tests
   ran the reporter may write nothing, or one well-formed file whose name is not a name of the file of a group that
   ran earlier in the run (EmptyObsOK); nothing else is asked of that file. *)
EXTENDS JUnit, Json, IOUtils
VARIABLE l
tvars == <<vars, l>>
Tr == ndJsonDeserialize(IOEnv.TRACE)
E == Tr[l]
Is(op) == l <= Len(Tr) /\ Tr[l].op = op /\ l' = l + 1

NoFile == E.nfiles = 0

RawOK(d) == \A k \in 1..Len(d.raw) : ReadsAs(d.raw[k].ctx, d.raw[k].w, d.raw[k].dec)
CaseObsOK(c, x, t) ==          \* observed case c, written case x, what happened t
    /\ c.name = x.name /\ c.file = x.file /\ c.line = x.line
    /\ c.skipped = x.skipped /\ c.failed = x.failed
    /\ c.failed => \E j \in 1..Len(t.fails) : EndsWith(c.message, t.fails[j].msg)
DocObsOK(d, x) ==              \* observed document d, document x written by the specification
    /\ E.nfiles = 1 /\ d.wellformed /\ d.structure /\ d.closed
    /\ FileNameOK(d.fname, pkg, grp)
    /\ d.suite.name = x.suite.name /\ d.suite.tests = x.suite.tests /\ d.suite.failures = x.suite.failures
    /\ Len(d.cases) = Len(x.cases)
    /\ \A k \in 1..Len(x.cases) : CaseObsOK(d.cases[k], x.cases[k], cur[k])
    /\ d.sysout = x.sysout
    /\ RawOK(d)
EmptyObsOK(d) ==               \* what may be observed at the end of a group none of whose tests ran
    \/ E.nfiles = 0
    \/ /\ E.nfiles = 1 /\ d.wellformed /\ d.closed /\ RawOK(d)
       /\ \A g \in 1..Len(done) : Ran(g) /\ done[g].pkg = pkg => ~FileNameOK(d.fname, done[g].pkg, done[g].grp)

TInit == Init /\ l = 1
TNext == \/ Is("start") /\ TestsStarted(E.ri, E.pkg, [color |-> E.color, verb |-> E.verb]) /\ NoFile
         \/ Is("restart") /\ NextRun(E.ri) /\ NoFile
         \/ Is("setpkg") /\ SetPackage(E.pkg) /\ NoFile
         \/ Is("fname") /\ AskFileName(E.g) /\ NoFile /\ FileNameOK(E.fname, pkg, E.g)
         \/ Is("group") /\ GroupStarted(E.g) /\ NoFile
         \/ Is("test") /\ TestStarted(E.n, E.file, E.line, E.kind) /\ NoFile
         \/ Is("print") /\ PrintText(E.txt) /\ NoFile
         \/ Is("fail") /\ Failure(E.file, E.line, E.msg) /\ NoFile
         \/ Is("skip") /\ Skip /\ NoFile
         \/ Is("endtest") /\ TestEnded /\ NoFile
         \/ Is("endgroup") /\ (\E keep \in BOOLEAN : GroupEnded(keep)) /\ DocObsOK(E.doc, files'[Len(files')])
         \/ Is("endgroup") /\ (\E keep \in BOOLEAN : EmptyGroupEnded(E.nfiles > 0, keep)) /\ EmptyObsOK(E.doc)
         \/ Is("end") /\ TestsEnded /\ NoFile
TReset == /\ Is("reset") /\ phase' = "idle" /\ runIgn' = FALSE /\ pkg' = <<>> /\ opt' = NoOpt /\ grp' = <<>>
          /\ rep' = NoRep @@ [stdout |-> <<>>] /\ cur' = <<>> /\ printed' = [group |-> <<>>, all |-> <<>>]
          /\ files' = <<>> /\ done' = <<>> /\ cnt' = NoCnt
TSpec == TInit /\ [][TNext \/ TReset]_tvars
Accepted == TLCGet("stats").diameter - 1 = Len(Tr)
\* Every state of the observed execution is checked and a call writes at most one document, so looking at the last
\* document in every state examines every document (and keeps validation linear in the length of the run).
\* (A document is written by the call that ends a group, which leaves phase = "run": that state examines it.)
TInv == LET k == Len(files) IN
        /\ OneFilePerGroupFrom(Len(done)) /\ BookkeepingOK
        /\ phase = "run" => /\ NoOverwriteFrom(k) /\ SuiteCountsTrueFrom(k) /\ CasesFaithfulFrom(k) /\ OutputFaithfulFrom(k)
                             /\ WellFormedRoundTripFrom(k) /\ FileNamesOKFrom(k)

\* diagnostics: the same walk with the observations unbound, printing the document the specification writes
PNext == \/ Is("start") /\ TestsStarted(E.ri, E.pkg, [color |-> E.color, verb |-> E.verb])
         \/ Is("restart") /\ NextRun(E.ri)
         \/ Is("setpkg") /\ SetPackage(E.pkg)
         \/ Is("fname") /\ AskFileName(E.g)
         \/ Is("group") /\ GroupStarted(E.g)
         \/ Is("test") /\ TestStarted(E.n, E.file, E.line, E.kind)
         \/ Is("print") /\ PrintText(E.txt)
         \/ Is("fail") /\ Failure(E.file, E.line, E.msg)
         \/ Is("skip") /\ Skip
         \/ Is("endtest") /\ TestEnded
         \/ Is("endgroup") /\ (GroupEnded(TRUE) \/ EmptyGroupEnded(TRUE, TRUE))
         \/ Is("end") /\ TestsEnded
PSpec == TInit /\ [][PNext \/ TReset]_tvars
LastDoc == IF files = <<>> THEN <<>> ELSE LET x == files[Len(files)] IN
              <<[fname |-> x.fname, suite |-> x.suite, cases |-> x.cases, sysout |-> x.sysout, groupRan |-> RanDoc(Len(files))]>>
Predict == (l > 1 /\ l - 1 >= atoi(IOEnv.FROM_LINE_N)) =>
              PrintT(<<"BEH", ToJson([line |-> l - 1, phase |-> phase, package |-> pkg, lastDocument |-> LastDoc])>>)
=============================================================================
