SPECIFICATION TSpec
CONSTANTS
  Addrs = {0}
  P = 5
  MaxSeq = 100000
  Kinds = {"new"}
  Sizes = {1}
  MaxStage = 200
INVARIANT TInv
POSTCONDITION Accepted
CHECK_DEADLOCK FALSE
