"""Helpers shared by the C03 / C12 / C13 checks (kept outside vlib, which is common machinery)."""
import os
from vlib.conform import conform, read_log


def chunk(lines, size):
    return [lines[i:i + size] for i in range(0, len(lines), size)]


def conform_all(ctx, label, execs, harness, trace_module, tcfg, pcfg, key_fn, meta=None, max_parts=12, tlc_timeout=1800, env=None):
    """vlib.conform.conform() stops at a crash of the harness process (a sanitizer abort ends it).  This generator
    restarts the harness on the executions after the crashed one, so that one crashing call does not hide the rest.
    Yields the label of every part (its log is <work>/<label>.log.ndjson)."""
    part = 0
    while execs and part < max_parts:
        st = {}

        def rh(s, l):
            rc, out, to = harness(s, l)
            st["log"] = read_log(l)
            return rc, out, to
        lab = label if part == 0 else "%s_r%d" % (label, part)
        conform(ctx, lab, execs, rh, trace_module, tcfg, pcfg, key_fn, tlc_timeout=tlc_timeout, meta=meta, env=env)
        yield lab
        log = st.get("log", [])
        nlines = sum(len(e) for e in execs) + len(execs) - 1
        if len(log) >= nlines and not any(e.get("op") in ("crashed", "unparsable") for e in log):
            break
        k = sum(1 for e in log if e.get("op") == "reset")
        execs = execs[k + 1:]
        part += 1


def log_of(ctx, label):
    return read_log(os.path.join(ctx.work, label + ".log.ndjson"))
