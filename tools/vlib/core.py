"""Common machinery for the CppUTest TLA+ conformance checks (DESIGN.md section 6).

Every property module (tools/props/cNN.py) exposes run(ctx) and uses this Ctx for:
  * building the library of the working tree (${VERIF_REPO:-/repo}) in variants, with hooks on
  * building harnesses against it
  * running TLC (model checking, behaviour generation, trace validation)
  * reporting divergences (known-findings aware), writing evidence, exit codes
Exit codes: 0 held, 1 violation (VIOLATION line printed), 2 infrastructure error.
"""
import os, sys, json, time, hashlib, subprocess, shutil, re, glob, random, tempfile, fcntl
from concurrent.futures import ThreadPoolExecutor

VERIF = os.path.dirname(os.path.dirname(os.path.dirname(os.path.abspath(__file__))))
TLA_JAR = "/opt/veriftools/tla/tla2tools.jar"
TLA_DEPS = "/opt/veriftools/tla/CommunityModules-deps.jar"
GUARD = "CPPUTEST_VERIF_HOOKS"


class Infra(Exception):
    """Infrastructure problem: the check cannot judge (exit 2)."""


class TlcResult:
    def __init__(self):
        self.rc = None
        self.out = ""
        self.generated = 0
        self.distinct = 0
        self.depth = 0
        self.beh = []          # decoded JSON payloads of <<"BEH", "...">> lines
        self.violated = None   # name of violated invariant/property, if any
        self.wall = 0.0
        self.coverage = {}

    @property
    def ok(self):
        return self.rc == 0


def _sh(cmd, **kw):
    return subprocess.run(cmd, stdin=subprocess.DEVNULL, stdout=subprocess.PIPE,
                          stderr=subprocess.STDOUT, text=True, errors="replace", **kw)


class Ctx:
    def __init__(self, pid, tier, seed, replay=None):
        self.pid = pid
        self.tier = tier
        self.seed = seed
        self.replay = replay
        self.repo = os.environ.get("VERIF_REPO", "/repo")
        self.verif = VERIF
        self.work = os.path.join(VERIF, ".work", pid + ("" if "VERIF_WORKTAG" not in os.environ else "." + os.environ["VERIF_WORKTAG"]))
        shutil.rmtree(self.work, ignore_errors=True)
        os.makedirs(self.work, exist_ok=True)
        # self-test runs against a scratch copy (VERIF_REPO set) must not overwrite the real evidence / replays
        self.outroot = VERIF if self.repo == "/repo" else os.path.join(VERIF, ".mut")
        self.replays = os.path.join(self.outroot, "replays", pid)
        if not replay:
            shutil.rmtree(self.replays, ignore_errors=True)     # replay files of earlier runs would only mislead
        self.t0 = time.time()
        self.rng = random.Random(seed)
        self.violations = []      # (key, replay_path, text)
        self.known_hits = []
        self.states = 0
        self.transitions = 0
        self.traces = 0
        self.evaluations = 0
        self.samples = []
        self.notes = {}
        self.tlc_runs = []
        self.quick = (tier == "quick")
        kf = os.path.join(VERIF, "known_findings.json")
        self.known = []
        if os.path.exists(kf):
            self.known = [e for e in json.load(open(kf)).get("findings", []) if e.get("status") == "known"]

    # ------------------------------------------------------------------ build
    def gen_config_dir(self):
        d = os.path.join(self.repo, "_build", "generated")
        if os.path.exists(os.path.join(d, "CppUTestGeneratedConfig.h")):
            return d
        return os.path.join(VERIF, "harness", "common", "generated")

    VARIANTS = {
        "plain": ["-O1", "-g"],
        "asan": ["-O1", "-g", "-fsanitize=address,undefined", "-fno-omit-frame-pointer", "-fno-sanitize-recover=undefined"],
        "tsan": ["-O1", "-g", "-fsanitize=thread"],
        "noexc": ["-O1", "-g", "-fno-exceptions"],
    }

    def cxxflags(self, variant):
        g = self.gen_config_dir()
        return ["-std=c++14", "-w", "-pthread", "-D" + GUARD + "=1", "-I" + os.path.join(self.repo, "include"),
                "-I" + g, "-include", os.path.join(g, "CppUTestGeneratedConfig.h")] + self.VARIANTS[variant]

    def _src_hash(self, variant, extra):
        h = hashlib.sha256()
        h.update(("|".join(self.cxxflags(variant) + list(extra))).encode())
        files = []
        for pat in ("src/CppUTest/*.cpp", "src/CppUTestExt/*.cpp", "src/Platforms/Gcc/*.cpp",
                    "include/CppUTest/*.h", "include/CppUTestExt/*.h", "include/Platforms/c2000/*.h"):
            files += glob.glob(os.path.join(self.repo, pat))
        files.append(os.path.join(self.gen_config_dir(), "CppUTestGeneratedConfig.h"))
        for f in sorted(files):
            h.update(f[len(self.repo):].encode())
            with open(f, "rb") as fh:
                h.update(fh.read())
        return h.hexdigest()[:20]

    def build_lib(self, variant="plain", extra=()):
        """Compile the library of the working tree (hooks on). Returns dir with libCppUTest.a / libCppUTestExt.a.
        Cached by a content hash of every source and header, so any edit to the tree rebuilds."""
        key = self._src_hash(variant, extra)
        cache = os.path.join(VERIF, ".cache", "lib")
        os.makedirs(cache, exist_ok=True)
        dst = os.path.join(cache, variant + "-" + key)
        if os.path.exists(os.path.join(dst, "ok")):
            os.utime(dst)
            return dst
        tmp = tempfile.mkdtemp(prefix="b-", dir=cache)
        flags = self.cxxflags(variant) + list(extra)
        core = sorted(glob.glob(os.path.join(self.repo, "src/CppUTest/*.cpp"))) + \
            [os.path.join(self.repo, "src/Platforms/Gcc/UtestPlatform.cpp")]
        ext = [f for f in sorted(glob.glob(os.path.join(self.repo, "src/CppUTestExt/*.cpp")))
               if not f.endswith("GTest.cpp")]
        if variant == "noexc":
            ext = []
        jobs = [(f, os.path.join(tmp, ("core_" if f in core else "ext_") + os.path.basename(f)[:-4] + ".o")) for f in core + ext]

        def cc(job):
            src, obj = job
            r = _sh(["g++"] + flags + ["-c", src, "-o", obj])
            return (src, r.returncode, r.stdout)
        with ThreadPoolExecutor(16) as ex:
            res = list(ex.map(cc, jobs))
        bad = [r for r in res if r[1] != 0]
        if bad:
            shutil.rmtree(tmp, ignore_errors=True)
            raise Infra("library does not compile (%s): %s\n%s" % (variant, bad[0][0], bad[0][2][-3000:]))
        _sh(["ar", "rcs", os.path.join(tmp, "libCppUTest.a")] + [o for s, o in jobs if s in core])
        if ext:
            _sh(["ar", "rcs", os.path.join(tmp, "libCppUTestExt.a")] + [o for s, o in jobs if s in ext])
        for s, o in jobs:
            os.unlink(o)
        open(os.path.join(tmp, "ok"), "w").close()
        try:
            os.rename(tmp, dst)
        except OSError:
            shutil.rmtree(tmp, ignore_errors=True)   # someone else finished first
        self._evict(cache)
        return dst

    def _evict(self, cache, keep=24):
        ds = sorted((d for d in glob.glob(os.path.join(cache, "*-*")) if os.path.isdir(d)), key=os.path.getmtime)
        for d in ds[:-keep]:
            shutil.rmtree(d, ignore_errors=True)
        now = time.time()
        for d in glob.glob(os.path.join(cache, "b-*")):
            if now - os.path.getmtime(d) > 3600:
                shutil.rmtree(d, ignore_errors=True)

    def build_harness(self, name, variant="plain", extra=(), sources=None, libs=("CppUTestExt", "CppUTest"), out=None):
        lib = self.build_lib(variant)
        srcs = sources or [os.path.join(VERIF, "harness", name + ".cpp")]
        exe = os.path.join(self.work, (out or name) + "." + variant)
        cmd = ["g++"] + self.cxxflags(variant) + ["-I" + os.path.join(VERIF, "harness", "common")] + list(extra) + srcs + \
            ["-L" + lib] + ["-l" + l for l in libs if os.path.exists(os.path.join(lib, "lib" + l + ".a"))] + ["-o", exe]
        r = _sh(cmd)
        if r.returncode != 0:
            raise Infra("harness %s does not compile against the working tree:\n%s" % (name, r.stdout[-4000:]))
        return exe

    def run(self, cmd, timeout=300, env=None, stdin_file=None, stdout_file=None):
        """Run a harness. Returns (rc, output, timed_out). rc<0 = signal."""
        e = dict(os.environ)
        e.setdefault("ASAN_OPTIONS", "detect_leaks=0:abort_on_error=0:exitcode=97:allocator_may_return_null=1")
        e.setdefault("UBSAN_OPTIONS", "print_stacktrace=1:halt_on_error=1:exitcode=98")
        e.setdefault("TSAN_OPTIONS", "exitcode=96:halt_on_error=0")
        if env:
            e.update(env)
        fin = open(stdin_file) if stdin_file else subprocess.DEVNULL
        fout = open(stdout_file, "w") if stdout_file else subprocess.PIPE
        try:
            p = subprocess.run(cmd, stdin=fin, stdout=fout, stderr=subprocess.PIPE if stdout_file else subprocess.STDOUT,
                               text=True, errors="replace", timeout=timeout, env=e, cwd=self.work)
            out = p.stderr if stdout_file else p.stdout
            return p.returncode, out or "", False
        except subprocess.TimeoutExpired as ex:
            o = ex.stderr if stdout_file else ex.stdout
            if isinstance(o, bytes):
                o = o.decode(errors="replace")
            return None, o or "", True
        finally:
            if stdin_file:
                fin.close()
            if stdout_file:
                fout.close()

    # -------------------------------------------------------------------- TLC
    def tlc(self, module, cfg=None, workers=8, simulate=None, depth=None, timeout=600, env=None, extra=(),
            heap="4g", coverage=False, deque=False, count=True, tag=None, jvm=()):
        """Run TLC on spec/<module>.tla with spec/<cfg>.cfg. simulate=N -> -simulate num=N."""
        spec = os.path.join(VERIF, "spec")
        cfg = cfg or module
        cfgpath = cfg if os.path.isabs(cfg) else os.path.join(spec, cfg + ".cfg")
        cfg = os.path.basename(cfgpath)[:-4]
        tag = tag or cfg
        meta = os.path.join(self.work, "tlc-" + tag + "-" + str(len(self.tlc_runs)))
        shutil.rmtree(meta, ignore_errors=True)
        jopts = ["-XX:+UseParallelGC", "-Xmx" + heap] + list(jvm)
        if deque:
            jopts.append("-Dtlc2.tool.queue.IStateQueue=StateDeque")
        cmd = ["java"] + jopts + ["-cp", TLA_JAR + ":" + TLA_DEPS, "tlc2.TLC", "-workers", str(workers), "-metadir", meta,
                                  "-config", cfgpath, "-noGenerateSpecTE"]
        if simulate:
            cmd += ["-simulate", "num=%d" % simulate, "-seed", str(self.seed)]
        if depth:
            cmd += ["-depth", str(depth)]
        if coverage:
            cmd += ["-coverage", "1"]
        cmd += list(extra) + [os.path.join(spec, module + ".tla")]
        e = dict(os.environ)
        if env:
            e.update({k: str(v) for k, v in env.items()})
        r = TlcResult()
        t0 = time.time()
        try:
            p = subprocess.run(cmd, stdin=subprocess.DEVNULL, stdout=subprocess.PIPE, stderr=subprocess.STDOUT, text=True,
                               errors="replace", timeout=timeout, env=e, cwd=self.work)
        except subprocess.TimeoutExpired:
            shutil.rmtree(meta, ignore_errors=True)
            raise Infra("TLC timed out after %ds on %s/%s" % (timeout, module, cfg))
        r.wall = time.time() - t0
        r.rc = p.returncode
        r.out = p.stdout
        shutil.rmtree(meta, ignore_errors=True)
        m = re.findall(r"(\d+) states generated, (\d+) distinct states found", r.out)
        if m:
            r.generated, r.distinct = int(m[-1][0]), int(m[-1][1])
        m = re.findall(r"The number of states generated: (\d+)", r.out)   # simulation mode
        if m and not r.generated:
            r.generated = int(m[-1])
            r.distinct = r.generated
        m = re.findall(r"depth of the complete state graph search is (\d+)", r.out)
        if m:
            r.depth = int(m[-1])
        m = re.search(r"Invariant (\S+) is violated", r.out)
        if m:
            r.violated = m.group(1)
        m = re.search(r"Temporal properties were violated", r.out)
        if m:
            r.violated = "temporal"
        for line in r.out.splitlines():
            if line.startswith('<<"BEH", "'):
                s = line[len('<<"BEH", "'):]
                s = s[:s.rfind('">>')]
                try:
                    r.beh.append(json.loads(_tla_unescape(s)))
                except Exception as ex:
                    raise Infra("cannot decode BEH line: %s (%s)" % (line[:200], ex))
        if r.rc in (150, 151, 152, 153, 1, 2) or "Parsing or semantic analysis failed" in r.out or (r.rc not in (0, 10, 11, 12, 13)):
            first = "\n".join(l for l in r.out.splitlines() if l.startswith("Error:") or "Attempted" in l or "***" in l)[:1500]
            raise Infra("TLC infrastructure failure rc=%s on %s/%s:\n%s\n...\n%s" % (r.rc, module, cfg, first, r.out[-2500:]))
        if count:
            self.states += r.distinct
            self.transitions += r.generated
        self.tlc_runs.append({"module": module, "cfg": cfg, "rc": r.rc, "generated": r.generated, "distinct": r.distinct,
                              "depth": r.depth, "wall_s": round(r.wall, 2), "mode": "simulate" if simulate else "bfs"})
        return r

    def write_cfg(self, name, text):
        """A configuration generated at run time (constants extracted from the code, tier-dependent bounds)."""
        p = os.path.join(self.work, name + ".cfg")
        with open(p, "w") as f:
            f.write(text)
        return p

    def model_check(self, module, cfg=None, **kw):
        """Leg 1: the spec itself must satisfy its invariants. A failure here with constants extracted from the
        code is a violation; otherwise the machinery is broken (Infra)."""
        r = self.tlc(module, cfg, **kw)
        if r.rc != 0:
            raise Infra("model %s/%s does not satisfy its properties (rc=%d, violated=%s):\n%s" %
                        (module, cfg or module, r.rc, r.violated, r.out[-3000:]))
        return r

    def validate_trace(self, module, cfg, trace_path, timeout=600, env=None, heap="4g", deque=False):
        """Leg 3: returns (accepted, matched_prefix_len, TlcResult). Accepted = postcondition true and no invariant violated."""
        e = {"TRACE": trace_path}
        if env:
            e.update(env)
        r = self.tlc(module, cfg, workers=1, timeout=timeout, env=e, heap=heap, deque=deque)
        accepted = (r.rc == 0)
        return accepted, max(0, r.depth - 1), r

    # -------------------------------------------------------------- reporting
    def save_replay(self, name, obj):
        os.makedirs(self.replays, exist_ok=True)
        path = os.path.join(self.replays, name)
        with open(path, "w") as f:
            if isinstance(obj, str):
                f.write(obj)
            else:
                json.dump(obj, f, indent=1, default=str)
        return path

    def diverge(self, key, text, replay_obj, name=None):
        """Report a divergence between code and specification. key identifies the specific failing
        input/history; if it is listed in known_findings.json (status known) it is a KNOWN-FINDING."""
        for k in self.known:
            if k["property"] == self.pid and re.fullmatch(k["key"], key):
                if k["key"] not in [h[2] for h in self.known_hits]:
                    self.known_hits.append((key, k["what"], k["key"]))
                return False
        if len(self.violations) >= 20:
            self.violations.append((key, None, text))
            return True
        n = name or ("v%03d_%s.json" % (len(self.violations), re.sub(r"[^A-Za-z0-9_.-]+", "_", key)[:60]))
        if isinstance(replay_obj, dict):
            replay_obj = dict(replay_obj)
            replay_obj.setdefault("property", self.pid)
            replay_obj.setdefault("key", key)
            replay_obj.setdefault("what", text)
            replay_obj.setdefault("seed", self.seed)
            replay_obj.setdefault("tier", self.tier)
        path = self.save_replay(n, replay_obj)
        self.violations.append((key, path, text))
        return True

    def sample(self, obj):
        if len(self.samples) < 4:
            self.samples.append(obj)

    def finish(self, rule, distinct_nontrivial, exhaustive=False, assumptions=(), extra=None):
        wall = time.time() - self.t0
        cov = {
            "states": max(1, self.states), "transitions": max(1, self.transitions),
            "traces_validated_against_impl": self.traces,
            "evaluations": max(1, self.evaluations), "distinct_nontrivial": distinct_nontrivial,
            "rule": rule, "samples": self.samples or ["(none)"], "exhaustive": exhaustive,
            "tlc_runs": self.tlc_runs, "known_findings_hit": [h[0] for h in self.known_hits],
        }
        cov.update(self.notes)
        if extra:
            cov.update(extra)
        ev = {"property_id": self.pid, "tier": self.tier, "seed": self.seed, "level": "model_checking",
              "coverage": cov, "assumptions": list(assumptions), "wall_s": round(wall, 2),
              "violations": len(self.violations)}
        os.makedirs(os.path.join(self.outroot, "evidence"), exist_ok=True)
        with open(os.path.join(self.outroot, "evidence", self.pid + ".json"), "w") as f:
            json.dump(ev, f, indent=1, default=str)
        for key, what, _ in self.known_hits:
            print("KNOWN-FINDING: property=%s %s [first key: %s]" % (self.pid, what, key))
        shown = 0
        for key, path, text in self.violations:
            if path and shown < 6:
                shown += 1
                print("VIOLATION property=%s replay=%s" % (self.pid, path))
                print("  " + text.replace("\n", "\n  ")[:900])
        if len(self.violations) > shown:
            print("  (%d further divergences not shown)" % (len(self.violations) - shown))
        if not os.environ.get("VERIF_KEEP_WORK"):
            shutil.rmtree(self.work, ignore_errors=True)
        if self.violations:
            return 1
        print("OK property=%s tier=%s states=%d transitions=%d traces=%d evaluations=%d wall=%.1fs" %
              (self.pid, self.tier, self.states, self.transitions, self.traces, self.evaluations, wall))
        return 0


def _tla_unescape(s):
    # TLC prints a TLA+ string: backslash-escapes for \ and " (and \n, \t...)
    out = []
    i = 0
    while i < len(s):
        c = s[i]
        if c == "\\" and i + 1 < len(s):
            n = s[i + 1]
            out.append({"n": "\n", "t": "\t", "r": "\r", "f": "\f"}.get(n, n))
            i += 2
        else:
            out.append(c)
            i += 1
    return "".join(out)


def crashed(rc, out):
    """Classify a harness exit: returns None if clean, else a short reason."""
    if rc is None:
        return "hang (deadline exceeded)"
    if rc < 0:
        return "killed by signal %d" % (-rc)
    if rc in (96, 97, 98) or "ERROR: AddressSanitizer" in out or "runtime error:" in out or "WARNING: ThreadSanitizer" in out:
        m = re.search(r"(ERROR: AddressSanitizer[^\n]*|[^\n]*runtime error:[^\n]*|WARNING: ThreadSanitizer[^\n]*)", out)
        return "sanitizer: " + (m.group(1) if m else "rc=%d" % rc)
    if rc >= 128:
        return "killed by signal %d" % (rc - 128)
    return None
