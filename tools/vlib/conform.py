"""Script -> real code -> ndjson log -> TLC trace validation, with localisation of rejections.

An *execution* is a list of script lines (each a list of fields, TSV-encoded for the harness).
Executions are concatenated with a `reset` line.  The harness writes exactly one log line per script
line (same order), so a rejected log line maps back to its execution."""
import os, json, re
from .core import Infra, crashed


def write_script(path, executions):
    with open(path, "w") as f:
        first = True
        for ex in executions:
            if not first:
                f.write("reset\n")
            first = False
            for ln in ex:
                f.write("\t".join(str(x) for x in ln) + "\n")


def read_log(path):
    out = []
    if not os.path.exists(path):
        return out
    with open(path, errors="replace") as f:
        for ln in f:
            ln = ln.strip()
            if ln:
                try:
                    out.append(json.loads(ln))
                except Exception:
                    out.append({"op": "unparsable", "raw": ln[:300]})
    return out


def split_executions(log):
    """-> list of (start_index, [lines])"""
    res, cur, start = [], [], 0
    for i, e in enumerate(log):
        if e.get("op") == "reset":
            res.append((start, cur))
            cur, start = [], i + 1
        else:
            cur.append(e)
    res.append((start, cur))
    return res


def conform(ctx, label, executions, run_harness, trace_module, trace_cfg, predict_cfg=None, key_fn=None,
            max_report=3, tlc_timeout=900, env=None, heap="4g", crash_is_violation=True, meta=None, end_op=None, _depth=0):
    """run_harness(script_path, log_path) -> (rc, output, timed_out).
    Returns number of executions validated. Divergences are reported through ctx.diverge."""
    tag = re.sub(r"\W+", "_", label)
    script = os.path.join(ctx.work, tag + ".script.tsv")
    logp = os.path.join(ctx.work, tag + ".log.ndjson")
    write_script(script, executions)
    rc, out, to = run_harness(script, logp)
    log = read_log(logp)
    why = crashed(rc, out)
    bad_idx = None
    for i, e in enumerate(log):
        if e.get("op") in ("crashed", "unparsable"):
            bad_idx = i
            break
        if e.get("op") == "harness-error":
            raise Infra("harness error in %s: %s" % (label, e))
        if "repbad" in e:
            raise Infra("projection broken in %s (output no longer has the expected shape): %s" % (label, e))
    nlines = sum(len(ex) for ex in executions) + len(executions) - 1
    if end_op is None:
        complete = len(log) == nlines
    else:
        # several log lines per script line: every execution must be present and end with the closing event
        parts = split_executions(log)
        complete = len(parts) == len(executions) and all(ls and ls[-1].get("op") == end_op for _, ls in parts)
    if why or bad_idx is not None or (rc not in (0,)) or not complete:
        # the real code crashed / hung / was stopped by a sanitizer while executing a behaviour of the spec
        exs = split_executions(log)
        k = len(exs) - 1
        if not why:
            why = "harness exit rc=%s, %d of %d log lines" % (rc, len(log), nlines)
        if not crash_is_violation:
            raise Infra("%s: %s\n%s" % (label, why, out[-2000:]))
        ex = executions[k] if k < len(executions) else []
        done = len([e for e in exs[-1][1] if e.get("op") != "crashed"])     # the harness's own crash marker is not a call
        key = key_fn("crash", ex, done, None) if key_fn else "crash"
        ctx.diverge(key, "%s: the code under test did not survive a behaviour the specification allows: %s (execution %d, after %d calls; next call: %s)"
                    % (label, why, k, done, ex[done] if (end_op is None and done < len(ex)) else "-"),
                    {"meta": meta, "label": label, "kind": "crash", "why": why, "script": ["\t".join(map(str, l)) for l in ex], "calls_completed": done,
                     "output_tail": out[-3000:], "trace_module": trace_module, "trace_cfg": trace_cfg})
        # validate what was logged before the crash (drop the crashed execution) and run the executions behind it in a
        # fresh harness process, so that one crash does not hide the rest
        rest = executions[k + 1:]
        executions = executions[:k]
        log = log[:exs[-1][0] - 1] if k > 0 else []
        extra = 0
        if rest and _depth < 4 and not to:      # after a hang the rest would most likely hang too: one deadline is enough
            extra = conform(ctx, label + "+", rest, run_harness, trace_module, trace_cfg, predict_cfg, key_fn, max_report, tlc_timeout, env, heap,
                            crash_is_violation, meta, end_op, _depth + 1)
        if not executions:
            return extra
        validated_extra = extra
    else:
        validated_extra = 0
    validated = 0
    offset = 0   # executions[offset:] correspond to log
    reports = 0
    rounds = 0
    while log:
        with open(logp, "w") as f:
            for e in log:
                f.write(json.dumps(e) + "\n")
        ok, matched, r = ctx.validate_trace(trace_module, trace_cfg, logp, timeout=tlc_timeout, env=env, heap=heap)
        mm = re.findall(r'<<"MATCHED", (\d+)>>', r.out)
        if mm:
            matched = int(mm[-1])      # specs with silent steps report the furthest line reached themselves
        if ok:
            validated += len(split_executions(log))
            break
        if r.rc == 12 and r.violated:
            # an invariant of the specification is false on a state reached by the observed execution
            pass
        exs = split_executions(log)
        # failing line = first line not matched
        fail_line = min(matched, len(log) - 1)
        k = max(i for i, (s, _) in enumerate(exs) if s <= fail_line) if exs else 0
        s, lines = exs[k]
        rel = fail_line - s
        ex = executions[offset + k]
        predicted = None
        if predict_cfg:
            sub = os.path.join(ctx.work, tag + ".sub.ndjson")
            with open(sub, "w") as f:
                for e in lines[:rel + 1]:
                    f.write(json.dumps(e) + "\n")
            try:
                pe = {"TRACE": sub, "FROM_LINE_N": str(max(1, rel))}
                if env:
                    pe.update(env)
                pr = ctx.tlc(trace_module, predict_cfg, workers=1, env=pe, count=False, timeout=120)
                predicted = pr.beh[-3:]
            except Infra as e:
                predicted = "predict failed: %s" % str(e)[:300]
        observed = lines[rel] if 0 <= rel < len(lines) else None
        key = key_fn("reject", ex, rel, observed) if key_fn else "reject:" + str(observed.get("op") if observed else "?")
        what = "%s: trace rejected by %s at call %d of execution %d: observed %s" % (
            label, trace_module, rel + 1, offset + k, json.dumps(observed)[:600])
        if r.violated:
            what += " (specification invariant %s violated)" % r.violated
        if predicted:
            what += "\nspecification predicts (last states): %s" % json.dumps(predicted)[:900]
        is_new = ctx.diverge(key, what, {"meta": meta, "label": label, "kind": "reject", "script": ["\t".join(map(str, l)) for l in ex],
                                         "log": lines[:rel + 1], "failing_call": rel + 1, "observed": observed, "predicted": predicted,
                                         "trace_module": trace_module, "trace_cfg": trace_cfg, "violated_invariant": r.violated})
        validated += k
        rounds += 1
        if is_new:
            reports += 1     # listed known findings do not use up the budget of reported divergences
        # continue with the executions after the rejected one
        nxt = exs[k + 1][0] if k + 1 < len(exs) else None
        if nxt is None or reports >= max_report or rounds >= 12:
            break
        log = log[nxt:]
        offset += k + 1
    ctx.traces += validated
    return validated + validated_extra
