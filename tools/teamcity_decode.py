#!/usr/bin/env python3
"""Independent decoder for TeamCity service-message streams (used by the C20 check).

Written from the TeamCity service-message rules, not from CppUTest's writer:
  ##teamcity[<messageName> <attr>='<value>' <attr>='<value>' ...]     (or the single-value form ##teamcity[name 'value'])
  inside a value the characters ' | [ ] and line breaks must be escaped:
      |'  ||  |[  |]  |n (LF)  |r (CR)  |x (NEL)  |l (LS)  |p (PS)  |0xNNNN (unicode)
  a service message must not span lines.
Anything that starts with "##teamcity[" and does not parse by these rules is an *undecodable fragment*.
Text outside service messages is ordinary build log.

decode_stream(data: bytes) -> list of items, each
   {"at": offset, "ok": True, "kind": name, "raw": {attr: bytes}, "dec": {attr: bytes}, "end": offset_after}
 | {"at": offset, "ok": False, "why": text}
"""
import sys, json, re

START = b"##teamcity["
NAME_CH = set(b"abcdefghijklmnopqrstuvwxyzABCDEFGHIJKLMNOPQRSTUVWXYZ0123456789_.-")
SIMPLE = {ord("'"): b"'", ord("|"): b"|", ord("["): b"[", ord("]"): b"]", ord("n"): b"\n", ord("r"): b"\r",
          ord("x"): "\u0085".encode(), ord("l"): "\u2028".encode(), ord("p"): "\u2029".encode()}


class Undecodable(Exception):
    pass


def _value(data, i):
    """data[i] is the opening quote. Returns (raw, decoded, index after the closing quote)."""
    assert data[i] == 0x27
    i += 1
    raw, dec = bytearray(), bytearray()
    n = len(data)
    while True:
        if i >= n:
            raise Undecodable("stream ends inside a value")
        c = data[i]
        if c == 0x27:
            return bytes(raw), bytes(dec), i + 1
        if c in (0x0A, 0x0D):
            raise Undecodable("raw line break inside a value (message spans lines)")
        if c in (0x5B, 0x5D):
            raise Undecodable("unescaped %r inside a value" % chr(c))
        if c == 0x7C:
            if i + 1 >= n:
                raise Undecodable("stream ends after |")
            e = data[i + 1]
            if e in SIMPLE:
                raw += data[i:i + 2]; dec += SIMPLE[e]; i += 2
                continue
            if e == ord("0") and i + 6 < n + 1 and data[i + 2:i + 3] == b"x" and re.fullmatch(rb"[0-9A-Fa-f]{4}", data[i + 3:i + 7] or b""):
                raw += data[i:i + 7]; dec += chr(int(data[i + 3:i + 7], 16)).encode(); i += 7
                continue
            raise Undecodable("invalid escape |%s" % chr(e))
        raw.append(c); dec.append(c); i += 1


def _message(data, at):
    i = at + len(START)
    n = len(data)
    j = i
    while j < n and data[j] in NAME_CH:
        j += 1
    if j == i:
        raise Undecodable("no message name")
    kind = data[i:j].decode()
    raw, dec = {}, {}
    i = j
    first = True
    while True:
        if i >= n:
            raise Undecodable("stream ends inside a message")
        if data[i] == 0x5D:     # ]
            return kind, raw, dec, i + 1
        if data[i] != 0x20:
            raise Undecodable("unexpected %r after %s" % (chr(data[i]), "message name" if first else "a value"))
        while i < n and data[i] == 0x20:
            i += 1
        if i < n and data[i] == 0x5D:
            return kind, raw, dec, i + 1
        if i < n and data[i] == 0x27 and first:     # single-value form
            r, d, i = _value(data, i)
            raw[""] = r; dec[""] = d
            first = False
            continue
        j = i
        while j < n and data[j] in NAME_CH:
            j += 1
        if j == i or j >= n or data[j] != 0x3D:     # =
            raise Undecodable("expected attribute name and = at offset %d" % (i - at))
        key = data[i:j].decode()
        if key in raw:
            raise Undecodable("attribute %s given twice" % key)
        if j + 1 >= n or data[j + 1] != 0x27:
            raise Undecodable("attribute %s: value is not quoted" % key)
        r, d, i = _value(data, j + 1)
        raw[key] = r; dec[key] = d
        first = False


def decode_stream(data):
    items = []
    pos = 0
    while True:
        at = data.find(START, pos)
        if at < 0:
            break
        try:
            kind, raw, dec, end = _message(data, at)
            items.append({"at": at, "ok": True, "kind": kind, "raw": raw, "dec": dec, "end": end})
            pos = end
        except Undecodable as e:
            items.append({"at": at, "ok": False, "why": str(e)})
            pos = at + len(START)
    return items


def capture_to_log(capture_lines):
    """capture lines of harness/outputs.cpp (one per reporter callback) -> log lines for Trace_TeamCity:
    the whole run's stdout is decoded as ONE stream; every message is attributed to the callback
    during which its first byte was written."""
    out = []
    run = []          # indexes into `out` of the current run's lines

    def flush():
        if not run:
            return
        data = b"".join(bytes.fromhex(out[i]["_stdout"]) for i in run)
        starts, off = [], 0
        for i in run:
            starts.append(off); off += len(bytes.fromhex(out[i]["_stdout"]))
        items = decode_stream(data)
        for it in items:
            k = max(j for j, s in enumerate(starts) if s <= it["at"])
            ln = out[run[k]]
            if it["ok"]:
                ln["msgs"].append({"kind": it["kind"], "raw": {a: list(v) for a, v in it["raw"].items()},
                                   "dec": {a: list(v) for a, v in it["dec"].items()}})
            else:
                ln["bad"] += 1
                ln["msgs"].append({"kind": "?undecodable", "raw": {"_": []}, "dec": {"_": []}, "why": it["why"],
                                   "fragment": data[it["at"]:it["at"] + 120].decode("latin-1")})
        del run[:]

    for c in capture_lines:
        if c.get("op") in ("reset", "crashed", "unparsable", "harness-error"):
            flush()
            out.append(c)
            continue
        ln = {"op": c["op"], "msgs": [], "bad": 0, "_stdout": c.get("stdout", "")}
        for k, v in c.items():
            if k in ("op", "stdout", "files"):
                continue
            ln[k] = list(bytes.fromhex(v)) if isinstance(v, str) and k != "kind" else v
        out.append(ln)
        run.append(len(out) - 1)
        if c["op"] == "end":
            flush()
    flush()
    for ln in out:
        ln.pop("_stdout", None)
    return out


if __name__ == "__main__":
    data = open(sys.argv[1], "rb").read()
    for it in decode_stream(data):
        for k in ("raw", "dec"):
            if k in it:
                it[k] = {a: v.decode("latin-1") for a, v in it[k].items()}
        print(json.dumps(it))
