"""Helper shared by the C14/C15/C18 checks: run a conformance harness and normalise a crash.

vh.h's fatal-signal handler appends a final {"op":"crashed","sig":N} line to the log and exits with 99.
vlib.conform counts that line as a completed call when it localises the crash (the "next call" it reports is then
one too far).  This wrapper removes the marker line and reports the signal through the return code instead, so the
number of log lines equals the number of completed calls and `crashed()` still says which signal it was."""
import json, os


def run_harness(ctx, cmd, logpath, timeout=900, env=None):
    rc, out, to = ctx.run(cmd, timeout=timeout, env=env)
    if rc == 99 and os.path.exists(logpath):
        with open(logpath, errors="replace") as f:
            lines = f.read().split("\n")
        while lines and not lines[-1].strip():
            lines.pop()
        sig = None
        if lines:
            try:
                e = json.loads(lines[-1])
                if e.get("op") == "crashed":
                    sig = int(e.get("sig", 0))
                    lines.pop()
            except Exception:
                pass
        if sig is not None:
            # the line being written when the signal arrived may be incomplete: keep only whole JSON lines
            keep = []
            for ln in lines:
                if not ln.strip():
                    continue
                try:
                    json.loads(ln)
                    keep.append(ln)
                except Exception:
                    break
            with open(logpath, "w") as f:
                f.write("".join(l + "\n" for l in keep))
            out = (out or "") + "\n[harness: fatal signal %s caught after %d completed calls]" % (sig, len(keep))
            rc = -sig if sig > 0 else 134
    return rc, out, to
