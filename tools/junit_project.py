#!/usr/bin/env python3
"""Projection of a JUnit XML report onto the abstract document of spec/JUnit.tla (used by the C16 check).

The judge of well-formedness is Python's expat (xml.parsers.expat), a conforming non-validating XML 1.0
parser: whatever it rejects is not well-formed XML.  From an accepted document the projection extracts what
the property talks about:
   suite: name, tests, failures        (attributes of the root <testsuite>)
   cases: for every <testcase> child in document order: name, file, line, skipped (<skipped/> child),
          failed (<failure> child), message (the failure's message attribute)
   sysout: character data of <system-out>
and, for the cross-check of the specification's own XML decoder, `raw': the attribute values / text exactly as
they stand in the file (located with expat's byte offsets; only done once expat has accepted the document)
together with expat's reading of them.
Strings are returned as lists of byte values."""
import sys, json, re
import xml.parsers.expat as expat

ATTR_RE = re.compile(rb'([A-Za-z_:][-A-Za-z0-9_:.]*)\s*=\s*(?:"([^"]*)"|\'([^\']*)\')', re.S)


def b(s):
    """expat hands out str; the reports are ASCII in our runs, other characters are kept as UTF-8 bytes"""
    return list(s.encode("utf-8"))


def num(s):
    return int(s) if s is not None and re.fullmatch(r"[0-9]{1,9}", s) else -1


def empty_doc(why):
    return {"wellformed": False, "err": why, "closed": False, "fname": [], "suite": {"name": [], "tests": -1, "failures": -1},
            "cases": [], "sysout": [], "raw": [], "nsuites": 0, "structure": False}


def start_tag_raw(data, at):
    """raw attribute values of the start tag beginning at byte offset `at` (document already known to be well-formed)"""
    i = at
    q = None
    n = len(data)
    while i < n:
        c = data[i:i + 1]
        if q:
            if c == q:
                q = None
        elif c in (b'"', b"'"):
            q = c
        elif c == b">":
            break
        i += 1
    tag = data[at:i + 1]
    return {m.group(1).decode(): (m.group(2) if m.group(2) is not None else m.group(3)) for m in ATTR_RE.finditer(tag)}, i + 1


def project(data):
    doc = empty_doc("")
    p = expat.ParserCreate()
    stack = []
    state = {"case": None, "sysout_from": None, "sysout": [], "raw": [], "suites": 0}

    def start(name, attrs):
        depth = len(stack)
        stack.append(name)
        raw, after = start_tag_raw(data, p.CurrentByteIndex)
        if depth == 0:
            state["suites"] += 1
            if name == "testsuite":
                doc["suite"] = {"name": b(attrs.get("name", "")), "tests": num(attrs.get("tests")), "failures": num(attrs.get("failures"))}
                doc["suite_present"] = True
                if "name" in attrs and "name" in raw:
                    state["raw"].append({"ctx": "attr", "w": list(raw["name"]), "dec": b(attrs["name"])})
        elif depth == 1 and name == "testcase" and stack[0] == "testsuite":
            c = {"name": b(attrs.get("name", "")), "file": b(attrs.get("file", "")), "line": num(attrs.get("line")),
                 "classname": b(attrs.get("classname", "")), "skipped": False, "failed": False, "message": [],
                 "has": sorted(k for k in ("name", "file", "line") if k in attrs), "nfailure": 0, "nskipped": 0}
            for k in ("name", "file", "classname"):
                if k in attrs and k in raw:
                    state["raw"].append({"ctx": "attr", "w": list(raw[k]), "dec": b(attrs[k])})
            doc["cases"].append(c)
            state["case"] = c
        elif depth == 2 and state["case"] is not None and stack[1] == "testcase":
            c = state["case"]
            if name == "failure":
                c["nfailure"] += 1
                if not c["failed"]:
                    c["failed"] = True
                    c["message"] = b(attrs.get("message", ""))
                    if "message" in attrs and "message" in raw:
                        state["raw"].append({"ctx": "attr", "w": list(raw["message"]), "dec": b(attrs["message"])})
            elif name == "skipped":
                c["nskipped"] += 1
                c["skipped"] = True
        elif depth == 1 and name == "system-out":
            state["sysout_from"] = after

    def end(name):
        if len(stack) == 2 and name == "testcase":
            state["case"] = None
        if len(stack) == 2 and name == "system-out" and state["sysout_from"] is not None:
            rawtext = data[state["sysout_from"]:p.CurrentByteIndex]
            text = "".join(state["sysout"])
            doc["sysout"] = b(text)
            if b"<" not in rawtext:        # plain character data with references only (no CDATA sections / markup)
                state["raw"].append({"ctx": "text", "w": list(rawtext), "dec": b(text)})
            state["sysout_from"] = None
        stack.pop()

    def chars(s):
        if len(stack) == 2 and stack[1] == "system-out":
            state["sysout"].append(s)

    p.StartElementHandler = start
    p.EndElementHandler = end
    p.CharacterDataHandler = chars
    p.buffer_text = True
    try:
        p.Parse(data, True)
    except expat.ExpatError as e:
        d = empty_doc("not well-formed: %s (line %d, column %d)" % (expat.ErrorString(e.code), e.lineno, e.offset))
        return d
    doc["wellformed"] = True
    doc["err"] = "" if doc.get("suite_present") else "root element is not <testsuite>"
    doc.pop("suite_present", None)
    doc["raw"] = state["raw"]
    doc["nsuites"] = state["suites"]
    # a second <failure>/<skipped> in one test case, or both, contradicts "exactly": make it visible
    for c in doc["cases"]:
        if c["nfailure"] > 1 or c["nskipped"] > 1:
            doc["err"] = "test case with repeated failure/skipped elements"
        c.pop("nfailure"); c.pop("nskipped"); c.pop("has")
    doc["structure"] = doc["err"] == "" and doc["nsuites"] == 1
    return doc


def capture_to_log(capture_lines):
    """capture lines of harness/outputs.cpp (one per reporter callback) -> log lines for Trace_JUnit"""
    out = []
    for c in capture_lines:
        if c.get("op") in ("reset", "crashed", "unparsable", "harness-error"):
            out.append(c)
            continue
        ln = {"op": c["op"]}
        for k, v in c.items():
            if k in ("op", "stdout", "files"):
                continue
            ln[k] = list(bytes.fromhex(v)) if isinstance(v, str) and k != "kind" else v
        files = c.get("files", [])
        ln["nfiles"] = len(files)
        if c["op"] == "endgroup":
            if files:
                f = files[0]
                d = project(bytes.fromhex(f["data"]))
                d["fname"] = list(bytes.fromhex(f["name"]))
                d["closed"] = bool(f["closed"])
            else:
                d = empty_doc("no file written")
            ln["doc"] = d
        out.append(ln)
    return out


if __name__ == "__main__":
    print(json.dumps(project(open(sys.argv[1], "rb").read())))
