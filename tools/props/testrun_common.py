"""Shared by C01, C02, C17: programs for the TestRun specification and the testrun harness."""
import json, os
from vlib.conform import conform
from vlib.core import Infra

INVS = ("JmpInBounds JmpBalanced BodyOnlyAfterSetupCompleted TeardownIffSetupEntered SetupAlwaysEntered RecordedOnce "
        "FailuresAsExpected CountIdentity GroupsBalanced PointersRestored TableBounded ExitZeroIff SummaryTrue")

MC = """SPECIFICATION %(spec)s
CONSTANTS
  JmpCapacity = %(cap)d
  HaveExceptions = %(exc)s
  MaxSet = %(maxset)d
  Locs = {%(locs)s}
  OrderStrict = TRUE
  Mode = "%(mode)s"
  MaxTests = %(maxtests)d
  Evs = {%(evs)s}
INVARIANTS %(invs)s
CHECK_DEADLOCK FALSE
"""
TRACE = """SPECIFICATION %(spec)s
CONSTANTS
  JmpCapacity = %(cap)d
  HaveExceptions = %(exc)s
  MaxSet = %(maxset)d
  Locs = {%(locs)s}
  OrderStrict = %(strict)s
%(tail)s
CHECK_DEADLOCK FALSE
"""
NLOC = 40
ALL_EVS = ["ok", "failCpp", "failC", "throwStd", "throwOther"]


def evs_tla(evs):
    return ", ".join('"%s"' % e for e in evs)


def chars(seq):
    return "".join(seq)


def prog_from_beh(b):
    """BEH record of Gen_TestRun -> program dict with plain strings."""
    tests = []
    for r, s in zip(b["reg"], b["script"]):
        tests.append({"g": chars(r["g"]), "n": chars(r["n"]), "ign": r["ign"], "after": [(o["op"], o["name"]) for o in r.get("after", [])],
                      "ph": [(s[p]["sets"], s[p]["ev"]) for p in ("setup", "body", "teardown")]})
    c = b["cfg"]
    return {"repeat": c["repeat"], "reverse": c["reverse"], "shuffle": c["shuffle"], "runIgnored": c["runIgnored"],
            "gf": [(chars(f["pat"]), f["strict"], f["invert"]) for f in c["gf"]],
            "nf": [(chars(f["pat"]), f["strict"], f["invert"]) for f in c["nf"]],
            "plugins": [(p["name"], p["enabled"], p["err"]) for p in c["plugins"]],
            "draws": b.get("draws"), "seed": 7, "tests": tests, "list": c.get("list", "none")}


def prog_lines(p):
    """program dict -> script lines for harness/testrun.cpp"""
    b = lambda x: "1" if x else "0"
    draws = "-" if p.get("draws") is None else (",".join(str(d) for d in p["draws"]) + ",")
    lines = [["cfg", p["repeat"], b(p["reverse"]), (p.get("seed", 7) if p["shuffle"] else "-"), b(p["runIgnored"]), draws, ("apiE" if p.get("early") else "api") if p.get("api") else "cmd", p.get("list", "none"),
              "nest" if p.get("nest") else "-"]]
    for f in p["gf"]:
        lines.append(["gf", f[0], b(f[1]), b(f[2])])
    for f in p["nf"]:
        lines.append(["nf", f[0], b(f[1]), b(f[2])])
    for pl in p["plugins"]:
        lines.append(["plugin", pl[0], b(pl[1]), b(pl[2])])
    for t in p["tests"]:
        row = ["test", t["g"], t["n"], b(t["ign"])]
        for sets, ev in t["ph"]:
            row.append(",".join("%d:%d" % ((s["loc"], s["val"]) if isinstance(s, dict) else tuple(s)) for s in sets) or "-")
            row.append(ev if isinstance(ev, str) else "/".join(ev))
        row.append(",".join("%s:%s" % (o, n) for o, n in t.get("after", [])) or "-")
        lines.append(row)
    lines.append(["run"])
    return lines


def unique_names(p):
    seen = set()
    for t in p["tests"]:
        if (t["g"], t["n"]) in seen:
            return False
        seen.add((t["g"], t["n"]))
    return True


def trace_cfgs(ctx, tag, cap, maxset, exc=True, strict=False):
    base = {"cap": cap, "exc": "TRUE" if exc else "FALSE", "maxset": maxset, "locs": ", ".join(str(i) for i in range(1, NLOC + 1)),
            "strict": "TRUE" if strict else "FALSE"}
    t = ctx.write_cfg("Trace_TestRun_" + tag, TRACE % dict(base, spec="TSpec", tail="INVARIANT TInv\nCONSTRAINT Track\nPOSTCONDITION Accepted"))
    p = ctx.write_cfg("Predict_TestRun_" + tag, TRACE % dict(base, spec="PSpec", tail="INVARIANT Predict"))
    return t, p


def probe_constants(ctx, exe):
    """Constants the model depends on, read from the code under test: setjmp stack capacity (H1), MAX_SET."""
    sp = os.path.join(ctx.work, "probe.tsv"); lp = os.path.join(ctx.work, "probe.ndjson")
    with open(sp, "w") as f:
        f.write("cfg\t1\t0\t-\t0\t-\nrun\n")
    rc, out, to = ctx.run([exe, sp, lp], timeout=60)
    try:
        first = json.loads(open(lp).readline())
        return int(first["cap"]), int(first["maxset"])
    except Exception as e:
        raise Infra("cannot read constants from the harness: rc=%s %s %s" % (rc, out[-500:], e))


def key_fn(kind, ex, idx, observed):
    if kind == "crash":
        return "crash"
    op = (observed or {}).get("op", "?")
    extra = ""
    if op == "fail":
        extra = ":" + str(observed.get("kind"))
    return "reject:%s%s" % (op, extra)


def run_programs(ctx, exe, label, progs, tcfg, pcfg, timeout=600, tlc_timeout=1200, heap="6g"):
    execs = [prog_lines(p) for p in progs]
    n = conform(ctx, label, execs, lambda s, l: ctx.run([exe, s, l], timeout=timeout), "Trace_TestRun", tcfg, pcfg, key_fn,
                end_op="ret", tlc_timeout=tlc_timeout, heap=heap, meta={"label": label})
    ctx.evaluations += sum(len(p["tests"]) * p["repeat"] for p in progs)
    return n


def replay(ctx, exe, cap, maxset, exc=True, strict=False):
    rp = json.load(open(ctx.replay))
    ex = [l.split("\t") for l in rp["script"]]
    tcfg, pcfg = trace_cfgs(ctx, "replay", cap, maxset, exc, strict)
    conform(ctx, "replay", [ex], lambda s, l: ctx.run([exe, s, l], timeout=120), "Trace_TestRun", tcfg, pcfg, key_fn, end_op="ret")
    return ctx.finish("replay of one recorded program", 2)


def order_leg(ctx, nontrivial=None):
    """C12 (documented meaning of -b and -r): without shuffling every repetition runs the registry in the same order, reversed iff -b.
    Programs of 2-6 passing tests x reverse x repeat 1..4 (x run-ignored) through the real command line; Trace_TestRun with OrderStrict."""
    exe = ctx.build_harness("testrun", "asan", out="testrun_order")
    cap, maxset = probe_constants(ctx, exe)
    ok3 = [([], "ok"), ([], "ok"), ([], "ok")]
    progs = []
    for n in ((2, 3, 5) if ctx.quick else (1, 2, 3, 4, 5, 6, 9)):
        for rev in (False, True):
            for rep in ((1, 2, 3) if ctx.quick else (1, 2, 3, 4, 5)):
                for ri in (False, True):
                    tests = [{"g": "G%d" % (i // 2), "n": "t%d" % i, "ign": (i % 3 == 1), "ph": ok3} for i in range(n)]
                    progs.append({"repeat": rep, "reverse": rev, "shuffle": False, "runIgnored": ri, "gf": [], "nf": [], "plugins": [], "draws": None,
                                  "seed": 7, "tests": tests})
    tcfg, pcfg = trace_cfgs(ctx, "order", cap, maxset, True, strict=True)
    run_programs(ctx, exe, "order-b-r", progs, tcfg, pcfg)
    # the list modes: what -lg / -ln / -ll print (TLC-generated registries x filters x mode, plus a few larger ones)
    gcfg = ctx.write_cfg("Gen_TestRun_list", MC % {"spec": "GSpec", "cap": cap, "exc": "TRUE", "maxset": 2, "locs": "1, 2", "mode": "list",
                         "maxtests": 2 if ctx.quick else 3, "evs": '"ok"', "invs": "Dump"})
    g = ctx.tlc("Gen_TestRun", gcfg, workers=8, timeout=1800, heap="8g")
    lprogs = [prog_from_beh(b) for b in g.beh]
    for n in (5, 9):
        for lm in ("lg", "ln", "ll"):
            tests = [{"g": ["A", "AB", "B", "A"][i % 4], "n": "t%d" % (i % 4), "ign": (i % 3 == 1), "ph": ok3} for i in range(n)]
            lprogs.append({"repeat": 1, "reverse": n == 9, "shuffle": False, "runIgnored": False, "gf": [("A", False, False)] if n == 5 else [], "nf": [],
                           "plugins": [], "draws": None, "seed": 7, "tests": tests, "list": lm})
    run_programs(ctx, exe, "list-modes", lprogs, tcfg, pcfg)
    progs = progs + lprogs
    if nontrivial is not None:
        for p in progs:
            if p["reverse"] and p["repeat"] > 1:
                nontrivial.add(json.dumps(p, sort_keys=True))
    return len(progs)
