"""X02 (extra, not a listed property) - TEST_ORDERED registration keeps an ordered block sorted by level (OrderedReg.tla)."""
import json
from vlib.conform import conform
from vlib.core import Infra

CFG = "SPECIFICATION %s\nCONSTANTS\n  Names = {%s}\n  Levels = {%s}\n%s\nCHECK_DEADLOCK FALSE\n"


def key_fn(kind, ex, idx, observed):
    return "%s:%s" % (kind, ex[idx][0] if idx < len(ex) else "?")


def run(ctx):
    exe = ctx.build_harness("orderedreg", "asan")
    n4 = ", ".join('"t%d"' % i for i in range(1, 5)); n5 = ", ".join('"t%d"' % i for i in range(1, 6)); n12 = ", ".join('"t%d"' % i for i in range(1, 13))
    r = ctx.model_check("OrderedReg", ctx.write_cfg("MC_OrderedReg", CFG % ("Spec", n4 if ctx.quick else n5, "0, 1, 2", "INVARIANTS BlockAtEnd SortedByLevel NothingLost")),
                        workers=8, timeout=1200)
    ctx.notes["model"] = {"distinct_states": r.distinct}
    tcfg = ctx.write_cfg("Trace_OrderedReg", CFG % ("TSpec", '"t1"', "0", "INVARIANT TInv\nPOSTCONDITION Accepted"))
    pcfg = ctx.write_cfg("Predict_OrderedReg", CFG % ("PSpec", '"t1"', "0", "INVARIANT Predict"))
    execs = []
    g = ctx.tlc("Gen_OrderedReg", ctx.write_cfg("Gen_OrderedReg_bfs", CFG % ("GSpec", '"t1", "t2", "t3", "t4"', "1, 2", "  D = 4\nINVARIANT Dump")), workers=8, timeout=900)
    execs += [[[s["op"], s["name"], s["level"]] for s in h] for h in g.beh]
    g = ctx.tlc("Gen_OrderedReg", ctx.write_cfg("Gen_OrderedReg_sim", CFG % ("GSpec", n12, "0, 1, 2, 3, 7", "  D = 12\nINVARIANT Dump")), workers=8,
                simulate=40 if ctx.quick else 600, depth=16, timeout=900)
    execs += [[[s["op"], s["name"], s["level"]] for s in h] for h in g.beh]
    if not execs:
        raise Infra("no behaviours")
    ctx.sample({"source": "TLC Gen_OrderedReg", "execution": [" ".join(map(str, l)) for l in execs[-1]]})
    conform(ctx, "orderedreg", execs, lambda s, l: ctx.run([exe, s, l], timeout=300), "Trace_OrderedReg", tcfg, pcfg, key_fn)
    ctx.evaluations += sum(len(e) for e in execs)
    nt = len({json.dumps(e) for e in execs if sum(1 for l in e if l[0] == "ordered") >= 2 and any(l[0] == "normal" for l in e)})
    return ctx.finish(rule="TLC-generated installation sequences of ordinary and ordered tests (exhaustive for 4 tests x 2 levels, simulation for 12 tests x 5 levels) run "
                           "through the real installers on a private registry; non-trivial = at least two ordered tests and one ordinary test", distinct_nontrivial=nt,
                      assumptions=["extra coverage, not one of the listed properties"])
